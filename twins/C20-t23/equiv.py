#!/usr/bin/env python
"""Equivalence script for property C20 (solve / is_satisfiable and SAT solvers).

Run as:  cd <checkout> && /venv/bin/python equiv.py
Prints one SHA256 digest of everything observable: verdicts, assignments,
exceptions with messages, stderr text, left-over temporary files.

Fake solvers (small python scripts written into a private directory that
becomes the whole PATH) speak the three I/O conventions.
"""
import contextlib
import hashlib
import io
import os
import random
import re
import shutil
import stat
import sys
import tempfile

sys.path.insert(0, os.getcwd())

import warnings
warnings.simplefilter('ignore')

import cnfgen
from cnfgen import CNF
from cnfgen.utils import solver as solvermod
from cnfgen.formula.cnfio import CNFio
from cnfgen.formula.basecnf import BaseCNF

FAKE = r'''#!/venv/bin/python -SE
import sys, os, itertools
args = sys.argv[1:]
if '--help' in args:
    sys.exit(0)
files = []
for a in reversed(args):
    if os.path.isfile(a):
        files.insert(0, a)
    else:
        break
conv = os.environ.get('FAKE_CONV')
if conv is None:
    conv = {0: 'stdin', 1: 'filein', 2: 'fileout'}[min(len(files), 2)]
if conv == 'stdin':
    text = sys.stdin.read()
    outfile = None
elif conv == 'filein':
    text = open(files[-1]).read()
    outfile = None
else:
    text = open(files[-2]).read()
    outfile = files[-1]
mode = os.environ.get('FAKE_MODE', 'real')
code = int(os.environ.get('FAKE_EXIT', '0'))
if mode == 'canned':
    sys.stdout.buffer.write(os.environ.get('FAKE_STDOUT', '').encode('latin-1'))
    if outfile is not None and 'FAKE_FILE' in os.environ:
        with open(outfile, 'wb') as f:
            f.write(os.environ['FAKE_FILE'].encode('latin-1'))
    sys.exit(code)
if mode == 'delete':
    os.unlink(outfile)
    sys.exit(code)
if mode == 'echo':
    # report what was received
    sys.stdout.write('c args ' + ' '.join(a for a in args if a not in files) + '\n')
    for l in text.splitlines():
        sys.stdout.write('c got ' + l + '\n')
# real: brute force
n = 0
clauses = []
for line in text.splitlines():
    line = line.strip()
    if not line or line[0] == 'c':
        continue
    if line[0] == 'p':
        n = int(line.split()[2])
        continue
    lits = [int(x) for x in line.split()]
    assert lits[-1] == 0
    clauses.append(lits[:-1])
model = None
for bits in itertools.product([False, True], repeat=n):
    if all(any((l > 0) == bits[abs(l) - 1] for l in c) for c in clauses):
        model = [(i + 1) if b else -(i + 1) for i, b in enumerate(bits)]
        break
order = os.environ.get('FAKE_ORDER', 'asc')
if model is not None:
    if order == 'rev':
        model.reverse()
    elif order == 'oddeven':
        model = model[1::2] + model[0::2]
chunk = int(os.environ.get('FAKE_CHUNK', '4'))
if conv == 'fileout':
    sys.stdout.write('this is minisat-like chatter\n')
    with open(outfile, 'w') as f:
        if model is None:
            f.write('UNSAT\n')
        else:
            f.write('SAT\n' + ' '.join(str(l) for l in model) + ' 0\n')
else:
    sys.stdout.write('c fake solver\n')
    if model is None:
        sys.stdout.write('c proof done\n\ns UNSATISFIABLE\nc bye\n')
    else:
        sys.stdout.write('s SATISFIABLE\n')
        toks = [str(l) for l in model] + ['0']
        if chunk <= 0:
            sys.stdout.write('v ' + ' '.join(toks) + '\n')
        else:
            for i in range(0, len(toks), chunk):
                sys.stdout.write('v ' + ' '.join(toks[i:i + chunk]) + '\n')
                sys.stdout.write('c interleaved comment %d\n' % i)
                if i % 2 == 0:
                    sys.stdout.write('\n')
        sys.stdout.write('c done\n')
sys.exit(code)
'''

LOG = []


def log(*items):
    LOG.append(repr(items))


ROOT = tempfile.mkdtemp(prefix='c20equiv')
TMP = os.path.join(ROOT, 'tmp')
os.mkdir(TMP)
tempfile.tempdir = TMP
ORIG_ENV = dict(os.environ)
FAKE_KEYS = ['FAKE_CONV', 'FAKE_MODE', 'FAKE_EXIT', 'FAKE_STDOUT',
             'FAKE_FILE', 'FAKE_ORDER', 'FAKE_CHUNK']

FAKEPY = os.path.join(ROOT, 'fakesolver.py')
with open(FAKEPY, 'w') as _f:
    _f.write(FAKE)
# answering --help from the shell keeps the script fast
WRAPPER = '''#!/bin/sh
case " $* " in *" --help "*) exit 0;; esac
exec /venv/bin/python -SE %s "$@"
''' % FAKEPY

_bin_counter = [0]


def make_bin(names):
    """A directory with fake solvers of the given names; returns its path."""
    _bin_counter[0] += 1
    d = os.path.join(ROOT, 'bin%d' % _bin_counter[0])
    os.mkdir(d)
    for nm in names:
        p = os.path.join(d, nm)
        with open(p, 'w') as f:
            f.write(WRAPPER)
        os.chmod(p, stat.S_IRWXU)
    return d


def normalise(text):
    text = re.sub(re.escape(TMP) + r'/tmp[A-Za-z0-9_]+', '<TMPFILE>', text)
    text = text.replace(ROOT, '<ROOT>')
    return text


def satisfies(F, assignment):
    if assignment is None:
        return None
    val = {}
    for l in assignment:
        val[abs(l)] = l > 0
    try:
        return all(any(val[abs(l)] == (l > 0) for l in c) for c in F.clauses())
    except KeyError:
        return 'partial'


def run(tag, F, call, path, **fake):
    """Run call(F) with PATH=path and FAKE_* settings; log everything."""
    for k in FAKE_KEYS:
        os.environ.pop(k, None)
    for k, v in fake.items():
        os.environ['FAKE_' + k.upper()] = str(v)
    os.environ['PATH'] = path
    err = io.StringIO()
    out = io.StringIO()
    old_err, old_out = sys.stderr, sys.stdout
    sys.stderr, sys.stdout = err, out
    try:
        try:
            res = call(F)
            outcome = ('ok', repr(res))
            if isinstance(res, tuple) and len(res) == 2:
                ass = res[1]
                outcome += (satisfies(F, ass),
                            ass == sorted(ass, key=abs) if ass is not None else None,
                            type(ass).__name__)
        except BaseException as e:  # noqa
            outcome = ('exc', type(e).__name__, normalise(str(e)))
    finally:
        sys.stderr, sys.stdout = old_err, old_out
    leftovers = sorted(os.listdir(TMP))
    log(tag, outcome, normalise(err.getvalue()), normalise(out.getvalue()),
        len(leftovers))
    for fn in leftovers:
        os.unlink(os.path.join(TMP, fn))


# ---------------------------------------------------------------- formulas
def formulas():
    fs = []
    fs.append(('empty', CNF()))
    fs.append(('emptyclause', CNF([[]])))
    fs.append(('emptyclause+', CNF([[1, 2, -3], []])))
    F = CNF()
    F.update_variable_number(5)
    fs.append(('novars-clauses', F))
    F = CNF([[1, -5]])
    F.update_variable_number(8)
    fs.append(('unused', F))
    fs.append(('unit', CNF([[1]])))
    fs.append(('negunit', CNF([[-1]])))
    fs.append(('contradiction', CNF([[1], [-1]])))
    fs.append(('small', CNF([[1, 2, -3], [-2, 4], [-1], [3, -4]])))
    fs.append(('php32', cnfgen.PigeonholePrinciple(3, 2)))
    fs.append(('php23', cnfgen.PigeonholePrinciple(2, 3)))
    fs.append(('op3', cnfgen.OrderingPrinciple(3)))
    fs.append(('parity', cnfgen.TseitinFormula(cnfgen.Graph.from_networkx(
        __import__('networkx').cycle_graph(4)))))
    random.seed(2020)
    for i in range(4):
        fs.append(('rand%d' % i, cnfgen.RandomKCNF(3, 7, 20 + 6 * i, seed=100 + i)))
    fs.append(('cnfio', CNFio([[1, 2], [-1, -2], [1, -2]])))
    return fs


FORMULAS = formulas()
SUPPORTED = cnfgen.supported_satsolvers()
log('supported', SUPPORTED)
log('interfaces', sorted((k, v.__name__) for k, v in solvermod._SATSOLVER_INTERFACE.items()))

ALLBIN = make_bin(SUPPORTED + ['mysolver', 'other-solver'])
EMPTYBIN = make_bin([])

# 1. every supported solver name, every formula, solve and is_satisfiable
for name in SUPPORTED:
    full = name in ('cadical', 'glucose', 'march', 'sat4j', 'minisat')
    for ftag, F in (FORMULAS if full else FORMULAS[1::3]):
        run(('solve', name, ftag), F, lambda G, n=name: G.solve(cmd=n), ALLBIN)
    for ftag, F in FORMULAS[::4]:
        run(('is_sat', name, ftag), F,
            lambda G, n=name: G.is_satisfiable(cmd=n), ALLBIN)

# 2. orders, chunking and verbosity, on one solver for each convention
for name in ['lingeling', 'sat4j', 'minisat']:
    for ftag, F in FORMULAS[4:14:2]:
        for order in ['rev', 'oddeven']:
            for chunk in [0, 3]:
                run(('shape', name, ftag, order, chunk), F,
                    lambda G, n=name: G.solve(cmd=n), ALLBIN,
                    order=order, chunk=chunk)
        for verbose in [-1, 0, 1, 2, 3]:
            run(('verbose', name, ftag, verbose), F,
                lambda G, n=name, v=verbose: G.solve(cmd=n + ' -opt --flag=3', verbose=v),
                ALLBIN, mode='echo')
            run(('verbose-fn', name, ftag, verbose), F,
                lambda G, n=name, v=verbose: solvermod.sat_solve(G, n, None, v),
                ALLBIN)

# 3. sameas: unsupported command names with a borrowed interface
for cmd in ['mysolver', 'other-solver -x 1', 'lingeling', 'minisat -no-pre', '  mysolver  ']:
    for sameas in [None, 'minisat', 'lingeling', 'sat4j', 'march', 'glucose',
                   'zchaff', '', 'Minisat', 'mysolver']:
        for ftag, F in FORMULAS[7:9]:
            run(('sameas', cmd, sameas, ftag), F,
                lambda G, c=cmd, s=sameas: G.solve(cmd=c, sameas=s), ALLBIN)
            run(('sameas-is', cmd, sameas, ftag), F,
                lambda G, c=cmd, s=sameas: G.is_satisfiable(cmd=c, sameas=s), ALLBIN)

# 4. canned outputs, DIMACS conventions
CANNED_STDOUT = [
    '',
    '\n\n',
    'c nothing\n',
    's SATISFIABLE\n',
    's SATISFIABLE\nv 0\n',
    's SATISFIABLE\nv 1 -2\nv 3 0\n',
    's SATISFIABLE\nv -3 2\nc x\nv -1 0\n',
    'v 1 2 3 0\ns SATISFIABLE\n',
    'v 1 2 3 0\ns UNSATISFIABLE\n',
    's UNSATISFIABLE\n',
    's UNSATISFIABLE\nv 1 2 0\n',
    's UNKNOWN\n',
    's\n',
    's SATISFIABLE extra\n',
    's  SATISFIABLE\n',
    'sSATISFIABLE\n',
    's SATISFIABLE\ns UNKNOWN\n',
    's UNKNOWN\ns UNSATISFIABLE\n',
    's SATISFIABLE\ns UNSATISFIABLE\nv 1 0\n',
    's satisfiable\n',
    ' s SATISFIABLE\n',
    's SATISFIABLE\nv 1 x 0\n',
    's SATISFIABLE\nv1 2 0\n',
    's SATISFIABLE\nvv 1 2 0\n',
    's SATISFIABLE\nv v 1 2 0 0 v\n',
    's SATISFIABLE\n v 1 2 0\n',
    's SATISFIABLE\r\nv 1 -2 3 0\r\n',
    's SATISFIABLE\nv 3 -3 1 -1 2 0\n',
    's SATISFIABLE\nv -1 -2 -3',
    'c comment\ns UNSATISFIABLE',
    'solution\n',
    'variable\n',
    's SATISFIABLE\nv 1 \xe9 0\n',
    'c \xff\ns SATISFIABLE\n',
]
F3 = CNF([[1, 2, 3], [-1, -2], [-3, 2]])
for i, text in enumerate(CANNED_STDOUT):
    for name in ['cadical', 'march']:
        for code in [0, 10]:
            run(('canned', name, i, code), F3,
                lambda G, n=name: G.solve(cmd=n, verbose=2), ALLBIN,
                mode='canned', stdout=text, exit=code)
    run(('canned-is', i), F3, lambda G: G.is_satisfiable(cmd='kissat'), ALLBIN,
        mode='canned', stdout=text)
    run(('canned-direct-stdin', i), F3,
        lambda G: solvermod._satsolve_stdin_stdout(G, 'mysolver -q', verbose=1), ALLBIN,
        mode='canned', stdout=text, conv='stdin')
    run(('canned-direct-filein', i), F3,
        lambda G: solvermod._satsolve_filein_stdout(G, 'mysolver -q', verbose=1), ALLBIN,
        mode='canned', stdout=text, conv='filein')

# 5. canned outputs, minisat convention
CANNED_FILE = [
    None,
    '',
    '\n',
    'SAT\n',
    'SAT\n0\n',
    'SAT\n1 -2 3 0\n',
    'SAT 3 -2 1 0',
    'SAT\n-3\n2\n-1\n0\n',
    'SAT\n1 0 2 0 3\n',
    'UNSAT\n',
    'UNSAT\n1 2 3 0\n',
    'UNSAT x y z',
    'INDET\n',
    'sat\n1 2 3 0\n',
    'SATISFIABLE\n',
    'UNSATISFIABLE\n',
    's SATISFIABLE\nv 1 2 3 0\n',
    'SAT\n1 x 3 0\n',
    'SAT\n1 2.5 0\n',
    '0\n',
    'SAT\n\xe9 0\n',
]
for i, text in enumerate(CANNED_FILE):
    for code in [0, 20]:
        for verbose in [0, 2]:
            kw = dict(mode='canned', stdout='chatter %d\n' % i, exit=code)
            if text is not None:
                kw['file'] = text
            run(('cfile', i, code, verbose), F3,
                lambda G, v=verbose: G.solve(cmd='minisat', verbose=v), ALLBIN, **kw)
    kw = dict(mode='canned', stdout='')
    if text is not None:
        kw['file'] = text
    run(('cfile-is', i), F3, lambda G: G.is_satisfiable(cmd='minisat -x'), ALLBIN, **kw)
    run(('cfile-sameas', i), F3,
        lambda G: G.solve(cmd='mysolver -a -b', sameas='minisat', verbose=1), ALLBIN, **kw)
    run(('cfile-direct', i), F3,
        lambda G: solvermod._satsolve_filein_fileout(G, 'mysolver', 1), ALLBIN, **kw)
run(('cfile-nonascii-stdout',), F3, lambda G: G.solve(cmd='minisat'), ALLBIN,
    mode='canned', stdout='\xff', file='SAT\n1 0\n')
run(('cfile-delete',), F3, lambda G: G.solve(cmd='minisat'), ALLBIN, mode='delete')

# 6. sets of installed solvers, default command
SETS = [[], ['minisat'], ['sat4j'], ['march', 'minisat'], ['glucose'],
        ['kissat', 'minisat'], ['sat4j', 'picosat'], ['mysolver'],
        ['cryptominisat', 'glucose', 'sat4j'], list(reversed(SUPPORTED)),
        ['plingeling'], ['precosat', 'march']]
for s in SETS:
    d = make_bin(s)
    for ftag, F in FORMULAS[:12:3]:
        for cmd in [None, '', '   ']:
            run(('sets', tuple(s), ftag, cmd), F,
                lambda G, c=cmd: G.solve(cmd=c, verbose=1), d, mode='echo')
        run(('sets-sameas', tuple(s), ftag), F,
            lambda G: G.solve(sameas='minisat', verbose=1), d, mode='echo')
        run(('sets-bad-sameas', tuple(s), ftag), F,
            lambda G: G.solve(sameas='nosuch'), d)
        run(('sets-is', tuple(s), ftag), F, lambda G: G.is_satisfiable(), d)
    for cmd in ['minisat', 'sat4j -x', 'lingeling', 'mysolver', 'unknown-solver']:
        for sameas in [None, 'minisat', 'cadical', 'bogus']:
            run(('sets-cmd', tuple(s), cmd, sameas), F3,
                lambda G, c=cmd, sa=sameas: G.solve(cmd=c, sameas=sa, verbose=1), d)
            if sameas in (None, 'bogus'):
                run(('sets-cmd-is', tuple(s), cmd, sameas), F3,
                    lambda G, c=cmd, sa=sameas: G.is_satisfiable(cmd=c, sameas=sa), d)
    os.environ['PATH'] = d
    log('installed', tuple(s), cnfgen.some_solver_installed(),
        [cnfgen.some_solver_installed(x) for x in SUPPORTED + ['mysolver']],
        cnfgen.some_solver_installed(['nosuch', 'sat4j']),
        cnfgen.some_solver_installed([]))

# 7. argument errors
os.environ['PATH'] = ALLBIN
for bad in [None, 3, 'p cnf 1 1\n1 0\n', [[1, 2]], object()]:
    try:
        log('badF', repr(type(bad)), solvermod.sat_solve(bad))
    except Exception as e:
        log('badF', repr(type(bad)), type(e).__name__, str(e))
for bad in [3, [1, 2], ['a', 3], ('minisat',), ['minisat', 'x']]:
    try:
        log('badsolvers', repr(bad), cnfgen.some_solver_installed(bad))
    except Exception as e:
        log('badsolvers', repr(bad), type(e).__name__, str(e))
B = BaseCNF([[1, -2]])
run(('basecnf-minisat',), B, lambda G: solvermod.sat_solve(G, 'minisat'), ALLBIN)
run(('basecnf-sat4j',), B, lambda G: solvermod.sat_solve(G, 'sat4j'), ALLBIN)
run(('basecnf-solve-attr',), B, lambda G: G.solve(), ALLBIN)
log('methods', CNF.solve.__qualname__, CNF.is_satisfiable.__qualname__,
    CNF.solve.__doc__ == CNFio.solve.__doc__, len(CNFio.solve.__doc__),
    len(CNFio.is_satisfiable.__doc__), len(solvermod.sat_solve.__doc__))
run(('positional',), F3, lambda G: G.solve('mysolver', 'sat4j', 1), ALLBIN)
run(('positional-is',), F3, lambda G: G.is_satisfiable('mysolver', 'sat4j'), ALLBIN)
run(('emptybin',), F3, lambda G: G.solve(cmd='minisat'), EMPTYBIN)
run(('emptybin-none',), F3, lambda G: G.solve(), EMPTYBIN)

os.environ.clear()
os.environ.update(ORIG_ENV)
shutil.rmtree(ROOT, ignore_errors=True)

h = hashlib.sha256()
for entry in LOG:
    h.update(entry.encode('utf-8', errors='replace'))
    h.update(b'\n')
if os.environ.get('C20_DUMP'):
    with open(os.environ['C20_DUMP'], 'w') as f:
        f.write('\n'.join(LOG))
print(h.hexdigest())
