"""Equivalence check for cnfgen.formula.baseopb.normalize_opb (C12).

normalize_opb turns any user constraint (any sign of coefficients, any of
the operators <, <=, >, >=, ==) into the in-memory form that the OPB and
LaTeX writers render.  It is exercised directly, including malformed inputs,
and through OPB formulas written in OPB and LaTeX form.
"""
import copy
import hashlib
import io
import os
import random
import sys
from fractions import Fraction
from decimal import Decimal

sys.path.insert(0, os.getcwd())

from cnfgen.formula.baseopb import normalize_opb, BaseOPB
from cnfgen.formula.opb import OPB

OUT = []


def rec(*items):
    OUT.append(repr(items))


def attempt(tag, fn):
    try:
        rec(tag, 'ok', fn())
    except BaseException as e:  # noqa
        rec(tag, 'exc', type(e).__name__, str(e))


OPS = ['>=', '<=', '>', '<', '==']
ODD_OPS = ['=', '!=', '=>', '', None, 0, '>= ', 'geq']


def direct_one(tag, constraint):
    before = copy.deepcopy(constraint)

    def run():
        result = normalize_opb(constraint)
        return (result, type(result).__name__,
                [type(x).__name__ for x in result],
                [(type(x[0]).__name__, type(x[1]).__name__)
                 for x in result[:-2]])
    attempt((tag, repr(before)), run)
    # the argument must be left as it was
    rec((tag, 'after'), repr(constraint), repr(constraint) == repr(before))


def direct():
    rnd = random.Random(20221203)
    # boundary shapes
    for op in OPS + ODD_OPS:
        for value in [0, 1, -1, 5, -7, 10**20]:
            direct_one('empty', [op, value])
            direct_one('one-pos', [(1, 1), op, value])
            direct_one('one-neg', [(-1, 1), op, value])
            direct_one('one-zero', [(0, 1), op, value])
            direct_one('neg-lit', [(-3, -2), op, value])
            direct_one('mixed', [(2, 1), (-3, 2), (0, -3), (-1, -4), (5, 5), op, value])
            direct_one('repeated', [(-2, 1), (-2, 1), (2, -1), (-2, -1), op, value])
            direct_one('allneg', [(-1, 1), (-2, 2), (-3, 3), op, value])
            direct_one('big', [(-10**30, 1), (10**30, -2), op, value])
    # random constraints
    for trial in range(400):
        size = rnd.choice([0, 1, 2, 3, 5, 8, 13])
        terms = [(rnd.randint(-6, 6), rnd.choice([-1, 1]) * rnd.randint(1, 9))
                 for _ in range(size)]
        op = rnd.choice(OPS)
        value = rnd.randint(-10, 10)
        direct_one(('random', trial), terms + [op, value])
    # other containers and element types
    direct_one('tuple-pos', ((1, 1), (2, -2), '>=', 1))
    direct_one('tuple-neg', ((1, 1), (-2, -2), '>=', 1))
    direct_one('tuple-le', ((1, 1), (2, -2), '<=', 1))
    direct_one('tuple-lt-empty', ('<', 1))
    direct_one('lists-as-terms', [[1, 1], [-2, 2], '<', 3])
    direct_one('terms-mixed-containers', [(1, 1), [-2, 2], '>', 3])
    direct_one('float', [(1.5, 1), (-2.5, 2), '>=', 0.5])
    direct_one('float-neg-zero', [(-0.0, 1), (0.0, 2), '<=', -0.0])
    direct_one('nan', [(float('nan'), 1), (-float('inf'), 2), '>=', 1])
    direct_one('fraction', [(Fraction(-1, 2), 1), (Fraction(3, 4), -2), '<', Fraction(1, 3)])
    direct_one('decimal', [(Decimal('-1.5'), 1), '>', Decimal('2')])
    direct_one('bool', [(True, 1), (False, 2), '>=', True])
    direct_one('bool-lit', [(-1, True), (-2, False), '>=', 1])
    direct_one('complex', [(1j, 1), '>=', 1])
    direct_one('str-coeff', [('a', 1), '>=', 1])
    direct_one('str-coeff-le', [('a', 1), '<=', 1])
    direct_one('none-coeff', [(None, 1), '>=', 1])
    direct_one('str-lit-pos', [(2, 'v'), '>=', 1])
    direct_one('str-lit-neg', [(-2, 'v'), '>=', 1])
    direct_one('none-lit-neg', [(-2, None), (-1, 3), '>=', 1])
    direct_one('str-value-pos', [(2, 1), '>=', 'one'])
    direct_one('str-value-neg', [(-2, 1), '>=', 'one'])
    direct_one('str-value-both-bad', [(-2, 'v'), '>=', 'one'])
    direct_one('str-value-lt', [(2, 1), '<', 'one'])
    direct_one('str-value-le', [(2, 1), '<=', 'one'])
    direct_one('none-value', [(-2, 1), '==', None])
    direct_one('triple', [(1, 2, 3), '>=', 1])
    direct_one('triple-later', [(-1, 2), (1, 2, 3), (-4, 5), '>=', 1])
    direct_one('single', [(1,), '>=', 1])
    direct_one('int-term', [-1, '>=', 1])
    direct_one('int-term-later', [(-1, 1), 7, '>=', 1])
    direct_one('str-term', ['ab', '>=', 1])
    direct_one('str-term-neg', ['\x00b', '>=', 1])
    direct_one('short0', [])
    direct_one('short1', [3])
    direct_one('short1op', ['>='])
    direct_one('swapped', [(1, 1), 3, '>='])
    direct_one('string', 'x>=1')
    direct_one('string2', '<1')
    direct_one('none', None)
    direct_one('int', 5)
    direct_one('dict', {-1: 4, -2: '>='})
    direct_one('generator-like', range(5))
    direct_one('nested-op', [(-1, 1), ['>='], 1])
    # already normalised output fed again
    for trial in range(50):
        terms = [(rnd.randint(-4, 4), rnd.choice([-1, 1]) * rnd.randint(1, 6))
                 for _ in range(rnd.randint(0, 6))]
        c = terms + [rnd.choice(OPS), rnd.randint(-5, 5)]
        once = normalize_opb(c)
        twice = normalize_opb(once)
        rec(('idempotent', trial), once, twice, once == twice, once is twice)


def renderings(tag, F):
    attempt((tag, 'str'), lambda: str(F))
    attempt((tag, 'nvars'), F.number_of_variables)
    attempt((tag, 'len'), lambda: len(F))
    attempt((tag, 'list'), lambda: list(F))
    attempt((tag, 'items'), lambda: [F[i] for i in range(len(F))])
    attempt((tag, 'view'), lambda: list(F.constraints()))
    attempt((tag, 'debug'), lambda: (F.debug(), F.debug(allow_opposite=True),
                                     F.debug(allow_repetition=True)))
    if hasattr(F, 'to_opb'):
        attempt((tag, 'opb'), F.to_opb)
        attempt((tag, 'latex'), F.to_latex)
        for ff in ['opb', 'latex']:
            for hd in [True, False]:
                for vn in [True, False]:
                    def dump():
                        buf = io.StringIO()
                        F.to_file(buf, fileformat=ff, export_header=hd,
                                  export_varnames=vn)
                        return buf.getvalue()
                    attempt((tag, 'file', ff, hd, vn), dump)


def formulas():
    rnd = random.Random(77)
    for cls in [BaseOPB, OPB]:
        name = cls.__name__
        # every operator, every sign pattern
        F = cls(description='all operators')
        for op in OPS:
            for value in [-2, 0, 3]:
                F.add_constraint([(1, 1), (-2, 2), (3, -3), (-4, -4), op, value])
                F.add_constraint([op, value])
                F.add_constraint([(-1, 5), op, value])
        renderings((name, 'allops'), F)

        # through the constructor
        attempt((name, 'ctor'), lambda: renderings(
            (name, 'ctor-render'),
            cls([[(1, 1), (-1, 2), '<', 1], [(-5, 3), '==', -5], ['>', 0]])))

        # more than one LaTeX page (35 rows per page)
        F = cls(description='long_formula with_underscores')
        for i in range(75):
            size = rnd.randint(0, 5)
            terms = [(rnd.randint(-9, 9), rnd.choice([-1, 1]) * rnd.randint(1, 12))
                     for _ in range(size)]
            F.add_constraint(terms + [rnd.choice(OPS), rnd.randint(-6, 6)])
        renderings((name, 'long'), F)

        # exactly one page and one more
        for rows in [34, 35, 36, 70, 71]:
            F = cls()
            for i in range(rows):
                F.add_constraint([(-(i + 1), i + 1), (i, -(i + 2)), '<=', -i])
            renderings((name, 'rows', rows), F)

        # unchecked insertion
        F = cls()
        F.add_constraint([(-1, 9), (2, -8), '<', 0], check=False)
        F.add_constraints_from([[(-1, 1), '>', 1], [(1, -1), '<=', 0]], check=False)
        renderings((name, 'unchecked'), F)

        # helpers built on add_constraint
        F = cls()
        lits = [1, -2, 3, -4, 5]
        for v in [-1, 0, 2, 5, 6]:
            F.cardinality_geq(lits, v)
            F.cardinality_leq(lits, v)
            F.cardinality_eq(lits, v)
            F.cardinality_neq(lits, v)
        F.add_loose_majority(lits)
        F.add_loose_minority(lits)
        F.add_strict_majority(lits)
        F.add_strict_minority(lits)
        F.add_loose_majority([])
        F.add_strict_minority([])
        F.add_parity([1, -2, 3], 1)
        F.add_clause([1, -2])
        F.add_clause([])
        renderings((name, 'helpers'), F)

        # error paths: what is left in the formula afterwards
        bad = [
            [(1, 0), '>=', 1],
            [(-1, 0), '<=', 1],
            [('a', 1), '>=', 1],
            [(-1, 'v'), '>=', 1],
            [(1, 1), '!=', 1],
            [(1, 1), '=', 1],
            [(1, 2, 3), '>=', 1],
            [(-1, 1), '>=', 'one'],
            ((1, 1), (2, 2), '>=', 1),
            ((1, 1), (-2, 2), '>=', 1),
            [(1.5, 1), (-2.5, 2), '>=', 1],
            [(0, 1), (-0, 2), '>=', 0],
            [],
            [1],
            None,
        ]
        F = cls()
        for i, c in enumerate(bad):
            attempt((name, 'bad', i, repr(c)), lambda: F.add_constraint(c))
            attempt((name, 'bad-unchecked', i, repr(c)),
                    lambda: F.add_constraint(c, check=False))
            rec((name, 'bad-state', i), F.number_of_variables(), len(F),
                repr(list(F)))
        attempt((name, 'bad-opb'), lambda: F.to_opb() if hasattr(F, 'to_opb') else None)
        attempt((name, 'bad-latex'), lambda: F.to_latex() if hasattr(F, 'to_latex') else None)

    # OPB with named variables
    F = OPB(description='named')
    x = F.new_block(2, 2, label='x_{{{},{}}}')
    y = F.new_variable(label='Y')
    F.add_constraint([(-2, x(1, 1)), (3, -x(1, 2)), (-1, y), '<', 2])
    F.add_constraint([(4, x(2, 1)), (-4, -x(2, 2)), '==', 0])
    F.add_constraint([(-1, -y), '>', -1])
    renderings(('OPB', 'named'), F)


def main():
    direct()
    formulas()
    blob = "\n".join(OUT).encode('utf-8')
    if os.environ.get('EQUIV_DUMP'):
        with open(os.environ['EQUIV_DUMP'], 'wb') as fh:
            fh.write(blob)
    print(hashlib.sha256(blob).hexdigest())


if __name__ == '__main__':
    main()
