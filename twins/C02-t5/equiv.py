import sys, os, hashlib, random, itertools, warnings, io, contextlib, argparse
warnings.simplefilter("ignore")
sys.path.insert(0, os.getcwd())
import networkx as nx
from cnfgen.graphs import Graph

_H = hashlib.sha256()


def emit(*items):
    for it in items:
        _H.update(repr(it).encode("utf-8"))
        _H.update(b"\x00")


def dump(tag, fn, *args, **kwargs):
    """Call fn and record everything observable about the outcome."""
    emit("CALL", tag)
    try:
        F = fn(*args, **kwargs)
    except Exception as exc:  # record the exception type and message
        emit("EXC", type(exc).__name__, str(exc))
        return None
    emit("HEADER", sorted((str(k), str(v)) for k, v in F.header.items()))
    emit("NVARS", F.number_of_variables(), "NCLS", F.number_of_clauses())
    emit("LABELS", list(F.all_variable_labels()))
    emit("CLAUSES", [list(c) for c in F.clauses()])
    emit("DIMACS", F.to_dimacs())
    return F


def mkgraph(n, edges, name=None):
    G = Graph(n, name=name) if name is not None else Graph(n)
    for u, v in edges:
        G.add_edge(u, v)
    return G


def run_cli(cli, argv, seed=4242):
    random.seed(seed)
    out, err = io.StringIO(), io.StringIO()
    code = None
    try:
        with contextlib.redirect_stdout(out), contextlib.redirect_stderr(err):
            cli(argv)
    except SystemExit as exc:
        code = exc.code
    except Exception as exc:
        emit("CLI-EXC", type(exc).__name__, str(exc))
    emit("CLI", argv, code, out.getvalue(), err.getvalue(), random.random())


# ---- T5: TseitinCmdHelper.build_formula (command line helper) ----
from cnfgen.formula.cnf import CNF
from cnfgen.clihelpers.counting_helpers import TseitinCmdHelper
from cnfgen.clitools.cnfgen import cli as cnfgen_cli

NS = argparse.Namespace
build = TseitinCmdHelper.build_formula

# 1. direct calls with the shortcut form (N, d): random regular graph
for N in range(1, 11):
    for d in range(1, 7):
        random.seed(1000 * N + d)
        dump(("short", N, d), build, NS(N=N, d=d), CNF)
        emit("RND", random.random())

# 2. direct calls with an explicit graph and every charge specification
graphs = [Graph(0), Graph(1), mkgraph(2, [(1, 2)]), Graph(3),
          mkgraph(4, [(1, 2), (3, 4)]), mkgraph(4, [(1, 2), (2, 3), (3, 4), (1, 4)]),
          Graph.complete_graph(5), Graph.star_graph(4),
          mkgraph(7, [(1, 2), (2, 3), (1, 3), (4, 5), (6, 7)], name="three comps")]
specs = ['first', 'random', 'randomodd', 'randomeven', 'zero', 'one', 'bogus', '', None, 3]
for gi, G in enumerate(graphs):
    for spec in specs:
        for seed in (1, 2, 3):
            random.seed(seed)
            dump(("long", gi, spec, seed), build, NS(G=G, charge=spec), CNF)
            emit("RND", random.random())
    # graph given but no charge attribute at all
    random.seed(9)
    dump(("nocharge", gi), build, NS(G=G), CNF)
    # both forms present: the explicit graph wins
    random.seed(9)
    dump(("both", gi), build, NS(G=G, N=6, d=3, charge='randomodd'), CNF)
    emit("RND", random.random())

# networkx graph passed through the helper
random.seed(5)
dump("nx", build, NS(G=nx.cycle_graph(5), charge='randomeven'), CNF)
# malformed namespaces
dump("empty-ns", build, NS(), CNF)
dump("only-N", build, NS(N=4), CNF)
dump("N-str", build, NS(N="4", d=2), CNF)
dump("N-float", build, NS(N=6.0, d=3), CNF)

# 3. the real command line
cmds = [
    ["tseitin", "10", "4"], ["tseitin", "10"], ["tseitin", "6", "3"], ["tseitin", "5", "2"],
    ["tseitin", "4", "4"], ["tseitin", "3", "5"], ["tseitin", "5", "3"], ["tseitin", "7", "3"],
    ["tseitin", "1", "1"], ["tseitin", "2", "1"], ["tseitin", "0", "1"], ["tseitin", "-3"],
    ["tseitin"], ["tseitin", "first"], ["tseitin", "bogus", "grid", "2", "2"],
    ["tseitin", "first", "gnd", "6", "2"], ["tseitin", "random", "grid", "3", "3"],
    ["tseitin", "randomodd", "complete", "5"], ["tseitin", "randomeven", "torus", "3", "3"],
    ["tseitin", "zero", "grid", "2", "3"], ["tseitin", "one", "grid", "2", "3"],
    ["tseitin", "one", "complete", "1"], ["tseitin", "random", "empty", "4"],
    ["tseitin", "first", "gnp", "7", "0.5"], ["tseitin", "randomodd", "gnm", "6", "7"],
    ["tseitin", "first", "complete", "0"], ["tseitin", "a", "b", "c"],
]
for cmd in cmds:
    for pre in (["cnfgen", "-q"], ["cnfgen", "--seed", "17"], ["cnfgen", "-q", "-of", "latex"]):
        run_cli(cnfgen_cli, pre + cmd)

print(_H.hexdigest())
