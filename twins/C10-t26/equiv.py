import hashlib, io, os, random, sys, tempfile
sys.path.insert(0, '.')
import cnfgen
from cnfgen.formula.cnf import CNF
from cnfgen.utils.parsedimacs import parse_dimacs, from_dimacs_file, to_dimacs_file

out = []
def rec(*a):
    out.append(repr(a))

def drain(text):
    """consume the generator step by step, recording everything incl. the error"""
    g = parse_dimacs(io.StringIO(text))
    items = []
    try:
        for x in g:
            items.append(x)
        rec('parse', text, 'ok', items)
    except Exception as e:
        rec('parse', text, 'exc', items, type(e).__name__, str(e), type(e.__cause__).__name__, type(e.__context__).__name__)

texts = [
    "", "\n\n", "c only comments\nc more\n", "p cnf 0 0\n", "p cnf 3 0\n", "p cnf 0 1\n0\n",
    "p cnf 3 2\n1 -2 0\n3 0\n", "c hi\n\n  p cnf 3 2  \n 1 -2 0 \nc mid\n\n3 0\n",
    "p cnf 3 2\n1 -2\n 0 3\n0\n", "p cnf 3 2\n1 -2 0 3 0\n", "p cnf 3 3\n1 0 2 0 3 0",
    "p cnf 3 2\n1 -2 0\n3\n", "p cnf 3 2\n1 -2 0\n", "p cnf 3 1\n1 -2 0\n3 0\n",
    "p cnf 3 2\n1 -4 0\n3 0\n", "p cnf 3 2\n1 0 -2 0 5 0\n", "p cnf 3 2\n1 0\n2 0 x 0\n", "p cnf 3 2\n1 2.5 0\n3 0\n",
    "1 2 0\np cnf 3 1\n", "c a\nc b\n\n1 2 0\n", "p cnf 3 1\np cnf 3 1\n1 0\n", "p cnf 3 1\n1 0\n\n\nc x\np cnf 2 2\n",
    "p cnf -1 2\n", "p cnf 3 -2\n", "p cnf a b\n", "p cnf 3\n", "p cnf 3 2 1\n", "p  cnf\t4   1\n-4 4 0\n", "p dnf 2 1\n1 2 0\n",
    "p cnf 2 1\n1 2 0\n%\n0\n", "c\nc\nc\nc\nq cnf 1 1\n", "p cnf 2 2\n0\n0\n", "p cnf 2 1\n+1 -2 0\n", "p cnf 2 1\n01 -02 00\n",
    "p cnf 2 1\r\n1 2 0\r\n", "cp cnf 1 1\n1 0\n", "p cnf 3 2\n1 2 0\n-0 0\n",
]
for t in texts:
    drain(t)

def load(text, how):
    try:
        if how == 'obj':
            F = from_dimacs_file(CNF, io.StringIO(text))
        elif how == 'cls':
            F = CNF.from_file(io.StringIO(text))
        else:
            fd, name = tempfile.mkstemp(suffix='.cnf'); os.close(fd)
            try:
                with open(name, 'w') as fh:
                    fh.write(text)
                F = from_dimacs_file(CNF, name)
                F.header['description'] = F.header['description'].replace(name, 'NAME')
            finally:
                os.unlink(name)
        rec('load', how, text, list(F.header.items()), F.number_of_variables(), list(F), F.to_dimacs())
    except Exception as e:
        rec('load', how, text, 'exc', type(e).__name__, str(e))
for t in texts:
    for how in ('obj', 'cls', 'file'):
        load(t, how)

class Rec:
    def __init__(self): self.calls = []
    def write(self, s): self.calls.append(s)

random.seed(5)
forms = [CNF(), CNF([[]]), CNF([[1, -2], [3]]), cnfgen.PigeonholePrinciple(8, 6), cnfgen.OrderingPrinciple(6),
         cnfgen.RandomKCNF(3, 50, 150, seed=3), cnfgen.Shuffle(cnfgen.XorSubstitution(cnfgen.PigeonholePrinciple(4, 3), 2))]
W = CNF([[1, 2]], description='multi\nline\n\ndescription é中')
W.header['empty'] = ''
W.header['nl'] = '\n'
W.header[7] = 13
W.new_variable('weird\nlabel')
forms.append(W)
for i, F in enumerate(forms):
    for eh in (True, False):
        for ev in (True, False):
            r = Rec()
            to_dimacs_file(F, r, export_header=eh, export_varnames=ev)
            rec('write', i, eh, ev, r.calls)
            s = io.StringIO()
            to_dimacs_file(F, s, eh, ev)
            txt = s.getvalue()
            G = from_dimacs_file(CNF, io.StringIO(txt))
            rec('round', i, G.number_of_variables() == F.number_of_variables(), list(G) == [list(c) for c in F],
                all(1 <= abs(l) <= G.number_of_variables() for c in G for l in c))
    fd, name = tempfile.mkstemp(suffix='.cnf'); os.close(fd)
    try:
        to_dimacs_file(F, name)
        rec('file', i, open(name, encoding='utf-8').read())
        F.to_file(name, fileformat='dimacs', export_header=False, export_varnames=True)
        rec('file2', i, open(name, encoding='utf-8').read())
    finally:
        os.unlink(name)
    old = sys.stdout
    sys.stdout = cap = io.StringIO()
    try:
        to_dimacs_file(F)
    finally:
        sys.stdout = old
    rec('stdout', i, cap.getvalue())

from cnfgen.clitools.cnfshuffle import cli as shuffle_cli
from cnfgen.clitools.cnfgen import cli as cnfgen_cli
for t in ["p cnf 4 3\n1 -2 0\n3 4 0\n-1 -4 2 0\n", "p cnf 4 3\n1 -2 0\n3 5 0\n-1 0\n", "c nothing\n", "p cnf 2 1\n1 2\n"]:
    fd, name = tempfile.mkstemp(suffix='.cnf'); os.close(fd)
    try:
        open(name, 'w').write(t)
        for args in (['cnfshuffle', '-q', '--seed', '3', '-i', name], ['cnfgen', '-q', '--seed', '3', 'dimacs', name, '-T', 'xor', '2']):
            cli = shuffle_cli if args[0] == 'cnfshuffle' else cnfgen_cli
            old = sys.stderr
            sys.stderr = cap = io.StringIO()
            try:
                rec('cli', args[0], t, 'ok', cli(args, mode='string'))
            except BaseException as e:
                rec('cli', args[0], t, 'exc', type(e).__name__, str(e).replace(name, 'NAME'), cap.getvalue().replace(name, 'NAME'))
            finally:
                sys.stderr = old
    finally:
        os.unlink(name)

print(hashlib.sha256('\n'.join(out).encode()).hexdigest())
