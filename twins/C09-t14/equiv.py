#!/usr/bin/env python
"""Equivalence script for the refactoring of the validation of explicit
variable / clause permutations in cnfgen.transformations.shuffle.Shuffle."""
import sys, os, hashlib, random, itertools
sys.path.insert(0, os.getcwd())

from cnfgen import CNF
from cnfgen.transformations.shuffle import Shuffle
from cnfgen.info import info

H = hashlib.sha256()
# the version comes from `git describe`: keep the digest independent of HEAD
VERSION_TAG = "CNFgen ({})".format(info['version'])


def record(*items):
    for it in items:
        H.update(repr(it).replace(VERSION_TAG, 'CNFgen (VERSION)').encode('utf-8'))
        H.update(b'\x00')


rnd = random.Random(31337)


def random_cnf(n, m, maxw):
    F = CNF()
    F.update_variable_number(n)
    for _ in range(m):
        w = rnd.randint(0, min(maxw, n))
        vs = rnd.sample(range(1, n + 1), w)
        F.add_clause([v * rnd.choice([-1, 1]) for v in vs])
    return F


def fixed_cnf(n, clauses, description=None):
    F = CNF(description=description) if description else CNF()
    F.update_variable_number(n)
    for c in clauses:
        F.add_clause(c)
    return F


formulas = [
    fixed_cnf(0, []),
    fixed_cnf(0, [[], []]),
    fixed_cnf(4, []),
    fixed_cnf(1, [[1]]),
    fixed_cnf(1, [[1], [-1]], description='tiny contradiction'),
    fixed_cnf(2, [[1, 2], [-1, 2], [1, -2], [-1, -2]]),
    fixed_cnf(3, [[1, -2, 3], [], [2], [-3, -1]]),
    fixed_cnf(6, [[1, 2], [3, 4], [5, 6], [-1, -3], [-1, -5], [-3, -5],
                  [-2, -4], [-2, -6], [-4, -6]], description='php 3 2'),
    random_cnf(5, 7, 3),
    random_cnf(9, 15, 5),
    random_cnf(12, 4, 12),
]


def call(F, label, **kwargs):
    random.seed(2718)
    try:
        G = Shuffle(F, **kwargs)
        record('OK', label, sorted((k, repr(v)) for k, v in kwargs.items()),
               G.number_of_variables(), G.number_of_clauses(),
               list(G.clauses()), sorted(G.header.items()), G.to_dimacs())
    except BaseException as e:
        record('EXC', label, sorted((k, repr(v)) for k, v in kwargs.items()),
               type(e).__name__, str(e))
    record(random.random())


def perms(n, how_many):
    base = list(range(n))
    yield list(base)
    yield list(reversed(base))
    for _ in range(how_many):
        p = list(base)
        rnd.shuffle(p)
        yield p


class Weird:
    """A sized, indexable, iterable sequence that is not a list"""

    def __init__(self, data):
        self.data = list(data)

    def __len__(self):
        return len(self.data)

    def __getitem__(self, i):
        return self.data[i]

    def __iter__(self):
        return iter(self.data)

    def __repr__(self):
        return 'Weird({})'.format(self.data)


for fi, F in enumerate(formulas):
    N = F.number_of_variables()
    M = F.number_of_clauses()

    # switches and random choices under several seeds
    for pf, vp, cp in itertools.product(['fixed', 'shuffle'], repeat=3):
        call(F, fi, polarity_flips=pf, variables_permutation=vp, clauses_permutation=cp)
    call(F, fi)
    for seed in range(5):
        random.seed(seed)
        try:
            G = Shuffle(F)
            record('SEED', fi, seed, list(G.clauses()), random.random())
        except BaseException as e:
            record('SEEDEXC', fi, seed, type(e).__name__, str(e))

    # valid explicit variable permutations (several container types)
    for p in perms(N, 4):
        vp = [x + 1 for x in p]
        for conv in (list, tuple, Weird):
            call(F, fi, variables_permutation=conv(vp), polarity_flips='fixed',
                 clauses_permutation='fixed')
        call(F, fi, variables_permutation=vp)
        call(F, fi, variables_permutation=[float(x) for x in vp], polarity_flips='fixed',
             clauses_permutation='fixed')
    call(F, fi, variables_permutation=range(1, N + 1), clauses_permutation='fixed')
    call(F, fi, variables_permutation={x + 1: 'v' for x in range(N)}, clauses_permutation='fixed')

    # valid explicit clause permutations
    for p in perms(M, 4):
        for conv in (list, tuple, Weird):
            call(F, fi, clauses_permutation=conv(p), polarity_flips='fixed',
                 variables_permutation='fixed')
        call(F, fi, clauses_permutation=p)
        call(F, fi, clauses_permutation=[float(x) for x in p], polarity_flips='fixed',
             variables_permutation='fixed')
    call(F, fi, clauses_permutation=range(M), variables_permutation='fixed')
    call(F, fi, clauses_permutation={x: 'c' for x in range(M)}, variables_permutation='fixed')

    # all three explicit
    for _ in range(4):
        vp = list(range(1, N + 1))
        rnd.shuffle(vp)
        cp = list(range(M))
        rnd.shuffle(cp)
        pf = [rnd.choice([-1, 1]) for _ in range(N)]
        call(F, fi, polarity_flips=pf, variables_permutation=vp, clauses_permutation=cp)
        call(F, fi, polarity_flips=tuple(pf), variables_permutation=tuple(vp),
             clauses_permutation=tuple(cp))

    # invalid variable permutations
    good = list(range(1, N + 1))
    bad_vps = [good + [N + 1], good[:-1], [x - 1 for x in good], [x + 1 for x in good],
               [1] * N, good[:-1] + [1], good[:-1] + [N + 1], good[:-1] + [0],
               good[:-1] + [-N], [-x for x in good], good[:-1] + [None],
               good[:-1] + ['a'], [str(x) for x in good], good[:-1] + [N + 0.5],
               good[:-1] + [float('nan')], [[x] for x in good], 'x' * N, 'foo', 'Fixed',
               None, 5, 3.5, [], (), set(good[:-1]), good + good, good[1:] + good[:1] + [2]]
    for vp in bad_vps:
        call(F, fi, variables_permutation=vp, polarity_flips='fixed', clauses_permutation='fixed')
        call(F, fi, variables_permutation=vp)

    # invalid clause permutations
    goodc = list(range(M))
    bad_cps = [goodc + [M], goodc[:-1], [x + 1 for x in goodc], [x - 1 for x in goodc],
               [0] * M, goodc[:-1] + [0], goodc[:-1] + [M], goodc[:-1] + [-1],
               goodc[:-1] + [None], goodc[:-1] + ['a'], [str(x) for x in goodc],
               goodc[:-1] + [M - 0.5], goodc[:-1] + [float('nan')], [[x] for x in goodc],
               'x' * M, 'foo', 'Shuffle', None, 5, 3.5, [], (), set(goodc[:-1]),
               goodc + goodc, [x + 1 for x in goodc[:-1]] + [0, 1]]
    for cp in bad_cps:
        call(F, fi, clauses_permutation=cp, polarity_flips='fixed', variables_permutation='fixed')
        call(F, fi, clauses_permutation=cp)

    # invalid polarity flips, and several invalid arguments at once (which error wins)
    bad_pfs = [[1] * (N + 1), [1] * max(N - 1, 0), [0] * N, [2] * N, [1] * max(N - 1, 0) + [-2],
               [1] * max(N - 1, 0) + [None], ['1'] * N, 'z' * N, 'foo', None, 7, [], [1.0] * N,
               [-1.0] * N, [True] * N, [1j] * N]
    for pf in bad_pfs:
        call(F, fi, polarity_flips=pf, variables_permutation='fixed', clauses_permutation='fixed')
        call(F, fi, polarity_flips=pf, variables_permutation=bad_vps[0], clauses_permutation=bad_cps[0])
    call(F, fi, polarity_flips='fixed', variables_permutation=bad_vps[4], clauses_permutation=bad_cps[4])
    call(F, fi, polarity_flips='shuffle', variables_permutation=bad_vps[1], clauses_permutation=bad_cps[1])

# repeated shuffling: the header keeps track of the transformations
F = formulas[7]
random.seed(11)
for r in range(4):
    F = Shuffle(F, variables_permutation=[2, 1, 4, 3, 6, 5],
                clauses_permutation=[8, 7, 6, 5, 4, 3, 2, 1, 0])
    record('REPEAT', r, list(F.clauses()), sorted(F.header.items()))

print(H.hexdigest())
