#!/usr/bin/env python
"""Equivalence script for t25: __init__/__call__ of the Obtain*Graph argparse
actions pulled up into ObtainGraphAction (class attribute `graphtype`)"""
import sys
import os
import io
import hashlib
import random
import argparse
import tempfile
from contextlib import redirect_stderr, redirect_stdout

sys.path.insert(0, os.getcwd())

from cnfgen.clitools.graph_args import ObtainGraphAction
from cnfgen.clitools.graph_args import ObtainSimpleGraph
from cnfgen.clitools.graph_args import ObtainBipartiteGraph
from cnfgen.clitools.graph_args import ObtainDirectedAcyclicGraph
from cnfgen.clitools import CLIError, CLIParser, CLIHelpFormatter
from cnfgen.clitools import cnfgen as cnfgen_cli

out = []


def record(*items):
    out.append(repr(items))


def graph_obs(G):
    return (type(G).__name__, G.name, G.number_of_vertices(),
            G.number_of_edges(), list(G.edges()))


ACTIONS = [ObtainSimpleGraph, ObtainBipartiteGraph, ObtainDirectedAcyclicGraph]

# construction of the actions
for cls in ACTIONS + [ObtainGraphAction]:
    record('mro', cls.__name__, [c.__name__ for c in cls.__mro__])
    for kwargs in [{}, {'nargs': None}, {'nargs': '+'}, {'nargs': 2}, {'nargs': 0},
                   {'help': 'a graph', 'metavar': '<G>'}, {'default': 7, 'required': True}]:
        try:
            a = cls(['--graph'], 'G', **kwargs)
            record('init', cls.__name__, sorted(kwargs.items(), key=str), a.option_strings, a.dest, a.nargs,
                   a.default, a.required, a.help, a.metavar, a.const, a.type, a.choices,
                   isinstance(a, ObtainGraphAction))
        except Exception as e:
            record('init-exc', cls.__name__, sorted(kwargs.items(), key=str), type(e).__name__, str(e))
    try:
        a = cls([], 'G', None)
        record('init-pos', cls.__name__, a.nargs)
    except Exception as e:
        record('init-pos-exc', cls.__name__, type(e).__name__, str(e))
    try:
        a = cls([], 'G', '*')
        record('init-pos2', cls.__name__, a.nargs)
    except Exception as e:
        record('init-pos2-exc', cls.__name__, type(e).__name__, str(e))

tmpdir = tempfile.mkdtemp()
gfile = os.path.join(tmpdir, 'g.kthlist')
with open(gfile, 'w') as f:
    f.write("3\n1 : 2 3 0\n2 : 1 0\n3 : 1 0\n")
bfile = os.path.join(tmpdir, 'b.matrix')
with open(bfile, 'w') as f:
    f.write("2 3\n1 0 1\n0 1 1\n")
dfile = os.path.join(tmpdir, 'd.kthlist')
with open(dfile, 'w') as f:
    f.write("3\n1 : 0\n2 : 1 0\n3 : 1 2 0\n")
badfile = os.path.join(tmpdir, 'bad.kthlist')
with open(badfile, 'w') as f:
    f.write("this is not a graph\n")

SPECS = {
    'ObtainSimpleGraph': [
        ['gnp', '6', '.5'], ['gnp', '3', '.5', '2'], ['gnm', '6', '7'], ['gnd', '6', '3'],
        ['grid', '2', '3'], ['torus', '3', '3'], ['complete', '4'], ['complete', '2', '3'],
        ['empty', '3'], ['gnp', '6', '.5', 'plantclique', '3'], ['gnm', '6', '3', 'addedges', '4'],
        ['gnm', '6', '5', 'splitedges', '2'], ['gnp', '6', '.5', 'plantclique', '9'],
        ['gnp', '6', '1.5'], ['gnd', '5', '3'], ['gnm', '3', '10'], ['glrp', '3', '3', '.5'],
        ['tree', '3'], ['kthlist', gfile], [gfile], ['dimacs', gfile], ['matrix', gfile],
        ['kthlist'], ['nonexistent.kthlist'], ['kthlist', os.path.join(tmpdir, 'none.kthlist')],
        [badfile], ['gnp', '6', '.5', 'gnp'], ['gnp', '6', '.5', '-x'], ['gnp', '6', '.5', 'foo'],
        ['gnp', '6', '.5', 'addedges', '1', 'addedges', '1'], ['complete', '4', 'addedges', '1'],
        ['gnp', '6', '.5', 'plantbiclique', '1', '1'], [tmpdir],
    ],
    'ObtainBipartiteGraph': [
        ['glrp', '3', '4', '.5'], ['glrm', '3', '4', '6'], ['glrm', '3', '4', '2'], ['glrd', '3', '4', '2'],
        ['regular', '4', '4', '2'], ['shift', '4', '5', '0', '2'], ['complete', '2', '3'],
        ['empty', '2', '2'], ['glrp', '3', '4', '.5', 'plantbiclique', '2', '2'],
        ['glrm', '3', '4', '2', 'addedges', '3'], ['glrp', '3', '4', '.5', 'plantbiclique', '5', '2'],
        ['glrp', '3', '4', '.5', 'plantclique', '2'], ['glrm', '3', '4', '2', 'splitedges', '1'],
        ['glrp', '3', '4', '5'], ['regular', '3', '4', '2'], ['shift', '4'], ['shift', '4', '5', '2', '2'],
        ['gnp', '5', '.5'], ['matrix', bfile], [bfile], ['kthlist', bfile], ['matrix'],
        ['nonexistent.matrix'], ['glrp', '3', '4', '.5', 'complete'],
    ],
    'ObtainDirectedAcyclicGraph': [
        ['tree', '2'], ['pyramid', '3'], ['path', '4'], ['tree', '0'], ['path', '0'], ['pyramid', '-1'],
        ['tree'], ['tree', 'x'], ['kthlist', dfile], [dfile], ['gnp', '5', '.5'], ['glrd', '3', '4', '2'],
        ['nonexistent.kthlist'], ['path', '3', 'addedges', '1'], ['pyramid', '2', 'foo'],
        ['matrix', dfile],
    ],
}


def make_parser(cls, klass):
    p = klass(prog='prog', usage='usage: prog [-h] --graph <G>', description='Test parser')
    p.add_argument('--before', type=int, default=0)
    p.add_argument('--graph', '-g', action=cls, metavar='<G>', help='a graph')
    return p


for cls in ACTIONS:
    for klass in [CLIParser, argparse.ArgumentParser]:
        for seed in [0, 1, 42]:
            for spec in SPECS[cls.__name__]:
                random.seed(seed)
                parser = make_parser(cls, klass)
                err = io.StringIO()
                sout = io.StringIO()
                try:
                    with redirect_stderr(err), redirect_stdout(sout):
                        args = parser.parse_args(['--before', '3', '--graph'] + spec)
                    record('parse', cls.__name__, klass.__name__, seed, spec, args.before,
                           graph_obs(args.graph), random.random())
                except CLIError as e:
                    record('parse-clierr', cls.__name__, klass.__name__, seed, spec, str(e),
                           err.getvalue(), sout.getvalue())
                except SystemExit as e:
                    record('parse-exit', cls.__name__, klass.__name__, seed, spec, e.code,
                           err.getvalue(), sout.getvalue())
                except Exception as e:
                    record('parse-exc', cls.__name__, klass.__name__, seed, spec, type(e).__name__,
                           str(e).replace(tmpdir, 'TMP'))
    # help output (CLIHelpFormatter tests isinstance(action, ObtainGraphAction))
    p = argparse.ArgumentParser(prog='prog', formatter_class=CLIHelpFormatter)
    p.add_argument('--graph', action=cls, metavar='<G>', help='a graph')
    p.add_argument('G', action=cls, help='positional graph')
    record('help', cls.__name__, p.format_help(), p.format_usage())
    # no argument at all
    parser = make_parser(cls, CLIParser)
    try:
        parser.parse_args(['--graph'])
        record('noarg', cls.__name__, 'ok')
    except CLIError as e:
        record('noarg-clierr', cls.__name__, str(e))

# direct call of the action objects, with a fake parser
class FakeParser:
    def __init__(self):
        self.errors = []

    def error(self, msg):
        self.errors.append(msg)


for cls in ACTIONS:
    for spec in SPECS[cls.__name__]:
        random.seed(11)
        fp = FakeParser()
        ns = argparse.Namespace()
        a = cls(['--graph'], 'thegraph')
        try:
            res = a(fp, ns, spec, '--graph')
            g = getattr(ns, 'thegraph', None)
            record('direct', cls.__name__, spec, res, None if g is None else graph_obs(g),
                   [m.replace(tmpdir, 'TMP') for m in fp.errors], random.random())
        except Exception as e:
            record('direct-exc', cls.__name__, spec, type(e).__name__, str(e).replace(tmpdir, 'TMP'))

# whole command lines
cmdlines = [
    (cnfgen_cli, ['cnfgen', '--seed', '0', 'kclique', '3', 'gnp', '6', '.5']),
    (cnfgen_cli, ['cnfgen', '--seed', '0', 'kcolor', '3', 'gnm', '6', '7', 'addedges', '2']),
    (cnfgen_cli, ['cnfgen', '--seed', '5', 'php', '5', '4']),
    (cnfgen_cli, ['cnfgen', '--seed', '5', 'php', 'glrd', '5', '4', '2']),
    (cnfgen_cli, ['cnfgen', '--seed', '5', 'peb', 'pyramid', '3']),
    (cnfgen_cli, ['cnfgen', '--seed', '5', 'stone', '3', 'tree', '2']),
    (cnfgen_cli, ['cnfgen', '--seed', '8', 'subsetcard', 'regular', '4', '4', '2']),
    (cnfgen_cli, ['cnfgen', '--seed', '8', 'tseitin', 'random', 'gnd', '6', '3', 'splitedges', '1']),
    (cnfgen_cli, ['cnfgen', '--seed', '8', 'kclique', '3', 'gnp', '6', '5']),
    (cnfgen_cli, ['cnfgen', '--seed', '8', 'kclique', '3', 'nonexistent.gml']),
    (cnfgen_cli, ['cnfgen', '--seed', '8', 'peb', 'gnp', '6', '.5']),
    (cnfgen_cli, ['cnfgen', '--seed', '8', 'php', 'glrd', '5', '4', '9']),
    (cnfgen_cli, ['cnfgen', '--seed', '3', 'kclique', '3', 'gnp', '6', '.5', 'plantclique', '3', '-T', 'shuffle']),
]
for tool, argv in cmdlines:
    for rep in range(2):
        err = io.StringIO()
        try:
            with redirect_stderr(err):
                text = tool(argv, mode='string')
            record('cli', argv, text, err.getvalue())
        except CLIError as e:
            record('cli-err', argv, str(e))
        except SystemExit as e:
            record('cli-exit', argv, e.code, err.getvalue())
        except Exception as e:
            record('cli-exc', argv, type(e).__name__, str(e))

import shutil
shutil.rmtree(tmpdir, ignore_errors=True)
blob = "\n".join(out).replace(tmpdir, 'TMP')
if os.environ.get('EQUIV_DUMP'):
    open(os.environ['EQUIV_DUMP'], 'w').write(blob)
print(hashlib.sha256(blob.encode('utf-8')).hexdigest())
