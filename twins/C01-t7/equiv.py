"""Equivalence harness for the refactoring of cnfgen/formula/linear.py
(add_loose_majority, add_loose_minority, add_strict_majority,
add_strict_minority: the generator materialisation step).

add_loose_majority / add_loose_minority produce the clauses of
SubsetCardinalityFormula (equalities=False).
"""
import sys, os, hashlib, random
sys.path.insert(0, os.getcwd())

import networkx
from cnfgen.formula.cnf import CNF
from cnfgen.formula.linear import CNFLinear
from cnfgen.families.subsetcardinality import SubsetCardinalityFormula
from cnfgen.graphs import (BipartiteGraph, CompleteBipartiteGraph, Graph,
                           bipartite_random_left_regular, bipartite_random_regular,
                           bipartite_random_m_edges, bipartite_random, bipartite_shift)

out = []


def record(*items):
    out.append(repr(items))


METHODS = ['add_loose_majority', 'add_loose_minority',
           'add_strict_majority', 'add_strict_minority']


def gen(seq):
    for x in seq:
        yield x


class Seq:
    """A sized iterable which is neither list nor generator"""
    def __init__(self, data): self.data = list(data)
    def __len__(self): return len(self.data)
    def __iter__(self): return iter(self.data)
    def __getitem__(self, i): return self.data[i]


def shapes(lits):
    yield 'list', lambda: list(lits)
    yield 'tuple', lambda: tuple(lits)
    yield 'generator', lambda: gen(lits)
    yield 'genexpr', lambda: (x for x in lits)
    yield 'iterator', lambda: iter(lits)
    yield 'map', lambda: map(int, lits)
    yield 'Seq', lambda: Seq(lits)
    yield 'dictkeys', lambda: dict.fromkeys(lits).keys()


literal_lists = [[], [1], [-1], [1, 2], [1, -2], [1, 2, 3], [-1, 2, -3, 4],
                 [5, 4, 3, 2, 1], [1, 2, 3, 4, 5, 6], [-7, 6, -5, 4, -3, 2, -1],
                 [2, 2], [1, -1], [3, 9], [0], [1, 0, 2], [1.0, 2], ['a', 1], [None]]

for meth in METHODS:
    for lits in literal_lists:
        for shape, mk in shapes(lits):
            for check in (True, False, None):
                for nvars in (0, 4):
                    F = CNFLinear()
                    F.update_variable_number(nvars)
                    tag = (meth, lits, shape, check, nvars)
                    try:
                        arg = mk()
                        if check is None:
                            res = getattr(F, meth)(arg)
                        else:
                            res = getattr(F, meth)(arg, check=check)
                        record(tag, 'OK', res, F.number_of_variables(),
                               [list(c) for c in F.clauses()])
                    except BaseException as e:
                        record(tag, 'EXC', type(e).__name__, str(e),
                               F.number_of_variables(), [list(c) for c in F.clauses()])

# the passed list must not be modified or kept
for meth in METHODS:
    F = CNFLinear()
    lits = [3, -1, 2, 4]
    getattr(F, meth)(lits)
    lits.append(99)
    record('ALIAS', meth, lits, [list(c) for c in F.clauses()])
    # a generator is consumed exactly once
    g = gen([1, 2, 3])
    F = CNFLinear()
    getattr(F, meth)(g)
    record('CONSUMED', meth, list(g), [list(c) for c in F.clauses()])

# same methods on the full CNF class, with variable groups as arguments
for meth in METHODS:
    F = CNF()
    B = BipartiteGraph(3, 4)
    for e in [(1, 1), (1, 2), (1, 4), (2, 2), (2, 3), (3, 1), (3, 2), (3, 3), (3, 4)]:
        B.add_edge(*e)
    x = F.new_bipartite_edges(B, label='x_{{{0},{1}}}')
    blk = F.new_block(5, label='y_{}')
    for u in (1, 2, 3):
        getattr(F, meth)(x(u, None))
    for v in (1, 2, 3, 4):
        getattr(F, meth)(x(None, v))
    getattr(F, meth)(blk())
    getattr(F, meth)(blk)
    getattr(F, meth)(-l for l in blk)
    record('GROUPS', meth, [list(c) for c in F.clauses()], F.to_dimacs())


def dump(tag, mk):
    try:
        F = mk()
        record(tag, F.header.get('description'), F.number_of_variables(),
               [list(c) for c in F.clauses()], list(F.all_variable_labels()),
               F.to_dimacs())
    except BaseException as e:
        record(tag, 'EXC', type(e).__name__, str(e))


# SubsetCardinalityFormula on many bipartite graphs
graphs = []
for L in range(0, 4):
    for R in range(0, 4):
        graphs.append((('complete', L, R), CompleteBipartiteGraph(L, R)))
        graphs.append((('empty', L, R), BipartiteGraph(L, R)))
rnd = random.Random(2024)
for L in range(1, 5):
    for R in range(1, 5):
        for t in range(3):
            B = BipartiteGraph(L, R, name='rnd{}{}{}'.format(L, R, t))
            for u in range(1, L + 1):
                for v in range(1, R + 1):
                    if rnd.random() < 0.55:
                        B.add_edge(u, v)
            graphs.append((('rnd', L, R, t), B))
graphs.append((('glrd',), bipartite_random_left_regular(5, 4, 3, seed=7)))
graphs.append((('regular',), bipartite_random_regular(4, 4, 3, seed=8)))
graphs.append((('glrm',), bipartite_random_m_edges(4, 5, 9, seed=9)))
graphs.append((('glrp',), bipartite_random(4, 4, 0.5, seed=10)))
graphs.append((('shift',), bipartite_shift(5, 5, [1, 2, 4])))

for tag, B in graphs:
    for eq in (False, True):
        dump(('SC', tag, eq), lambda: SubsetCardinalityFormula(B, equalities=eq))
    dump(('SC', tag, 'default'), lambda: SubsetCardinalityFormula(B))

# networkx inputs and wrong inputs
G = networkx.Graph()
G.add_nodes_from(['a', 'b', 'c'], bipartite=0)
G.add_nodes_from([10, 20, 30, 40], bipartite=1)
G.add_edges_from([('a', 10), ('a', 20), ('b', 20), ('b', 30), ('c', 10), ('c', 40), ('a', 40)])
G.name = 'nx bipartite'
for eq in (False, True):
    dump(('SC-nx', eq), lambda: SubsetCardinalityFormula(G, equalities=eq))
H = networkx.path_graph(4)
dump(('SC-nx-nolabel',), lambda: SubsetCardinalityFormula(H))
dump(('SC-simple',), lambda: SubsetCardinalityFormula(Graph.complete_graph(3)))
dump(('SC-none',), lambda: SubsetCardinalityFormula(None))
dump(('SC-int',), lambda: SubsetCardinalityFormula(3))

print(hashlib.sha256("\n".join(out).encode('utf-8')).hexdigest())
