#!/usr/bin/env python
"""Equivalence harness for property C14 (graph file I/O round trips, bad files rejected).

Run as:  cd <checkout> && /venv/bin/python equiv.py
Prints one SHA256 digest of everything observable: the text written for each
graph/format, the graph read back, the result or the exception (type+message)
for every text of a corpus of valid, truncated, corrupted and commented inputs.
"""
import sys, os, io, re, random, hashlib, contextlib, warnings
sys.path.insert(0, os.getcwd())
warnings.simplefilter("ignore")

from io import StringIO
import cnfgen.graphs as gr
from cnfgen.graphs import (Graph, DirectedGraph, BipartiteGraph,
                           CompleteBipartiteGraph, readGraph, writeGraph)

H = hashlib.sha256()
NREC = [0]
ADDR = re.compile(r'0x[0-9a-fA-F]+')


def rec(*objs):
    for o in objs:
        s = o if isinstance(o, str) else repr(o)
        s = ADDR.sub('0xADDR', s)
        H.update(s.encode('utf-8', 'backslashreplace'))
        H.update(b'\x00')
    H.update(b'\x01')
    NREC[0] += 1


def describe(G):
    if G is None:
        return ('None',)
    d = [type(G).__name__, G.number_of_vertices(), G.number_of_edges(),
         repr(getattr(G, 'name', None))]
    if isinstance(G, BipartiteGraph):
        d += [G.left_order(), G.right_order()]
        d.append([(u, list(G.right_neighbors(u))) for u in range(1, G.left_order()+1)])
        d.append([(v, list(G.left_neighbors(v))) for v in range(1, G.right_order()+1)])
    elif isinstance(G, DirectedGraph):
        d.append(G.is_dag())
        d.append([(v, list(G.predecessors(v)), list(G.successors(v))) for v in G.vertices()])
    else:
        d.append([(v, list(G.neighbors(v))) for v in G.vertices()])
    d.append(list(G.edges()))
    return tuple(d)


def guarded(f, *args, **kw):
    """Run f, return ('ok', value) or ('exc', type, message); capture prints."""
    out, err = StringIO(), StringIO()
    try:
        with contextlib.redirect_stdout(out), contextlib.redirect_stderr(err):
            val = f(*args, **kw)
        res = ('ok', val)
    except Exception as e:      # noqa
        res = ('exc', type(e).__name__, str(e))
    return res, out.getvalue()


def do_write(G, gtype, fmt):
    buf = StringIO()
    res, out = guarded(writeGraph, G, buf, gtype, fmt)
    rec('W', gtype, fmt, res[0], res[1:] if res[0] == 'exc' else '', buf.getvalue())
    return buf.getvalue() if res[0] == 'ok' else None


def do_read(text, gtype, fmt, tag='R'):
    res, out = guarded(readGraph, StringIO(text), gtype, fmt)
    if res[0] == 'ok':
        rec(tag, gtype, fmt, 'ok', describe(res[1]))
        return res[1]
    rec(tag, gtype, fmt, res)
    return None


# ---------------------------------------------------------------- graphs
def rnd_simple(rng, n, p):
    G = Graph(n, 'simple {} {}'.format(n, p))
    for u in range(1, n+1):
        for v in range(u+1, n+1):
            if rng.random() < p:
                G.add_edge(u, v)
    return G


def rnd_digraph(rng, n, p, dag):
    G = DirectedGraph(n, ('dag' if dag else 'digraph') + ' {} {}'.format(n, p))
    for u in range(1, n+1):
        for v in range(1, n+1):
            if dag and u >= v:
                continue
            if rng.random() < p:
                G.add_edge(u, v)
    return G


def rnd_bip(rng, L, R, p):
    G = BipartiteGraph(L, R, 'bip {} {} {}'.format(L, R, p))
    for u in range(1, L+1):
        for v in range(1, R+1):
            if rng.random() < p:
                G.add_edge(u, v)
    return G


rng = random.Random(140014)
SIZES = [0, 1, 2, 3, 9, 10, 11, 15]
FORMATS = {'simple': ['kthlist', 'gml', 'dot', 'dimacs', 'matrix', 'bogus'],
           'digraph': ['kthlist', 'gml', 'dot', 'dimacs', 'matrix'],
           'dag': ['kthlist', 'gml', 'dot', 'dimacs'],
           'bipartite': ['kthlist', 'gml', 'dot', 'matrix', 'dimacs']}

graphs = []
for n in SIZES:
    for p in (0.0, 0.25, 1.0):
        graphs.append(('simple', rnd_simple(rng, n, p)))
        graphs.append(('digraph', rnd_digraph(rng, n, p, False)))
        graphs.append(('dag', rnd_digraph(rng, n, p, True)))
for L in (0, 1, 2, 9, 10, 12):
    for R in (0, 1, 3, 10, 11):
        for p in (0.0, 0.3, 1.0):
            graphs.append(('bipartite', rnd_bip(rng, L, R, p)))
graphs.append(('bipartite', CompleteBipartiteGraph(3, 4)))
graphs.append(('bipartite', CompleteBipartiteGraph(0, 2)))
graphs.append(('bipartite', CompleteBipartiteGraph(11, 10)))
# names with odd content
G = Graph(4, None); G.add_edge(1, 4); graphs.append(('simple', G))
G = Graph(3, ''); G.add_edge(2, 3); graphs.append(('simple', G))
G = DirectedGraph(3, None); G.add_edge(3, 1); G.add_edge(2, 2); graphs.append(('digraph', G))
G = BipartiteGraph(2, 2, ''); G.add_edge(2, 1); graphs.append(('bipartite', G))
G = Graph(3, 'two\nlines'); G.add_edge(1, 2); graphs.append(('simple', G))

valid_texts = {}     # (gtype, fmt) -> list of texts
dotcount = {}
for gtype, G in graphs:
    for fmt in FORMATS[gtype]:
        if fmt == 'dot':
            # pydot is slow: keep a sample only
            dotcount[gtype] = dotcount.get(gtype, 0) + 1
            if G.number_of_vertices() > 11 or dotcount[gtype] % 3 != 1:
                continue
        text = do_write(G, gtype, fmt)
        if text is None:
            continue
        valid_texts.setdefault((gtype, fmt), []).append(text)
        G2 = do_read(text, gtype, fmt)
        if G2 is not None:
            rec('RT', gtype, fmt,
                G2.number_of_vertices() == G.number_of_vertices(),
                list(G2.edges()) == list(G.edges()))
        # a digraph file read as dag and vice versa
        if gtype == 'digraph':
            do_read(text, 'dag', fmt, 'R-as-dag')
        if gtype == 'dag':
            do_read(text, 'digraph', fmt, 'R-as-digraph')
        if gtype == 'simple' and fmt in ('kthlist', 'dimacs', 'gml'):
            do_read(text, 'digraph', fmt, 'R-as-digraph')
        if gtype == 'bipartite' and fmt in ('kthlist', 'gml'):
            do_read(text, 'simple', fmt, 'R-as-simple')

# wrong object / argument handling
for args in [(None, 'simple', 'kthlist'), (Graph(2), 'weird', 'kthlist'),
             (Graph(2), 'simple', 'autodetect'), (BipartiteGraph(1, 1), 'simple', 'dimacs'),
             (Graph(2), 'bipartite', 'matrix'), (Graph(2), 'bipartite', 'kthlist'),
             (BipartiteGraph(1, 1), 'dag', 'kthlist')]:
    buf = StringIO()
    res, _ = guarded(writeGraph, args[0], buf, args[1], args[2])
    rec('WA', args[1], args[2], res if res[0] == 'exc' else 'ok', buf.getvalue())
for args in [('1\n', 'weird', 'kthlist'), ('1\n', 'simple', 'autodetect'),
             ('1\n', 'simple', 'xyz'), ('1\n', 'bipartite', 'dimacs')]:
    res, _ = guarded(readGraph, StringIO(args[0]), args[1], args[2])
    rec('RA', args, res if res[0] == 'exc' else describe(res[1]))
res, _ = guarded(readGraph, StringIO('1\n'), 'simple', 'kthlist', True)
rec('RA-multi', res)
res, _ = guarded(readGraph, 12345, 'simple', 'kthlist')
rec('RA-notfile', res)

# ---------------------------------------------------------------- hand made corpus
KTH = [
    "", "\n", "\n\n", "c only a comment\n", "0\n", "3\n", "c name\n3\n", "c \nc second\n3\n1 : 0\n",
    "3\n1 : 0\n2 : 1 0\n3 : 1 2 0\n", "3\n1 : 0\n2 : 1 0\n3 : 1 2 0", "3\n3 : 1 2 0\n",
    "3\n2 : 1 0\n1 : 0\n", "3\n2 : 1 0\n2 : 1 0\n", "3\n1 : 2 0\n2 : 3 0\n3 : 1 0\n",
    "3\n1 : 1 0\n", "3\n1 : 4 0\n", "3\n4 : 1 0\n", "3\n0 : 1 0\n", "3\n1 : 0 0\n", "3\n1 : -1 0\n",
    "3\n1 : 2\n", "3\n1 :\n", "3\n1 : 2 0 3\n", "3\n1 : 2 0 0\n", "3\n1 : a 0\n", "3\nx : 1 0\n",
    "3\n1 : 2 : 3 0\n", "3\n3\n", "3\n1 : 0\n4\n", "-1\n", "abc\n", "3.0\n", " 3 \n", "3 4\n",
    "1 : 0\n3\n", "1 : 0\n", "c a\n\n  \n3\n\nc inner comment\n1 : 0\n\n2 : 1 0\nc x\n3 : 2 0\n\n",
    "c\n3\n", "c first\nc second\n2\n2 : 1 0\n", "2\nc late name\n2 : 1 0\n", "   \n2\n2 : 1 0\n",
    "12\n10 : 1 2 9 0\n11 : 10 0\n12 : 1 11 0\n", "12\n2 : 10 11 12 0\n10 : 0\n",
    "5\n1 : 3 4 0\n2 : 5 0\n", "5\n1 : 3 4 0\n2 : 1 0\n", "5\n1 : 2 0\n2 : 3 0\n", "5\n3 : 4 0\n1 : 5 0\n",
    "5\n1 : 5 0\n4 : 5 0\n", "5\n1 : 4 0\n5 : 0\n", "5\n5 : 0\n", "5\n1 : 0\n2 : 0\n3 : 0\n4 : 0\n5 : 0\n",
    "4\n1 : 3 0\n2 : 3 4 0\n", "4\n1 : 3 3 0\n", "4\n1 : 4 3 0\n", "4\n2 : 3 0\n", "4\n2 : 2 0\n",
    "1\n1 : 0\n", "1\n", "2\n1 : 2 0\n", "2\n1 : 2 0\n2 : 1 0\n", "2\n\t1\t:\t2\t0\n", "2\r\n1 : 2 0\r\n",
    "c x\n3\n1: 0\n2:1 0\n3:1 2 0\n", "3\n1 : 2 0 \n", "3\n 1 : 0\n", "3\n1 : +2 0\n",
    "c 3\n2\n2 : 1 0\n", "cx\n2\n", "c\n", "3\n1 : 2 0\ncomment : 0\n", "3\n1 : 2 0\ncc\n",
    "3\n:\n", "3\n: 0\n", "3\n1 : 2 0\n\n\n", "\ufeff3\n", "3\n1 : 2 0\n2 : 3 0\n3 : 0\n4 : 0\n",
]
for text in KTH:
    for gtype in ('simple', 'digraph', 'dag', 'bipartite'):
        do_read(text, gtype, 'kthlist', 'K')
    # the raw parser
    def consume(t=text):
        return list(gr._kthlist_parse(StringIO(t)))
    res, _ = guarded(consume)
    rec('KP', text, res)
    # partial consumption: what is produced before a failure
    got = []
    try:
        for item in gr._kthlist_parse(StringIO(text)):
            got.append(item)
    except Exception as e:      # noqa
        got.append(('exc', type(e).__name__, str(e)))
    rec('KPP', got)

DIMACS = [
    "", "\n", "c only\n", "p edge 0 0\n", "p edge 3 0\n", "p edge 3 2\ne 1 2\ne 2 3\n",
    "c name\nc more\np edge 3 2\ne 1 2\ne 2 3\n", "p edge 3 2\ne 1 2\n", "p edge 3 1\ne 1 2\ne 2 3\n",
    "p edge 3 2\ne 2 1\ne 3 2\n", "p edge 3 1\ne 1 1\n", "p edge 3 1\ne 1 4\n", "p edge 3 1\ne 0 1\n",
    "p edge 3 1\ne a b\n", "p edge 3 1\ne 1\n", "p edge 3 1\ne 1 2 3\n", "e 1 2\n", "e 1 2\np edge 3 1\n",
    "p edge 3 1\np edge 3 1\ne 1 2\n", "p col 3 1\ne 1 2\n", "p edge 3\n", "p edge a b\n", "p edge 3 1 1\n",
    "p edge -1 0\n", "p edge 3 -1\n", "p\n", "x 1 2\n", "p edge 3 1\nx 1 2\ne 1 2\n", "p edge 3 1\n\n  \ne 1 2\n\n",
    "  p edge 3 1\n   e 1 2\n", "p edge 3 2\ne 1 2\ne 1 2\n", "p edge 3 2\ne 1 2\ne 2 1\n",
    "p edge 12 3\ne 1 10\ne 10 11\ne 2 12\n", "c\np edge 2 1\ne 1 2\n", "cname\np edge 2 1\ne 1 2\n",
    "p edge 2 1\nc late\ne 1 2\n", "p edge 2 1\ne 1 2", "p edge 2 1\r\ne 1 2\r\n", "p edge 2 0\ne\n",
    "p edge 2 1\nedge 1 2\n", "p edge 2 1\ne 1.0 2\n", "p edge 2 1\ne +1 2\n", "pp edge 2 0\n",
    "p  edge   2   1\ne   1   2\n", "p edge 2 1\ne 1 2\np edge 2 1\n", "0\n", "3\n1 : 0\n",
]
for text in DIMACS:
    for gtype in ('simple', 'digraph', 'dag'):
        do_read(text, gtype, 'dimacs', 'D')
    for cls in (Graph, DirectedGraph):
        res, _ = guarded(gr._read_graph_dimacs_format, StringIO(text), cls)
        rec('DP', cls.__name__, text, res if res[0] == 'exc' else describe(res[1]))

MATRIX = [
    "", "\n", "0 0\n", "0 3\n", "3 0\n", "1 1\n1\n", "1 1\n0\n", "1 1\n2\n", "1 1\n-1\n", "1 1\n",
    "2 3\n1 0 1\n0 1 0\n", "2 3\n1 0 1\n0 1\n", "2 3\n1 0 1\n0 1 0 1\n", "2 3\n1 0 1\n0 1 0\n1\n",
    "2 3 1 0 1 0 1 0\n", "2\n3\n1\n0\n1\n0\n1\n0\n", "# comment\n2 2\n1 0\n# inner\n0 1\n", "2 2\n1 0 # x\n0 1\n",
    "2 2\n1 0\n\n\n0 1\n\n", "2 2\n1 a\n0 1\n", "a 2\n", "2\n", "2 2\n1 0\n0 1\n#\n", "2 2\n1 0\n0 1\n# tail\n\n",
    "-1 2\n", "2 -1\n", "2 2\n1 0\n0 3\n", "2 2\n1 0\n0 1 0\n", "2 2\n11 0\n0 1\n", "2 2\n01 00\n1 1\n",
    "2 2\n1.0 0\n0 1\n", "11 10\n" + "\n".join(" ".join("1" if (i*j) % 3 == 0 else "0" for j in range(10)) for i in range(11)) + "\n",
    "2 2\r\n1 0\r\n0 1\r\n", "\t2\t2\n\t1\t1\n\t0\t0\n", "2 2\n1 1\n0 0", " #c\n1 1\n1\n", "1 2\n1 1\n1 1\n",
]
for text in MATRIX:
    do_read(text, 'bipartite', 'matrix', 'M')
    res, _ = guarded(gr._read_graph_matrix_format, StringIO(text))
    rec('MP', text, res if res[0] == 'exc' else describe(res[1]))

GML = [
    "", "graph [\n]\n", "graph [\n node [\n id 1\n ]\n]\n",
    "graph [\n directed 1\n node [\n id 1\n ]\n node [\n id 2\n ]\n edge [\n source 1\n target 2\n ]\n]\n",
    "graph [\n directed 1\n node [\n id 1\n ]\n node [\n id 2\n ]\n edge [\n source 2\n target 1\n ]\n]\n",
    "graph [\n node [\n id 1\n ]\n node [\n id 2\n ]\n edge [\n source 1\n target 2\n ]\n]\n",
    "graph [\n node [\n id 1\n bipartite 0\n ]\n node [\n id 2\n bipartite 1\n ]\n edge [\n source 1\n target 2\n ]\n]\n",
    "graph [\n node [\n id 1\n bipartite 0\n ]\n node [\n id 2\n bipartite 0\n ]\n edge [\n source 1\n target 2\n ]\n]\n",
    "graph [\n node [\n id 1\n bipartite 2\n ]\n]\n",
    "graph [\n node [\n id 1\n ]\n node [\n id 1\n ]\n]\n", "graph [\n node [\n id 1\n ]\n edge [\n source 1\n target 5\n ]\n]\n",
    "graph [\n node [\n id 10\n ]\n node [\n id 2\n ]\n node [\n id 7\n ]\n edge [\n source 10\n target 2\n ]\n]\n",
    "graph [\n node [\n id 1\n", "garbage", "graph [\n node [\n id 1\n label \"\u00e8\"\n ]\n]\n", "graph [ node [ id 1 ] ] graph [ node [ id 2 ] ]",
]
for text in GML:
    for gtype in ('simple', 'digraph', 'dag', 'bipartite'):
        do_read(text, gtype, 'gml', 'G')

DOT = [
    "graph G {\n1;\n2;\n3;\n1 -- 2;\n}\n", "digraph G {\n1;\n2;\n1 -> 2;\n}\n", "digraph G {\n1;\n2;\n2 -> 1;\n}\n",
    "graph G {\n10;\n9;\n2;\n10 -- 2;\n9 -- 10;\n}\n", "graph G {\n1 [bipartite=0];\n2 [bipartite=1];\n1 -- 2;\n}\n",
    "graph G {\n}\n", "graph G {\n1 -- 2\n", "not a dot file {{{", "",
]
for text in DOT:
    for gtype in ('simple', 'digraph', 'dag', 'bipartite'):
        do_read(text, gtype, 'dot', 'DOT')

# ---------------------------------------------------------------- mutated corpus
mrng = random.Random(41)


def mutations(text, rng, k):
    lines = text.splitlines(True)
    out = []
    for _ in range(k):
        kind = rng.randrange(8)
        L = list(lines)
        if kind == 0 and text:
            out.append(text[:rng.randrange(len(text))])           # truncation
        elif kind == 1 and L:
            del L[rng.randrange(len(L))]; out.append("".join(L))  # drop a line
        elif kind == 2:
            L.insert(rng.randrange(len(L)+1), "\n"); out.append("".join(L))
        elif kind == 3:
            L.insert(rng.randrange(len(L)+1), "c a comment\n"); out.append("".join(L))
        elif kind == 4:
            L.insert(rng.randrange(len(L)+1), "# a comment\n"); out.append("".join(L))
        elif kind == 5 and text:
            i = rng.randrange(len(text))
            out.append(text[:i] + rng.choice("0123456789 :xe-\n") + text[i+1:])
        elif kind == 6 and len(L) > 1:
            i = rng.randrange(len(L)-1); L[i], L[i+1] = L[i+1], L[i]; out.append("".join(L))
        elif kind == 7 and L:
            i = rng.randrange(len(L)); L.insert(i, L[i]); out.append("".join(L))
    return out


for (gtype, fmt) in sorted(valid_texts):
    texts = valid_texts[(gtype, fmt)]
    if fmt == 'dot':
        continue
    sample = texts if len(texts) <= 12 else mrng.sample(texts, 12)
    per = 6 if fmt == 'gml' else 14
    for text in sample:
        for mt in mutations(text, mrng, per):
            do_read(mt, gtype, fmt, 'MUT')
            if gtype == 'digraph':
                do_read(mt, 'dag', fmt, 'MUT-dag')

# ---------------------------------------------------------------- files on disk, autodetect
import tempfile
with tempfile.TemporaryDirectory() as tmp:
    old = os.getcwd()
    os.chdir(tmp)
    try:
        G = rnd_simple(rng, 11, 0.3)
        B = rnd_bip(rng, 10, 11, 0.3)
        D = rnd_digraph(rng, 11, 0.3, True)
        for obj, gtype, fname in [(G, 'simple', 'g.kthlist'), (G, 'simple', 'g.dimacs'), (G, 'simple', 'g.gml'),
                                  (G, 'simple', 'g.matrix'), (G, 'simple', 'g.txt'), (G, 'simple', 'g'),
                                  (B, 'bipartite', 'b.matrix'), (B, 'bipartite', 'b.kthlist'), (B, 'bipartite', 'b.dimacs'),
                                  (D, 'dag', 'd.kthlist'), (D, 'dag', 'd.dimacs'), (D, 'digraph', 'd.gml')]:
            res, _ = guarded(writeGraph, obj, fname, gtype)
            rec('FW', fname, gtype, res if res[0] == 'exc' else 'ok')
            if os.path.exists(fname):
                with open(fname, encoding='utf-8') as f:
                    rec('FC', f.read())
                res, _ = guarded(readGraph, fname, gtype)
                rec('FR', fname, gtype, res if res[0] == 'exc' else describe(res[1]))
                cls = {'simple': Graph, 'bipartite': BipartiteGraph, 'dag': DirectedGraph, 'digraph': DirectedGraph}[gtype]
                res, _ = guarded(cls.from_file, fname)
                rec('FF', fname, gtype, res if res[0] == 'exc' else describe(res[1]))
        res, _ = guarded(readGraph, 'does-not-exist.kthlist', 'simple')
        rec('FR-missing', res)
    finally:
        os.chdir(old)

sys.stderr.write("records: {}\n".format(NREC[0]))
print(H.hexdigest())
