import hashlib, random, itertools, sys
sys.path.insert(0, '.')
import networkx as nx
from cnfgen.graphs import Graph
from cnfgen.families.dominatingset import unique_neighborhoods, DominatingSet, Tiling
from cnfgen.clitools.cnfgen import cli

H = hashlib.sha256()
def out(*a):
    H.update((' '.join(repr(x) for x in a) + '\n').encode())

def dump(tag, F):
    out(tag, F.number_of_variables(), len(F), list(F.clauses()),
        sorted(F.header.items()), list(F.all_variable_labels()))

def attempt(tag, fn):
    try:
        fn()
        out(tag, 'ok')
    except Exception as e:
        out(tag, type(e).__name__, str(e))

def graphs():
    rnd = random.Random(2613)
    yield Graph(0)
    for n in range(1, 8):
        yield Graph.empty_graph(n)
        yield Graph.complete_graph(n)
        yield Graph.star_graph(n)
        for p in (0.2, 0.5, 0.8):
            G = Graph(n)
            for u, v in itertools.combinations(range(1, n+1), 2):
                if rnd.random() < p:
                    G.add_edge(u, v)
            yield G
    for g in (nx.cycle_graph(7), nx.path_graph(6), nx.petersen_graph(),
              nx.disjoint_union(nx.complete_graph(3), nx.complete_graph(4)),
              nx.complete_bipartite_graph(3, 3), nx.grid_2d_graph(3, 3),
              nx.disjoint_union(nx.complete_graph(2), nx.empty_graph(3))):
        yield Graph.from_networkx(nx.convert_node_labels_to_integers(g, first_label=1))

GS = list(graphs())
for i, G in enumerate(GS):
    U = unique_neighborhoods(G)
    out('un', i, G.order(), type(U).__name__, U, [type(x).__name__ for x in U])
    # result must be a fresh list of fresh lists
    V = unique_neighborhoods(G)
    out('un-fresh', i, U == V, U is not V, all(a is not b for a, b in zip(U, V)))
    for d in range(1, 5):
        for alt in (False, True):
            attempt(('ds', i, d, alt), lambda: dump(('ds', i, d, alt), DominatingSet(G, d, alternative=alt)))
    attempt(('til', i), lambda: dump(('til', i), Tiling(G)))

attempt('nx-ds', lambda: dump('nx-ds', DominatingSet(nx.petersen_graph(), 3)))
attempt('nx-til', lambda: dump('nx-til', Tiling(nx.cycle_graph(6))))
for bad in (None, 3, 'G', nx.DiGraph([(0, 1)]), [1, 2]):
    attempt(('bad-un', type(bad).__name__), lambda: unique_neighborhoods(bad))
    attempt(('bad-ds', type(bad).__name__), lambda: DominatingSet(bad, 2))
    attempt(('bad-til', type(bad).__name__), lambda: Tiling(bad))
for badd in (0, -1, 1.5, None, '2'):
    attempt(('badd', repr(badd)), lambda: DominatingSet(GS[5], badd))

for argv in (['cnfgen', '-q', '--seed', '5', 'domset', '3', 'gnp', '8', '.4'],
             ['cnfgen', '-q', '--seed', '5', 'domset', '--alternative', '2', 'gnp', '6', '.4'],
             ['cnfgen', '-q', '--seed', '6', 'tiling', 'gnm', '8', '10'],
             ['cnfgen', '-q', 'tiling', 'grid', '3', '3'],
             ['cnfgen', '-q', 'domset', '2', 'complete', '5'],
             ['cnfgen', '-q', 'domset', '1', 'empty', '4'],
             ['cnfgen', '-q', 'domset', '0', 'complete', '3']):
    try:
        random.seed(4242)
        out('cli', argv, cli(argv, mode='string'))
    except SystemExit as e:
        out('cli', argv, 'SystemExit', e.code)
    except Exception as e:
        out('cli', argv, type(e).__name__, str(e))

print(H.hexdigest())
