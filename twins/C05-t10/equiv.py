"""Equivalence script for t10: command line helpers of the xor / majority
variable compression (cnfgen/clihelpers/transformation_helpers.py)."""
import argparse
import contextlib
import hashlib
import io
import os
import random
import sys
import tempfile

sys.path.insert(0, '.')

from cnfgen.formula.cnf import CNF
from cnfgen.graphs import BipartiteGraph
from cnfgen.clitools import cnfgen, CLIError
from cnfgen.clihelpers.transformation_helpers import (XorCompressionCmd,
                                                      MajCompressionCmd)

out = []
sys.stdin = io.StringIO('')   # never wait for input


def rec(*items):
    out.append(repr(items))


def attempt(tag, fn):
    if os.environ.get("EQDEBUG"): print(tag, file=sys.__stderr__, flush=True)
    err = io.StringIO()
    sout = io.StringIO()
    try:
        with contextlib.redirect_stderr(err), contextlib.redirect_stdout(sout):
            res = fn()
        rec(tag, 'ok', res, sout.getvalue(), err.getvalue())
    except SystemExit as e:
        rec(tag, 'exit', e.code, sout.getvalue(), err.getvalue())
    except BaseException as e:
        rec(tag, 'exc', type(e).__name__, str(e), sout.getvalue(), err.getvalue())


def dump(F):
    return (F.number_of_variables(), F.number_of_clauses(),
            [list(c) for c in F], sorted(F.header.items(), key=repr),
            list(F.all_variable_labels()))


# ---- 1. whole command line, string output (seeded random graphs)
tmpdir = tempfile.mkdtemp()
gfile = os.path.join(tmpdir, 'map.kthlist')
with open(gfile, 'w') as f:
    f.write("c test\n10\n1 : 7 8 0\n2 : 8 9 0\n3 : 0\n4 : 7 8 9 10 0\n5 : 10 0\n6 : 7 9 0\n")
badfile = os.path.join(tmpdir, 'bad.kthlist')
with open(badfile, 'w') as f:
    f.write("9\n1 : 6 7 0\n")

base_formulas = [['php', 3, 2], ['and', 2, 1], ['or', 0, 0], ['and', 0, 0],
                 ['op', 3], ['randkcnf', 3, 5, 7]]
tails = [[4], [4, 2], [5, 0], [3, 3], [1], [1, 1], [2, 3], [0], [-1], [4, -1],
         ['x'], [4, 'x'], [4, 2, 1], [],
         ['glrd', 6, 4, 2], ['glrd', 5, 4, 2], ['glrd', 6, 4, 5],
         ['complete', 6, 2], ['gnp', 6, 3, 0.5], ['gnm', 6, 4, 7],
         ['regular', 6, 3, 2], ['shift', 6, 8, 1, 2, 4],
         [gfile], ['kthlist', gfile], [badfile], ['nosuchfile.kthlist'],
         ['-h'], [2.5]]
for cmd in ['xorcomp', 'majcomp']:
    for bf in base_formulas:
        for tail in tails:
            for fmt in (['-q'], []):
                argv = ['cnfgen', '--seed', 42] + fmt + bf + ['-T', cmd] + tail
                attempt(('cli', [str(a).replace(tmpdir, 'TMP') for a in argv]),
                        lambda argv=argv: cnfgen(argv, mode='string').replace(tmpdir, 'TMP'))

# chains of transformations, and the random stream after the transformation
for cmd in ['xorcomp', 'majcomp']:
    argv = ['cnfgen', '--seed', 7, 'and', 2, 1, '-T', cmd, 4, 2, '-T', 'flip',
            '-T', cmd, 5, 2, '-T', 'shuffle']
    attempt(('chain', cmd), lambda argv=argv: cnfgen(argv, mode='string'))
    argv = ['cnfgen', '--seed', 7, '-of', 'latex', 'php', 3, 2, '-T', cmd, 5, 2]
    attempt(('latex', cmd), lambda argv=argv: cnfgen(argv, mode='string'))
    argv = ['cnfgen', '--seed', 7, '-of', 'opb', 'php', 3, 2, '-T', cmd, 5]
    attempt(('opb', cmd), lambda argv=argv: cnfgen(argv, mode='string'))

    def after(cmd=cmd):
        random.seed(1234)
        F = cnfgen(['cnfgen', 'php', 3, 2, '-T', cmd, 5, 2], mode='formula')
        return dump(F), random.random(), random.getrandbits(64)
    attempt(('stream', cmd), after)

# ---- 2. direct calls of the helpers with hand made namespaces
def formulas():
    F0 = CNF()
    F1 = CNF([[]])
    F2 = CNF([[1, -2], [2, 3], [-1, -3], []])
    F3 = CNF([[1, 1, -1], [2, -2]])
    F3.update_variable_number(5)
    F4 = CNF()
    F4.new_variable('a')
    b = F4.new_block(2, label='b_{}')
    F4.add_clause([1, -b(1)])
    F4.add_clause([-1, b(2), b(1)])
    return [F0, F1, F2, F3, F4]


def bip(L, R, edges):
    B = BipartiteGraph(L, R)
    for e in edges:
        B.add_edge(*e)
    return B


for helper in [XorCompressionCmd, MajCompressionCmd]:
    rec('name', helper.name)
    for idx, F in enumerate(formulas()):
        V = F.number_of_variables()
        namespaces = [
            argparse.Namespace(N=4, d=2),
            argparse.Namespace(N=1, d=1),
            argparse.Namespace(N=3, d=0),
            argparse.Namespace(N=2, d=3),
            argparse.Namespace(N=3, d=3, B=bip(V, 2, [])),   # N has priority
            argparse.Namespace(B=bip(V, 3, [(i, 1 + i % 3) for i in range(1, V + 1)])),
            argparse.Namespace(B=bip(V, 0, [])),
            argparse.Namespace(B=bip(V + 1, 2, [])),
            argparse.Namespace(B=None),
            argparse.Namespace(B='graph'),
            argparse.Namespace(N=4),
            argparse.Namespace(d=4),
            argparse.Namespace(),
        ]
        for j, ns in enumerate(namespaces):
            def run(helper=helper, F=F, ns=ns):
                random.seed(99)
                T = helper.transform_cnf(F, ns)
                return dump(T), random.random()
            attempt(('direct', helper.name, idx, j), run)

# parser set up: usage and description text
for helper in [XorCompressionCmd, MajCompressionCmd]:
    p = argparse.ArgumentParser(prog='cnfgen ... -T ' + helper.name)
    helper.setup_command_line(p)
    rec('usage', helper.name, p.usage, p.description)

import shutil
shutil.rmtree(tmpdir, ignore_errors=True)
print(hashlib.sha256("\n".join(out).encode('utf-8')).hexdigest())
