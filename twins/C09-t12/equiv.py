#!/usr/bin/env python
"""Equivalence script for the refactoring of
cnfgen.clitools.cnfgen.parse_command_line (splitting around '-T')."""
import sys, os, io, hashlib, contextlib, random
sys.path.insert(0, os.getcwd())

from cnfgen.clitools.cnfgen import cli, parse_command_line, setup_command_line_parsers
from cnfgen.clitools.cmdline import get_formula_helpers, get_transformation_helpers

H = hashlib.sha256()


from cnfgen.info import info
# the version comes from `git describe`: keep the digest independent of HEAD
VERSION_TAG = "CNFgen ({})".format(info['version'])


def record(*items):
    for it in items:
        H.update(repr(it).replace(VERSION_TAG, 'CNFgen (VERSION)').encode('utf-8'))
        H.update(b'\x00')


def run(argv, mode='string'):
    err = io.StringIO()
    out = io.StringIO()
    try:
        with contextlib.redirect_stderr(err), contextlib.redirect_stdout(out):
            res = cli(argv, mode=mode)
        if mode == 'formula':
            res = (res.number_of_variables(), res.number_of_clauses(),
                   list(res.clauses()), sorted(res.header.items()))
        record('OK', argv, res, out.getvalue(), err.getvalue())
    except SystemExit as e:
        record('EXIT', argv, e.code, out.getvalue(), err.getvalue())
    except BaseException as e:
        record('EXC', argv, type(e).__name__, str(e), out.getvalue(), err.getvalue())


switches = [[], ['-p'], ['-v'], ['-c'], ['-p', '-v'], ['-p', '-c'], ['-v', '-c'],
            ['-p', '-v', '-c'],
            ['--no-polarity-flips'], ['--no-variables-permutation', '--no-clauses-permutation']]
families = [['php', 4, 3], ['php', 1, 1], ['op', 4], ['and', 0, 0], ['and', 2, 3],
            ['or', 1, 0], ['parity', 3], ['randkcnf', 3, 6, 10], ['tseitin', 'first', 'cycle', 5],
            ['ram', 3, 3, 5]]

for seed in [None, 0, 1, 42, 123456, 'abc']:
    for fam in families:
        for sw in switches:
            argv = ['cnfgen', '-q']
            if seed is not None:
                argv += ['--seed', seed]
            argv += fam + ['-T', 'shuffle'] + sw
            if seed is None and (sw != ['-p', '-v', '-c'] or fam[0] == 'randkcnf'):
                continue
            if seed == 'abc' and (sw != [] or fam[0] != 'php'):
                continue
            run(argv)

# chains of transformations, positions of -T
chains = [
    ['cnfgen', '--seed', 5, 'php', 4, 3],
    ['cnfgen', '--seed', 5, 'php', 4, 3, '-T', 'shuffle'],
    ['cnfgen', '--seed', 5, 'php', 4, 3, '-T', 'shuffle', '-T', 'shuffle'],
    ['cnfgen', '--seed', 5, 'php', 4, 3, '-T', 'shuffle', '-p', '-T', 'xor', 2],
    ['cnfgen', '--seed', 5, 'php', 4, 3, '-T', 'xor', 2, '-T', 'shuffle', '-c'],
    ['cnfgen', '--seed', 5, 'php', 4, 3, '-T', 'none', '-T', 'shuffle', '-v', '-T', 'or', 2],
    ['cnfgen', '--seed', 7, '-q', 'op', 3, '-T', 'shuffle', '-T', 'flip', '-T', 'shuffle', '-p', '-v', '-c'],
    # error paths
    ['cnfgen', '--seed', 5, 'php', 4, 3, '-T'],
    ['cnfgen', '--seed', 5, 'php', 4, 3, '-T', '-T', 'shuffle'],
    ['cnfgen', '--seed', 5, 'php', 4, 3, '-T', 'shuffle', '-T'],
    ['cnfgen', '-T', 'shuffle'],
    ['cnfgen', '-T'],
    ['cnfgen'],
    ['cnfgen', '--seed', 5, 'php', 4, 3, '-T', 'shuffle', '-x'],
    ['cnfgen', '--seed', 5, 'php', 4, 3, '-T', 'shuffle', 'extra'],
    ['cnfgen', '--seed', 5, 'php', 4, 3, '-T', 'nosuch'],
    ['cnfgen', '--seed', 5, 'php', 4, '-T', 'shuffle'],
    ['cnfgen', '--seed', 5, 'php', 4, 3, '-T', 'xor'],
    ['cnfgen', '--seed', 5, 'php', 4, 3, '-T', 'shuffle', '-h'],
    ['cnfgen', '--seed', 5, 'php', 4, 3, '-Tshuffle'],
    ['-T', 'php', 4, 3],
    ['-T', '-T'],
]
for argv in chains:
    for mode in ['string', 'formula']:
        run(list(argv), mode)

# output formats
for fmt in ['dimacs', 'opb', 'latex']:
    run(['cnfgen', '--seed', 3, '-of', fmt, 'php', 3, 2, '-T', 'shuffle'])
    run(['cnfgen', '--seed', 3, '-of', fmt, 'php', 3, 2, '-T', 'shuffle', '-v'], mode='output')

# Direct calls to parse_command_line
fparser, tparser = setup_command_line_parsers('cnfgen', get_formula_helpers(),
                                              get_transformation_helpers())


def direct(argv):
    err = io.StringIO()
    try:
        with contextlib.redirect_stderr(err):
            fargs, targs = parse_command_line(argv, fparser, tparser)

        def show(ns):
            return sorted((k, repr(v)) for k, v in vars(ns).items()
                          if k not in ('generator', 'transformation', 'output'))
        record('DIRECT', argv, show(fargs), type(targs).__name__, len(targs),
               [show(t) for t in targs],
               [getattr(t, 'transformation', None) and t.transformation.name for t in targs])
    except SystemExit as e:
        record('DIRECT-EXIT', argv, e.code, err.getvalue())
    except BaseException as e:
        record('DIRECT-EXC', argv, type(e).__name__, str(e), err.getvalue())


direct([])
direct(['cnfgen'])
direct(['-T'])
direct(['cnfgen', '-T'])
direct(['cnfgen', '-T', '-T', '-T'])
direct(['cnfgen', 'php', '3', '2'])
direct(['cnfgen', 'php', '3', '2', '-T'])
direct(['cnfgen', 'php', '3', '2', '-T', 'shuffle', '-p', '-T', 'shuffle', '-c', '-T', 'xor', '2'])
direct(('cnfgen', 'php', '3', '2', '-T', 'shuffle'))
direct(['ignored', '-q', '--seed', '9', 'op', '4', '-T', 'shuffle', '-v', '-c'])
rnd = random.Random(2024)
tokens = ['-T', 'shuffle', '-p', '-v', '-c', 'php', '3', '2', '-q', 'xor', 'none', '-T']
for _ in range(60):
    k = rnd.randint(0, 9)
    direct(['cnfgen'] + [rnd.choice(tokens) for _ in range(k)])
pieces = [['shuffle'], ['shuffle', '-p'], ['shuffle', '-v', '-c'], ['shuffle', '-c', '-p', '-v'],
          ['xor', '2'], ['none'], ['flip'], [], ['shuffle', '--no-clauses-permutation']]
for _ in range(120):
    argv = ['cnfgen'] + rnd.choice([[], ['-q'], ['--seed', '11']]) + rnd.choice([['php', '3', '2'], ['op', '3'], []])
    for _ in range(rnd.randint(0, 4)):
        argv += ['-T'] + rnd.choice(pieces)
    direct(argv)
    run(argv if '--seed' in argv else argv[:1] + ['--seed', '4'] + argv[1:])

print(H.hexdigest())
