"""Equivalence script for refactoring t11 (property C04).

Exercises BinaryMappingVariables.indices (and everything built on it:
__call__, label, to_dict, forbid and the force_*_mapping builders for
binary mappings), on CNF and OPB formulas, including error paths.
"""
import hashlib
import sys

sys.path.insert(0, '.')

from cnfgen.formula.cnf import CNF
from cnfgen.formula.opb import OPB
from cnfgen.formula.basecnf import BaseCNF
from cnfgen.formula.variables import BinaryMappingVariables

out = []


def rec(*args):
    out.append(repr(args))


def materialise(res):
    if isinstance(res, (int, str, tuple, type(None))):
        return res
    return [type(res).__name__ in ('generator', 'list'), list(res)]


def attempt(tag, fn):
    try:
        res = materialise(fn())
        rec(tag, 'ok', res)
    except Exception as e:  # noqa
        rec(tag, 'exc', type(e).__name__, str(e))


shapes = [(0, 0), (0, 5), (3, 0), (1, 1), (1, 2), (2, 2), (3, 3), (2, 4),
          (4, 5), (3, 8), (5, 9), (2, 17)]

weird = [None, 0, 1, 2, -1, 100, 1.0, 2.5, True, 'a', (1,), [1]]

for (n, m) in shapes:
    for prev in [0, 7]:
        F = BaseCNF()
        F.update_variable_number(prev)
        f = BinaryMappingVariables(F, n, m)
        tag = ('bm', n, m, prev)
        rec(tag, 'len', len(f), f.bits(), list(f.domain()), list(f.range()),
            f.flips)
        attempt((tag, 'indices()'), lambda: f.indices())
        attempt((tag, 'indices(None,None)'), lambda: f.indices(None, None))
        attempt((tag, 'call()'), lambda: f())
        attempt((tag, 'label()'), lambda: f.label())
        attempt((tag, 'to_dict'), lambda: sorted(f.to_dict().items()))
        for i in range(-1, n + 3):
            attempt((tag, 'indices i', i), lambda: f.indices(i, None))
            attempt((tag, 'call i', i), lambda: f(i, None))
            attempt((tag, 'label i', i), lambda: f.label(i, None))
            for b in range(-1, f.bits() + 2):
                attempt((tag, 'indices ib', i, b), lambda: f.indices(i, b))
                attempt((tag, 'call ib', i, b), lambda: f(i, b))
                attempt((tag, 'label ib', i, b), lambda: f.label(i, b))
            for j in range(-1, 2 ** f.bits() + 2):
                attempt((tag, 'forbid', i, j), lambda: f.forbid(i, j))
        for b in range(-1, f.bits() + 2):
            attempt((tag, 'indices b', b), lambda: f.indices(None, b))
            attempt((tag, 'call b', b), lambda: f(None, b))
        # wrong number of arguments
        attempt((tag, 'one arg'), lambda: f.indices(1))
        attempt((tag, 'one arg None'), lambda: f.indices(None))
        attempt((tag, 'three args'), lambda: f.indices(1, 0, 0))
        attempt((tag, 'call one arg'), lambda: f(1))
        attempt((tag, 'call three args'), lambda: f(1, None, 0))
        # odd argument types
        for w in weird:
            attempt((tag, 'weird i', repr(w)), lambda: f.indices(w, None))
            attempt((tag, 'weird b', repr(w)), lambda: f.indices(None, w))
            attempt((tag, 'weird ib', repr(w)), lambda: f.indices(w, w))
            attempt((tag, 'weird call', repr(w)), lambda: f(w, 0))
        for lit in list(f.ids) + [-x for x in f.ids] + [0, prev, prev + len(f) + 1]:
            attempt((tag, 'to_index', lit), lambda: f.to_index(lit))

# laziness: the returned generator is independent of later calls
F = BaseCNF()
f = BinaryMappingVariables(F, 3, 5)
g1 = f.indices(2, None)
g2 = f.indices(None, 1)
g3 = f.indices()
rec('interleaved', next(g1), next(g2), next(g3), list(g2), list(g1), list(g3))
rec('type', type(f.indices()).__name__, type(f.indices(1, 1)).__name__,
    type(f(1, None)).__name__)

# the mapping constraint builders for binary mappings
for (n, m) in shapes:
    for cls in (CNF, OPB):
        for prev in [0, 2]:
            tag = ('force', n, m, cls.__name__, prev)
            for name in ['force_complete_mapping', 'force_functional_mapping',
                         'force_surjective_mapping', 'force_injective_mapping',
                         'force_nondecreasing_mapping']:
                F = cls()
                F.update_variable_number(prev)
                f = F.new_binary_mapping(n, m)
                attempt((tag, name), lambda: getattr(F, name)(f))
                rec(tag, name, F.number_of_variables(), list(F))
            F = cls()
            F.update_variable_number(prev)
            f = F.new_binary_mapping(n, m, label='w[{}]<{}>')
            F.force_complete_mapping(f)
            F.force_injective_mapping(f)
            F.force_nondecreasing_mapping(f)
            rec(tag, 'all', F.number_of_variables(), list(F),
                list(F.all_variable_labels()))
            if cls is CNF:
                rec(tag, 'dimacs', F.to_dimacs())
            else:
                rec(tag, 'opb', F.to_opb())

attempt('negative n', lambda: CNF().new_binary_mapping(-1, 3))
attempt('negative m', lambda: CNF().new_binary_mapping(3, -1))
attempt('direct negative', lambda: BinaryMappingVariables(BaseCNF(), -2, 3))
attempt('bad label', lambda: CNF().new_binary_mapping(2, 3, label='{}{}{}').label(1, 0))

digest = hashlib.sha256("\n".join(out).encode('utf-8')).hexdigest()
print(digest)
