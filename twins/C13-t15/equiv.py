#!/usr/bin/env python
"""Equivalence digest for the t15 refactoring (CNFLinear.add_parity).

Exercises the CNF encoding of parity constraints directly (all widths,
constants, literal signs, check on/off, generators, bad literals) and
through RandomKXOR / the `cnfgen randkxor` command line, and prints one
SHA256 of everything observed.
"""
import sys, os, io, hashlib, random, itertools, contextlib
sys.path.insert(0, os.getcwd())

from cnfgen.formula.cnf import CNF
from cnfgen.formula.linear import CNFLinear
from cnfgen.families.randomkxor import RandomKXOR, sample_parities, all_good_parities
from cnfgen.clitools.cnfgen import cli as cnfgen_cli

H = hashlib.sha256()
def emit(*xs):
    H.update((" ".join(repr(x) for x in xs) + "\n").encode())

def attempt(tag, f):
    try:
        r = f()
        emit(tag, 'ok', r)
    except SystemExit as e:
        emit(tag, 'exit', e.code)
    except Exception as e:
        emit(tag, 'exc', type(e).__name__, str(e))

# 1. add_parity directly
for cls in (CNFLinear, CNF):
    for width in range(0, 7):
        for lits in ([i + 1 for i in range(width)],
                     [-(i + 1) if i % 2 else (i + 3) for i in range(width)]):
            for const in (0, 1, 2, -1, True, False, 3.0, '1', None):
                for check in (True, False):
                    def run():
                        F = cls()
                        F.add_parity(lits, const, check=check)
                        return (F.number_of_variables(), len(F), list(F))
                    attempt(('ap', cls.__name__, lits, const, check), run)
def gen_run():
    F = CNF()
    F.add_parity((x for x in [2, -5, 7]), 1)
    F.add_parity((x for x in [1, 4]), 0, check=False)
    return F.number_of_variables(), list(F), F.to_dimacs()
attempt('gen', gen_run)
for bad in ([0, 1], [1, 'a'], [1.5, 2], [None], [[1], 2]):
    for check in (True, False):
        def run():
            F = CNF()
            F.add_parity(bad, 1, check=check)
            return F.number_of_variables(), list(F)
        attempt(('bad', bad, check), run)

# 2. RandomKXOR
def planted_for(n, seed, how_many):
    rng = random.Random(repr(seed))
    return [[rng.choice([-1, 1]) * v for v in range(1, n + 1)] for _ in range(how_many)]

for n in range(0, 7):
    for k in range(0, 8):
        full = 2 * len(list(itertools.combinations(range(n), k))) if k <= n else 0
        ms = sorted(set([0, 1, 2, full // 2, full - 1, full, full + 1, full + 5]))
        for m in ms:
            if m < 0:
                continue
            for seed in (0, 1, 'abc'):
                for np_ in (None, 0, 1, 2, 3):
                    pl = None if np_ is None else planted_for(n, (n, k, np_), np_)
                    def run():
                        F = RandomKXOR(k, n, m, seed=seed, planted_assignments=pl)
                        return (F.number_of_variables(), len(F), list(F),
                                random.random())
                    attempt(('xor', k, n, m, seed, np_), run)

for args in [(-1, 3, 2), (2, -3, 1), (2, 3, -1), (2.0, 3, 1), ('2', 3, 1), (2, 3, None)]:
    attempt(('xorbad', args), lambda: list(RandomKXOR(*args, seed=5)))
# partial planted assignment -> error path
attempt('partial', lambda: list(RandomKXOR(2, 4, 3, seed=3, planted_assignments=[[1, -2]])))
random.seed(77)
attempt('unseeded', lambda: (list(RandomKXOR(3, 9, 20)), random.random()))
random.seed(78)
for m_ in (0, 7, 15, 20, 21, 30):
    attempt(('sample', m_), lambda: (sample_parities(3, 6, m_, [[1, 2, -3, 4, -5, 6]]), random.random()))
attempt('allgood', lambda: list(all_good_parities(2, 5, [[1, -2, 3, -4, 5]])))

# 3. command line
def run_cli(argv, mode):
    out, err = io.StringIO(), io.StringIO()
    with contextlib.redirect_stdout(out), contextlib.redirect_stderr(err):
        try:
            r = cnfgen_cli(argv, mode=mode)
            if mode == 'formula':
                r = (r.number_of_variables(), list(r))
            res = ('ok', r)
        except SystemExit as e:
            res = ('exit', e.code)
        except Exception as e:
            res = ('exc', type(e).__name__, str(e))
    emit('cli', argv, mode, res, out.getvalue(), err.getvalue())

for k, n, m in [(3, 10, 7), (1, 1, 2), (1, 1, 3), (2, 4, 12), (2, 4, 13), (5, 4, 1),
                (3, 5, 0), (4, 6, 9), (0, 3, 1), (2, 0, 1), (2, 3, -1)]:
    for plant in ([], ['-p'], ['--plant']):
        for seed in (1, 42):
            for mode in ('string', 'formula'):
                run_cli(['cnfgen', '-q', '--seed', seed, 'randkxor', k, n, m] + plant, mode)
run_cli(['cnfgen', '--seed', 9, 'randkxor', 3, 6, 5, '-p'], 'output')
run_cli(['cnfgen', '--seed', 9, '-of', 'latex', 'randkxor', 2, 4, 3], 'string')
run_cli(['cnfgen', '--seed', 9, 'randkxor', 3, 6, 5, '-T', 'shuffle'], 'string')
run_cli(['cnfgen', 'randkxor', 3, 6], 'string')

print(H.hexdigest())
