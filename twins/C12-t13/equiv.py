"""Equivalence check for cnfgen.formula.cnfio.guess_output_format (C12).

The function decides whether CNF.to_file / OPB.to_file and the command line
tools `cnfgen` / `pbgen` emit OPB, LaTeX or DIMACS.  It is exercised directly
(requests, file names, file-like objects, error paths) and through the
writers and the command line drivers.
"""
import contextlib
import hashlib
import io
import os
import pathlib
import sys
import tempfile

sys.path.insert(0, os.getcwd())

from cnfgen.formula.cnf import CNF
from cnfgen.formula.opb import OPB
from cnfgen.formula.cnfio import guess_output_format
import cnfgen.formula.opbio as opbio
import importlib
pbgen = importlib.import_module('cnfgen.clitools.pbgen')
cnfgencli = importlib.import_module('cnfgen.clitools.cnfgen')

OUT = []


def rec(*items):
    OUT.append(repr(items))


def attempt(tag, fn):
    try:
        rec(tag, 'ok', fn())
    except SystemExit as e:
        rec(tag, 'exit', e.code)
    except BaseException as e:  # noqa
        rec(tag, 'exc', type(e).__name__, str(e))


class Named:
    def __init__(self, name):
        self.name = name

    def __repr__(self):
        return 'Named({!r})'.format(self.name)


class Raising:
    def __init__(self, exc):
        self.exc = exc

    @property
    def name(self):
        raise self.exc

    def __repr__(self):
        return 'Raising({!r})'.format(self.exc)


class StrSubclass(str):
    pass


class FsPath:
    def __init__(self, p):
        self.p = p

    def __fspath__(self):
        return self.p

    def __repr__(self):
        return 'FsPath({!r})'.format(self.p)


NAMES = ['a.tex', 'a.opb', 'a.cnf', 'a.dimacs', 'a', '', '.', '.tex', '.opb',
         'a.', 'a.tex.opb', 'a.opb.tex', 'a.TEX', 'a.Opb', 'a.tex ', 'a.texx',
         'a.latex', 'dir.tex/file', 'dir.opb/file.cnf', 'dir/file.tex',
         'tex', 'opb', 'a..tex', 'a.t.ex', '-', '<stdout>', 'x.tex\n',
         'αβγ.tex', 'αβγ.opb', 'a.o pb', 'a.tex.', 'a\\b.opb']

REQUESTS = [None, 'latex', 'dimacs', 'opb', 'tex', 'LATEX', 'Opb', '', ' ',
            'cnf', 0, 1, False, True, [], (), ['latex'], ('opb',), b'opb',
            3.5, StrSubclass('latex'), StrSubclass('other')]


def direct():
    targets = [None]
    targets += NAMES
    targets += [StrSubclass(n) for n in ['a.tex', 'a.opb', 'a']]
    targets += [Named(n) for n in NAMES]
    targets += [Named(x) for x in [None, 0, 3, 2.5, b'a.tex', b'a.opb', b'a',
                                   ['a.tex'], ('a', '.tex'),
                                   pathlib.PurePosixPath('d/a.tex'),
                                   pathlib.PurePosixPath('d/a.opb'),
                                   FsPath('q.tex'), FsPath(b'q.opb'), FsPath(5)]]
    targets += [Raising(e) for e in [AttributeError('no name'),
                                     ValueError('closed'),
                                     IndexError('idx'),
                                     KeyError('key'),
                                     TypeError('type'),
                                     OSError('os'),
                                     RuntimeError('rt')]]
    targets += [pathlib.PurePosixPath(n) for n in ['a.tex', 'd/b.opb', 'c.cnf', 'noext']]
    targets += [io.StringIO(), io.BytesIO(), sys.stdout, sys.stderr, 7, 2.0,
                [], {}, object, b'a.tex']
    for t in targets:
        for r in REQUESTS:
            attempt(('direct', repr(t) if not isinstance(t, io.IOBase)
                     else type(t).__name__, repr(r)),
                    lambda: guess_output_format(t, r))
    # the object shared by the modules that import it
    rec('same-object', opbio.guess_output_format is guess_output_format,
        pbgen.guess_output_format is guess_output_format,
        cnfgencli.guess_output_format is guess_output_format)


def small_cnf():
    F = CNF(description='small cnf')
    x = F.new_block(3, label='x_{}')
    F.add_clause([x(1), -x(2)])
    F.add_clause([])
    F.add_clause([-x(1), x(2), x(3)])
    return F


def small_opb():
    F = OPB(description='small opb')
    y = F.new_block(3, label='y_{}')
    F.add_constraint([(2, y(1)), (3, -y(2)), '>=', 2])
    F.add_constraint(['>=', 0])
    F.add_constraint([(1, y(1)), (1, y(2)), (4, y(3)), '==', 4])
    return F


def writers(tmpdir):
    formulas = [('cnf', small_cnf()), ('opb', small_opb()),
                ('cnf-empty', CNF()), ('opb-empty', OPB())]
    fnames = ['f.tex', 'f.opb', 'f.cnf', 'f', 'f.tex.opb', 'f.TEX', '.tex',
              'f.opb.tex', 'f.txt']
    formats = [None, 'latex', 'opb', 'dimacs', 'tex', 'bogus', 0]
    for tag, F in formulas:
        for fname in fnames:
            for ff in formats:
                path = os.path.join(tmpdir, fname)
                if os.path.exists(path):
                    os.remove(path)
                attempt(('to_file', tag, fname, repr(ff)),
                        lambda: F.to_file(path, fileformat=ff,
                                          export_varnames=True))
                if os.path.exists(path):
                    with open(path, 'rb') as fh:
                        rec(('content', tag, fname, repr(ff)), fh.read())
                else:
                    rec(('content', tag, fname, repr(ff)), None)
        # open file objects: their name decides
        for fname in fnames:
            path = os.path.join(tmpdir, 'obj-' + fname)
            def by_object():
                with open(path, 'w', encoding='utf-8') as fh:
                    F.to_file(fh)
                with open(path, 'rb') as fh:
                    return fh.read()
            attempt(('to_file-object', tag, fname), by_object)
        # nameless file objects and explicit requests
        for ff in formats:
            def in_memory():
                buf = io.StringIO()
                F.to_file(buf, fileformat=ff, export_header=False)
                return buf.getvalue()
            attempt(('to_file-stringio', tag, repr(ff)), in_memory)
        # standard output
        for ff in [None, 'opb', 'latex']:
            def on_stdout():
                buf = io.StringIO()
                with contextlib.redirect_stdout(buf):
                    F.to_file(None, fileformat=ff)
                return buf.getvalue()
            attempt(('to_file-stdout', tag, repr(ff)), on_stdout)
        for named in [Named('z.tex'), Named(5), Raising(ValueError('closed'))]:
            attempt(('to_file-fake', tag, repr(named)),
                    lambda: F.to_file(named))


def run_cli(tag, cli, argv, tmpdir):
    out, err = io.StringIO(), io.StringIO()
    cwd = os.getcwd()
    os.chdir(tmpdir)
    try:
        with contextlib.redirect_stdout(out), contextlib.redirect_stderr(err):
            attempt((tag, 'call', tuple(argv)), lambda: cli(list(argv)))
    finally:
        os.chdir(cwd)
    rec((tag, 'stdout', tuple(argv)), out.getvalue())
    rec((tag, 'stderr', tuple(argv)), err.getvalue())
    for fname in sorted(os.listdir(tmpdir)):
        path = os.path.join(tmpdir, fname)
        if fname.startswith('cli'):
            with open(path, 'rb') as fh:
                rec((tag, 'file', fname, tuple(argv)), fh.read())
            os.remove(path)


def command_lines(tmpdir):
    outs = [[], ['-o', '-'], ['-o', 'cli.tex'], ['-o', 'cli.opb'],
            ['-o', 'cli.cnf'], ['-o', 'cli'], ['-o', 'cli.tex.opb']]
    pb_formats = [[], ['-of', 'latex'], ['-of', 'opb'], ['--latex']]
    cnf_formats = [[], ['-of', 'latex'], ['-of', 'opb'], ['-of', 'dimacs'],
                   ['--latex']]
    for o in outs:
        for f in pb_formats:
            for v in [[], ['-q'], ['--varnames']]:
                run_cli('pbgen', pbgen.cli,
                        ['pbgen'] + o + f + v + ['php', 3, 2], tmpdir)
        for f in cnf_formats:
            for v in [[], ['-q']]:
                run_cli('cnfgen', cnfgencli.cli,
                        ['cnfgen'] + o + f + v + ['php', 3, 2], tmpdir)
    # format names rejected by the parsers
    run_cli('pbgen', pbgen.cli, ['pbgen', '-of', 'dimacs', 'php', 3, 2], tmpdir)
    run_cli('pbgen', pbgen.cli, ['pbgen', '-of', 'tex', 'php', 3, 2], tmpdir)
    run_cli('cnfgen', cnfgencli.cli, ['cnfgen', '-of', 'tex', 'php', 3, 2], tmpdir)
    # string mode
    for f in pb_formats:
        attempt(('pbgen-string', tuple(f)),
                lambda: pbgen.cli(['pbgen'] + f + ['php', 3, 2], mode='string'))
    for f in cnf_formats:
        attempt(('cnfgen-string', tuple(f)),
                lambda: cnfgencli.cli(['cnfgen'] + f + ['php', 3, 2], mode='string'))
    # (the parsers open the output file, so run inside the scratch directory)
    for o in outs[2:]:
        run_cli('pbgen-string-o',
                lambda argv: pbgen.cli(argv, mode='string'),
                ['pbgen'] + o + ['php', 3, 2], tmpdir)
        run_cli('cnfgen-string-o',
                lambda argv: cnfgencli.cli(argv, mode='string'),
                ['cnfgen'] + o + ['php', 3, 2], tmpdir)


def main():
    direct()
    with tempfile.TemporaryDirectory() as d:
        writers(d)
    with tempfile.TemporaryDirectory() as d:
        command_lines(d)
    blob = "\n".join(OUT).encode('utf-8')
    if os.environ.get('EQUIV_DUMP'):
        with open(os.environ['EQUIV_DUMP'], 'wb') as fh:
            fh.write(blob)
    print(hashlib.sha256(blob).hexdigest())


if __name__ == '__main__':
    main()
