"""Equivalence harness for GraphEdgesVariables.indices (C11)."""
import hashlib
import itertools
import random
import sys
sys.path.insert(0, '.')

from cnfgen.formula.cnf import CNF
from cnfgen.formula.basecnf import BaseCNF
from cnfgen.formula.variables import GraphEdgesVariables
from cnfgen.graphs import Graph

OUT = []


def rec(*args):
    OUT.append(repr(args))


def attempt(tag, fn, *args):
    """Call, then consume lazily: creation errors and iteration errors are recorded separately"""
    try:
        res = fn(*args)
    except Exception as e:  # noqa
        rec(tag, args, 'exc-call', type(e).__name__, str(e))
        return
    kind = type(res).__name__
    if isinstance(res, (int, str, tuple)):
        rec(tag, args, 'ok', kind, res)
        return
    items = []
    try:
        for x in res:
            items.append(x)
        rec(tag, args, 'ok-iter', kind, items)
    except Exception as e:  # noqa
        rec(tag, args, 'exc-iter', kind, items, type(e).__name__, str(e))


def graphs():
    yield 'empty0', Graph(0)
    yield 'empty1', Graph(1)
    yield 'empty4', Graph(4)
    G = Graph(2)
    G.add_edge(2, 1)
    yield 'edge', G
    G = Graph(5)
    for u, v in [(2, 1), (3, 2), (1, 3), (4, 2), (5, 4), (5, 1)]:
        G.add_edge(u, v)
    yield 'doc', G
    G = Graph(6)
    for v in range(2, 7):
        G.add_edge(1, v)
    yield 'star', G
    G = Graph(6)
    for v in range(1, 6):
        G.add_edge(6, v)
    yield 'star-last', G
    G = Graph(5)
    for u, v in itertools.combinations(range(1, 6), 2):
        G.add_edge(v, u)
    yield 'complete', G
    rnd = random.Random(20261003)
    for t in range(12):
        n = rnd.randint(1, 8)
        G = Graph(n)
        for u, v in itertools.combinations(range(1, n + 1), 2):
            if rnd.random() < 0.4:
                if rnd.random() < 0.5:
                    G.add_edge(u, v)
                else:
                    G.add_edge(v, u)
        yield 'rnd%d' % t, G


for name, G in graphs():
    for offset in (0, 3):
        F = BaseCNF()
        F.update_variable_number(offset)
        V = GraphEdgesVariables(F, G, labelfmt='E[{},{}]')
        n = G.number_of_vertices()
        rec('shape', name, offset, n, len(V), list(V))
        vals = [None] + list(range(-1, n + 3))
        for u in vals:
            for v in vals:
                attempt('indices', V.indices, u, v)
                attempt('call', V, u, v)
                attempt('label', V.label, u, v)
        attempt('indices', V.indices)
        attempt('call', V)
        attempt('label', V.label)
        for pat in ((1,), (None,), (1, 2, 3), (None, None, None)):
            attempt('indices-arity', V.indices, *pat)
            attempt('call-arity', V, *pat)
        # laziness: the generator for a one-vertex pattern is not evaluated until consumed
        for w in (0, 1, n, n + 1):
            for pat in ((w, None), (None, w)):
                try:
                    it = V.indices(*pat)
                    rec('lazy', pat, type(it).__name__)
                    first = next(it, 'END')
                    rec('lazy-first', pat, first)
                    rec('lazy-rest', pat, list(it))
                except Exception as e:  # noqa
                    rec('lazy-exc', pat, type(e).__name__, str(e))
        # round trips
        for vid in V:
            idx = V.to_index(vid)
            rec('rt', vid, idx, V.to_index(-vid), V(*idx), V(*idx[::-1]), V.label(*idx))
        for lit in (0, offset, offset + len(V) + 1, -(offset + len(V) + 1)):
            attempt('to_index', V.to_index, lit)
        rec('dict', sorted(V.to_dict().items()))

# through the CNF interface with interleaved operations
for name, G in graphs():
    F = CNF()
    x = F.new_variable('x')
    F.add_clause([x, -3])
    e = F.new_graph_edges(G, label='e_{}_{}')
    F.update_variable_number(F.number_of_variables() + 1)
    d = F.new_graph_edges(G)
    F.add_clause([F.number_of_variables() + 2])
    rec('cnf', name, F.number_of_variables(), list(F.all_variable_labels()))
    for w in range(0, G.number_of_vertices() + 2):
        attempt('cnf-star', e, w, None)
        attempt('cnf-star', d, None, w)
        attempt('cnf-star-label', d.label, w, None)
    for w in range(1, G.number_of_vertices() + 1):
        F.add_clause(list(e(w, None)))
        F.add_clause([-l for l in d(None, w)])
    rec('dimacs', F.to_dimacs())

digest = hashlib.sha256('\n'.join(OUT).encode('utf-8')).hexdigest()
print(digest)
