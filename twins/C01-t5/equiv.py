"""Equivalence harness for the refactoring of
cnfgen/clihelpers/php_helpers.py (is_some_number, PHPArgs.__call__).

Runs the `cnfgen php ...` command line in-process on many argument
lists (numeric forms, graph forms, error forms) and hashes every
observable: the produced text or the exception type and message.
"""
import sys, os, hashlib, random, argparse
sys.path.insert(0, os.getcwd())

from cnfgen.clitools.cnfgen import cli
from cnfgen.clihelpers.php_helpers import is_some_number, PHPArgs

out = []


def record(*items):
    out.append(repr(items))


def run(argv, fmt='dimacs'):
    random.seed(1234)
    full = ['cnfgen', '-q', '--seed', '17'] + argv
    try:
        F = cli(full, mode='formula')
        record('OK', argv, F.header.get('description'),
               F.number_of_variables(), list(map(list, F.clauses())),
               list(F.all_variable_labels()))
        random.seed(1234)
        record('TXT', cli(['cnfgen', '--seed', '17', '-of', fmt] + argv, mode='string'))
    except SystemExit as e:
        record('EXIT', argv, e.code)
    except BaseException as e:
        record('EXC', argv, type(e).__name__, str(e))


# is_some_number on its own
for s in ['0', '1', '12', '-3', '+4', '1.5', '1e3', 'nan', 'inf', '-inf',
          '', ' ', ' 7 ', '0x10', '1_0', 'gnp', 'regular', 'graph.gml',
          'complete', '٣', '1,2', '--', 'e', '.', '.5', '5.']:
    try:
        record('ISNUM', s, is_some_number(s))
    except BaseException as e:
        record('ISNUM-EXC', s, type(e).__name__, str(e))

# numeric forms
flagsets = [[], ['--functional'], ['--onto'], ['--functional', '--onto']]
for flags in flagsets:
    for vals in [['0'], ['1'], ['2'], ['3'], ['0', '0'], ['0', '3'], ['3', '0'],
                 ['1', '1'], ['3', '2'], ['2', '3'], ['4', '4'], ['5', '3'],
                 ['4', '3', '3'], ['4', '3', '2'], ['4', '3', '1'], ['4', '3', '0'],
                 ['5', '4', '2'], ['0', '0', '0'], ['3', '3', '3'], ['2', '5', '4'],
                 ['+3', '2'], [' 3', '2 '], ['1_0', '2']]:
        run(['php'] + flags + vals)
        run(['php'] + vals + flags)

# errors of the numeric forms
for vals in [[], ['1', '2', '3', '4'], ['1', '2', '3', '4', '5'],
             ['-1'], ['3', '-2'], ['1.5'], ['2', '1.5'], ['1e3'], ['nan'], ['inf'],
             ['3', 'x'], ['3', '2', 'y'], ['3', '2', '3'], ['3', '2', '10'],
             ['0', '0', '1'], ['3', '2', '-1'], ['3', ''], ['3', 'gnp'],
             ['0x10'], ['.5'], ['5.'], ['-0'], ['2', '-0']]:
    for flags in ([], ['--functional', '--onto']):
        run(['php'] + flags + vals)

# graph forms (first argument not a number)
for spec in [['complete', '3', '2'], ['complete', '2', '3'], ['complete', '0', '0'],
             ['gnp', '4', '3', '0.5'], ['gnm', '4', '4', '7'], ['regular', '4', '4', '2'],
             ['glrd', '5', '4', '2'], ['glrp', '4', '3', '0.6'], ['shift', '5', '4', '1', '2'],
             ['complete', '3'], ['gnp', '4'], ['nosuchgraph', '3', '3'],
             ['nosuchfile.gml'], ['complete', '3', '2', 'plantclique', '2'],
             ['complete', 'x', '2'], ['regular', '4', '3', '2'], ['glrd', '3', '2', '5']]:
    for flags in flagsets[:1] + flagsets[3:]:
        run(['php'] + flags + spec)

run(['php', '4', '3'], fmt='latex')
run(['php', 'complete', '3', '2'], fmt='opb')

# direct use of the argparse action with a recording parser
class P(argparse.ArgumentParser):
    def error(self, message):
        raise RuntimeError('PARSER-ERROR: ' + str(message))

for vals in [[], ['3'], ['3', '2'], ['5', '4', '2'], ['5', '4', '9'], ['1', '2', '3', '4'],
             ['-1'], ['x', '1', '2', '3', '4', '5'], ['1.0'], ['7', '7', '7'], ['0']]:
    p = P(prog='php')
    ns = argparse.Namespace()
    act = PHPArgs(option_strings=[], dest='pigeonholes', nargs='*')
    try:
        res = act(p, ns, vals)
        record('ACT', vals, res, sorted((k, repr(v)) for k, v in vars(ns).items()))
    except BaseException as e:
        record('ACT-EXC', vals, type(e).__name__, str(e).splitlines()[:3],
               sorted((k, repr(v)) for k, v in vars(ns).items()))

print(hashlib.sha256("\n".join(out).encode('utf-8')).hexdigest())
