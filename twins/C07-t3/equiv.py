"""Equivalence script for the refactoring of cnfgen.graphs.add_random_missing_edges"""
import hashlib
import io
import os
import random
import sys
from contextlib import redirect_stderr

sys.path.insert(0, os.getcwd())

from cnfgen.graphs import Graph, BipartiteGraph, DirectedGraph
from cnfgen.graphs import add_random_missing_edges, split_random_edges
from cnfgen.clitools.cnfgen import cli as cnfgencli

H = hashlib.sha256()


def emit(*items):
    for x in items:
        H.update(repr(x).encode('utf8'))
        H.update(b'\n')


def dump(G):
    return (type(G).__name__, G.number_of_vertices(), G.number_of_edges(),
            list(G.edges()), G.name)


def observe(tag, fn, G=None):
    try:
        res = fn()
    except SystemExit as e:
        emit(tag, 'EXIT', e.code)
    except Exception as e:
        emit(tag, 'EXC', type(e).__name__, str(e))
    else:
        emit(tag, 'VAL', res)
    if G is not None:
        emit(tag, 'GRAPH', dump(G))
    emit(tag, 'RND', random.random())


def simple_graph(n, m, rnd):
    """A simple graph with n vertices and m edges, built deterministically"""
    G = Graph(n)
    pairs = [(u, v) for u in range(1, n + 1) for v in range(u + 1, n + 1)]
    rnd.shuffle(pairs)
    for u, v in pairs[:m]:
        G.add_edge(u, v)
    return G


def bip_graph(l, r, m, rnd):
    G = BipartiteGraph(l, r)
    pairs = [(u, v) for u in range(1, l + 1) for v in range(1, r + 1)]
    rnd.shuffle(pairs)
    for u, v in pairs[:m]:
        G.add_edge(u, v)
    return G


rnd = random.Random(2024)

# simple graphs: sparse, half full, almost complete (forces the dense
# fallback), complete, tiny ones
for n in [2, 3, 5, 8, 12]:
    total = n * (n - 1) // 2
    for base in sorted(set([0, 1, total // 2, max(total - 3, 0), max(total - 1, 0), total])):
        missing = total - base
        for m in sorted(set([0, 1, 2, missing - 1, missing, missing + 1, -1])):
            for seed in [0, 1, 77, None]:
                G = simple_graph(n, base, rnd)
                if seed is None:
                    random.seed(1234)
                    observe(('simple', n, base, m, 'global'),
                            lambda: add_random_missing_edges(G, m), G)
                else:
                    observe(('simple', n, base, m, seed),
                            lambda: add_random_missing_edges(G, m, seed=seed), G)

# one vertex / no vertices
for n in [0, 1]:
    for m in [0, 1]:
        G = Graph(n)
        observe(('tiny', n, m), lambda: add_random_missing_edges(G, m, seed=3), G)

# bipartite graphs
for (l, r) in [(1, 1), (2, 3), (4, 4), (3, 7)]:
    total = l * r
    for base in sorted(set([0, total // 2, max(total - 2, 0), total])):
        missing = total - base
        for m in sorted(set([0, 1, missing - 1, missing, missing + 1, -2])):
            for seed in [0, 5, None]:
                G = bip_graph(l, r, base, rnd)
                if seed is None:
                    random.seed(4321)
                    observe(('bip', l, r, base, m, 'global'),
                            lambda: add_random_missing_edges(G, m), G)
                else:
                    observe(('bip', l, r, base, m, seed),
                            lambda: add_random_missing_edges(G, m, seed=seed), G)

# chained with the other random modifier
for seed in [0, 8]:
    G = simple_graph(7, 18, rnd)
    random.seed(seed)
    observe(('chain1', seed), lambda: add_random_missing_edges(G, 3), G)
    observe(('chain2', seed), lambda: split_random_edges(G, 4), G)
    observe(('chain3', seed), lambda: add_random_missing_edges(G, 30), G)
    observe(('chain4', seed), lambda: add_random_missing_edges(G, 1), G)

# command line: graph argument modifier `addedges`
def runcli(argv):
    err = io.StringIO()
    with redirect_stderr(err):
        res = cnfgencli(argv, mode='string')
    return (res, err.getvalue())

for seed in [0, 1, 42]:
    for cmd in [['kclique', 3, 'gnm', 7, 19, 'addedges', 2],
                ['kclique', 3, 'gnm', 7, 19, 'addedges', 3],
                ['kclique', 3, 'gnm', 7, 10, 'addedges', 11],
                ['kclique', 3, 'complete', 5, 'addedges', 0],
                ['kclique', 3, 'complete', 5, 'addedges', 1],
                ['kcolor', 3, 'gnp', 8, 0.9, 'addedges', 2],
                ['kcolor', 3, 'gnd', 8, 6, 'plantclique', 4, 'addedges', 3],
                ['kcolor', 3, 'grid', 3, 3, 'addedges', 24],
                ['kcolor', 3, 'grid', 3, 3, 'addedges', 24, 'splitedges', 5],
                ['php', 'glrm', 4, 5, 18, 'addedges', 2],
                ['php', 'glrp', 4, 5, 0.9, 'addedges', 1],
                ['php', 'glrd', 4, 5, 4, 'addedges', 4],
                ['php', 'glrd', 4, 5, 4, 'addedges', 5],
                ['kclique', 3, 'gnm', 7, 19, 'addedges', -1]]:
        observe(('cli', seed, tuple(cmd)), lambda: runcli(['cnfgen', '--seed', seed] + cmd))

print(H.hexdigest())
