"""Equivalence script for refactoring t17 (BipartiteGraph.from_networkx in graphs.py).

Converts many networkx graphs (well formed and not) to cnfgen bipartite
graphs, directly, through normalize(), through the GML/DOT readers and
through the formula families that accept networkx graphs, and hashes
everything observable.
"""
import os
import sys
sys.path.insert(0, os.getcwd())
import hashlib
import io
import random
import contextlib

import networkx

from cnfgen.graphs import BipartiteGraph, CompleteBipartiteGraph, Graph, readGraph
from cnfgen.families.pigeonhole import GraphPigeonholePrinciple
from cnfgen.families.subsetcardinality import SubsetCardinalityFormula
from cnfgen.clitools.cnfgen import cli

out = []


def record(*items):
    text = repr(items)
    assert ' at 0x' not in text, text
    out.append(text)


def describe(B):
    L, R = B.parts()
    return (type(B).__name__, B.name, B.left_order(), B.right_order(),
            B.order(), B.number_of_vertices(), B.number_of_edges(),
            list(B.edges()),
            [B.right_neighbors(u) for u in L],
            [B.left_neighbors(v) for v in R],
            [B.right_degree(u) for u in L],
            [B.left_degree(v) for v in R])


def attempt(tag, fn):
    try:
        res = fn()
        record(tag, 'OK', res)
    except BaseException as e:
        cause = e.__cause__
        ctx = e.__context__
        record(tag, 'EXC', type(e).__name__, str(e),
               type(cause).__name__, str(cause), type(ctx).__name__)


def formulas(G):
    res = []
    for functional in [False, True]:
        for onto in [False, True]:
            F = GraphPigeonholePrinciple(G, functional=functional, onto=onto)
            res.append((F.to_dimacs(), list(F.all_variable_labels()),
                        sorted(F.header.items())))
    for eq in [False, True]:
        F = SubsetCardinalityFormula(G, equalities=eq)
        res.append((F.to_dimacs(), list(F.all_variable_labels()),
                    sorted(F.header.items())))
    return res


def check(tag, G):
    attempt(tag + '/from_networkx',
            lambda: describe(BipartiteGraph.from_networkx(G)))
    attempt(tag + '/normalize',
            lambda: describe(BipartiteGraph.normalize(G, 'X')))
    attempt(tag + '/complete.from_networkx',
            lambda: describe(CompleteBipartiteGraph.from_networkx(G)))
    attempt(tag + '/formulas', lambda: formulas(G))


graphs = []

# complete bipartite graphs from networkx
for a in range(0, 4):
    for b in range(0, 4):
        graphs.append(('K%d,%d' % (a, b),
                       networkx.bipartite.complete_bipartite_graph(a, b)))

# random graphs with interleaved sides, various label types, both edge orientations
rng = random.Random(2024)
for t in range(40):
    n = rng.randint(0, 9)
    G = networkx.Graph()
    kind = t % 4
    if kind == 0:
        labels = list(range(n))
    elif kind == 1:
        labels = ['v%d' % i for i in range(n)]
    elif kind == 2:
        labels = [(i, -i) for i in range(n)]
    else:
        labels = [chr(ord('z') - i) for i in range(n)]
    rng.shuffle(labels)
    colors = {}
    for x in labels:
        c = rng.randint(0, 1)
        colors[x] = c
        G.add_node(x, bipartite=(c if t % 3 else str(c)))
    left = [x for x in labels if colors[x] == 0]
    right = [x for x in labels if colors[x] == 1]
    for u in left:
        for v in right:
            if rng.random() < 0.5:
                if rng.random() < 0.5:
                    G.add_edge(u, v)
                else:
                    G.add_edge(v, u)
    if t % 5 == 0:
        G.name = 'random graph %d' % t
    graphs.append(('rnd%d' % t, G))

# ill formed graphs
G = networkx.Graph(); G.add_nodes_from([1, 2, 3]); graphs.append(('noattr', G))
G = networkx.Graph(); G.add_node(1, bipartite=0); G.add_node(2); graphs.append(('partattr', G))
G = networkx.Graph(); G.add_node(1, bipartite=2); graphs.append(('attr2', G))
G = networkx.Graph(); G.add_node(1, bipartite='left'); graphs.append(('attrleft', G))
G = networkx.Graph(); G.add_node(1, bipartite=None); graphs.append(('attrnone', G))
G = networkx.Graph(); G.add_node(1, bipartite=True); G.add_node(2, bipartite=False); G.add_edge(1, 2); graphs.append(('attrbool', G))
G = networkx.Graph(); G.add_node(1, bipartite=1.0); G.add_node(2, bipartite=0.0); G.add_edge(2, 1); graphs.append(('attrfloat', G))
for (x, y, tag) in [(0, 0, 'LL'), (1, 1, 'RR')]:
    G = networkx.Graph()
    G.add_node('a', bipartite=x); G.add_node('b', bipartite=y); G.add_node('c', bipartite=1 - x)
    G.add_edge('a', 'c'); G.add_edge('a', 'b')
    graphs.append(('across' + tag, G))
    G = networkx.Graph()
    G.add_node('a', bipartite=x); G.add_node('b', bipartite=y)
    G.add_edge('b', 'a')
    graphs.append(('across2' + tag, G))
G = networkx.Graph(); G.add_node('a', bipartite=0); G.add_edge('a', 'a'); graphs.append(('loopL', G))
G = networkx.Graph(); G.add_node('a', bipartite=1); G.add_edge('a', 'a'); graphs.append(('loopR', G))
G = networkx.Graph(); G.add_node(1, bipartite=0); G.add_edge(1, 2); graphs.append(('implicitnode', G))
# directed and multi graphs are networkx.Graph subclasses as well
G = networkx.DiGraph()
G.add_node(1, bipartite=0); G.add_node(2, bipartite=1); G.add_node(3, bipartite=0)
G.add_edge(1, 2); G.add_edge(2, 1); G.add_edge(2, 3)
graphs.append(('digraph', G))
G = networkx.MultiGraph()
G.add_node(1, bipartite=0); G.add_node(2, bipartite=1)
G.add_edge(1, 2); G.add_edge(1, 2); G.add_edge(2, 1)
graphs.append(('multigraph', G))
G = networkx.bipartite.complete_bipartite_graph(2, 2); G.graph.pop('name', None)
graphs.append(('noname', G))

for tag, G in graphs:
    check(tag, G)

# not networkx graphs at all
for tag, obj in [('none', None), ('int', 3), ('list', [(1, 2)]), ('simple', Graph(3)),
                 ('str', 'complete 2 2')]:
    attempt(tag + '/from_networkx',
            lambda: describe(BipartiteGraph.from_networkx(obj)))
    attempt(tag + '/normalize',
            lambda: describe(BipartiteGraph.normalize(obj, 'X')))
    attempt(tag + '/php', lambda: GraphPigeonholePrinciple(obj).to_dimacs())

# cnfgen bipartite graphs pass through normalize untouched
B = BipartiteGraph(2, 3, name='mine')
B.add_edge(1, 3); B.add_edge(2, 1)
attempt('own/normalize', lambda: (BipartiteGraph.normalize(B) is B, describe(B)))

# file readers
gml_ok = """graph [
  name "gmlgraph"
  node [ id 7 bipartite 1 ]
  node [ id 3 bipartite 0 ]
  node [ id 5 bipartite 0 ]
  node [ id 1 bipartite 1 ]
  edge [ source 7 target 3 ]
  edge [ source 5 target 1 ]
  edge [ source 3 target 1 ]
]
"""
gml_bad1 = gml_ok.replace('node [ id 5 bipartite 0 ]', 'node [ id 5 ]')
gml_bad2 = gml_ok.replace('edge [ source 5 target 1 ]', 'edge [ source 5 target 3 ]')
gml_bad3 = gml_ok.replace('bipartite 1 ]\n  node [ id 3', 'bipartite 4 ]\n  node [ id 3')
dot_ok = """graph G {
 a [bipartite=0];
 b [bipartite=1];
 c [bipartite=0];
 d [bipartite=1];
 b -- a;
 c -- b;
 c -- d;
}
"""
dot_bad = dot_ok.replace('c [bipartite=0];', 'c;')
for tag, text, fmt in [('gml_ok', gml_ok, 'gml'), ('gml_bad1', gml_bad1, 'gml'),
                       ('gml_bad2', gml_bad2, 'gml'), ('gml_bad3', gml_bad3, 'gml'),
                       ('dot_ok', dot_ok, 'dot'), ('dot_bad', dot_bad, 'dot')]:
    attempt('read/' + tag,
            lambda: describe(readGraph(io.StringIO(text), 'bipartite', fmt)))

# command line with a gml file
import tempfile
with tempfile.TemporaryDirectory() as tmp:
    for tag, text in [('ok', gml_ok), ('bad1', gml_bad1), ('bad2', gml_bad2)]:
        path = os.path.join(tmp, tag + '.gml')
        with open(path, 'w') as f:
            f.write(text)
        for argv in [['php', path], ['php', path, '--functional', '--onto'],
                     ['subsetcard', path], ['subsetcard', '-e', path]]:
            sout, serr = io.StringIO(), io.StringIO()
            try:
                with contextlib.redirect_stdout(sout), contextlib.redirect_stderr(serr):
                    res = cli(['cnfgen', '-q'] + argv, mode='string')
                record('CLI', tag, argv[0], len(argv), res.replace(tmp, 'TMP'))
            except SystemExit as e:
                record('CLI-EXIT', tag, argv[0], len(argv), e.code)
            except BaseException as e:
                record('CLI-EXC', tag, argv[0], len(argv), type(e).__name__,
                       str(e).replace(tmp, 'TMP'))

print(hashlib.sha256("\n".join(out).encode('utf-8')).hexdigest())
