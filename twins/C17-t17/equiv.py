"""Equivalence script for the refactoring of
cnfgen.clihelpers.counting_helpers.TseitinCmdHelper.build_formula
(selection of the charge pattern of 'cnfgen tseitin')."""
import os, sys, hashlib, random, io, contextlib, tempfile
from argparse import Namespace
sys.path.insert(0, os.getcwd())

from cnfgen.clihelpers.counting_helpers import TseitinCmdHelper
from cnfgen.clitools.graph_args import make_graph_from_spec
from cnfgen.clitools.cnfgen import cli
from cnfgen.clitools.pbgen import cli as pbcli
from cnfgen.families.tseitin import TseitinFormula
from cnfgen.formula.cnf import CNF
from cnfgen.graphs import Graph

out = []
def rec(*xs):
    out.append(repr(xs))

def fdescr(F):
    try:
        names = list(F.all_variable_names())
    except Exception as e:
        names = type(e).__name__
    return (F.number_of_variables(), names, [list(c) for c in F.clauses()], F.to_dimacs())

CHARGES = ['first', 'random', 'randomodd', 'randomeven', 'zero', 'one']
GRAPHS = [['complete', '1'], ['complete', '2'], ['complete', '4'], ['empty', '3'], ['grid', '2', '3'],
          ['torus', '3', '3'], ['gnp', '6', '.5'], ['gnd', '6', '3'], ['gnm', '5', '6', 'addedges', '1'],
          ['grid', '2', '2', 'splitedges', '2'], ['gnp', '7', '.4', 'plantclique', '3']]

# 1. direct calls on the helper, state of the random generator observed afterwards
def direct(tag, ns, seed):
    random.seed(seed)
    try:
        F = TseitinCmdHelper.build_formula(ns, formula_class=CNF)
        rec(tag, 'ok', fdescr(F), random.random())
    except BaseException as e:
        rec(tag, 'exc', type(e).__name__, str(e), random.random())

for seed in (0, 1, 42):
    for g in GRAPHS:
        for ch in CHARGES + ['bogus', '', None, 'Random', 'first ']:
            random.seed(1000 + seed)
            G = make_graph_from_spec('simple', g)
            direct(('direct', seed, g, ch), Namespace(G=G, charge=ch), seed)
        random.seed(1000 + seed)
        G = make_graph_from_spec('simple', g)
        direct(('direct-nocharge', seed, g), Namespace(G=G), seed)

# empty graph (order 0)
for ch in CHARGES + ['bogus']:
    direct(('order0', ch), Namespace(G=Graph(0), charge=ch), 3)
direct(('order0-nocharge',), Namespace(G=Graph(0)), 3)
# shortcut N d, including the error paths
for N in range(1, 9):
    for d in range(1, 7):
        direct(('shortcut', N, d), Namespace(N=N, d=d), 10 * N + d)
        direct(('shortcut+charge', N, d), Namespace(N=N, d=d, charge='zero'), 10 * N + d)
        direct(('shortcut+randomeven', N, d), Namespace(N=N, d=d, charge='randomeven'), 10 * N + d)
direct(('nothing',), Namespace(), 1)
direct(('onlyN',), Namespace(N=4), 1)

# 2. the command line tools against the library call with the stated charge
def run(tool, argv, seed=None):
    random.seed(77)
    buf = io.StringIO()
    try:
        with contextlib.redirect_stderr(buf):
            s = tool(argv, mode='string')
        rec('cli', argv, s, buf.getvalue(), random.random())
        return s
    except SystemExit as e:
        rec('cli', argv, 'exit', e.code, buf.getvalue())
    except BaseException as e:
        rec('cli', argv, type(e).__name__, str(e), buf.getvalue())

cwd = os.getcwd()
with tempfile.TemporaryDirectory() as d:
    os.chdir(d)
    try:
        for i, g in enumerate(GRAPHS):
            fn = 'g%d.gml' % i
            run(cli, ['cnfgen', '-q', '-S', str(i), 'tseitin', 'first'] + g + ['save', fn])
            G = make_graph_from_spec('simple', [fn])
            n = G.order()
            for ch, vec in [('first', [1] + [0] * (n - 1)), ('zero', [0] * n), ('one', [1] * n)]:
                s = run(cli, ['cnfgen', '-q', 'tseitin', ch, fn])
                rec('same-as-lib', g, ch, s == TseitinFormula(G, vec).to_dimacs())
            for ch in ['random', 'randomodd', 'randomeven']:
                for seed in ('5', '6'):
                    run(cli, ['cnfgen', '-q', '-S', seed, 'tseitin', ch, fn])
                    run(cli, ['cnfgen', '-S', seed, 'tseitin', ch, fn, '-T', 'xor', '2', '-T', 'shuffle'])
                    run(pbcli, ['pbgen', '-q', '-S', seed, 'tseitin', ch, fn])
            run(cli, ['cnfgen', '-q', '-of', 'opb', 'tseitin', 'one', fn])
            run(cli, ['cnfgen', '-q', '--varnames', 'tseitin', 'randomodd', fn])
            run(cli, ['cnfgen', '-q', '-l', '-S', '9', 'tseitin', 'randomeven', fn])
    finally:
        os.chdir(cwd)

for argv in [['tseitin', '6'], ['tseitin', '7', '4'], ['tseitin', '7', '3'], ['tseitin', '4', '4'], ['tseitin', '5', '6'],
             ['tseitin', '8', '3'], ['tseitin', '1'], ['tseitin', '0'], ['tseitin'], ['tseitin', 'bogus', 'grid', '2', '2'],
             ['tseitin', 'first'], ['tseitin', 'randomodd', 'gnd', '6', '3'], ['tseitin', 'random', 'gnp', '5', '.5'],
             ['tseitin', 'first', 'complete', '3', '-T', 'or', '2'], ['tseitin', '6', '3', '-T', 'flip', '-T', 'shuffle', '-c']]:
    for seed in ('1', '2'):
        run(cli, ['cnfgen', '-q', '-S', seed] + argv)
        run(cli, ['cnfgen', '-S', seed] + argv)
        run(pbcli, ['pbgen', '-q', '-S', seed] + argv)

print(hashlib.sha256("\n".join(out).encode('utf-8')).hexdigest())
