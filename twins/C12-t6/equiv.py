#!/usr/bin/env python
"""Equivalence script for C12/t6: VariablesManager.all_variable_labels
(cnfgen/formula/variables.py), the source of the variable names shown in
LaTeX rows and in the OPB/DIMACS 'varname' comments.

Run as:  cd <checkout> && /venv/bin/python equiv.py
Prints one SHA256 digest of everything observable.
"""
import hashlib
import io
import itertools
import os
import random
import sys
import warnings

warnings.simplefilter("ignore")
sys.path.insert(0, os.getcwd())

from cnfgen.formula.cnf import CNF
from cnfgen.formula.opb import OPB
from cnfgen.formula.variables import VariablesManager
from cnfgen.formula.basecnf import BaseCNF
from cnfgen.formula.baseopb import BaseOPB
from cnfgen.graphs import Graph, DirectedGraph, BipartiteGraph, CompleteBipartiteGraph

H = hashlib.sha256()


def rec(*items):
    for it in items:
        H.update(repr(it).encode("utf-8", errors="replace"))
        H.update(b"\x00")
    H.update(b"\n")


def attempt(label, fn, *args, **kwargs):
    try:
        res = fn(*args, **kwargs)
        rec(label, "OK", res)
        return res
    except BaseException as e:  # noqa
        rec(label, "EXC", type(e).__name__, str(e))
        return None


def observe(label, F):
    """Everything that depends on the labels of F"""
    for fmt in ("x{}", "x_{}", "v", "{}{}", "y^{{{}}}", "{:03d}", "{0}-{0}"):
        attempt((label, "labels", fmt), lambda: list(F.all_variable_labels(default_label_format=fmt)))
    attempt((label, "labels-default"), lambda: list(F.all_variable_labels()))
    # partial consumption of the generator
    for k in (0, 1, 2, 5):
        attempt((label, "islice", k), lambda: list(itertools.islice(F.all_variable_labels(), k)))
    rec(label, "nvars", F.number_of_variables(), "len", len(F))
    attempt((label, "latex"), F.to_latex)
    attempt((label, "opb"), F.to_opb)
    if hasattr(F, "to_dimacs"):
        attempt((label, "dimacs"), F.to_dimacs)
    fmts = ["opb", "latex"] + (["dimacs"] if hasattr(F, "to_dimacs") else [])
    for ff in fmts:
        for eh in (True, False):
            for ev in (True, False):
                buf = io.StringIO()
                attempt((label, "to_file", ff, eh, ev), F.to_file, buf, fileformat=ff,
                        export_header=eh, export_varnames=ev, extra_text="")
                rec((label, "to_file-text", ff, eh, ev), buf.getvalue())


def path_graph(n):
    G = Graph(n)
    for i in range(1, n):
        G.add_edge(i, i + 1)
    return G


def some_digraph(n):
    D = DirectedGraph(n)
    for i in range(1, n + 1):
        for j in range(i + 1, n + 1):
            if (i + j) % 3 != 0:
                D.add_edge(i, j)
    return D


def some_bipartite(l, r):
    B = BipartiteGraph(l, r)
    for i in range(1, l + 1):
        for j in range(1, r + 1):
            if (i * j) % 2 == 1 or j == i:
                B.add_edge(i, j)
    return B


def add_rows(F, rng):
    """Add some clauses/constraints over the existing variables"""
    n = F.number_of_variables()
    if n == 0:
        return
    for _ in range(4):
        k = rng.randint(0, min(4, n))
        lits = [v * rng.choice([1, -1]) for v in rng.sample(range(1, n + 1), k)]
        if isinstance(F, BaseOPB):
            op = rng.choice([">=", "<=", "==", ">", "<"])
            F.add_constraint([(rng.randint(-3, 5), l) for l in lits] + [op, rng.randint(-2, 4)])
        else:
            F.add_clause(lits)


# the building steps of the variable sets
def step_var(F):
    F.new_variable("X")


def step_var_underscore(F):
    F.new_variable("y_{1}")


def step_var_caret(F):
    F.new_variable("w^2_a")


def step_var_multiline(F):
    F.new_variable("two\nlines")


def step_block(F):
    F.new_block(2, 3, label="z_{{{},{}}}")


def step_block1(F):
    F.new_block(1, label="s({})")


def step_block_empty(F):
    F.new_block(0, label="e({})")


def step_block_empty2(F):
    F.new_block(3, 0, 2, label="e({},{},{})")


def step_gap(F):
    F.update_variable_number(F.number_of_variables() + 3)


def step_gap1(F):
    F.update_variable_number(F.number_of_variables() + 1)


def step_gap_by_row(F):
    n = F.number_of_variables()
    if isinstance(F, BaseOPB):
        F.add_constraint([(2, n + 2), (1, -1 if n else 1), ">=", 1])
    else:
        F.add_clause([n + 2, -1 if n else 1])


def step_comb(F):
    F.new_combinations(4, 2)


def step_comb_empty(F):
    F.new_combinations(2, 3)


def step_perm(F):
    F.new_permutations(3, 2, label="q_{{{}}}")


def step_words(F):
    F.new_words(2, 2, label="w({})")


def step_cwr(F):
    F.new_combinations_with_replacement(2, 2)


def step_graph(F):
    F.new_graph_edges(path_graph(4), label="e_{{{}{}}}")


def step_graph_empty(F):
    F.new_graph_edges(Graph(3))


def step_digraph(F):
    F.new_digraph_edges(some_digraph(4), label="a({},{})")


def step_digraph_succ(F):
    F.new_digraph_edges(some_digraph(3), sortby="succ")


def step_bip(F):
    F.new_bipartite_edges(some_bipartite(2, 3))


def step_mapping(F):
    F.new_mapping(2, 3)


def step_sparse_mapping(F):
    F.new_sparse_mapping(some_bipartite(3, 2), label="g({})={}")


def step_binary_mapping(F):
    F.new_binary_mapping(3, 4)


STEPS = [step_var, step_var_underscore, step_var_caret, step_var_multiline, step_block, step_block1,
         step_block_empty, step_block_empty2, step_gap, step_gap1, step_gap_by_row, step_comb,
         step_comb_empty, step_perm, step_words, step_cwr, step_graph, step_graph_empty,
         step_digraph, step_digraph_succ, step_bip, step_mapping, step_sparse_mapping,
         step_binary_mapping]

rng = random.Random(20260212)

# empty formulas and single steps
for cls in (CNF, OPB):
    F = cls()
    observe((cls.__name__, "empty"), F)
    F = cls()
    F.update_variable_number(3)
    observe((cls.__name__, "only-default"), F)
    for st in STEPS:
        F = cls(description="single " + st.__name__)
        attempt((cls.__name__, "step", st.__name__), st, F)
        add_rows(F, rng)
        observe((cls.__name__, "single", st.__name__), F)

# pairs of steps (all ordered pairs of a subset) and random longer sequences
SUB = [step_var, step_block, step_block_empty, step_gap, step_gap_by_row, step_comb_empty,
       step_graph, step_binary_mapping]
for cls in (CNF, OPB):
    for a in SUB:
        for b in SUB:
            F = cls(description="pair")
            a(F)
            b(F)
            add_rows(F, rng)
            observe((cls.__name__, "pair", a.__name__, b.__name__), F)

for cls in (CNF, OPB):
    for t in range(40):
        F = cls(description="random sequence %d" % t)
        seq = [rng.choice(STEPS) for _ in range(rng.randint(2, 7))]
        for st in seq:
            attempt((cls.__name__, "rs", t, st.__name__), st, F)
            if rng.random() < 0.3:
                add_rows(F, rng)
        add_rows(F, rng)
        observe((cls.__name__, "randseq", t, tuple(s.__name__ for s in seq)), F)

# error path: overlapping groups are rejected, label of None
for cls in (CNF, OPB):
    F = cls()
    F.new_variable()  # label None
    F.new_variable("ok")
    observe((cls.__name__, "none-label"), F)

# a variable manager on a bare formula, consumed while the formula grows
for base in (BaseCNF, BaseOPB):
    F = base()
    V = VariablesManager(F)
    V.new_variable("A")
    F.update_variable_number(4)
    V.new_block(2, label="b{}")
    F.update_variable_number(8)
    gen = V.all_variable_labels("d{}")
    got = [next(gen), next(gen)]
    F.update_variable_number(20)  # the end was read at the first next()
    got.extend(gen)
    rec(base.__name__, "growing", got)
    rec(base.__name__, "after", list(V.all_variable_labels("d{}")))

# a big one: many rows so that the document is split over pages
for cls in (CNF, OPB):
    F = cls(description="big")
    step_gap(F)
    step_block(F)
    step_gap_by_row(F)
    step_graph(F)
    step_gap1(F)
    for _ in range(20):
        add_rows(F, rng)
    observe((cls.__name__, "big"), F)

print(H.hexdigest())
