"""Equivalence harness for property C16 (graph objects consistent under updates).

Run as:  cd <checkout> && /venv/bin/python equiv.py
Prints one SHA256 digest of everything observable.
"""
import sys
import os
import random
import hashlib
from fractions import Fraction

sys.path.insert(0, os.getcwd())

import networkx
from cnfgen.graphs import (Graph, DirectedGraph, BipartiteGraph,
                           normalize_networkx_labels)
from cnfgen.localtypes import non_negative_int, positive_int

H = hashlib.sha256()
COUNT = [0]


def rec(*items):
    for it in items:
        H.update(repr(it).encode('utf-8'))
        H.update(b'\x00')
    H.update(b'\n')
    COUNT[0] += 1


def attempt(label, fn, *args, **kwargs):
    try:
        res = fn(*args, **kwargs)
        if isinstance(res, (int, float, str, list, tuple, range, Fraction,
                            type(None))):
            rec(label, 'ok', res)
        else:
            rec(label, 'ok', type(res).__name__)
        return res
    except Exception as e:  # record type and message
        rec(label, 'exc', type(e).__name__, str(e))
        return None


def dump_simple(G):
    n = G.number_of_vertices()
    rec('S', n, G.order(), len(G), G.number_of_edges(), len(G.edges()),
        list(G.vertices()), list(G.edges()), len(G.adjlist),
        sorted(G.edgeset), G.is_dag(), G.is_directed(), G.name)
    for u in range(0, n + 2):
        attempt(('nb', u), lambda: list(G.neighbors(u)))
        attempt(('dg', u), G.degree, u)
    rec([(u, v) for u in range(0, n + 2) for v in range(0, n + 2)
         if G.has_edge(u, v)])
    rec([(u, v) for u in range(0, n + 2) for v in range(0, n + 2)
         if (u, v) in G.edges()])
    X = G.to_networkx()
    rec(list(X.nodes()), sorted(X.edges()), type(X).__name__)
    G2 = attempt('rt', Graph.from_networkx, X)
    if G2 is not None:
        rec(G2.number_of_vertices(), list(G2.edges()), G2.name)


def dump_directed(D):
    n = D.number_of_vertices()
    rec('D', n, D.order(), len(D), D.number_of_edges(), len(D.edges()),
        list(D.vertices()), list(D.edges()),
        list(D.edges_ordered_by_successors()),
        sorted(D.edgeset), D.is_dag(), D.is_directed(), D.name)
    for u in range(0, n + 2):
        attempt(('pr', u), lambda: list(D.predecessors(u)))
        attempt(('su', u), lambda: list(D.successors(u)))
        attempt(('id', u), D.in_degree, u)
        attempt(('od', u), D.out_degree, u)
    rec([(u, v) for u in range(0, n + 2) for v in range(0, n + 2)
         if D.has_edge(u, v)])
    X = D.to_networkx()
    rec(list(X.nodes()), sorted(X.edges()), type(X).__name__)
    D2 = attempt('rt', DirectedGraph.from_networkx, X)
    if D2 is not None:
        rec(D2.number_of_vertices(), list(D2.edges()), D2.is_dag(), D2.name)


def dump_bip(B):
    L, R = B.left_order(), B.right_order()
    rec('B', L, R, B.number_of_vertices(), B.order(), len(B),
        B.number_of_edges(), len(B.edges()), list(B.edges()),
        sorted(B.edgeset), B.is_bipartite(), B.name,
        [list(p) for p in B.parts()])
    for u in range(0, L + 2):
        attempt(('rn', u), B.right_neighbors, u)
        attempt(('rd', u), B.right_degree, u)
    for v in range(0, R + 2):
        attempt(('ln', v), B.left_neighbors, v)
        attempt(('ld', v), B.left_degree, v)
    rec([(u, v) for u in range(0, L + 2) for v in range(0, R + 2)
         if B.has_edge(u, v)])
    X = B.to_networkx()
    rec(sorted(X.nodes(data=True)), sorted(X.edges()), X.name)
    B2 = attempt('rt', BipartiteGraph.from_networkx, X)
    if B2 is not None:
        rec(B2.left_order(), B2.right_order(), list(B2.edges()), B2.name)


WEIRD = [0, -1, -7, 2.0, 2.5, '3', None, True, False, (1, 2), Fraction(3, 1),
         Fraction(1, 2), 23]


def rand_vertex(rng, n):
    r = rng.random()
    if r < 0.75:
        return rng.randint(1, max(1, n))
    if r < 0.9:
        return rng.choice([0, n + 1, n + 2, -1, -n])
    return rng.choice(WEIRD[:9])


def rand_size(rng, n):
    r = rng.random()
    if r < 0.6:
        return rng.choice([n, n + 1, n + 2, n + 3, max(0, n - 1), 0, 1])
    return rng.choice(WEIRD)


def run_simple(rng, n0, steps):
    G = attempt(('newS', n0), Graph, n0)
    if G is None:
        return
    dump_simple(G)
    for step in range(steps):
        n = G.number_of_vertices()
        op = rng.random()
        if op < 0.5:
            u, v = rand_vertex(rng, n), rand_vertex(rng, n)
            attempt(('add', u, v), G.add_edge, u, v)
        elif op < 0.7:
            u, v = rand_vertex(rng, n), rand_vertex(rng, n)
            attempt(('rem', u, v), G.remove_edge, u, v)
        elif op < 0.85:
            k = rand_size(rng, n)
            attempt(('upd', k), G.update_vertex_number, k)
        else:
            es = [(rand_vertex(rng, n), rand_vertex(rng, n))
                  for _ in range(rng.randint(0, 4))]
            if rng.random() < 0.2:
                es.append((1, 2, 3))
            attempt(('addmany', es), G.add_edges_from, es)
        if step % 3 == 0 or step == steps - 1:
            dump_simple(G)
        else:
            rec(G.number_of_vertices(), G.number_of_edges(), list(G.edges()),
                len(G.adjlist))


def run_directed(rng, n0, steps):
    D = attempt(('newD', n0), DirectedGraph, n0)
    if D is None:
        return
    dump_directed(D)
    for step in range(steps):
        n = D.number_of_vertices()
        op = rng.random()
        if op < 0.7:
            u, v = rand_vertex(rng, n), rand_vertex(rng, n)
            if rng.random() < 0.5 and isinstance(u, int) and isinstance(v, int):
                u, v = min(u, v), max(u, v)
            attempt(('add', u, v), D.add_edge, u, v)
        elif op < 0.8:
            k = rand_size(rng, n)
            attempt(('upd', k), lambda: D.update_vertex_number(k))
        else:
            es = [(rand_vertex(rng, n), rand_vertex(rng, n))
                  for _ in range(rng.randint(0, 4))]
            attempt(('addmany', es), D.add_edges_from, es)
        if step % 3 == 0 or step == steps - 1:
            dump_directed(D)
        else:
            rec(D.number_of_edges(), list(D.edges()), D.is_dag())


def run_bip(rng, L0, R0, steps):
    B = attempt(('newB', L0, R0), BipartiteGraph, L0, R0)
    if B is None:
        return
    dump_bip(B)
    for step in range(steps):
        L, R = B.left_order(), B.right_order()
        op = rng.random()
        if op < 0.7:
            u, v = rand_vertex(rng, L), rand_vertex(rng, R)
            attempt(('add', u, v), B.add_edge, u, v)
        elif op < 0.8:
            k = rand_size(rng, L)
            attempt(('upd', k), lambda: B.update_vertex_number(k))
        else:
            es = [(rand_vertex(rng, L), rand_vertex(rng, R))
                  for _ in range(rng.randint(0, 4))]
            attempt(('addmany', es), B.add_edges_from, es)
        if step % 3 == 0 or step == steps - 1:
            dump_bip(B)
        else:
            rec(B.number_of_edges(), list(B.edges()))


def section_sequences():
    rng = random.Random(160016)
    for n0 in [0, 1, 2, 3, 5, 8]:
        for rep in range(3):
            run_simple(rng, n0, 25)
            run_directed(rng, n0, 20)
    for (L0, R0) in [(0, 0), (0, 3), (2, 0), (1, 1), (3, 4), (6, 2)]:
        for rep in range(2):
            run_bip(rng, L0, R0, 20)
    for bad in [-1, 2.5, '4', None, True]:
        attempt(('newS', bad), Graph, bad)
        attempt(('newD', bad), DirectedGraph, bad)
        attempt(('newB', bad), BipartiteGraph, bad, 2)
        attempt(('newB2', bad), BipartiteGraph, 2, bad)


def section_update_vertex_number():
    # deterministic, focused on vertex count increases
    for n0 in [0, 1, 4]:
        for seq in [[0], [n0], [n0 + 1], [n0 + 5, n0 + 2, n0 + 5, n0 + 6],
                    [True], [False], [-1], [2.5], ['7'], [None],
                    [Fraction(9, 1)], [3, -2, 6, 6.0, 9]]:
            G = Graph(n0)
            if n0 >= 2:
                G.add_edge(1, n0)
            for k in seq:
                attempt(('upd', n0, k), G.update_vertex_number, k)
                rec(repr(G.n), type(G.n).__name__, len(G.adjlist), G.adjlist,
                    G.number_of_edges(), list(G.vertices()))
                m = G.number_of_vertices()
                attempt('addlast', G.add_edge, 1, m)
                attempt('addpast', G.add_edge, 1, m + 1)
                rec(list(G.edges()), G.adjlist)
            # adjacency lists are distinct objects
            rec(len(set(id(a) for a in G.adjlist)) == len(G.adjlist))
            dump_simple(G)


def section_non_negative_int():
    vals = [0, 1, -1, 5, -10**9, 10**30, True, False, 0.0, 1.0, -1.5, 2.5,
            float('nan'), float('inf'), '3', '', 'x', None, [], [1], (1,),
            {}, Fraction(4, 1), Fraction(-4, 1), Fraction(1, 3), 1j, b'2',
            object]
    for v in vals:
        for name in ['n', 'new_value', 'L', '', '{}']:
            attempt(('nni', repr(v), name), non_negative_int, v, name)
            attempt(('pi', repr(v), name), positive_int, v, name)


def section_labels():
    def mk(cls, nodes, edges, name=None):
        X = cls()
        X.add_nodes_from(nodes)
        X.add_edges_from(edges)
        if name is not None:
            X.name = name
        return X

    cases = []
    for cls in (networkx.Graph, networkx.DiGraph):
        cases.append(mk(cls, [], []))
        cases.append(mk(cls, [3, 1, 2], [(3, 1), (1, 2)], 'ints'))
        cases.append(mk(cls, ['10', '2', '1'], [('10', '2'), ('2', '1'), ('1', '10')], 'strs'))
        cases.append(mk(cls, ['b', 'a', 'c', 'aa'], [('b', 'a'), ('c', 'aa')]))
        cases.append(mk(cls, ['b', 2, '10', 'a', -4, '-3', 7], [('b', 2), ('10', 'a'), (-4, '-3'), (7, 'b'), ('a', 'b')], 'mixed'))
        cases.append(mk(cls, [(1, 2), (0, 5), (0, 1)], [((1, 2), (0, 5)), ((0, 1), (1, 2))], 'tuples'))
        cases.append(mk(cls, [(1, 2), 'x', 3], [((1, 2), 'x'), ('x', 3)], 'unsortable'))
        cases.append(mk(cls, ['--3', '1'], [('--3', '1')], 'baddigit'))
        cases.append(mk(cls, [2.5, 1, '1'], [(2.5, 1), (1, '1')], 'floats'))
        cases.append(mk(cls, [5, 4, 3, 2, 1], [(5, 4), (4, 3), (2, 1), (1, 5), (3, 3)], 'loop'))
        cases.append(mk(cls, range(1, 8), [(i, i + 1) for i in range(1, 7)], 'path'))
        cases.append(mk(cls, range(0, 6), [(i, (i * 2) % 6) for i in range(6)], 'zero-based'))
    rng = random.Random(77)
    for k in range(8):
        cls = rng.choice((networkx.Graph, networkx.DiGraph))
        n = rng.randint(1, 9)
        labels = rng.sample(range(-5, 40), n)
        if k % 2:
            labels = [str(x) if rng.random() < 0.5 else x for x in labels]
        edges = [(rng.choice(labels), rng.choice(labels)) for _ in range(rng.randint(0, 12))]
        cases.append(mk(cls, labels, edges, 'rnd{}'.format(k)))
    for X in cases:
        Y = attempt('norm', lambda: normalize_networkx_labels(X))
        if Y is not None:
            rec(type(Y).__name__, list(Y.nodes()), list(Y.edges()), Y.name)
        for cls in (Graph, DirectedGraph):
            C = attempt(('fromnx', cls.__name__), cls.from_networkx, X)
            if C is not None:
                rec(C.number_of_vertices(), C.number_of_edges(),
                    list(C.edges()), C.name, C.is_dag())
            C = attempt(('normalize', cls.__name__), cls.normalize, X, 'W')
            if C is not None:
                rec(C.number_of_vertices(), list(C.edges()), C.name)
    # bipartite conversions
    X = networkx.Graph()
    X.add_nodes_from(['a', 'c', 'b'], bipartite=0)
    X.add_nodes_from([10, 2, 33, 4], bipartite=1)
    X.add_edges_from([('a', 10), (2, 'b'), ('c', 33), (4, 'a'), ('a', 2)])
    X.name = 'bip'
    B = attempt('bip', BipartiteGraph.from_networkx, X)
    if B is not None:
        dump_bip(B)
    X.add_edge('a', 'b')
    attempt('bipbad', BipartiteGraph.from_networkx, X)
    X.add_node('zz')
    attempt('bipbad2', BipartiteGraph.from_networkx, X)
    for bad in [None, 3, 'G', [(1, 2)], Graph(3), DirectedGraph(2)]:
        for cls in (Graph, DirectedGraph, BipartiteGraph):
            attempt(('badfrom', cls.__name__, type(bad).__name__), cls.from_networkx, bad)
            r = attempt(('badnorm', cls.__name__, type(bad).__name__),
                        lambda: type(cls.normalize(bad, 'V')).__name__)


section_sequences()
section_update_vertex_number()
section_non_negative_int()
section_labels()
rec('records', COUNT[0])
print(H.hexdigest())
