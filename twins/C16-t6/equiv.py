#!/usr/bin/env python
"""Equivalence digest for C16 / t6: DirectedEdgeList.__iter__.

Exercises directed graphs under random sequences of add_edge and
add_edges_from calls (valid and invalid arguments; remove_edge and
update_vertex_number are attempted too and their outcome recorded), and
records every observable view after each step, in particular the two
edge listings (by source and by destination).
"""
import sys
import os
import random
import hashlib

sys.path.insert(0, os.getcwd())

import networkx  # noqa
from cnfgen.graphs import DirectedGraph, DirectedEdgeList  # noqa
from cnfgen.graphs import dag_pyramid, dag_path, dag_complete_binary_tree  # noqa

OUT = []
PLAIN = (int, float, list, tuple, str, bool, type(None))


def rec(*args):
    OUT.append(repr(args))


def plain(x):
    return x if isinstance(x, PLAIN) else type(x).__name__


def attempt(label, fn, *args):
    shown = tuple(plain(a) for a in args)
    try:
        res = fn(*args)
        rec(label, shown, 'ok', plain(res))
        return res
    except Exception as e:  # record the type and the message
        rec(label, shown, 'EXC', type(e).__name__, str(e))
        return None


def snapshot(D):
    n = D.number_of_vertices()
    rec('n', n, D.order(), len(D), list(D.vertices()))
    E1 = D.edges()
    E2 = D.edges_ordered_by_successors()
    rec('m', D.number_of_edges(), len(E1), len(E2))
    l1 = list(E1)
    l2 = list(E2)
    rec('edges', l1)
    rec('edges-by-succ', l2)
    # iterate the same listing object twice, and by hand
    rec('again', list(E1) == l1, list(E2) == l2, [e for e in E1] == l1)
    it = iter(E2)
    rec('first', next(it, 'none'), next(it, 'none'))
    rec('explicit', list(DirectedEdgeList(D)),
        list(DirectedEdgeList(D, True)),
        list(DirectedEdgeList(D, False)),
        list(DirectedEdgeList(D, sort_by_predecessors=0)),
        list(DirectedEdgeList(D, sort_by_predecessors='yes')))
    rec('sorted', l1 == sorted(l1), sorted(l2) == l1,
        l2 == sorted(l2, key=lambda e: (e[1], e[0])),
        len(set(l1)) == len(l1))
    rec('edgeset', sorted(D.edgeset))
    rec('pred', [list(x) for x in D.pred])
    rec('succ', [list(x) for x in D.succ])
    for u in range(-1, n + 3):
        for name in ('predecessors', 'successors'):
            try:
                rec(name, u, list(getattr(D, name)(u)))
            except Exception as e:
                rec(name, u, 'EXC', type(e).__name__, str(e))
        for name in ('in_degree', 'out_degree'):
            try:
                rec(name, u, getattr(D, name)(u))
            except Exception as e:
                rec(name, u, 'EXC', type(e).__name__, str(e))
    member = []
    for u in range(0, n + 2):
        for v in range(0, n + 2):
            if D.has_edge(u, v):
                member.append((u, v))
            assert ((u, v) in E1) == D.has_edge(u, v)
            assert ((u, v) in E2) == D.has_edge(u, v)
    rec('member', member)
    rec('triple', (1, 2, 3) in E1, (1,) in E2)
    rec('flags', D.is_dag(), D.is_directed(), D.is_bipartite(),
        D.is_multigraph(), D.name)
    rec('dag-expected', all(u < v for (u, v) in l1))
    X = D.to_networkx()
    rec('nx', sorted(X.nodes()), sorted(X.edges()), list(X.edges()))
    H = DirectedGraph.from_networkx(X)
    rec('nx-back', H.number_of_vertices(), list(H.edges()),
        list(H.edges_ordered_by_successors()), H.is_dag())


WEIRD = [0, -1, 2.0, 1.5, '1', None, True, (1, 2)]


def run_sequence(rng, n0, steps, forward_bias):
    D = attempt('DirectedGraph', DirectedGraph, n0)
    if D is None:
        return
    snapshot(D)
    for _ in range(steps):
        n = D.number_of_vertices()
        op = rng.choice(['add', 'add', 'add', 'add', 'many', 'weird',
                         'rem', 'upd'])
        if op == 'add':
            u = rng.randint(-1, n + 2)
            v = rng.randint(-1, n + 2)
            if rng.random() < forward_bias and u > v:
                u, v = v, u
            attempt('add_edge', D.add_edge, u, v)
        elif op == 'many':
            k = rng.randint(0, 5)
            edges = [(rng.randint(0, n + 1), rng.randint(0, n + 1))
                     for _ in range(k)]
            attempt('add_edges_from', D.add_edges_from, edges)
        elif op == 'weird':
            attempt('add_edge', D.add_edge, rng.choice(WEIRD),
                    rng.choice(WEIRD))
        elif op == 'rem':
            attempt('remove_edge',
                    lambda a, b: D.remove_edge(a, b), 1, 2)
        else:
            attempt('update_vertex_number',
                    lambda k: D.update_vertex_number(k), n + 1)
        snapshot(D)


def fixed_cases():
    for n in range(0, 4):
        D = DirectedGraph(n)
        snapshot(D)
    # complete digraph with loops
    D = DirectedGraph(4)
    for u in range(4, 0, -1):
        for v in range(1, 5):
            D.add_edge(u, v)
            D.add_edge(u, v)
    snapshot(D)
    # only self loops
    D = DirectedGraph(3, name=None)
    for u in (2, 1, 3):
        D.add_edge(u, u)
    snapshot(D)
    # generated dags
    for h in range(0, 4):
        snapshot(dag_pyramid(h))
        snapshot(dag_complete_binary_tree(h))
    for length in range(0, 5):
        snapshot(dag_path(length))
    # conversions from networkx, with labels to be normalised
    X = networkx.DiGraph()
    X.add_nodes_from(['c', 'a', 'b', 'd'])
    X.add_edges_from([('c', 'a'), ('a', 'b'), ('d', 'b'), ('b', 'b')])
    X.name = 'letters'
    snapshot(DirectedGraph.from_networkx(X))
    X = networkx.gn_graph(12, seed=7)
    snapshot(DirectedGraph.from_networkx(X))
    snapshot(DirectedGraph.from_networkx(X.reverse()))
    attempt('from-undirected', DirectedGraph.from_networkx, networkx.Graph())
    # a listing is live: it reflects later insertions, also mid-iteration
    D = DirectedGraph(5)
    E1 = D.edges()
    E2 = D.edges_ordered_by_successors()
    D.add_edge(1, 2)
    rec('live', list(E1), list(E2), len(E1))
    for E in (E1, E2):
        seen = []
        it = iter(E)
        D.add_edge(2, 3)
        for e in it:
            seen.append(e)
            if len(seen) < 6:
                D.add_edge(e[1] % 5 + 1, (e[1] + 1) % 5 + 1)
                D.add_edge(e[1], 5)
        rec('mid-iteration', seen, list(E))
    snapshot(D)


def main():
    fixed_cases()
    rng = random.Random(160006)
    for n0 in [0, 1, 2, 3, 5, 8, -1]:
        for bias in (0.0, 0.9, 1.0):
            for rep in range(2):
                run_sequence(rng, n0, 25, bias)
    data = '\n'.join(OUT).encode('utf-8')
    print(hashlib.sha256(data).hexdigest())


if __name__ == '__main__':
    main()
