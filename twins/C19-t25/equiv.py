"""Equivalence script for t25: provenance numbering shared between Shuffle and the substitutions."""
import sys, os, io, hashlib, random, contextlib, tempfile
from collections import OrderedDict
sys.path.insert(0, os.getcwd())
import cnfgen
from cnfgen import CNF, Shuffle
from cnfgen.transformations import substitutions as S
from cnfgen.transformations.substitutions import add_description
from cnfgen.clitools.cnfshuffle import cli as shuffle_cli
from cnfgen.clitools.cnfgen import cli as cnfgen_cli

out = []
tmpdir = tempfile.mkdtemp()


def rec(*a):
    out.append(repr(a).replace(tmpdir, '<TMP>'))


def snap(F):
    return (list(F.clauses()), F.number_of_variables(), F.number_of_clauses(),
            list(F.all_variable_labels()), list(F.header.items()), F.to_dimacs())


def attempt(tag, fn, *args, **kw):
    try:
        res = fn(*args, **kw)
        rec(tag, 'OK', snap(res) if isinstance(res, CNF) else res)
        return res
    except BaseException as e:
        rec(tag, 'EXC', type(e).__name__, str(e))
        return None


def bases():
    yield 'empty', CNF()
    yield 'emptyclause', CNF([[]])
    yield 'nodesc', CNF([[1, 2], [-1], [2, -3]])
    F = CNF([[1, -2], [2, 3], [-1, -3], [1, 2, 3]], description='my formula {with} braces')
    yield 'desc', F
    F = CNF([[1, -2], [-1, 2]], description='gaps')
    F.header['transformation 2'] = 'second, but there is no first'
    yield 'gap', F
    F = CNF([[1, -2], [-1, 2]], description='prefilled')
    F.header['transformation 1'] = 'one'
    F.header['transformation 2'] = 'two'
    F.header['transformation 3'] = 'three'
    F.header['note'] = 'kept'
    yield 'prefilled', F
    F = CNF([[1, 2, 3]])
    del F.header['description']
    yield 'deldesc', F
    F = CNF([[1, 2, 3]])
    F.header = OrderedDict()
    yield 'emptyheader', F
    F = CNF([[1], [2]])
    F.header = {'transformation 1': 'plain dict', 7: 'int key'}
    yield 'dictheader', F
    yield 'php', cnfgen.PigeonholePrinciple(3, 2)
    yield 'op', cnfgen.OrderingPrinciple(3)


# add_description itself
for name, F in bases():
    for text in ['txt', '', 'with {braces}', None, 42]:
        hb = list(F.header.items())
        r = attempt(('add_description', name, text), add_description, F, text)
        rec('header', list(F.header.items()), hb)
class NoHeader:
    pass
attempt('add_description noheader', add_description, NoHeader(), 'x')
attempt('add_description none', add_description, None, 'x')
rec('same object', S.add_description is add_description, add_description.__name__, add_description.__doc__)

TRANS = [
    ('shuffle', lambda F: Shuffle(F)),
    ('shuffle-fixed', lambda F: Shuffle(F, 'fixed', 'fixed', 'fixed')),
    ('shuffle-expl', lambda F: Shuffle(F, [1] * F.number_of_variables(),
                                       list(range(F.number_of_variables(), 0, -1)),
                                       list(range(F.number_of_clauses() - 1, -1, -1)))),
    ('flip', S.FlipPolarity),
    ('xor2', lambda F: S.XorSubstitution(F, 2)),
    ('or1', lambda F: S.OrSubstitution(F, 1)),
    ('ite', S.IfThenElseSubstitution),
    ('lift2', lambda F: S.FormulaLifting(F, 2)),
    ('eq2', lambda F: S.AllEqualSubstitution(F, 2)),
    ('exact', lambda F: S.ExactlyKSubstitution(F, 2, 1)),
]

for name, F in bases():
    for tname, T in TRANS:
        random.seed(5)
        before = snap(F)
        G = attempt((name, tname), T, F)
        rec('untouched', before == snap(F))
        if G is not None:
            rec('fresh', G is not F, G.header is not F.header)
            # chains of two and three
            for t2name, T2 in TRANS[:5]:
                random.seed(6)
                b2 = snap(G)
                H = attempt((name, tname, t2name), T2, G)
                rec('untouched2', b2 == snap(G), before == snap(F))
                if H is not None and t2name in ('shuffle', 'flip'):
                    random.seed(8)
                    attempt((name, tname, t2name, 'shuffle'), Shuffle, H)

# error paths of Shuffle (the header of the input must not change)
F = CNF([[1, -2], [2, 3], [-1, -3]], description='errors')
for kw in [dict(polarity_flips=[1, 1]), dict(polarity_flips=[1, 2, 1]), dict(polarity_flips=[1, -1, 1]),
           dict(variables_permutation=[1, 2]), dict(variables_permutation=[1, 2, 2]),
           dict(variables_permutation=[3, 1, 2]), dict(clauses_permutation=[0, 1]),
           dict(clauses_permutation=[1, 2, 3]), dict(clauses_permutation=[2, 0, 1]),
           dict(polarity_flips='bogus'), dict(variables_permutation=5)]:
    random.seed(2)
    b = snap(F)
    attempt(('shuffle-kw', sorted(kw.items())), Shuffle, F, **kw)
    rec('untouched', b == snap(F))
attempt('shuffle none', Shuffle, None)

# command line tools
dimacs = os.path.join(tmpdir, 'in.cnf')
with open(dimacs, 'w') as f:
    f.write("c description: file formula\nc transformation 1: earlier step\np cnf 4 3\n1 -2 0\n2 3 -4 0\n-1 0\n")


def run(cli, argv):
    so, se = io.StringIO(), io.StringIO()
    try:
        with contextlib.redirect_stdout(so), contextlib.redirect_stderr(se):
            res = cli(argv, mode='string')
        rec('OK', argv, res, so.getvalue(), se.getvalue())
    except SystemExit as e:
        rec('EXIT', argv, e.code, so.getvalue(), se.getvalue())
    except BaseException as e:
        rec('EXC', argv, type(e).__name__, str(e), so.getvalue(), se.getvalue())


for opts in ([], ['-p'], ['-v'], ['-c'], ['-p', '-v', '-c'], ['-q']):
    run(shuffle_cli, ['cnfshuffle', '-S', 12, '-i', dimacs] + opts)
run(shuffle_cli, ['cnfshuffle', '-i', os.path.join(tmpdir, 'missing.cnf')])
for t in (['-T', 'shuffle'], ['-T', 'shuffle', '-T', 'shuffle'], ['-T', 'xor', 2, '-T', 'shuffle', '-p'],
          ['-T', 'shuffle', '-v', '-c', '-T', 'flip', '-T', 'shuffle'], ['-T', 'none', '-T', 'shuffle']):
    run(cnfgen_cli, ['cnfgen', '--seed', 4, 'php', 3, 2] + t)
    run(cnfgen_cli, ['cnfgen', '--seed', 4, '-of', 'latex', 'op', 3] + t)

print(hashlib.sha256("\n".join(out).encode()).hexdigest())
