#!/usr/bin/env python
"""Equivalence script for the refactoring of cnfgen.transformations.shuffle.Shuffle

Run as:  cd <checkout> && /venv/bin/python equiv.py
Prints one SHA256 digest of everything observable.
"""
import sys
import os
import io
import random
import hashlib
import itertools

sys.path.insert(0, os.getcwd())

# the version string comes from `git describe`: pin it
from cnfgen.info import info
info['version'] = 'equiv'

from cnfgen import CNF, PigeonholePrinciple, RandomKCNF, OrderingPrinciple
from cnfgen import Shuffle, XorSubstitution, FlipPolarity
from cnfgen.clitools.cnfgen import cli as cnfgen_cli
from cnfgen.clitools.cnfshuffle import cli as cnfshuffle_cli

H = hashlib.sha256()


def emit(*things):
    H.update((" ".join(repr(t) for t in things) + "\n").encode('utf-8'))


def dump(tag, F):
    emit(tag, 'N', F.number_of_variables(), 'M', F.number_of_clauses())
    emit(tag, 'header', list(F.header.items()))
    emit(tag, 'clauses', [list(c) for c in F])
    emit(tag, 'labels', list(F.all_variable_labels()))
    # property C10
    n = F.number_of_variables()
    ok = all(isinstance(l, int) and l != 0 and 1 <= abs(l) <= n
             for c in F for l in c)
    emit(tag, 'c10', ok)
    emit(tag, 'dimacs', F.to_dimacs())


def attempt(tag, F, *args, **kwargs):
    state = random.getstate()
    try:
        G = Shuffle(F, *args, **kwargs)
    except Exception as e:
        emit(tag, 'EXC', type(e).__name__, str(e))
    else:
        dump(tag, G)
    # the random stream consumed must be the same too
    emit(tag, 'rnd', random.random(), random.getstate() == state)


def formulas():
    yield 'empty', CNF()
    F = CNF()
    F.update_variable_number(5)
    yield 'novars-clauses', F
    yield 'emptyclause', CNF([[]])
    yield 'single', CNF([[1]])
    yield 'small', CNF([[1, -2], [2, 3, -4], [-1], [], [4, -3, 2, 1]])
    yield 'php', PigeonholePrinciple(5, 4)
    yield 'phpbig', PigeonholePrinciple(12, 9, functional=True)
    yield 'op', OrderingPrinciple(6)
    random.seed(1234)
    yield 'rnd', RandomKCNF(3, 40, 150)
    G = XorSubstitution(FlipPolarity(PigeonholePrinciple(3, 2)), 2)
    yield 'chain', G
    F = CNF([[1, 2], [-1, -2]])
    del F.header['description']
    yield 'nodesc', F


for name, F in formulas():
    N = F.number_of_variables()
    M = F.number_of_clauses()
    modes = ['fixed', 'shuffle']
    for seed in (0, 7):
        for p, v, c in itertools.product(modes, repeat=3):
            random.seed(seed)
            attempt((name, seed, p, v, c), F, p, v, c)
    random.seed(99)
    attempt((name, 'default'), F)
    # twice in a row (transformation numbering)
    random.seed(5)
    try:
        G = Shuffle(Shuffle(F))
        dump((name, 'twice'), G)
    except Exception as e:
        emit(name, 'twice', 'EXC', type(e).__name__, str(e))

    rng = random.Random(42)
    flips = [rng.choice([-1, 1]) for _ in range(N)]
    vperm = list(range(1, N + 1))
    rng.shuffle(vperm)
    cperm = list(range(M))
    rng.shuffle(cperm)
    random.seed(3)
    attempt((name, 'explicit'), F, flips, vperm, cperm)
    attempt((name, 'explicit-tuple'), F, tuple(flips), tuple(vperm), tuple(cperm))
    attempt((name, 'explicit-kw'), F, polarity_flips=flips,
            variables_permutation='fixed', clauses_permutation=cperm)
    attempt((name, 'explicit-range'), F, 'fixed', range(1, N + 1), range(M))
    attempt((name, 'explicit-rev'), F, [-1] * N, list(range(N, 0, -1)),
            list(range(M - 1, -1, -1)))
    # error paths
    attempt((name, 'bad-flip-len'), F, flips + [1], vperm, cperm)
    attempt((name, 'bad-flip-short'), F, flips[:-1], vperm, cperm)
    attempt((name, 'bad-flip-val'), F, [0] * N, vperm, cperm)
    attempt((name, 'bad-flip-val2'), F, [1] * (N - 1) + [2], vperm, cperm)
    attempt((name, 'bad-flip-val3'), F, [-3] + [1] * (N - 1), vperm, cperm)
    attempt((name, 'bad-vperm-len'), F, flips, vperm + [N + 1], cperm)
    attempt((name, 'bad-vperm-zero'), F, flips, list(range(N)), cperm)
    attempt((name, 'bad-vperm-rep'), F, flips, [1] * N, cperm)
    attempt((name, 'bad-vperm-last'), F, flips, list(range(1, N)) + [N + 1], cperm)
    attempt((name, 'bad-cperm-len'), F, flips, vperm, cperm + [M])
    attempt((name, 'bad-cperm-one'), F, flips, vperm, list(range(1, M + 1)))
    attempt((name, 'bad-cperm-rep'), F, flips, vperm, [0] * M)
    attempt((name, 'bad-cperm-last'), F, flips, vperm, list(range(M - 1)) + [M])
    attempt((name, 'bad-all'), F, [5] * (N + 1), [0] * (N + 2), [9] * (M + 3))
    attempt((name, 'bad-str'), F, 'other', 'fixed', 'fixed')
    attempt((name, 'bad-str2'), F, 'fixed', 'other', 'fixed')
    attempt((name, 'bad-str3'), F, 'fixed', 'fixed', 'other')
    attempt((name, 'bad-none'), F, None, vperm, cperm)
    attempt((name, 'bad-int'), F, flips, 3, cperm)
    attempt((name, 'float'), F, [float(x) for x in flips], vperm, cperm)
    attempt((name, 'mixedtypes'), F, flips, ['a'] + vperm[1:], cperm)

# command line tools
for argv in (['cnfgen', '-q', 'php', 6, 4, '-T', 'shuffle'],
             ['cnfgen', 'php', 6, 4, '-T', 'shuffle', '-p'],
             ['cnfgen', 'op', 5, '-T', 'shuffle', '-v', '-c'],
             ['cnfgen', 'op', 5, '-T', 'shuffle', '-T', 'xor', 2, '-T', 'shuffle'],
             ['cnfgen', 'randkcnf', 3, 20, 50, '-T', 'shuffle', '-p', '-v', '-c'],
             ['cnfgen', 'php', 3, 2, '-T', 'shuffle', '-x']):
    try:
        text = cnfgen_cli(argv[:1] + ['--seed', 11] + argv[1:], mode='string')
        emit(argv, text)
    except BaseException as e:
        emit(argv, 'EXC', type(e).__name__, str(e))

src = PigeonholePrinciple(6, 5).to_dimacs()
for opts in ([], ['-p'], ['-v'], ['-c'], ['-p', '-v', '-c'], ['-q'], ['-q', '-c']):
    oldstdin = sys.stdin
    sys.stdin = io.StringIO(src)
    try:
        text = cnfshuffle_cli(['cnfshuffle', '--seed', 17] + opts, mode='string')
        emit(opts, text)
    except BaseException as e:
        emit(opts, 'EXC', type(e).__name__, str(e))
    finally:
        sys.stdin = oldstdin

print(H.hexdigest())
