"""Equivalence check for cnfgen.clitools.graph_build.multipartite_tnp
(the t-partite 'gnp N p t' random graph construction).

Calls the function directly, through make_graph_from_spec and through
the cnfgen command line, for many seeds and boundary parameters; hashes
graphs (name, vertices, edge sequence, neighbourhoods), formulas,
errors, and the state of the random generator after every call.
"""
import sys, os, io, hashlib, random, contextlib
sys.path.insert(0, os.getcwd())

from cnfgen.clitools.graph_build import multipartite_tnp
from cnfgen.clitools import make_graph_from_spec
from cnfgen.clitools.cnfgen import cli as cnfgen_cli

H = hashlib.sha256()


def record(*items):
    for it in items:
        H.update(repr(it).encode('utf8'))
        H.update(b'\x00')


def describe(G):
    return (type(G).__name__, G.name, G.order(), G.number_of_edges(),
            list(G.edges()),
            [(v, list(G.neighbors(v))) for v in G.vertices()])


def attempt(tag, f, *args, **kwargs):
    try:
        res = describe(f(*args, **kwargs))
    except BaseException as e:
        res = 'exc:{}:{}'.format(type(e).__name__, e)
    record(tag, args, sorted(kwargs.items()), res, random.getstate())


# direct calls
for seed in [0, 1, 2, 3, 99, -7, 2**33]:
    for t in [0, 1, 2, 3, 4, 5]:
        for n in [0, 1, 2, 3, 5]:
            for p in [0, 0.0, 0.25, 0.5, 0.9, 1, 1.0, 1.5, -1]:
                for sb in [False, True]:
                    random.seed(seed)
                    attempt('direct', multipartite_tnp, t, n, p,
                            shuffleblocks=sb)
# without reseeding: consecutive calls share the stream
random.seed(2024)
for i in range(30):
    attempt('stream', multipartite_tnp, 2 + i % 3, 1 + i % 4, 0.4,
            shuffleblocks=(i % 2 == 1))
attempt('badtype', multipartite_tnp, '2', 3, 0.5)
for t, n in [(-1, -1), (-2, -3), (-1, 2), (2, -1), (True, 2), (2, True)]:
    for sb in [False, True]:
        random.seed(8)
        attempt('negative', multipartite_tnp, t, n, 0.5, shuffleblocks=sb)
attempt('badtype', multipartite_tnp, 2, 3.0, 0.5)
attempt('badtype', multipartite_tnp, 2, 3, None)

# graph specifications
specs = [['gnp', 4, '.5', 2], ['gnp', 3, '.5', 3], ['gnp', 1, '1', 4],
         ['gnp', 2, '0', 2], ['gnp', 5, '.3', 1], ['gnp', 5, '.3'],
         ['gnp', 3, '.5', 0], ['gnp', 0, '.5', 2], ['gnp', 3, '1.5', 2],
         ['gnp', 3, '.5', 'x'], ['gnp', 3, '.5', 2, 3],
         ['gnp', 3, '.6', 2, 'plantclique', 3],
         ['gnp', 3, '.6', 3, 'addedges', 2],
         ['gnp', 2, '.7', 3, 'splitedges', 1],
         ['gnp', 2, '.5', 2, 'plantclique', 2, 'addedges', 1, 'splitedges', 1]]
for seed in [0, 4, 17]:
    for spec in specs:
        random.seed(seed)
        attempt('spec', make_graph_from_spec, 'simple', spec)


def run(argv):
    out, err = io.StringIO(), io.StringIO()
    res = None
    try:
        with contextlib.redirect_stdout(out), contextlib.redirect_stderr(err):
            res = cnfgen_cli(argv, mode='string')
        status = 'ok'
    except SystemExit as e:
        status = 'exit:{!r}'.format(e.code)
    except BaseException as e:
        status = 'exc:{}:{}'.format(type(e).__name__, e)
    record(argv, status, res, out.getvalue(), err.getvalue(),
           random.getstate())


for seed in [0, 3, -12]:
    for spec in specs[:11]:
        run(['cnfgen', '--seed', seed, 'kcolor', 3] + spec)
        run(['cnfgen', '--seed', seed, 'tseitin', 'random'] + spec)
    run(['cnfgen', '--seed', seed, 'kclique', 3, 'gnp', 3, '.7', 3])
    run(['cnfgen', '--seed', seed, 'op', 'gnp', 2, '.5', 2, '-T', 'shuffle'])

print(H.hexdigest())
