"""Equivalence check for cnfgen.clitools.graph_build.obtain_bipartite_shift.

Exercises the 'shift' bipartite construction directly, through the graph
specification parser and through the `cnfgen` command line, on legal,
boundary and illegal arguments, and digests everything observable.
"""
import sys
import io
import os
import hashlib
import warnings
import random
import importlib

warnings.simplefilter('ignore')
sys.path.insert(0, os.getcwd())

cg = importlib.import_module("cnfgen.clitools.cnfgen")
import cnfgen.clitools.msg as msgmod
from cnfgen.info import info
from cnfgen.clitools.graph_build import obtain_bipartite_shift
from cnfgen.clitools.graph_args import make_graph_from_spec

out = []


def rec(*items):
    out.append(repr(items))


class Buf(io.StringIO):
    def close(self):
        pass

    def isatty(self):
        return False


def describe(G):
    L, R = G.left_order(), G.right_order()
    return (type(G).__name__, G.name, L, R, G.number_of_edges(),
            [list(G.right_neighbors(u)) for u in range(1, L + 1)],
            [list(G.left_neighbors(v)) for v in range(1, R + 1)])


def run_direct(args):
    random.seed(99)
    try:
        G = obtain_bipartite_shift({'graphtype': 'bipartite',
                                    'construction': 'shift',
                                    'args': args})
        rec('direct', args, describe(G))
    except BaseException as e:
        rec('direct', args, 'exc', type(e).__name__, str(e))


def run_spec(spec):
    random.seed(99)
    try:
        G = make_graph_from_spec('bipartite', spec)
        rec('spec', spec, describe(G))
    except BaseException as e:
        rec('spec', spec, 'exc', type(e).__name__, str(e))


def run_main(argv):
    msgmod._prefix = ''
    random.seed(20240518)
    saved = sys.argv, sys.stdout, sys.stderr, sys.stdin
    so, se = Buf(), Buf()
    sys.argv, sys.stdout, sys.stderr, sys.stdin = list(argv), so, se, Buf('')
    code = 0
    exc = None
    try:
        try:
            cg.main()
        except SystemExit as e:
            code = e.code
        except BaseException as e:  # unhandled internal exception
            exc = (type(e).__name__, str(e))
    finally:
        sys.argv, sys.stdout, sys.stderr, sys.stdin = saved
    rec('main', argv, code, exc, so.getvalue(), se.getvalue())


arglists = [
    [], ['3'], ['3', '4'], ['1', '1'], ['1', '1', '0'], ['1', '1', '1'],
    ['1', '1', '2'], ['3', '4', '0'], ['3', '4', '4'], ['3', '4', '5'],
    ['3', '4', '-1'], ['3', '4', '0', '4'], ['3', '4', '0', '1', '2', '3', '4'],
    ['3', '4', '3', '1', '2'], ['3', '4', '1', '1'], ['3', '4', '2', '1', '2'],
    ['3', '4', '0', '0'], ['3', '4', '4', '4'], ['3', '4', '5', '5'],
    ['3', '4', '-1', '-1'], ['3', '4', '1', '-1'], ['3', '4', '1', '5', '1'],
    ['0', '4', '1'], ['3', '0', '1'], ['3', '0'], ['0', '0'], ['-1', '4', '1'],
    ['3', '-4', '1'], ['3', '-4', '-5'], ['3.0', '4', '1'], ['3', '4.0', '1'],
    ['3', '4', '1.0'], ['3', '4', '1e0'], ['3', '4', 'nan'], ['inf', '4'],
    ['3', '4', ' 1 '], ['03', '04', '01'], ['3', '4', '+1', '1'],
    ['3', '4', '+1', '2'], ['5', '5', '0', '1', '2', '3', '4', '5'],
    ['5', '5', '5', '4', '3', '2', '1', '0'], ['6', '3', '1', '2'],
    ['2', '7', '6', '7'], ['2', '7', '7', '8'], ['10', '10', '0', '3', '7'],
    ['1_0', '1_0', '1'], ['x', '4'], ['3', 'y'], ['3', '4', 'z'],
    [3, 4, 1, 2], [3, 4, 1, 1], [3, 4, 1.5], [3, 4, None], None, 7,
    ('3', '4', '2'), ['4', '4', '2', '2', '3'], ['4', '4', '3', '2', '2'],
    ['4', '4', '1', '2', '3', '4', '0'], ['4', '4', '1', '2', '3', '4', '0', '0'],
]
for a in arglists:
    run_direct(a)

specs = [
    'shift', 'shift 3', 'shift 3 4', 'shift 3 4 1', 'shift 3 4 1 2 3',
    'shift 3 4 1 1', 'shift 3 4 5', 'shift 3 4 -1', 'shift 0 4 1',
    'shift 3 0 1', 'shift 3 4 4 0', 'shift 3 4 0 addedges 2',
    'shift 3 4 0 plantbiclique 2 2', 'shift 3 4 0 plantbiclique 9 2',
    'shift 3 4 0 addedges 100', 'shift 3 4 1.5', 'shift 3 4 x',
    'shift 3 4 1 shift 3 4 1', 'shift 4 4 0 1 2 3 4',
    ['shift', '5', '6', '1', '3', '6'], ['shift', '5', '6', '6', '6'],
]
for s in specs:
    run_spec(s)

cmds = [
    ['cnfgen', '-q', 'php', 'shift', '3', '2', '0'],
    ['cnfgen', '-q', 'php', 'shift', '3', '2', '0', '1'],
    ['cnfgen', '-q', 'php', 'shift', '3', '2', '0', '1', '2'],
    ['cnfgen', '-q', 'php', 'shift', '3', '2', '0', '0'],
    ['cnfgen', '-q', 'php', 'shift', '3', '2', '3'],
    ['cnfgen', '-q', 'php', 'shift', '3', '2', '-1'],
    ['cnfgen', '-q', 'php', 'shift', '3', '2'],
    ['cnfgen', '-q', 'php', 'shift', '3'],
    ['cnfgen', '-q', 'php', 'shift'],
    ['cnfgen', '-q', 'php', 'shift', '0', '2', '1'],
    ['cnfgen', '-q', 'php', 'shift', '3', '0', '1'],
    ['cnfgen', '-q', 'php', 'shift', '3', '2', '1.5'],
    ['cnfgen', 'php', 'shift', '4', '3', '1', '2'],
    ['cnfgen', '-of', 'opb', 'php', 'shift', '4', '3', '1', '2'],
    ['cnfgen', '-of', 'opb', 'php', 'shift', '4', '3', '2', '2'],
    ['cnfgen', '-l', 'php', 'shift', '4', '3', '0', '3'],
    ['cnfgen', '-l', 'php', 'shift', '4', '3', '4'],
    ['cnfgen', '-q', '-S', '4', 'php', 'shift', '4', '3', '1', 'addedges', '2'],
    ['cnfgen', '-q', '-S', '4', 'php', 'shift', '4', '3', '1', 'plantbiclique', '2', '2'],
    ['cnfgen', '-q', 'php', 'shift', '4', '3', '1', '-T', 'xor', '2'],
    ['cnfgen', '-q', 'php', 'shift', '4', '3', '1', '1', '-T', 'xor', '2'],
    ['cnfgen', '-q', 'subsetcard', 'shift', '4', '4', '0', '1', '2'],
    ['cnfgen', '-q', 'subsetcard', 'shift', '4', '4', '0', '1', '1'],
    ['cnfgen', '-q', 'kclique', '2', 'shift', '4', '4', '0', '1'],
]
for c in cmds:
    run_main(c)

text = "\n".join(out)
# the version comes from `git describe`: keep it out of the digest
text = text.replace('CNFgen ({})'.format(info['version']), 'CNFgen (<VER>)')
if os.environ.get("EQUIV_DUMP"):
    sys.stderr.write(text)
print(hashlib.sha256(text.encode('utf-8')).hexdigest())
