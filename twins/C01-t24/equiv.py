import hashlib, itertools, sys
sys.path.insert(0, '.')
from cnfgen.formula.cnf import CNF
from cnfgen.graphs import BipartiteGraph
from cnfgen.families.pigeonhole import (PigeonholePrinciple, GraphPigeonholePrinciple,
    BinaryPigeonholePrinciple, RelativizedPigeonholePrinciple)
from cnfgen.families.cliquecoloring import CliqueColoring

out = []
def rec(*a):
    out.append(repr(a))

def attempt(tag, fn):
    try:
        r = fn()
        rec(tag, 'ok', r)
    except Exception as ex:
        rec(tag, 'EXC', type(ex).__name__, str(ex))

def dump(tag, F):
    rec(tag, F.number_of_variables(), [list(c) for c in F.clauses()], F.header.get('description'),
        list(F.all_variable_labels()))

METHODS = ['force_complete_mapping', 'force_functional_mapping',
           'force_surjective_mapping', 'force_injective_mapping',
           'force_nondecreasing_mapping']

def bip(n, m, edges):
    B = BipartiteGraph(n, m)
    for u, v in edges:
        B.add_edge(u, v)
    return B

for n, m in itertools.product(range(0, 5), range(0, 6)):
    for meth in METHODS:
        # unary
        F = CNF()
        f = F.new_mapping(n, m)
        attempt(('unary', n, m, meth), lambda: getattr(F, meth)(f))
        dump(('unary', n, m, meth), F)
        # binary
        F = CNF()
        x = F.new_variable()
        f = F.new_binary_mapping(n, m)
        attempt(('binary', n, m, meth), lambda: getattr(F, meth)(f))
        dump(('binary', n, m, meth), F)
        # foreign formula
        F = CNF(); G = CNF()
        f = G.new_mapping(n, m)
        attempt(('foreign-unary', n, m, meth), lambda: getattr(F, meth)(f))
        dump(('foreign-unary', n, m, meth), F)
        G = CNF()
        f = G.new_binary_mapping(n, m)
        attempt(('foreign-binary', n, m, meth), lambda: getattr(F, meth)(f))
        dump(('foreign-binary', n, m, meth), F)

# sparse
graphs = [bip(3, 3, [(1, 1), (1, 2), (2, 2), (3, 1), (3, 3)]),
          bip(2, 4, [(1, 4), (2, 4), (2, 1)]),
          bip(3, 2, []), bip(0, 0, []), bip(4, 3, [(i, j) for i in range(1, 5) for j in range(1, 4)])]
for gi, B in enumerate(graphs):
    for meth in METHODS:
        F = CNF()
        f = F.new_sparse_mapping(B)
        attempt(('sparse', gi, meth), lambda: getattr(F, meth)(f))
        dump(('sparse', gi, meth), F)

# wrong kinds of argument
for meth in METHODS:
    F = CNF()
    blk = F.new_block(2, 3)
    edges = F.new_bipartite_edges(graphs[0])
    comb = F.new_combinations(4, 2)
    for tag, bad in [('block', blk), ('edges', edges), ('comb', comb), ('none', None), ('int', 3), ('list', [1, 2])]:
        attempt(('bad', meth, tag), lambda: getattr(F, meth)(bad))
    dump(('bad', meth), F)

# families
for p, h in itertools.product(range(0, 5), range(0, 5)):
    for fu, on in itertools.product([False, True], repeat=2):
        dump(('php', p, h, fu, on), PigeonholePrinciple(p, h, functional=fu, onto=on))
    dump(('bphp', p, h), BinaryPigeonholePrinciple(p, h))
    for r in range(0, 4):
        attempt(('rphp', p, r, h), lambda: [list(c) for c in RelativizedPigeonholePrinciple(p, r, h).clauses()])
for gi, B in enumerate(graphs):
    for fu, on in itertools.product([False, True], repeat=2):
        dump(('gphp', gi, fu, on), GraphPigeonholePrinciple(B, functional=fu, onto=on))
for n, k, c in itertools.product(range(0, 4), range(0, 4), range(0, 3)):
    dump(('cc', n, k, c), CliqueColoring(n, k, c))

print(hashlib.sha256("\n".join(out).encode()).hexdigest())
