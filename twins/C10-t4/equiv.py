#!/usr/bin/env python
"""Equivalence script for the refactoring of BaseOPB._check_and_update.

Run as:  cd <checkout> && /venv/bin/python equiv.py
Prints one SHA256 digest of everything observed.
"""
import os
import sys
import io
import random
import hashlib
from contextlib import redirect_stdout, redirect_stderr

sys.path.insert(0, os.getcwd())

import networkx as nx

import cnfgen
from cnfgen.formula.baseopb import BaseOPB
from cnfgen.formula.opb import OPB
from cnfgen.clitools.pbgen import cli as pbgen_cli

H = hashlib.sha256()
LOG = []


def rec(*items):
    line = ' '.join(repr(x) for x in items)
    LOG.append(line)
    H.update(line.encode('utf-8'))
    H.update(b'\n')


def attempt(tag, fn):
    try:
        res = fn()
        rec(tag, 'OK', res)
    except Exception as e:  # noqa
        cause = e.__cause__
        rec(tag, 'EXC', type(e).__name__, str(e),
            type(cause).__name__, str(cause))


def state(tag, F):
    rec(tag, 'numvar', F.number_of_variables(), 'len', len(F),
        'constraints', list(F), 'str', str(F))
    try:
        rec(tag, 'debug', F.debug(), F.debug(True, True))
    except Exception as e:  # noqa
        rec(tag, 'debugEXC', type(e).__name__, str(e))


def gen(items):
    for x in items:
        yield x


# data handed directly to the checker (already "normalized" or not)
RAW = [
    ('empty', []),
    ('empty_tuple', ()),
    ('only_op', ['>=', 1]),
    ('only_op_bad', ['<=', 1]),
    ('one', [(1, 3), '>=', 1]),
    ('neglit', [(2, -7), '==', 2]),
    ('several', [(1, 3), (2, -9), (5, 4), '>=', 3]),
    ('below_numvar', [(1, 2), '>=', 1]),
    ('zero_lit', [(1, 0), '>=', 1]),
    ('zero_lit_late', [(1, 12), (1, 0), '>=', 1]),
    ('neg_coeff', [(-1, 4), '>=', 1]),
    ('neg_coeff_late', [(1, 15), (-1, 4), '>=', 1]),
    ('zero_coeff', [(0, 11), '>=', 1]),
    ('zero_and_neg', [(-1, 0), '>=', 1]),
    ('bad_op', [(1, 20), '<', 1]),
    ('bad_op_gt', [(1, 21), '>', 1]),
    ('bad_op_neq', [(1, 22), '!=', 1]),
    ('bad_op_none', [(1, 23), None, 1]),
    ('op_is_int', [(1, 24), (1, 25), 1]),
    ('tuple_data', ((1, 30), '>=', 1)),
    ('string_lit', [(1, 'a'), '>=', 1]),
    ('string_coeff', [('a', 1), '>=', 1]),
    ('none_lit', [(1, None), '>=', 1]),
    ('float_lit', [(1, 31.5), '>=', 1]),
    ('float_coeff', [(0.5, 32), '>=', 1]),
    ('bool_lit', [(1, True), '>=', 1]),
    ('false_lit', [(1, False), '>=', 1]),
    ('triple', [(1, 2, 3), '>=', 1]),
    ('single', [(1,), '>=', 1]),
    ('int_term', [5, '>=', 1]),
    ('str_term', ['ab', '>=', 1]),
    ('str_term_zero', ['a0', '>=', 1]),
    ('short', ['>=']),
    ('short1', [1]),
    ('list_terms', [[1, 40], [2, -41], '==', 1]),
    ('big', [(1, 10 ** 7), '>=', 1]),
    ('string_data', 'abc'),
    ('string_data2', '>='),
]

# constraints handed to add_constraint (normalized first)
CONSTRAINTS = [
    ('geq', [(1, 3), (2, 1), (3, -2), '>=', 3]),
    ('gt', [(1, 3), (-2, 2), (1, 4), '>', 3]),
    ('eq', [(1, 3), (2, 1), (-3, -2), '==', 3]),
    ('lt', [(2, -3), '<', 1]),
    ('leq', [(1, 8), (1, -9), '<=', 1]),
    ('neq', [(1, 8), (1, -9), '!=', 1]),
    ('zero', [(1, 0), (1, 2), '>=', 1]),
    ('zero_leq', [(1, 0), (1, 2), '<=', 1]),
    ('zerocoeff', [(0, 5), (1, 2), '>=', 1]),
    ('noterms', ['>=', 0]),
    ('noterms_leq', ['<=', 0]),
    ('strlit', [(1, 'x'), '>=', 1]),
    ('strlit_neg', [(-1, 'x'), '>=', 1]),
    ('strcoeff', [('c', 2), '>=', 1]),
    ('nonelit', [(1, None), '>=', 1]),
    ('tuple', ((1, 3), '>=', 1)),
    ('tuple_neg', ((-1, 3), '>=', 1)),
    ('short', ['>=']),
    ('empty', []),
    ('badop', [(1, 3), 'foo', 1]),
    ('bigvar', [(3, -1000), (1, 999), '>', 0]),
]

CLAUSES = [
    ('empty', lambda: []),
    ('unit', lambda: [4]),
    ('list', lambda: [1, -2, 13]),
    ('tuple', lambda: (5, -6)),
    ('gen', lambda: gen([7, -18])),
    ('zero', lambda: [1, 0]),
    ('string', lambda: ['a']),
    ('none', lambda: [None]),
    ('float', lambda: [1.5]),
    ('nested', lambda: [[1, 2]]),
    ('pairs', lambda: [(1, 2)]),
]


def direct(cls):
    name = cls.__name__
    shared = cls()
    for tag, data in RAW:
        for start in (0, 10):
            F = cls()
            F.update_variable_number(start)
            t = '{}:raw:{}:{}'.format(name, tag, start)
            attempt(t, lambda: F._check_and_update(data))
            rec(t, F.number_of_variables(), len(F))
        attempt('{}:raw:{}:shared'.format(name, tag),
                lambda: shared._check_and_update(data))
        rec('{}:raw:{}:shared'.format(name, tag), shared.number_of_variables())
    for check in (True, False):
        shared = cls()
        for tag, cons in CONSTRAINTS:
            F = cls()
            t = '{}:cons:{}:check={}'.format(name, tag, check)
            attempt(t, lambda: F.add_constraint(cons, check=check))
            state(t, F)
            attempt(t + ':shared',
                    lambda: shared.add_constraint(cons, check=check))
            rec(t + ':shared', shared.number_of_variables(), len(shared))
        state('{}:cons:shared:check={}'.format(name, check), shared)
        shared = cls()
        for tag, mk in CLAUSES:
            F = cls()
            t = '{}:clause:{}:check={}'.format(name, tag, check)
            attempt(t, lambda: F.add_clause(mk(), check=check))
            state(t, F)
            attempt(t + ':shared', lambda: shared.add_clause(mk(), check=check))
            rec(t + ':shared', shared.number_of_variables(), len(shared))
        state('{}:clause:shared:check={}'.format(name, check), shared)
    # constructor / *_from
    attempt(name + ':ctor', lambda: list(cls(
        [[(1, 3), (2, 5), '>=', 2], [(1, -9), '<', 1]])))
    attempt(name + ':ctor0', lambda: list(cls([[(1, 0), '>=', 1]])))
    F = cls()
    attempt(name + ':from', lambda: F.add_constraints_from(
        [[(1, 2), '>=', 1], [(1, 0), '>=', 1], [(1, 9), '>=', 1]]))
    state(name + ':from', F)
    F = cls()
    attempt(name + ':fromnocheck', lambda: F.add_constraints_from(
        [[(1, 2), '>=', 1], [(1, 0), '>=', 1], [(1, 9), '>=', 1]], check=False))
    state(name + ':fromnocheck', F)
    F = cls()
    attempt(name + ':clausesfrom', lambda: F.add_clauses_from(
        [[1, 2], [], [-5], [0], [9]]))
    state(name + ':clausesfrom', F)
    # the helpers that check the literals through a dummy constraint
    for lits in ([1, -2, 3, 14, 5], [], [3], [1, 0], ['a', 2], (4, -6)):
        for const in (-1, 0, 1, 2, 3, 6):
            for m in ('cardinality_geq', 'cardinality_leq', 'cardinality_eq',
                      'cardinality_neq'):
                F = cls()
                t = '{}:{}:{}:{}'.format(name, m, lits, const)
                attempt(t, lambda: getattr(F, m)(list(lits), const))
                rec(t, F.number_of_variables(), list(F))
                F = cls()
                attempt(t + ':nocheck',
                        lambda: getattr(F, m)(list(lits), const, check=False))
                rec(t + ':nocheck', F.number_of_variables(), list(F))
        for const in (0, 1):
            for src in (lambda: list(lits), lambda: gen(lits)):
                F = cls()
                t = '{}:parity:{}:{}'.format(name, lits, const)
                attempt(t, lambda: F.add_parity(src(), const))
                rec(t, F.number_of_variables(), list(F))
        for m in ('add_loose_majority', 'add_loose_minority',
                  'add_strict_majority', 'add_strict_minority'):
            F = cls()
            t = '{}:{}:{}'.format(name, m, lits)
            attempt(t, lambda: getattr(F, m)(list(lits)))
            rec(t, F.number_of_variables(), list(F))


def random_streams():
    for seed in range(10):
        rng = random.Random(seed)
        F = OPB()
        for step in range(70):
            r = rng.random()
            tag = 'rnd-{}-{}'.format(seed, step)
            if r < 0.15:
                attempt(tag, lambda: list(F.new_block(rng.randint(0, 3),
                                                      rng.randint(1, 3))))
            elif r < 0.25:
                attempt(tag, lambda: F.new_variable('v{}'.format(step)))
            else:
                top = max(1, F.number_of_variables() + rng.choice([0, 0, 2]))
                k = rng.randint(1, min(5, top))
                terms = [(rng.choice([-3, -1, 1, 1, 2, 5]),
                          v * rng.choice([1, -1]))
                         for v in rng.sample(range(1, top + 1), k)]
                op = rng.choice(['>=', '<=', '==', '<', '>'])
                val = rng.randint(-2, 6)
                chk = rng.random() < 0.8
                if rng.random() < 0.2:
                    attempt(tag, lambda: F.add_clause(
                        [l for (_, l) in terms], check=chk))
                else:
                    attempt(tag, lambda: F.add_constraint(
                        terms + [op, val], check=chk))
            rec(tag, F.number_of_variables(), len(F))
        state('rnd{}'.format(seed), F)
        rec('rnd-opb', seed, F.to_opb())
        lits = [l for c in F for (_, l) in c[:-2]]
        rec('rnd-range', seed, max([abs(l) for l in lits] or [0]),
            F.number_of_variables())


def families():
    def dump(tag, F):
        lits = [l for c in F for (_, l) in c[:-2]]
        maxv = max([abs(l) for l in lits] or [0])
        rec(tag, F.number_of_variables(), len(F), maxv,
            maxv <= F.number_of_variables(), 0 not in lits,
            F.debug(True, True))
        rec(tag, 'labels', list(F.all_variable_labels())[:20])
        rec(tag, hashlib.sha256(F.to_opb().encode('utf-8')).hexdigest())
        rec(tag, hashlib.sha256(F.to_latex().encode('utf-8')).hexdigest())

    for argv in (['pbgen', 'php', 7, 5],
                 ['pbgen', 'php', 6, 6, '--functional', '--onto'],
                 ['pbgen', 'parity', 6],
                 ['pbgen', 'matching', 'complete', 6],
                 ['pbgen', 'count', 7, 3],
                 ['pbgen', 'op', 6],
                 ['pbgen', 'tseitin', 'first', 'grid', 3, 3],
                 ['pbgen', 'subsetcard', 'complete', 4, 4],
                 ['pbgen', 'kclique', 3, 'complete', 5],
                 ['pbgen', 'kcolor', 3, 'complete', 4],
                 ['pbgen', 'ram', 3, 3, 6],
                 ['pbgen', 'vdw', 9, 3, 3],
                 ['pbgen', 'peb', 'pyramid', 3],
                 ['pbgen', 'stone', 3, 'pyramid', 2],
                 ['pbgen', 'domset', 2, 'complete', 5],
                 ['pbgen', '--seed', 4, 'randkcnf', 3, 15, 40],
                 ['pbgen', 'and', 0, 0],
                 ['pbgen', 'or', 0, 0]):
        tag = ' '.join(str(a) for a in argv)
        try:
            F = pbgen_cli(argv, mode='formula')
        except BaseException as e:  # noqa
            rec(tag, 'EXC', type(e).__name__, str(e))
            continue
        dump(tag, F)


def cli():
    for argv in (['pbgen', '-q', 'php', '5', '4'],
                 ['pbgen', '-q', 'and', '0', '0'],
                 ['pbgen', '-q', 'or', '0', '0'],
                 ['pbgen', '-q', 'parity', '5'],
                 ['pbgen', '-q', 'parity', '4'],
                 ['pbgen', '-q', '--seed', '7', 'randkcnf', '3', '12', '40'],
                 ['pbgen', '-q', '--output-format', 'latex', 'parity', '4'],
                 ['pbgen', '-q', '--output-format', 'dimacs', 'parity', '4'],
                 ['pbgen', '-q', 'nosuchformula']):
        out, err = io.StringIO(), io.StringIO()
        code = None
        try:
            with redirect_stdout(out), redirect_stderr(err):
                pbgen_cli(argv)
        except SystemExit as e:
            code = e.code
        except Exception as e:  # noqa
            code = (type(e).__name__, str(e))
        rec('cli', argv, code, out.getvalue(), err.getvalue())


direct(BaseOPB)
direct(OPB)
random_streams()
families()
cli()

if '-v' in sys.argv:
    print('\n'.join(LOG))
print(H.hexdigest())
