#!/usr/bin/env python
"""Equivalence check for construction_for_another_type / format_for_another_type
(cnfgen/clitools/graph_args.py) and the error paths of graph arguments using them."""
import sys, os, io, hashlib, random, itertools
sys.path.insert(0, os.getcwd())

from cnfgen.clitools import graph_args as ga
from cnfgen.clitools import cnfgen as cnfgen_cli, CLIError

out = []

def rec(*xs):
    out.append(repr(xs))

def attempt(tag, f, *a, **kw):
    try:
        r = f(*a, **kw)
        rec(tag, 'OK', r)
    except BaseException as e:  # noqa
        rec(tag, 'EXC', type(e).__name__, str(e))

types = ['simple', 'dag', 'digraph', 'bipartite']
names = set()
for t in ga.constructions:
    names.update(ga.constructions[t])
for t in ga.formats:
    names.update(ga.formats[t])
names.update(['', 'foo', 'GNP', 'save', 'addedges', 'plantclique', 'simple',
              'dag', 'bipartite', 'digraph', 'file.dot', 'x.kthlist', '-', '-T',
              'gnp ', ' ', '0', '1.5'])
names = sorted(names)
for n in names:
    for t in types + ['unknown', None, '']:
        attempt(('cfat', n, t), ga.construction_for_another_type, n, t)
        attempt(('ffat', n, t), ga.format_for_another_type, n, t)
# unhashable / odd names
for n in [None, 3, ('gnp',), ['gnp']]:
    for t in types:
        attempt(('cfat', repr(n), t), ga.construction_for_another_type, n, t)
        attempt(('ffat', repr(n), t), ga.format_for_another_type, n, t)

# parse_graph_argument over many specs
tails = [[], ['10'], ['10', '.5'], ['3', '4', '2'], ['save', 'out.gml'],
         ['addedges', '2'], ['plantclique', '3'], ['gnp', '3', '.5'],
         ['-T', 'xor'], ['save'], ['save', 'dot'], ['save', 'dot', 'f.dot'],
         ['5', 'addedges', '1', 'addedges', '2'], ['5', 'bogus']]
for t in types:
    for n in names:
        for tail in tails:
            attempt(('parse', t, n, tuple(tail)), ga.parse_graph_argument, t, [n] + tail)
    attempt(('parse-empty', t), ga.parse_graph_argument, t, [])
    attempt(('parse-str', t), ga.parse_graph_argument, t, 'gnp 10 .5 addedges 3')
    attempt(('parse-str2', t), ga.parse_graph_argument, t, 'pyramid 3')
    attempt(('parse-str3', t), ga.parse_graph_argument, t, 'glrp 3 4 .5 plantbiclique 2 2')

# make_graph_from_spec for wrong-type constructions and a few good ones
def graph_summary(G):
    try:
        edges = sorted(G.edges())
    except Exception as e:
        edges = repr(e)
    return (type(G).__name__, G.name, G.number_of_vertices(), edges)

specs = [('simple', 'pyramid 3'), ('simple', 'glrd 4 5 2'), ('simple', 'kthlist g.kthlist'),
         ('dag', 'gnp 5 .5'), ('dag', 'matrix f.matrix'), ('dag', 'complete 4'),
         ('bipartite', 'grid 3 3'), ('bipartite', 'tree 2'), ('bipartite', 'dimacs f.dimacs'),
         ('simple', 'gnp 6 .5'), ('dag', 'pyramid 2'), ('bipartite', 'glrd 4 5 2'),
         ('simple', 'complete 4 plantclique 2 addedges 0'), ('bipartite', 'shift 4 5 0 1 3'),
         ('simple', 'nonexistent_file.gml'), ('dag', 'nonexistent'), ('bipartite', 'zzz.matrix')]
for t, s in specs:
    random.seed(42)
    def mk(t=t, s=s):
        return graph_summary(ga.make_graph_from_spec(t, s.split()))
    attempt(('mkgraph', t, s), mk)

# Whole command lines hitting these error paths
cmds = [
    ['cnfgen', '-q', 'tseitin', 'random', 'pyramid', '3'],
    ['cnfgen', '-q', 'tseitin', 'random', 'glrp', '3', '3', '.5'],
    ['cnfgen', '-q', 'tseitin', 'random', 'kthlist', 'f.kthlist'],
    ['cnfgen', '-q', 'tseitin', 'random', 'matrix', 'f.matrix'],
    ['cnfgen', '-q', 'peb', 'gnp', '4', '.5'],
    ['cnfgen', '-q', 'peb', 'dimacs', 'f.dimacs'],
    ['cnfgen', '-q', 'peb', 'regular', '4', '4', '2'],
    ['cnfgen', '-q', 'peb', 'pyramid', '2'],
    ['cnfgen', '-q', 'php', '5', 'tree', '2'],
    ['cnfgen', '-q', 'php', '5', 'torus', '3', '3'],
    ['cnfgen', '-q', 'php', '5', 'gml', 'f.gml'],
    ['cnfgen', '-q', 'php', 'shift', '4', '3', '0', '1'],
    ['cnfgen', '-q', 'kclique', '3', 'path', '4'],
    ['cnfgen', '-q', 'kclique', '3', 'complete', '4'],
    ['cnfgen', '-q', 'stone', '3', 'glrm', '3', '3', '4'],
    ['cnfgen', '-q', 'stone', '2', 'path', '2'],
    ['cnfgen', '-q', 'domset', '2', 'grid', '2', '2', 'pyramid', '1'],
    ['cnfgen', '-q', 'domset', '2', 'grid', '2', '2', 'bogus', '1'],
    ['pbgen', '-q', 'tseitin', 'random', 'pyramid', '3'],
]
from cnfgen.clitools.pbgen import cli as pbgen_cli
for c in cmds:
    random.seed(7)
    f = pbgen_cli if c[0] == 'pbgen' else cnfgen_cli
    attempt(('cli', tuple(c)), f, list(c), mode='string')

print(hashlib.sha256("\n".join(out).encode('utf-8')).hexdigest())
