#!/usr/bin/env python
"""Equivalence script for the refactoring of the helpers
cnfgen.graphs._label_sort_key and cnfgen.graphs.normalize_networkx_labels
(vertex renumbering of graphs read from GML / DOT files).

Prints a single SHA256 digest of everything observed: sort keys, relabeled
graphs, graphs converted/read from gml and dot text, exceptions and their
messages, and whatever the parsers print."""
import sys
import os
import io
import random
import hashlib
import contextlib

sys.path.insert(0, os.getcwd())

import networkx

from cnfgen.graphs import (readGraph, writeGraph, Graph, DirectedGraph,
                           BipartiteGraph, supported_graph_formats)
from cnfgen.graphs import _label_sort_key, normalize_networkx_labels

H = hashlib.sha256()


def emit(*items):
    H.update(repr(items).encode('utf-8'))
    H.update(b'\n')


def describe(G):
    if isinstance(G, (networkx.Graph, networkx.DiGraph)):
        return ['nx', type(G).__name__, list(G.nodes()), list(G.edges()),
                G.name, sorted((repr(k), repr(v)) for k, v in G.graph.items())]
    d = [type(G).__name__, G.number_of_vertices(), G.number_of_edges(),
         list(G.edges()), G.name]
    if G.is_bipartite():
        d.append((G.left_order(), G.right_order()))
    else:
        d.append(G.is_dag())
    return d


def attempt(tag, fn):
    out = io.StringIO()   # pydot reports parse errors on stdout
    err = io.StringIO()
    with contextlib.redirect_stdout(out), contextlib.redirect_stderr(err):
        try:
            res = fn()
            if isinstance(res, (tuple, str)):
                emit(tag, 'VAL', res)
            else:
                emit(tag, 'G', describe(res))
        except Exception as e:
            emit(tag, 'EXC', type(e).__name__, str(e))
    emit(tag, 'out', out.getvalue(), err.getvalue())


# --- 1. the sort key -------------------------------------------------
LABELS = [0, 1, -1, 2, 10, 9, 100, True, False, 10**30, -10**30,
          '0', '1', '2', '10', '9', '09', '-3', '--5', '-', '', ' ', ' 3',
          '3 ', '+4', '1.5', '1e3', 'a', 'A', 'a10', 'a9', '10a', '\\n',
          '٣', '²', '①', '-٣', 'x-1', '1-', '-1-',
          1.5, 2.0, -0.0, float('inf'), None, (1, 2), ('a',), (), b'1',
          b'abc', frozenset([1]), 3 + 0j]
for lab in LABELS:
    attempt(('key', repr(lab)), lambda: _label_sort_key(lab))

# ordering induced by the key
for pool in ([1, 10, 2, 9, 100, -1, 0],
             ['1', '10', '2', '9', '100', '-1', '0', '09'],
             [1, '10', 2, '9', 'a', 'b10', 'b9', 0],
             ['a', 'B', 'c', '10', '2'],
             ['x', 1.5, 2],
             ['x', (1, 2)],
             [None, 1, 'a'],
             [(1, 2), (0, 5), (3,)],
             [1, 2, '--5'],
             ['²', 1]):
    attempt(('sorted', repr(pool)),
            lambda: tuple(sorted(pool, key=_label_sort_key)))

# --- 2. relabeling of networkx graphs --------------------------------
rnd = random.Random(1414)


def nxgraph(cls, labels, edges, name=None):
    G = cls()
    G.add_nodes_from(labels)
    G.add_edges_from(edges)
    if name is not None:
        G.name = name
    return G


def random_edges(labels, p, ordered=False):
    res = []
    for i, u in enumerate(labels):
        for j, v in enumerate(labels):
            if i == j or (ordered and i > j) or (not ordered and i > j and False):
                continue
            if rnd.random() < p:
                res.append((u, v))
    return res


LABELSETS = [
    [],
    [1],
    ['1'],
    [3, 1, 2],
    list(range(12, 0, -1)),
    list(range(0, 11)),
    [str(i) for i in range(1, 13)],
    [str(i) for i in (10, 9, 11, 1, 2, 12, 3)],
    ['10', 9, '8', 7, 11, '12'],
    ['b', 'a', 'c', 'aa'],
    ['v10', 'v9', 'v1', 'v2'],
    ['x', 3, '2', 1, 'y', '10'],
    [5, 'x', (1, 2), '3'],
    [(2, 1), (1, 2), (1, 1)],
    [(2, 1), 'z', (1, 2)],
    [b'x', 'a', 1],
    [1.5, 2, 'a'],
    [2.5, 1.5, 0.5],
    [-1, -2, 0, '-3', '-10'],
    [1, 2, '--5'],
    ['²', 1, 2],
    ['٣', '2', '1'],
    [True, 2, 3],
    [frozenset([1]), frozenset([2]), frozenset([1, 2])],
    ['\\n', '1', '2'],
    [100, 20, 3, 4000],
]
for idx, labels in enumerate(LABELSETS):
    for p in (0.0, 0.5, 1.0):
        und = [(u, v) for (u, v) in random_edges(labels, p, ordered=True)]
        dire = random_edges(labels, p)
        for cls, edges in ((networkx.Graph, und), (networkx.DiGraph, dire)):
            G = nxgraph(cls, labels, edges, name='g{}'.format(idx))
            attempt(('relabel', idx, p, cls.__name__),
                    lambda: normalize_networkx_labels(G))
            # the input must not be modified
            emit(('relabel-input', idx, p, cls.__name__), describe(G))
        attempt(('Graph.from_networkx', idx, p),
                lambda: Graph.from_networkx(nxgraph(networkx.Graph, labels, und)))
        attempt(('Graph.normalize', idx, p),
                lambda: Graph.normalize(nxgraph(networkx.Graph, labels, und, 'nm')))
        attempt(('DirectedGraph.from_networkx', idx, p),
                lambda: DirectedGraph.from_networkx(
                    nxgraph(networkx.DiGraph, labels, dire, 'dg')))
        attempt(('DirectedGraph.normalize', idx, p),
                lambda: DirectedGraph.normalize(
                    nxgraph(networkx.DiGraph, labels, dire)))
        attempt(('Graph.from_networkx(DiGraph)', idx, p),
                lambda: Graph.from_networkx(
                    nxgraph(networkx.DiGraph, labels, dire)))
        attempt(('DirectedGraph.from_networkx(Graph)', idx, p),
                lambda: DirectedGraph.from_networkx(
                    nxgraph(networkx.Graph, labels, und)))

# standard networkx constructions
for name, G in [('path', networkx.path_graph(13)),
                ('cycle', networkx.cycle_graph(11)),
                ('grid', networkx.grid_2d_graph(3, 4)),
                ('petersen', networkx.petersen_graph()),
                ('star', networkx.star_graph(10)),
                ('dipath', networkx.path_graph(12, create_using=networkx.DiGraph)),
                ('hypercube', networkx.hypercube_graph(3)),
                ('empty', networkx.empty_graph(0)),
                ('kbip', networkx.complete_bipartite_graph(3, 9))]:
    attempt(('std-relabel', name), lambda: normalize_networkx_labels(G))
    if G.is_directed():
        attempt(('std', name), lambda: DirectedGraph.from_networkx(G))
    else:
        attempt(('std', name), lambda: Graph.from_networkx(G))
attempt(('std-bip',), lambda: BipartiteGraph.from_networkx(
    networkx.complete_bipartite_graph(3, 9)))

# --- 3. gml / dot round trips and hand written files -----------------
FORMATS = supported_graph_formats()
emit('formats', sorted(FORMATS.items()))


def rnd_simple(n, p):
    G = Graph(n, name='simple {}'.format(n))
    for u in range(1, n + 1):
        for v in range(u + 1, n + 1):
            if rnd.random() < p:
                G.add_edge(u, v)
    return G


def rnd_directed(n, p, dag):
    G = DirectedGraph(n, name='directed {}'.format(n))
    for u in range(1, n + 1):
        for v in range(1, n + 1):
            if u == v or (dag and u > v):
                continue
            if rnd.random() < p:
                G.add_edge(u, v)
    return G


def rnd_bipartite(L, R, p):
    G = BipartiteGraph(L, R, name='bip {} {}'.format(L, R))
    for u in range(1, L + 1):
        for v in range(1, R + 1):
            if rnd.random() < p:
                G.add_edge(u, v)
    return G


POOL = {
    'simple': [rnd_simple(n, p) for n in (0, 1, 2, 9, 10, 11, 23) for p in (0.0, 0.3, 1.0)],
    'digraph': [rnd_directed(n, p, False) for n in (0, 1, 3, 10, 14) for p in (0.0, 0.3)],
    'dag': [rnd_directed(n, p, True) for n in (0, 1, 4, 12, 21) for p in (0.0, 0.4)],
    'bipartite': [rnd_bipartite(L, R, p)
                  for (L, R) in ((0, 0), (1, 1), (3, 2), (2, 11), (10, 4), (12, 12))
                  for p in (0.0, 0.5)],
}
for gtype in ('simple', 'digraph', 'dag', 'bipartite'):
    for i, G in enumerate(POOL[gtype]):
        for fmt in ('gml', 'dot'):
            if fmt not in FORMATS[gtype]:
                continue
            buf = io.StringIO()
            writeGraph(G, buf, gtype, fmt)
            text = buf.getvalue()
            emit(('written', gtype, i, fmt), text)
            attempt(('rt', gtype, i, fmt),
                    lambda: readGraph(io.StringIO(text), gtype, fmt))
            with contextlib.redirect_stdout(io.StringIO()):
                G2 = readGraph(io.StringIO(text), gtype, fmt)
            emit(('rt-same', gtype, i, fmt),
                 G2.number_of_vertices() == G.number_of_vertices(),
                 list(G2.edges()) == list(G.edges()))
            for other in ('simple', 'digraph', 'dag', 'bipartite'):
                if other != gtype:
                    attempt(('rt-as', gtype, i, fmt, other),
                            lambda: readGraph(io.StringIO(text), other, fmt))
            # truncated and corrupted copies
            for _ in range(3):
                cut = rnd.randrange(0, len(text) + 1)
                attempt(('trunc', gtype, i, fmt, cut),
                        lambda: readGraph(io.StringIO(text[:cut]), gtype, fmt))
            lines = text.split('\n')
            for _ in range(3):
                ls = list(lines)
                pos = rnd.randrange(0, len(ls))
                del ls[pos]
                attempt(('dropline', gtype, i, fmt, pos),
                        lambda: readGraph(io.StringIO('\n'.join(ls)), gtype, fmt))

HAND_GML = [
    'graph [\n node [ id 3 ]\n node [ id 1 ]\n node [ id 2 ]\n'
    ' edge [ source 3 target 1 ]\n edge [ source 1 target 2 ]\n]\n',
    'graph [\n node [ id 10 ]\n node [ id 9 ]\n node [ id 11 ]\n node [ id 2 ]\n'
    ' edge [ source 10 target 9 ]\n edge [ source 2 target 11 ]\n]\n',
    'graph [\n node [ id 0 ]\n node [ id 5 ]\n node [ id 7 ]\n'
    ' edge [ source 0 target 7 ]\n]\n',
    'graph [\n directed 1\n node [ id 3 ]\n node [ id 1 ]\n node [ id 2 ]\n'
    ' edge [ source 3 target 1 ]\n edge [ source 1 target 2 ]\n]\n',
    'graph [\n directed 1\n node [ id 1 ]\n node [ id 2 ]\n node [ id 3 ]\n'
    ' edge [ source 1 target 2 ]\n edge [ source 2 target 3 ]\n]\n',
    'graph [\n directed 1\n node [ id 12 ]\n node [ id 2 ]\n node [ id 30 ]\n'
    ' edge [ source 2 target 12 ]\n edge [ source 12 target 30 ]\n]\n',
    'graph [\n node [ id 1 label "b" ]\n node [ id 2 label "a" ]\n'
    ' edge [ source 1 target 2 ]\n]\n',
    'graph [\n node [ id -1 ]\n node [ id -2 ]\n edge [ source -1 target -2 ]\n]\n',
    'graph [\n node [ id 1 bipartite 0 ]\n node [ id 2 bipartite 1 ]\n'
    ' node [ id 3 bipartite 0 ]\n edge [ source 1 target 2 ]\n'
    ' edge [ source 3 target 2 ]\n]\n',
    'graph [\n]\n',
    'graph [\n node [ id 1 ]\n node [ id 1 ]\n]\n',
    'graph [\n node [ id 1 ]\n edge [ source 1 target 5 ]\n]\n',
    'graph [\n node [ id 1 ]\n node [ id 2 ]\n edge [ source 1 target 1 ]\n]\n',
    '',
    'garbage',
    'graph [ node [ id 1 ] node [ id é ] ]',
]
HAND_DOT = [
    'graph G {\n 3; 1; 2;\n 3 -- 1;\n 1 -- 2;\n}\n',
    'graph G {\n 10; 9; 11; 2;\n 10 -- 9;\n 2 -- 11;\n}\n',
    'graph G {\n 1 -- 2;\n 2 -- 10;\n 10 -- 3;\n}\n',
    'graph G {\n a; b; c;\n c -- a;\n}\n',
    'graph G {\n b10; b9; 3; 20;\n b10 -- 3;\n b9 -- 20;\n}\n',
    'graph G {\n "--5"; 1; 2;\n}\n',
    'digraph G {\n 3; 1; 2;\n 3 -> 1;\n 1 -> 2;\n}\n',
    'digraph G {\n 1 -> 2;\n 2 -> 3;\n 1 -> 12;\n 12 -> 13;\n}\n',
    'digraph G {\n 12 -> 2;\n}\n',
    'digraph G {\n x -> y;\n y -> 1;\n}\n',
    'graph G {\n 1 [bipartite=0];\n 2 [bipartite=1];\n 10 [bipartite=0];\n'
    ' 1 -- 2;\n 10 -- 2;\n}\n',
    'graph G {\n}\n',
    'graph G {\n 1 -- 1;\n}\n',
    'graph G {\n 1 -- 2\n',
    '',
    'garbage',
]
for fmt, texts in (('gml', HAND_GML), ('dot', HAND_DOT)):
    for i, text in enumerate(texts):
        for gtype in ('simple', 'digraph', 'dag', 'bipartite'):
            if fmt in FORMATS[gtype]:
                attempt(('hand', fmt, i, gtype),
                        lambda: readGraph(io.StringIO(text), gtype, fmt))

print(H.hexdigest())
