"""Equivalence check for TseitinCmdHelper.build_formula (random charges).

Runs cnfgen / pbgen 'tseitin' command lines in-process with many seeds,
charge kinds and graph specs; hashes outputs, errors and the state of
the random generator after each run (so that the amount of randomness
consumed is observable too).
"""
import sys, os, io, hashlib, random, contextlib
sys.path.insert(0, os.getcwd())

from cnfgen.clitools.cnfgen import cli as cnfgen_cli
from cnfgen.clitools.pbgen import cli as pbgen_cli

H = hashlib.sha256()
STAT = {}


def record(*items):
    for it in items:
        H.update(repr(it).encode('utf8'))
        H.update(b'\x00')


def run(cli, argv):
    out, err = io.StringIO(), io.StringIO()
    res = None
    try:
        with contextlib.redirect_stdout(out), contextlib.redirect_stderr(err):
            res = cli(argv, mode='string')
        status = 'ok'
    except SystemExit as e:
        status = 'exit:{!r}'.format(e.code)
    except BaseException as e:
        status = 'exc:{}:{}'.format(type(e).__name__, e)
    STAT[status[:12]] = STAT.get(status[:12], 0) + 1
    record(argv, status, res, out.getvalue(), err.getvalue(),
           random.getstate())


seeds = [0, 1, 42, -3, 2**40 + 1]
charges = ['first', 'random', 'randomodd', 'randomeven', 'zero', 'one',
           'bogus']
graphs = [['gnd', 6, 3], ['gnp', 7, '.5'], ['gnm', 6, 7],
          ['complete', 1], ['complete', 2], ['complete', 4],
          ['grid', 2, 3], ['empty', 3],
          ['gnp', 6, '.4', 'addedges', 2],
          ['gnm', 6, 5, 'plantclique', 3],
          ['gnd', 6, 3, 'splitedges', 2],
          ['gnp', 3, '.5', 2]]

for tool, cli in [('cnfgen', cnfgen_cli), ('pbgen', pbgen_cli)]:
    for seed in (seeds if tool == 'cnfgen' else seeds[:2]):
        # shortcut form: random regular graph, random odd charge
        for nd in [[4], [5], [6, 3], [7, 2], [8, 5], [2, 1], [3, 3],
                   [5, 3], [1], [0], [4, 9]]:
            run(cli, [tool, '--seed', seed, 'tseitin'] + nd)
            if seed == 0:
                run(cli, [tool, '-q', '-S', seed, 'tseitin'] + nd)
        for ch in charges:
            for g in graphs:
                run(cli, [tool, '--seed', seed, 'tseitin', ch] + g)

# a few with transformations and no seed option given (seeded from outside)
for seed in [0, 5, 11]:
    for ch in ['random', 'randomodd', 'randomeven']:
        random.seed(seed)
        run(cnfgen_cli, ['cnfgen', 'tseitin', ch, 'gnd', 8, 3, '-T', 'shuffle'])
        random.seed(seed)
        run(cnfgen_cli, ['cnfgen', 'tseitin', 6, 3, '-T', 'xor', 2])

if os.environ.get('EQUIV_DEBUG'):
    print(STAT, file=sys.stderr)
print(H.hexdigest())
