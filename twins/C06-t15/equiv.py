#!/usr/bin/env python
"""Equivalence script for refactoring t15 (from_dimacs_file, source name lookup).

Run as: cd <checkout> && /venv/bin/python equiv.py
Prints one SHA256 digest of everything observed.
"""
import hashlib
import io
import os
import random
import sys
import tempfile
import warnings

warnings.simplefilter('ignore')
sys.path.insert(0, os.getcwd())

from cnfgen.formula.cnf import CNF
from cnfgen.formula.cnfio import CNFio
from cnfgen.utils.parsedimacs import from_dimacs_file, to_dimacs_file, parse_dimacs

OUT = []


def rec(*items):
    OUT.append(repr(items))


def dump(F):
    s = io.StringIO()
    to_dimacs_file(F, s, export_header=True, export_varnames=True)
    return (type(F).__name__, F.number_of_variables(), F.number_of_clauses(),
            [list(c) for c in F], list(F.header.items()), s.getvalue(), str(F))


def attempt(label, fn):
    try:
        res = fn()
        rec(label, 'ok', dump(res))
    except BaseException as e:  # noqa
        rec(label, 'exc', type(e).__name__, str(e))


class Named(io.StringIO):
    """A text stream which carries a `name` attribute of arbitrary type"""
    def __init__(self, text, name):
        io.StringIO.__init__(self, text)
        self.name = name


class NoNameAttrError:
    """`name` lookup fails with AttributeError raised by a property"""
    def __init__(self, text):
        self._s = io.StringIO(text)

    @property
    def name(self):
        raise AttributeError("hidden name")

    def readlines(self):
        return self._s.readlines()


class NameRuntimeError(NoNameAttrError):
    @property
    def name(self):
        raise RuntimeError("name exploded")


class NameKeyError(NoNameAttrError):
    @property
    def name(self):
        raise KeyError("name key")


class GetattrFallback:
    """Name provided via __getattr__"""
    def __init__(self, text):
        self._s = io.StringIO(text)

    def __getattr__(self, attr):
        if attr == 'name':
            return 'via-getattr.cnf'
        raise AttributeError(attr)

    def readlines(self):
        return self._s.readlines()


class OnlyReadlines:
    def __init__(self, text):
        self._t = text

    def readlines(self):
        return self._t.splitlines(True)


TEXTS = [
    "p cnf 0 0\n",
    "p cnf 3 0\n",
    "p cnf 0 1\n0\n",
    "p cnf 4 3\n1 -2 0\n0\n3 4 -1 0\n",
    "c hello\nc\n\np cnf 5 2\n1 2\n3 0 -5\n0\n",
    "c varname 1 x\np cnf 2 2\n1 -2 0 2 -1 0\n",
    # corrupted
    "",
    "c only comments\n",
    "p cnf 2 2\n1 -2 0\n",
    "p cnf 2 1\n1 -3 0\n",
    "p cnf 2 1\n1 -2\n",
    "p cnf 2 1\np cnf 2 1\n1 0\n",
    "1 2 0\np cnf 2 1\n",
    "p cnf -1 1\n1 0\n",
    "p cnf a b\n",
    "p cnf 2\n",
    "p cnf 2 1\n1 x 0\n",
    "p cnf 2 1\n1 2 0\n%\n0\n",
    "p cnf 2 0\n1 2 0\n",
    "p  cnf   3   1  \n  -3   0  \n",
    "P CNF 1 1\n1 0\n",
]

NAMES = ['file.cnf', '', '<weird name>\n second line', 'nàme ☃.cnf', 3, None,
         ('a', 'b'), 0, b'bytes.cnf', '{}', '{0}{1}']


def main():
    # 1. nameless and named streams for all texts and classes
    for cls in (CNF, CNFio):
        for ti, text in enumerate(TEXTS):
            attempt(('stringio', cls.__name__, ti),
                    lambda: from_dimacs_file(cls, io.StringIO(text)))
            attempt(('onlyreadlines', cls.__name__, ti),
                    lambda: from_dimacs_file(cls, OnlyReadlines(text)))
            attempt(('classmethod', cls.__name__, ti),
                    lambda: cls.from_file(io.StringIO(text)))
        for ni, nm in enumerate(NAMES):
            for ti in (0, 3, 4, 8, 9):
                attempt(('named', cls.__name__, ni, ti),
                        lambda: from_dimacs_file(cls, Named(TEXTS[ti], nm)))
        for ti in (0, 3, 6, 9, 12):
            text = TEXTS[ti]
            attempt(('attrerr-prop', cls.__name__, ti),
                    lambda: from_dimacs_file(cls, NoNameAttrError(text)))
            attempt(('runtimeerr-prop', cls.__name__, ti),
                    lambda: from_dimacs_file(cls, NameRuntimeError(text)))
            attempt(('keyerr-prop', cls.__name__, ti),
                    lambda: from_dimacs_file(cls, NameKeyError(text)))
            attempt(('getattr-fallback', cls.__name__, ti),
                    lambda: from_dimacs_file(cls, GetattrFallback(text)))

    # 2. objects that are not streams at all
    for bad in (42, 3.5, [], ("p cnf 0 0",), b"p cnf 0 0\n", object()):
        attempt(('notastream', repr(type(bad))), lambda: from_dimacs_file(CNF, bad))

    # 3. real files, by name and by handle, and stdin
    olddir = os.getcwd()
    tmp = tempfile.mkdtemp(prefix='c06t15')
    try:
        os.chdir(tmp)
        for ti, text in enumerate(TEXTS):
            fname = 'in{}.cnf'.format(ti)
            with open(fname, 'w', encoding='utf-8') as f:
                f.write(text)
            attempt(('byname', ti), lambda: from_dimacs_file(CNF, fname))
            attempt(('byname-cm', ti), lambda: CNF.from_file(fname))

            def byhandle():
                with open(fname, 'r', encoding='utf-8') as fh:
                    return from_dimacs_file(CNF, fh)
            attempt(('byhandle', ti), byhandle)

            def bybinhandle():
                with open(fname, 'rb') as fh:
                    return from_dimacs_file(CNF, fh)
            attempt(('bybinaryhandle', ti), bybinhandle)

            oldstdin = sys.stdin
            try:
                sys.stdin = io.StringIO(text)
                attempt(('stdin', ti), lambda: from_dimacs_file(CNF))
                sys.stdin = io.StringIO(text)
                attempt(('stdin-cm', ti), lambda: CNFio.from_file(None))
            finally:
                sys.stdin = oldstdin
        attempt(('missingfile',), lambda: from_dimacs_file(CNF, 'does-not-exist.cnf'))
        attempt(('emptyname',), lambda: from_dimacs_file(CNF, ''))

        # 4. round trips of random formulas through named and nameless streams
        rnd = random.Random(20240615)
        for trial in range(60):
            n = rnd.randint(0, 12)
            m = rnd.randint(0, 15)
            F = CNF(description='rnd {} è \n multi'.format(trial))
            F.update_variable_number(n)
            for _ in range(m):
                w = rnd.randint(0, 5) if n > 0 else 0
                F.add_clause([rnd.choice([-1, 1]) * rnd.randint(1, n) for _ in range(w)])
            for hdr in (True, False):
                for vn in (True, False):
                    s = io.StringIO()
                    to_dimacs_file(F, s, export_header=hdr, export_varnames=vn)
                    text = s.getvalue()
                    rec('rt-text', trial, hdr, vn, text)
                    G = from_dimacs_file(CNF, io.StringIO(text))
                    rec('rt-nameless', dump(G), list(G) == list(F),
                        G.number_of_variables() == F.number_of_variables())
                    H = from_dimacs_file(CNFio, Named(text, 'rt{}.cnf'.format(trial)))
                    rec('rt-named', dump(H))
                    fname = 'rt{}.cnf'.format(trial)
                    to_dimacs_file(F, fname, export_header=hdr, export_varnames=vn)
                    K = from_dimacs_file(CNF, fname)
                    rec('rt-file', dump(K))
                    # damaged copies
                    cut = rnd.randint(0, len(text))
                    attempt(('rt-trunc', trial, hdr, vn),
                            lambda: from_dimacs_file(CNF, Named(text[:cut], 'cut')))
                    pos = rnd.randint(0, max(0, len(text) - 1))
                    dam = text[:pos] + rnd.choice('0123456789- \npcx') + text[pos + 1:]
                    attempt(('rt-damage', trial, hdr, vn),
                            lambda: from_dimacs_file(CNF, io.StringIO(dam)))
    finally:
        os.chdir(olddir)
        for fn in os.listdir(tmp):
            os.unlink(os.path.join(tmp, fn))
        os.rmdir(tmp)

    # 5. the command line helper reading dimacs
    from cnfgen.clitools.cnfgen import cli
    from cnfgen.clitools.cnfshuffle import cli as shufflecli
    tmp = tempfile.mkdtemp(prefix='c06t15b')
    try:
        os.chdir(tmp)
        for ti, text in enumerate(TEXTS):
            fname = 'cli{}.cnf'.format(ti)
            with open(fname, 'w', encoding='utf-8') as f:
                f.write(text)
            for mode in ('string', 'formula'):
                def run():
                    r = cli(['cnfgen', '-q', 'dimacs', fname], mode=mode)
                    if mode == 'string':
                        rec('cli-string', ti, r)
                        return CNF.from_file(io.StringIO(r))
                    return r
                attempt(('cli-dimacs', ti, mode), run)

            def runshuffle():
                return shufflecli(['cnfshuffle', '-S', '7', '-i', fname], mode='formula')
            attempt(('cnfshuffle', ti), runshuffle)
    finally:
        os.chdir(olddir)
        for fn in os.listdir(tmp):
            os.unlink(os.path.join(tmp, fn))
        os.rmdir(tmp)

    h = hashlib.sha256()
    for item in OUT:
        h.update(item.encode('utf-8', errors='backslashreplace'))
        h.update(b'\n')
    print(h.hexdigest())


if __name__ == '__main__':
    main()
