"""Equivalence digest for the refactoring of
cnfgen.clitools.graph_args.construction_for_another_type and
cnfgen.clitools.graph_args.format_for_another_type

Run as:  cd <checkout> && /venv/bin/python equiv.py
"""
import sys
import os
import io
import hashlib
import random
import warnings

warnings.simplefilter('ignore')
sys.path.insert(0, os.getcwd())

from cnfgen.clitools.graph_args import parse_graph_argument
from cnfgen.clitools.graph_args import make_graph_from_spec
from cnfgen.clitools.graph_args import construction_for_another_type
from cnfgen.clitools.graph_args import format_for_another_type
from cnfgen.clitools.graph_args import constructions, formats
import importlib
import cnfgen.clitools.msg as msgmod

# (`cnfgen.clitools.cnfgen` the attribute is a function, not the module)
cnfgen_cli = importlib.import_module('cnfgen.clitools.cnfgen')
pbgen_cli = importlib.import_module('cnfgen.clitools.pbgen')
from cnfgen.info import info

# the version string comes from `git describe`: pin it
info['version'] = 'equiv'

H = hashlib.sha256()


def record(*items):
    for x in items:
        H.update(repr(x).encode('utf8'))
        H.update(b'\x00')


class KeepOpen(io.StringIO):
    def close(self):
        pass


def run_main(module, argv, stdin_text=''):
    """Run the `main` entry point of a command line tool in process"""
    old = sys.argv, sys.stdout, sys.stderr, sys.stdin
    out, err = KeepOpen(), KeepOpen()
    sys.argv, sys.stdout, sys.stderr = list(argv), out, err
    sys.stdin = io.StringIO(stdin_text)
    code = 0
    msgmod._prefix = ''   # a fresh process starts with no prefix
    random.seed(1234)
    try:
        try:
            module.main()
        except SystemExit as e:
            code = e.code
        except BaseException as e:  # unhandled internal exception
            code = ('UNHANDLED', type(e).__name__, str(e))
    finally:
        sys.argv, sys.stdout, sys.stderr, sys.stdin = old
    record(argv, code, out.getvalue(), err.getvalue())
    if os.environ.get("EQUIV_DEBUG"): print(argv, code, out.getvalue()[:300], err.getvalue()[:300], file=sys.__stderr__)


def attempt(label, f, *args):
    random.seed(11)
    try:
        res = f(*args)
        if hasattr(res, 'number_of_edges'):
            res = (type(res).__name__, res.name, res.number_of_vertices(),
                   sorted(res.edges()))
        elif isinstance(res, dict):
            res = sorted(res.items())
        record('ok', label, args, res)
    except BaseException as e:
        record('exc', label, args, type(e).__name__, str(e))
    record(random.random())


# 1. the two predicates, on every known name and some unknown ones
graphtypes = ['simple', 'dag', 'digraph', 'bipartite', 'unknown', '', None]
names = set()
for t in constructions:
    names.update(constructions[t])
for t in formats:
    names.update(formats[t])
names = sorted(names) + [
    'GNP', 'gnp ', '', 'save', 'addedges', 'plantclique', 'simple', 'dag',
    'bipartite', 'digraph', 'file.gml', 'file.matrix', '-', '3', None, 7,
    ('gnp', ), 'matrix.', 'Matrix'
]
for t in graphtypes:
    for name in names:
        attempt('construction_for_another_type',
                construction_for_another_type, name, t)
        attempt('format_for_another_type', format_for_another_type, name, t)
attempt('unhashable', construction_for_another_type, ['gnp'], 'simple')
attempt('unhashable', format_for_another_type, ['gml'], 'simple')
attempt('unhashable', format_for_another_type, {'gml'}, 'bipartite')

# 2. the graph argument parser, which calls them on the first token
specs = [
    'gnp 10 .5', 'glrp 3 3 .5', 'tree 3', 'path 4', 'pyramid 2', 'matrix f.x',
    'matrix', 'dimacs f.x', 'dimacs', 'kthlist', 'gml g.gml', 'dot',
    'shift 3 3 1', 'regular 4 4 2', 'complete 3', 'complete 3 3', 'empty 2',
    'empty 2 2', 'grid 2 2', 'torus 3 3', 'gnm 4 2', 'gnd 4 2', 'glrm 2 2 1',
    'glrd 2 2 1', 'nonexistent.gml', 'nonexistent', 'nonexistent.matrix',
    'nonexistent.dimacs', 'gnp', 'tree', 'matrix matrix', 'tree tree',
    'gnp 4 .5 tree', 'tree 3 gnp', 'glrp 2 2 1 path', '-x', 'simple',
    'gnp 3 1 save', 'gnp 3 1 save matrix', 'gnp 3 1 save dimacs',
    'glrp 2 2 1 save dimacs', 'tree 2 save matrix', '', ' ',
]
for t in ['simple', 'dag', 'digraph', 'bipartite']:
    for s in specs:
        attempt('parse', parse_graph_argument, t, s)
        attempt('parse-list', parse_graph_argument, t, s.split())
        if 'save' not in s:
            attempt('make', make_graph_from_spec, t, s)
attempt('parse', parse_graph_argument, 'unknown', 'gnp 3 1')
attempt('parse', parse_graph_argument, 'simple', [])
attempt('parse', parse_graph_argument, 'simple', None)

# 3. through the command line tools
cmdlines = [
    ['cnfgen', '-q', 'kcolor', '3', 'gnp', '5', '1'],
    ['cnfgen', '-q', 'kcolor', '3', 'glrp', '5', '5', '1'],
    ['cnfgen', '-q', 'kcolor', '3', 'tree', '3'],
    ['cnfgen', '-q', 'kcolor', '3', 'matrix', 'foo'],
    ['cnfgen', '-q', 'kcolor', '3', 'matrix'],
    ['cnfgen', '-q', 'kcolor', '3', 'dimacs'],
    ['cnfgen', '-q', 'kcolor', '3', 'nosuchfile.matrix'],
    ['cnfgen', '-q', 'php', 'gnp', '5', '1'],
    ['cnfgen', '-q', 'php', 'dimacs', 'foo'],
    ['cnfgen', '-q', 'php', 'pyramid', '2'],
    ['cnfgen', '-q', 'php', 'complete', '3', '2'],
    ['cnfgen', '-q', 'php', 'regular', '4', '4', '2'],
    ['cnfgen', '-q', 'peb', 'gnp', '5', '1'],
    ['cnfgen', '-q', 'peb', 'matrix', 'foo'],
    ['cnfgen', '-q', 'peb', 'shift', '3', '3', '1'],
    ['cnfgen', '-q', 'peb', 'pyramid', '2'],
    ['cnfgen', '-q', 'peb', 'grid', '2', '2'],
    ['cnfgen', '-q', 'stone', '2', 'torus', '3', '3'],
    ['cnfgen', '-q', 'stone', '2', 'path', '3'],
    ['cnfgen', '-q', '-of', 'opb', 'tseitin', 'random', 'glrd', '3', '3', '1'],
    ['cnfgen', '-q', '-of', 'latex', 'op', '3', '-T', 'xor', '2'],
    ['cnfgen', '-q', 'op', '3', '-T', 'xorcomp', 'gnp', '3', '1'],
    ['cnfgen', '-q', 'op', '3', '-T', 'xorcomp', 'glrd', '6', '3', '2'],
    ['cnfgen', '-q', 'op', '3', '-T', 'xorcomp', 'dimacs', 'foo'],
    ['pbgen', '-q', 'kcolor', '3', 'glrp', '5', '5', '1'],
    ['pbgen', '-q', 'kcolor', '3', 'matrix', 'foo'],
    ['pbgen', '-q', 'php', 'tree', '5'],
    ['pbgen', '-q', 'php', 'dimacs', 'foo'],
    ['pbgen', '-q', 'peb', 'gnd', '4', '2'],
    ['pbgen', '-q', 'peb', 'path', '3'],
]
for argv in cmdlines:
    run_main(cnfgen_cli if argv[0] == 'cnfgen' else pbgen_cli, argv)

print(H.hexdigest())
