#!/usr/bin/env python
"""Equivalence harness for the pseudo-Boolean cardinality builders of
BaseOPB / OPB, with emphasis on cardinality_neq (the only one blasted
into clauses).

Prints one SHA256 digest of everything observable.
"""
import sys
import os
import hashlib
import random
import warnings

warnings.simplefilter('ignore')
sys.path.insert(0, os.getcwd())

from cnfgen.formula.baseopb import BaseOPB
from cnfgen.formula.opb import OPB

out = []


def rec(*args):
    out.append(repr(args))


def attempt(tag, fn):
    try:
        res = fn()
        rec(tag, 'ok', res)
    except Exception as e:
        rec(tag, 'EXC', type(e).__name__, str(e),
            type(e.__cause__).__name__, str(e.__cause__))


def state(F):
    return (list(F), len(F), F.number_of_variables())


rng = random.Random(20240613)

# literal lists of many lengths and polarity patterns
litlists = [[], [1], [-1], [5], [1, 2], [-1, 2], [-2, -1], [3, -7, 2],
            [1, 2, 3, 4], [-1, -2, -3, -4], [4, -3, 2, -1, 6],
            [1, 4, 2, -3, 6, -5], [2, 2], [1, -1], [1, -1, 2, 2]]
for n in range(1, 8):
    for _ in range(3):
        vs = rng.sample(range(1, 12), n)
        litlists.append([v * rng.choice([1, -1]) for v in vs])


def shapes(lits):
    yield 'list', lambda: list(lits)
    yield 'tuple', lambda: tuple(lits)
    yield 'gen', lambda: (l for l in lits)
    yield 'iter', lambda: iter(lits)


builders = ['cardinality_neq', 'cardinality_eq', 'cardinality_geq',
            'cardinality_leq']

for cls in [BaseOPB, OPB]:
    for lits in litlists:
        n = len(lits)
        for value in list(range(-3, n + 4)) + [100, -100]:
            for name in builders:
                if cls is OPB and name != 'cardinality_neq':
                    continue
                for check in [True, False]:
                    for shname, mk in shapes(lits):
                        if name != 'cardinality_neq' and shname != 'list':
                            continue
                        F = cls()
                        arg = mk()
                        attempt((cls.__name__, name, lits, value, check, shname),
                                lambda: getattr(F, name)(arg, value, check=check))
                        rec(state(F))
                        # the caller's list must be left as it was
                        if shname == 'list':
                            rec('arg-after', arg)

# ranges as literal lists
for r in [range(1, 1), range(1, 2), range(1, 5), range(3, 8), range(-4, 0),
          range(5, 0, -1), range(0, 3), range(-2, 3)]:
    for value in range(-1, len(r) + 2):
        for check in [True, False]:
            F = OPB()
            attempt(('range', repr(r), value, check),
                    lambda: F.cardinality_neq(r, value, check=check))
            rec(state(F))
            rec(F.to_opb())

# several constraints accumulated on the same formula, mixed with others
F = OPB()
x = F.new_block(3, 3, label='x_{{{},{}}}')
F.cardinality_neq(x(1, None), 2)
F.cardinality_geq(x(None, 2), 1)
F.cardinality_neq([-l for l in x(2, None)], 0)
F.cardinality_neq(x(3, None), 3)
F.cardinality_neq(list(x()), 4)
F.cardinality_neq((l for l in x(None, 3)), 1)
F.add_parity(x(1, None), 1)
rec('acc', state(F))
rec(F.to_opb())
rec(list(F.all_variable_labels()))

# error paths and odd arguments
bad_lits = [[0], [1, 0, 2], [1, 'a'], ['a', 'b'], [None], [1.0, 2.0],
            [1.5, 2], [True, 2], None, 5, 'ab', [[1], [2]], [(1, 2)]]
bad_vals = [None, 'a', 1.0, 2.0, 1.5, True, False, [1], (1,)]
for lits in bad_lits:
    for value in [-1, 0, 1, 2, 3]:
        for check in [True, False]:
            F = BaseOPB()
            attempt(('badlits', repr(lits), value, check),
                    lambda: F.cardinality_neq(lits, value, check=check))
            rec(state(F))
for value in bad_vals:
    for lits in [[], [1], [1, -2, 3]]:
        for check in [True, False]:
            F = BaseOPB()
            attempt(('badval', lits, repr(value), check),
                    lambda: F.cardinality_neq(lits, value, check=check))
            rec(state(F))

# semantics: which assignments satisfy the clauses produced
def sat_count(constraints, nvars):
    models = []
    for a in range(2 ** nvars):
        def val(l):
            b = (a >> (abs(l) - 1)) & 1
            return b if l > 0 else 1 - b
        ok = True
        for c in constraints:
            tot = sum(co * val(l) for co, l in c[:-2])
            if c[-2] == '>=' and not tot >= c[-1]:
                ok = False
            if c[-2] == '==' and not tot == c[-1]:
                ok = False
        if ok:
            models.append(a)
    return models


for lits in [[1, 2, 3], [-1, 2, -3, 4], [2, -4, 5], [1, -2, 3, -4, 5]]:
    nv = max(abs(l) for l in lits)
    for value in range(-1, len(lits) + 2):
        F = BaseOPB()
        F.cardinality_neq(lits, value)
        rec('models', lits, value, sat_count(list(F), nv))

print(hashlib.sha256("\n".join(out).encode('utf-8')).hexdigest())
