#!/usr/bin/env python
"""Equivalence script for the refactoring of positive_int_seq
(cnfgen/localtypes.py), the argument check applied to the extra
progression lengths *ks of VanDerWaerden.  Prints one SHA256 digest."""
import sys, os, io, hashlib, random, fractions, decimal
sys.path.insert(0, os.getcwd())
from contextlib import redirect_stderr, redirect_stdout

from cnfgen.localtypes import positive_int_seq, non_negative_int_seq
from cnfgen.localtypes import positive_int, non_negative_int
from cnfgen.families.ramsey import VanDerWaerden, RamseyNumber, PythagoreanTriples
from cnfgen.clitools.cnfgen import cli

H = hashlib.sha256()


def emit(*items):
    for it in items:
        H.update(repr(it).encode('utf-8'))
        H.update(b'\n')


def describe_exc(e):
    chain = []
    while e is not None:
        chain.append((type(e).__name__, str(e)))
        e = e.__cause__
    return chain


def guarded(label, fn):
    try:
        emit('OK', label, fn())
    except SystemExit as e:
        emit('EXIT', label, e.code)
    except BaseException as e:
        emit('EXC', label, describe_exc(e))


class Loud(int):
    """An int recording the comparisons made on it"""
    log = []

    def __lt__(self, other):
        Loud.log.append(('lt', int(self), other))
        return int.__lt__(self, other)


class BadIter:
    def __repr__(self):
        return 'BadIter()'

    def __iter__(self):
        raise TypeError('cannot iterate me')


class BoomIter:
    def __repr__(self):
        return 'BoomIter()'

    def __iter__(self):
        yield 3
        raise RuntimeError('boom while iterating')


class ValErrIter:
    def __repr__(self):
        return 'ValErrIter()'

    def __iter__(self):
        yield 2
        raise ValueError('value error while iterating')


def gen(items):
    for x in items:
        yield x


values = [
    (), [], (1,), (1, 2, 3), [5, 1, 7], (0,), (1, 0, 2), (-1,), (3, -2, 0),
    (1.0,), (1, 2.5), ('a',), (1, 'a', 0), (0, 'a'), ('a', 0), (None,),
    (True,), (False,), (True, False), (1, None, -1), ((1, 2),), ([1],),
    (10**30,), (-10**30,), (fractions.Fraction(2, 1),), (decimal.Decimal(1),),
    (1j,), 'abc', '', '12', b'\x01\x02', b'\x00', b'', 5, 0, None, 2.5,
    range(1, 4), range(0, 3), range(-2, 2), range(0), {1, 2}, {0}, {1: 'a'},
    {'a': 1}, frozenset([3]), (Loud(3), Loud(0), Loud(5)), (Loud(2), Loud(1)),
    [Loud(-1), 'x'], BadIter(), BoomIter(), ValErrIter(),
]
names = ['*ks', 'x', '', '{}', "we'ird"]
for fn in (positive_int_seq, non_negative_int_seq):
    for vi, val in enumerate(values):
        for name in names:
            Loud.log.clear()
            guarded((fn.__name__, vi, repr(val)[:60], name), lambda: fn(val, name))
            emit('log', list(Loud.log))
    # one-shot iterators
    for items in [(1, 2), (0,), (1, 'a'), (), (2, -1, 'b'), ('b', -1)]:
        guarded((fn.__name__, 'gen', items), lambda: fn(gen(items), 'g'))
        guarded((fn.__name__, 'iter', items), lambda: fn(iter(items), 'g'))
        guarded((fn.__name__, 'map', items), lambda: fn(map(lambda x: x, items), 'g'))

for val in [1, 0, -1, 2.0, 'a', None, True, 10**20]:
    guarded(('positive_int', repr(val)), lambda: positive_int(val, 'p'))
    guarded(('non_negative_int', repr(val)), lambda: non_negative_int(val, 'p'))


def dump(F):
    return (F.to_dimacs(), list(F.all_variable_labels()), F.header.get('description'))


# van der Waerden through the library
for N in [0, 1, 2, 3, 5, 8, 9]:
    for K in [(1, 1), (1, 2), (2, 2), (3, 3), (2, 3), (1, 1, 1), (2, 2, 2),
              (3, 3, 3), (2, 3, 1), (2, 3, 4, 2), (9, 9), (10, 1, 10),
              (2, 2, 0), (2, 2, -1), (2, 2, 3, 0), (2, 2, 'a'), (2, 2, 1.0),
              (2, 2, None), (2, 2, 3, 2.5, 0), (2, 2, 0, 'z'), (2, 2, True),
              (0, 2), (2, 0), (2, 'a'), (2, 2, (1,)), (2, 2, 10**12)]:
        if K[-1] == 10**12 and N > 3:
            continue
        guarded(('vdw', N, K), lambda: dump(VanDerWaerden(N, *K)))
for bad in [-1, 'a', 1.5, None]:
    guarded(('vdwN', bad), lambda: dump(VanDerWaerden(bad, 2, 2, 2)))
    guarded(('ramN', bad), lambda: dump(RamseyNumber(2, 2, bad)))
    guarded(('ptnN', bad), lambda: dump(PythagoreanTriples(bad)))
for s, k, N in [(1, 1, 0), (1, 1, 1), (2, 2, 1), (2, 2, 2), (3, 3, 5), (3, 4, 5),
                (4, 3, 4), (1, 3, 3), (5, 5, 4), (0, 2, 3), (2, 0, 3)]:
    guarded(('ram', s, k, N), lambda: dump(RamseyNumber(s, k, N)))
for N in [0, 1, 4, 5, 13, 30]:
    guarded(('ptn', N), lambda: dump(PythagoreanTriples(N)))


# van der Waerden through the command line
def run_cli(argv):
    err = io.StringIO()
    out = io.StringIO()
    random.seed(99)

    def call():
        with redirect_stderr(err), redirect_stdout(out):
            return cli(['cnfgen'] + argv, mode='string')
    guarded(argv, call)
    emit('stdout', out.getvalue(), 'stderr', err.getvalue())


for line in [['vdw', '5', '2', '2'], ['vdw', '5', '2', '2', '2'], ['vdw', '6', '3', '2', '1', '2'],
             ['vdw', '0', '1', '1'], ['vdw', '4', '2', '2', '0'], ['vdw', '4', '2', '2', '-1'],
             ['vdw', '4', '2', '2', 'a'], ['vdw', '4', '2'], ['vdw', '4'], ['vdw'],
             ['vdw', '4', '0', '2'], ['vdw', '4', '2', '2', '1.5'],
             ['ram', '3', '3', '5'], ['ptn', '13']]:
    run_cli(['-q'] + line)
    run_cli(line)

print(H.hexdigest())
