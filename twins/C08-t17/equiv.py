#!/usr/bin/env python3
"""Equivalence digest for the `tseitin` command line helper
(cnfgen.clihelpers.counting_helpers.TseitinCmdHelper.build_formula)

The helper is driven through `pbgen` and `cnfgen` and also directly with
hand made namespaces. We record formulas, text output, error messages
and the state of the random generator after each call (the random
stream must be consumed in exactly the same way).

Run as:  cd <checkout> && /venv/bin/python equiv.py
Prints one SHA256 digest of everything observable.
"""
import sys
import os
import io
import hashlib
import random
import importlib
import contextlib
from argparse import Namespace
from itertools import product

sys.path.insert(0, os.getcwd())

import cnfgen.clitools.msg as msgmod
from cnfgen.formula.cnf import CNF
from cnfgen.formula.opb import OPB
from cnfgen.graphs import Graph
from cnfgen.clihelpers.counting_helpers import TseitinCmdHelper

pbmod = importlib.import_module('cnfgen.clitools.pbgen')
cnfmod = importlib.import_module('cnfgen.clitools.cnfgen')

H = hashlib.sha256()


def record(*items):
    for it in items:
        H.update(repr(it).encode('utf-8'))
        H.update(b'\x00')


def content(F):
    if isinstance(F, OPB):
        body = [list(c) for c in F.constraints()]
    else:
        body = [list(c) for c in F.clauses()]
    return (type(F).__name__, F.number_of_variables(),
            list(F.all_variable_labels()), body,
            [(k, str(v)) for k, v in F.header.items()])


def rndstate():
    return hashlib.sha256(repr(random.getstate()).encode()).hexdigest()


def observe(tag, seed, fn, *a, **kw):
    msgmod._prefix = ''
    random.seed(seed)
    out, err = io.StringIO(), io.StringIO()
    res = None
    try:
        with contextlib.redirect_stdout(out), contextlib.redirect_stderr(err):
            res = fn(*a, **kw)
        if isinstance(res, (CNF, OPB)):
            outcome = ('ok', content(res))
        else:
            outcome = ('ok', repr(res))
    except SystemExit as e:
        outcome = ('exit', repr(e.code))
    except BaseException as e:  # noqa
        outcome = ('exc', type(e).__name__, str(e))
    record(tag, seed, outcome, out.getvalue(), err.getvalue(), rndstate())
    return res


def models(F):
    n = F.number_of_variables()
    sat = []
    opb = isinstance(F, OPB)
    cons = [list(c) for c in (F.constraints() if opb else F.clauses())]
    for bits in product([False, True], repeat=n):
        def val(l):
            return bits[abs(l) - 1] == (l > 0)
        ok = True
        for c in cons:
            if opb:
                s = sum(k for (k, l) in c[:-2] if val(l))
                good = (s >= c[-1]) if c[-2] == '>=' else (s == c[-1])
            else:
                good = any(val(l) for l in c)
            if not good:
                ok = False
                break
        if ok:
            sat.append(bits)
    return sat


# ---------------------------------------------------------------
# 1. command lines through both tools
# ---------------------------------------------------------------
CHARGES = ['first', 'random', 'randomodd', 'randomeven', 'zero', 'one']
GRAPHSPECS = [
    ['complete', '4'],
    ['grid', '2', '3'],
    ['empty', '3'],
    ['empty', '1'],
    ['complete', '1'],
    ['complete', '2'],
    ['gnd', '6', '3'],
    ['gnp', '5', '.5'],
    ['gnm', '5', '6'],
    ['torus', '3', '3'],
]
TAILS = []
for N in ('1', '2', '4', '5', '6', '7', '8', '10'):
    TAILS.append(['tseitin', N])
for N, d in (('5', '2'), ('6', '3'), ('5', '3'), ('7', '3'), ('3', '3'),
             ('3', '4'), ('2', '1'), ('1', '1'), ('4', '2'), ('8', '5'),
             ('9', '4'), ('6', '5'), ('0', '3'), ('4', '0'), ('-2', '3'),
             ('x', '3')):
    TAILS.append(['tseitin', N, d])
for ch in CHARGES:
    for gs in GRAPHSPECS:
        TAILS.append(['tseitin', ch] + gs)
for ch in ['bogus', 'First', '']:
    for gs in GRAPHSPECS[:2]:
        TAILS.append(['tseitin', ch] + gs)
TAILS += [
    ['tseitin'],
    ['tseitin', 'random'],
    ['tseitin', '4', '2', '1'],
    ['tseitin', 'first', 'nosuchgraph', '3'],
    ['tseitin', 'randomodd', 'gnd', '5', '3'],
    ['tseitin', 'randomodd', 'gnd', '3', '5'],
]

for tail in TAILS:
    for tool, mod in (('pbgen', pbmod), ('cnfgen', cnfmod)):
        for seed in (0, 42):
            observe(('cli-formula', tool, tuple(tail)), seed,
                    mod.cli, [tool] + tail, mode='formula')
        observe(('cli-string', tool, tuple(tail)), 7,
                mod.cli, [tool, '-q'] + tail, mode='string')
        if tool == 'pbgen':
            observe(('cli-seeded', tool, tuple(tail)), 1,
                    mod.cli, [tool, '-S', '99'] + tail, mode='string')

# same number of variables, same names, same models in the two renderings
for tail in (['tseitin', '4'], ['tseitin', '4', '2'], ['tseitin', '6', '3'],
             ['tseitin', 'random', 'complete', '4'],
             ['tseitin', 'randomeven', 'grid', '2', '3'],
             ['tseitin', 'randomodd', 'grid', '2', '3'],
             ['tseitin', 'one', 'complete', '3'],
             ['tseitin', 'zero', 'complete', '4'],
             ['tseitin', 'first', 'complete', '5']):
    for seed in (3, 4, 5):
        o = observe(('pair-o', tuple(tail)), seed, pbmod.cli, ['pbgen'] + tail, mode='formula')
        c = observe(('pair-c', tuple(tail)), seed, cnfmod.cli, ['cnfgen'] + tail, mode='formula')
        if o is not None and c is not None and o.number_of_variables() <= 12:
            mo, mc = models(o), models(c)
            record(('models', tuple(tail), seed,
                    o.number_of_variables() == c.number_of_variables(),
                    list(o.all_variable_labels()) == list(c.all_variable_labels()),
                    mo == mc, len(mc)))


# ---------------------------------------------------------------
# 2. direct calls of the helper with hand made namespaces
# ---------------------------------------------------------------
def graph(n, edges, name='G'):
    G = Graph(n, name=name)
    for (u, v) in edges:
        G.add_edge(u, v)
    return G


def namespaces():
    yield 'N4d2', Namespace(N=4, d=2)
    yield 'N5d4', Namespace(N=5, d=4)
    yield 'N2d1', Namespace(N=2, d=1)
    yield 'N1d0', Namespace(N=1, d=0)
    yield 'N3d3', Namespace(N=3, d=3)
    yield 'N3d7', Namespace(N=3, d=7)
    yield 'N5d3', Namespace(N=5, d=3)
    yield 'N7d1', Namespace(N=7, d=1)
    yield 'N6d3+charge', Namespace(N=6, d=3, charge='zero')
    yield 'N6d3+random', Namespace(N=6, d=3, charge='random')
    yield 'N6d3+bogus', Namespace(N=6, d=3, charge='bogus')
    yield 'Nonly', Namespace(N=6)
    yield 'nothing', Namespace()
    tri = [(1, 2), (2, 3), (1, 3)]
    yield 'G-nocharge', Namespace(G=graph(3, tri))
    yield 'G0-nocharge', Namespace(G=graph(0, []))
    for ch in CHARGES + ['bogus', None, 3]:
        yield ('G0', ch), Namespace(G=graph(0, []), charge=ch)
        yield ('G1', ch), Namespace(G=graph(1, []), charge=ch)
        yield ('G2', ch), Namespace(G=graph(2, [(1, 2)]), charge=ch)
        yield ('G3', ch), Namespace(G=graph(3, tri), charge=ch)
        yield ('G5', ch), Namespace(G=graph(5, tri + [(3, 4), (4, 5), (1, 5)]), charge=ch)
        yield ('G4+N', ch), Namespace(G=graph(4, tri + [(3, 4)]), charge=ch, N=3, d=3)


for cls in (CNF, OPB):
    for tag, ns in namespaces():
        for seed in (0, 1, 2):
            observe(('direct', cls.__name__, tag), seed,
                    TseitinCmdHelper.build_formula, ns, cls)

print(H.hexdigest())
