#!/usr/bin/env python
"""Equivalence harness for the refactoring of the argument checks of
the command line graph constructions in cnfgen.clitools.graph_build
(`obtain_bipartite_shift`, with the sibling constructions as context).

Run as:  cd <checkout> && /venv/bin/python equiv.py
Prints one SHA256 digest of everything observed.
"""
import sys
import os
import io
import hashlib
import importlib
import itertools
import random
import warnings

warnings.simplefilter('ignore')
sys.path.insert(0, os.getcwd())

from cnfgen.info import info
# the version string comes from `git describe`: pin it
info['version'] = 'equiv'

gb = importlib.import_module('cnfgen.clitools.graph_build')
msg_module = importlib.import_module('cnfgen.clitools.msg')
from cnfgen.clitools.graph_args import make_graph_from_spec
tools = {
    name: importlib.import_module('cnfgen.clitools.' + name)
    for name in ['cnfgen', 'pbgen']
}

H = hashlib.sha256()
COUNT = 0


def record(*items):
    global COUNT
    COUNT += 1
    for it in items:
        H.update(repr(it).encode('utf-8'))
        H.update(b'\x00')
    H.update(b'\x01')


def dump(G):
    try:
        edges = sorted(G.edges())
    except TypeError:
        edges = list(G.edges())
    res = [type(G).__name__, G.name, G.number_of_vertices(), edges]
    if hasattr(G, 'parts'):
        res.append([list(p) for p in G.parts()])
    return res


def outcome(fn, *args):
    random.seed(7)
    try:
        return ('ok', dump(fn(*args)), random.random())
    except BaseException as e:
        cause = e.__cause__
        return ('exc', type(e).__name__, str(e), type(cause).__name__,
                random.random())


class Sink(io.StringIO):
    def close(self):
        pass


def run_main(toolname, argv):
    msg_module._prefix = ''
    random.seed(20241003)
    old = sys.argv, sys.stdout, sys.stderr, sys.stdin
    out, err = Sink(), Sink()
    sys.argv, sys.stdout, sys.stderr = list(argv), out, err
    sys.stdin = io.StringIO('')
    code = 0
    try:
        try:
            tools[toolname].main()
        except SystemExit as e:
            code = e.code
        except BaseException as e:
            code = ('UNHANDLED', type(e).__name__, str(e))
    finally:
        sys.argv, sys.stdout, sys.stderr, sys.stdin = old
    return code, out.getvalue(), err.getvalue()


# ---------------------------------------------------------------
# 1. `shift`: sides and patterns inside, at and beyond the boundary
# ---------------------------------------------------------------
sides = ['-1', '0', '1', '2', '3', '5']
for L, R in itertools.product(sides, repeat=2):
    r = int(R)
    pool = sorted(set([-1, 0, 1, 2, r - 1, r, r + 1, 2 * r]))
    patterns = [[]]
    patterns += [[a] for a in pool]
    patterns += [[a, b] for a in pool for b in pool]
    patterns += [[0, 1, 2], [2, 1, 0], [0, 2, 1, 2], [r, 0, r],
                 [r, r - 1, r - 2, 0], list(range(r + 1)),
                 list(range(r, -1, -1)), list(range(r + 2)), [1] * 3]
    for pat in patterns:
        args = [L, R] + [str(x) for x in pat]
        record('shift', args,
               outcome(gb.obtain_bipartite_shift, {'args': args}))

odd_args = [
    [], ['3'], ['x'], ['3', 'x'], ['x', '3'], ['3', '3', 'x'],
    ['3', '3', '1.0'], ['3', '3', '1e0'], ['3', '3', 'nan'],
    ['3', '3', 'inf'], ['3.0', '3'], ['3', '3.0'], ['3', '3', ' 1 '],
    ['3', '3', '+1'], ['3', '3', '-0'], ['3', '3', '0', '-0'],
    ['3', '3', '1', '01'], ['3', '3', '1_0'], ['1_0', '1_1', '1_0'],
    ['3', '3', '٢'], ['3', '3', ''], ['', ''], ['3', '3', '0x1'],
    ['3', '3', '9' * 30], ['9' * 5000, '3'], ['3', '3', '1' * 5000],
    [3, 4, 0, 1], [3, 4, 1, 1], [3, 4, 4], [3, 4, 5], [3, 4, 1.9],
    [3, 4, None], [None, 4], [3, None], [3, 4, [1]], [True, True, False],
    [3.7, 4.2, 1], ['3', 4, '2', 1], (3, 4, 0, 2), ('3', '4', '4', '0'),
    [b'3', b'4'], ['3', '4', b'1'],
]
for args in odd_args:
    record('shift-odd', repr(args)[:80],
           outcome(gb.obtain_bipartite_shift, {'args': args}))
record('shift-none', outcome(gb.obtain_bipartite_shift, {'args': None}))
record('shift-nokey', outcome(gb.obtain_bipartite_shift, {}))

# the arguments must not be modified
given = ['4', '5', '3', '1', '2']
parsed = {'args': given, 'graphtype': 'bipartite'}
record('shift-keep', outcome(gb.obtain_bipartite_shift, parsed), given,
       sorted(parsed.items()))

# random ones (seeded)
rng = random.Random(17)
tokens = ['-2', '-1', '0', '1', '2', '3', '4', '5', '6', '7', '1.5', 'z']
for i in range(3000):
    args = [rng.choice(tokens) for _ in range(rng.randint(0, 7))]
    record('shift-rnd', args,
           outcome(gb.obtain_bipartite_shift, {'args': args}))

# ---------------------------------------------------------------
# 2. sibling constructions and modifiers of the same module
# ---------------------------------------------------------------
values = ['-1', '0', '1', '2', '3', '4', '6', '.5', '1.0', '0.0', '1.5',
          'nan', 'x']
constructions = ['obtain_gnd', 'obtain_gnp', 'obtain_gnm',
                 'obtain_complete_simple', 'obtain_empty_simple',
                 'obtain_grid', 'obtain_torus', 'obtain_glrp', 'obtain_glrm',
                 'obtain_glrd', 'obtain_bipartite_regular',
                 'obtain_bipartite_shift', 'obtain_complete_bipartite',
                 'obtain_empty_bipartite', 'obtain_tree', 'obtain_pyramid',
                 'obtain_path']
for name in constructions:
    fn = getattr(gb, name)
    for k in range(0, 4):
        for args in itertools.product(values, repeat=k):
            if k == 3 and not set(args) <= set(values[:8]):
                continue
            record(name, args, outcome(fn, {'args': list(args)}))
    record(name, None, outcome(fn, {'args': None}))

modifiers = [('modify_simple_graph_plantclique', 'plantclique', 'simple',
              'gnp 5 .5'),
             ('modify_graph_addedges', 'addedges', 'simple', 'gnp 5 .5'),
             ('modify_graph_addedges', 'addedges', 'bipartite',
              'shift 3 3 0 1'),
             ('modify_graph_splitedges', 'splitedges', 'simple', 'grid 2 2'),
             ('modify_bipartite_graph_plantbiclique', 'plantbiclique',
              'bipartite', 'shift 3 4 0')]
for name, key, gtype, base in modifiers:
    fn = getattr(gb, name)
    for k in range(0, 3):
        for args in itertools.product(values, repeat=k):
            def modified():
                G = make_graph_from_spec(gtype, base)
                return fn({key: list(args)}, G)
            record(name, gtype, args, outcome(modified))

# ---------------------------------------------------------------
# 3. through the graph specification parser and the entry points
# ---------------------------------------------------------------
specs = ['shift', 'shift 3', 'shift 3 3', 'shift 3 3 0', 'shift 3 3 3',
         'shift 3 3 4', 'shift 3 3 -1', 'shift 3 3 0 0', 'shift 3 3 2 0 1',
         'shift 3 3 0 1 2 3', 'shift 0 3 1', 'shift 3 0', 'shift 3 0 0',
         'shift 2 5 5 0', 'shift 2 5 1.5', 'shift 4 4 1 addedges 2',
         'shift 4 4 1 plantbiclique 2 2', 'shift 4 4 1 plantbiclique 5 1',
         'shift 4 4 0 4 addedges 9', 'shift 4 4 0 1 2 3 addedges 1']
for spec in specs:
    record('spec', spec, outcome(make_graph_from_spec, 'bipartite', spec))
    record('spec-simple', spec, outcome(make_graph_from_spec, 'simple', spec))

cmdlines = [
    ('cnfgen', 'cnfgen -q php shift 4 3 0 1'),
    ('cnfgen', 'cnfgen -q php shift 4 3 0 3'),
    ('cnfgen', 'cnfgen -q php shift 4 3 0 4'),
    ('cnfgen', 'cnfgen -q php shift 4 3 1 1'),
    ('cnfgen', 'cnfgen -q php shift 4 3'),
    ('cnfgen', 'cnfgen -q php shift 4'),
    ('cnfgen', 'cnfgen -q php shift'),
    ('cnfgen', 'cnfgen -q php shift 0 3 1'),
    ('cnfgen', 'cnfgen -q php shift 4 -3 1'),
    ('cnfgen', 'cnfgen -S 5 php shift 4 4 0 2 addedges 2'),
    ('cnfgen', 'cnfgen -S 5 -of opb subsetcard shift 4 4 0 1 2'),
    ('cnfgen', 'cnfgen -S 5 -of latex -q subsetcard shift 4 4 0 1 2 3 4 5'),
    ('cnfgen', 'cnfgen -S 5 -q op 3 -T xorcomp shift 6 4 0 1'),
    ('cnfgen', 'cnfgen -S 5 -q op 3 -T majcomp shift 6 4 0 0 1'),
    ('cnfgen', 'cnfgen -S 5 -q kcolor 3 shift 4 4 1'),
    ('cnfgen', 'cnfgen -S 5 -q kcolor 3 grid 2 0'),
    ('cnfgen', 'cnfgen -S 5 -q kcolor 3 torus 3 3'),
    ('pbgen', 'pbgen -q php shift 4 3 0 1'),
    ('pbgen', 'pbgen -q php shift 4 3 3 4'),
    ('pbgen', 'pbgen -l -q subsetcard shift 3 3 0 2 2'),
]
for toolname, line in cmdlines:
    record('main', line, run_main(toolname, line.split()))

record('count', COUNT)
print(H.hexdigest())
