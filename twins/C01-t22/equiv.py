#!/usr/bin/env python
"""Equivalence digest for the command line front end of the php, subsetcard,
tseitin, (and a few other) formula families: choice between numeric
arguments and graph specification, and related error paths."""
import hashlib
import io
import os
import sys
import random
import tempfile
import contextlib
sys.path.insert(0, os.getcwd())

from cnfgen.clitools.cnfgen import cli
import cnfgen.clihelpers.php_helpers as php_helpers
import cnfgen.clitools.cmdline as cmdline
from cnfgen.clitools import CLIParser, compose_two_parsers

out = []


def rec(*items):
    out.append(repr(items))


def run(argv):
    random.seed(1234)
    so, se = io.StringIO(), io.StringIO()
    try:
        with contextlib.redirect_stdout(so), contextlib.redirect_stderr(se):
            res = cli(['cnfgen'] + argv, mode='string')
        rec(argv, 'ok', res, so.getvalue(), se.getvalue())
    except SystemExit as e:
        rec(argv, 'exit', e.code, so.getvalue(), se.getvalue())
    except Exception as e:  # noqa
        rec(argv, 'exc', type(e).__name__, str(e), so.getvalue(), se.getvalue())


tmpdir = tempfile.mkdtemp()
os.chdir(tmpdir)   # relative file names only, so that the output is reproducible
matrix = 'g.matrix'
with open(matrix, 'w') as f:
    f.write("3 4\n1 1 0 0\n0 1 1 0\n1 0 1 1\n")

PHP = [
    [], ['0'], ['1'], ['3'], ['3', '2'], ['2', '3'], ['0', '0'], ['0', '3'],
    ['3', '0'], ['4', '3', '2'], ['4', '3', '3'], ['4', '3', '4'],
    ['4', '3', '0'], ['1', '2', '3', '4'], ['-1'], ['3', '-2'], ['3.5'],
    ['3', '2.0'], ['1e1'], ['nan'], ['inf'], ['-inf'], ['  4 '], ['4_0'],
    ['0x10'], ['٣'], ['three'], ['3', 'three'], ['', '2'], ['+2', '+1'],
    ['complete', '3', '2'], ['regular', '4', '2', '1'], ['glrd', '4', '3', '2'],
    ['glrp', '3', '3', '0.5'], ['glrm', '3', '3', '4'], ['shift', '4', '3', '1', '2'],
    ['complete', '3'], ['nosuchgraph', '3', '2'], [matrix], ['matrix', matrix],
    ['complete', '0', '0'], ['complete', '2', '0'],
]
for base in PHP:
    for flags in ([], ['--functional'], ['--onto'], ['--functional', '--onto']):
        run(['--seed', '7', 'php'] + flags + base)
        run(['php'] + base + flags)
run(['php', '-h'])
run(['-of', 'latex', 'php', '2', '1'])
run(['-of', 'opb', 'php', '--functional', '2', '2'])
run(['-v', 'php', '3', '2', '1'])

SC = [
    [], ['1'], ['2'], ['3'], ['5'], ['4', '2'], ['6', '3'], ['4', '4'],
    ['4', '5'], ['0'], ['-2'], ['3.0'], ['1e0'], ['nan'], ['4', '2', '1'],
    ['4', 'x'], ['x', '4'], [''], ['complete', '2', '3'], ['regular', '4', '4', '2'],
    ['regular', '4', '4', '2', 'addedges', '1'], [matrix], ['nosuch', '1'],
    ['glrd', '3', '4', '2'], ['inf'], ['0x3'], ['٤'],
]
for base in SC:
    for flags in ([], ['-e'], ['--equal']):
        run(['--seed', '11', 'subsetcard'] + flags + base)
run(['subsetcard', '-h'])

TS = [
    [], ['6'], ['6', '3'], ['5', '3'], ['4', '4'], ['7', '2'], ['0'], ['1'],
    ['2', '1'], ['2.0'], ['nan'], ['first', 'gnd', '6', '3'], ['zero', 'complete', '4'],
    ['one', 'grid', '2', '3'], ['randomodd', 'gnp', '5', '0.5'],
    ['randomeven', 'gnm', '5', '6'], ['random', 'torus', '3', '3'],
    ['bogus', 'gnd', '6', '3'], ['first'], ['first', 'nosuch', '3'], ['6', '3', '1'],
    ['first', 'empty', '0'], ['+6', '+3'], [' 6'],
]
for base in TS:
    run(['--seed', '5', 'tseitin'] + base)

for argv in [['parity', '4'], ['parity', '5'], ['parity', '0'], ['count', '6', '3'],
             ['count', '0', '1'], ['count', '5', '0'], ['matching', 'complete', '4'],
             ['matching', 'gnd', '6', '3'], ['matching', '4'], ['bphp', '3', '2'],
             ['bphp', '0', '2'], ['rphp', '2', '3', '2'], ['rphp', '0', '0', '0'],
             ['cliquecoloring', '4', '3', '2'], ['cliquecoloring', '0', '1', '1'],
             ['cliquecoloring', '3', '0', '1'],
             ['kclique', '2', '4'], ['kclique', '2', 'gnp', '4', '0.5'],
             ['kcolor', '3', '5'], ['kcolor', '3', 'complete', '4'],
             ['domset', '2', 'gnd', '6', '3'], ['domset', '2', '3'],
             ['ec', '6', '4'], ['ec', 'gnd', '6', '4'], ['ec', '6'],
             ['ram', '3', '3', '5'], ['peb', 'pyramid', '2'], ['peb', '3'],
             ['op', '3'], ['op', '5', '2'], ['op', 'gnd', '6', '3']]:
    run(['--seed', '3'] + argv)

# the predicate itself, through every module that exposes it
STRINGS = ['', ' ', '0', '-0', '12', '+12', '-12', '1.5', '.5', '5.', '1e5', '1E-3',
           'nan', 'NaN', 'inf', '-inf', 'infinity', '0x1f', '1_000', '1__0', '_1',
           ' 7 ', '\t8\n', '٣', '１２', 'a', '1a', 'a1', '1 2', '--1', '1-', 'e5',
           'complete', 'gnd', '1,5', '½', 'True', 'None']
for name in ['is_some_number']:
    for mod in (php_helpers, cmdline):
        fn = getattr(mod, name, None)
        if fn is None:
            continue
        for s in STRINGS:
            try:
                rec('pred', s, fn(s))
            except Exception as e:  # noqa
                rec('pred', s, type(e).__name__, str(e))
        for bad in (None, 3, 2.5, [], ('1',), b'12', b'x'):
            try:
                rec('pred-bad', repr(bad), fn(bad))
            except Exception as e:  # noqa
                rec('pred-bad', repr(bad), type(e).__name__, str(e))
        break

# compose_two_parsers used directly, default and custom test
import argparse


def composed(values, test=None):
    p1 = CLIParser()
    p1.add_argument('N', type=int)
    p1.add_argument('d', nargs='?', type=int, default=4)
    p2 = CLIParser()
    p2.add_argument('name')
    p2.add_argument('rest', nargs='*')
    action = compose_two_parsers(p1, p2, test=test)
    top = CLIParser(prog='top')
    top.usage = 'usage: top ...'
    top.description = 'descr'
    top.add_argument('args', action=action, nargs='*', help=argparse.SUPPRESS)
    try:
        ns = top.parse_args(values)
        rec('compose', values, test is not None, sorted(vars(ns).items()),
            p1.prog, p2.prog, p1.usage, p2.usage, p1.description, p2.description)
    except SystemExit as e:
        rec('compose', values, 'exit', e.code)
    except Exception as e:  # noqa
        rec('compose', values, type(e).__name__, str(e))


for values in [[], ['3'], ['3', '5'], ['x'], ['x', 'y', 'z'], ['3.5'], ['nan'],
               ['1e3'], ['3', 'y'], ['3', '4', '5'], [''], [' 2'], ['-3']]:
    composed(values)
    composed(values, test=lambda v: len(v) == 2)
    composed(values, test=lambda v: False)

os.chdir(sys.path[0])
import shutil
shutil.rmtree(tmpdir, ignore_errors=True)
print(hashlib.sha256("\n".join(out).encode('utf8')).hexdigest())
