"""Equivalence harness for C14/t5: cnfgen.graphs._process_graph_io_arguments
(argument checking of readGraph/writeGraph, format autodetection, error paths)."""
import sys, os, io, hashlib, itertools, tempfile, random
sys.path.insert(0, os.getcwd())
import cnfgen.graphs as cg
from cnfgen.graphs import (Graph, DirectedGraph, BipartiteGraph, readGraph,
                           writeGraph, _process_graph_io_arguments)

OUT = []
TMP = tempfile.mkdtemp(prefix='c14t5')


def rec(*items):
    OUT.append(repr(items).replace(TMP, '<TMP>'))


def dump(G):
    if G is None:
        return None
    d = [type(G).__name__, G.number_of_vertices(), G.name,
         [tuple(e) for e in G.edges()]]
    if not G.is_bipartite():
        d.append(G.is_dag())
    if G.is_bipartite():
        d.append((G.left_order(), G.right_order()))
    return d


def attempt(tag, f, *a, **k):
    try:
        r = f(*a, **k)
        if isinstance(r, tuple) and len(r) == 2 and isinstance(r[0], type):
            r = (r[0].__name__, r[1])
        elif isinstance(r, cg.BaseGraph):
            r = dump(r)
        rec(tag, 'ok', r)
    except BaseException as e:
        rec(tag, 'exc', type(e).__name__, str(e),
            type(e.__cause__).__name__, type(e.__context__).__name__)


class Named(io.StringIO):
    pass


def named(name, text=''):
    s = Named(text)
    s.name = name
    return s


class RawLike(io.RawIOBase):
    name = 'raw.gml'


class NotAFile:
    name = 'x.kthlist'

    def __repr__(self):
        return '<NotAFile>'


gtypes = ['dag', 'digraph', 'simple', 'bipartite', 'directed', 'Simple', '',
          None, 3]
formats = ['autodetect', 'kthlist', 'gml', 'dot', 'dimacs', 'matrix', 'txt',
           '', None, 'KTHLIST']
names = ['g.kthlist', 'g.gml', 'g.dot', 'g.dimacs', 'g.matrix', 'g.txt', 'g',
         '.kthlist', 'a.b.gml', 'g.', 'dir.dot/g', 'g.GML', '']

import contextlib
CAPTURED = io.StringIO()
_redirect = contextlib.redirect_stdout(CAPTURED)
_redirect.__enter__()

# 1. direct calls, all combinations
streams = [('sio', lambda: io.StringIO()), ('bio', lambda: io.BytesIO()),
           ('raw', lambda: RawLike()), ('int', lambda: 7),
           ('str', lambda: 'g.gml'), ('none', lambda: None),
           ('tuple', lambda: (1, 2)), ('notafile', lambda: NotAFile())]
for nm in names:
    streams.append(('named:' + nm, (lambda nm=nm: named(nm))))
for (sn, mk), gt, ff, me in itertools.product(streams, gtypes, formats,
                                              [False, True, 0, 1, None]):
    attempt(('direct', sn, gt, ff, me), _process_graph_io_arguments, mk(), gt,
            ff, me)

# 2. real files on disk
for nm in ['g.kthlist', 'g.gml', 'g.dimacs', 'g.matrix', 'g.dot', 'g.txt',
           'noext']:
    p = os.path.join(TMP, nm)
    for gt in ['dag', 'digraph', 'simple', 'bipartite', 'bogus']:
        for ff in ['autodetect', 'kthlist', 'matrix', 'dimacs', 'nope']:
            with open(p, 'w') as fh:
                attempt(('file-w', nm, gt, ff), _process_graph_io_arguments,
                        fh, gt, ff, False)
            with open(p, 'rb') as fh:
                attempt(('file-rb', nm, gt, ff), _process_graph_io_arguments,
                        fh, gt, ff, False)

# 3. through writeGraph / readGraph with autodetection
rnd = random.Random(14)


def some_graphs():
    for n in [0, 1, 2, 5, 11]:
        S = Graph(n, 'simple {}'.format(n))
        D = DirectedGraph(n, 'digraph {}'.format(n))
        A = DirectedGraph(n, 'dag {}'.format(n))
        for u in range(1, n + 1):
            for v in range(1, n + 1):
                if u < v and rnd.random() < 0.4:
                    S.add_edge(u, v)
                    A.add_edge(u, v)
                if u != v and rnd.random() < 0.3:
                    D.add_edge(u, v)
        yield 'simple', S
        yield 'digraph', D
        yield 'dag', A
        yield 'digraph', A
        yield 'dag', D
        B = BipartiteGraph(n, (n * 2) % 7, 'bip {}'.format(n))
        for u in range(1, n + 1):
            for v in range(1, (n * 2) % 7 + 1):
                if rnd.random() < 0.5:
                    B.add_edge(u, v)
        yield 'bipartite', B


for gt, G in some_graphs():
    for nm in names:
        for ff in ['autodetect', 'kthlist', 'gml', 'dot', 'dimacs', 'matrix',
                   'zzz']:
            out = named(nm)
            try:
                writeGraph(G, out, gt, ff)
                text = out.getvalue()
                rec(('write', gt, dump(G), nm, ff), text)
            except BaseException as e:
                rec(('write', gt, dump(G), nm, ff), 'exc', type(e).__name__,
                    str(e))
                continue
            attempt(('read-auto', gt, nm, ff), readGraph, named(nm, text), gt)
            attempt(('read-ff', gt, nm, ff), readGraph, named(nm, text), gt,
                    ff)
            attempt(('read-anon', gt, nm, ff), readGraph, io.StringIO(text),
                    gt)
            attempt(('read-multi', gt, nm, ff), readGraph, named(nm, text), gt,
                    ff, True)
    # file names on disk
    for ext in ['kthlist', 'gml', 'dimacs', 'matrix', 'dot', 'foo']:
        p = os.path.join(TMP, 'h.' + ext)
        try:
            writeGraph(G, p, gt)
            with open(p) as fh:
                rec(('wfile', gt, ext), fh.read())
        except BaseException as e:
            rec(('wfile', gt, ext), 'exc', type(e).__name__, str(e))
            continue
        attempt(('rfile', gt, ext), readGraph, p, gt)
        for gt2 in ['simple', 'digraph', 'dag', 'bipartite']:
            attempt(('rfile-x', gt, gt2, ext), readGraph, p, gt2)

attempt('notgraph', writeGraph, 'G', io.StringIO(), 'simple', 'gml')
attempt('badstream-w', writeGraph, Graph(2), 12, 'simple', 'gml')
attempt('badstream-r', readGraph, 12, 'simple', 'gml')

_redirect.__exit__(None, None, None)
rec('stdout', CAPTURED.getvalue())
import shutil
shutil.rmtree(TMP)
print(hashlib.sha256('\n'.join(OUT).encode('utf-8')).hexdigest())
