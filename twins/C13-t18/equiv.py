"""Equivalence script for the randkcnf / randkxor command line helpers."""
import sys, os, io, hashlib, random, argparse, contextlib, warnings
warnings.simplefilter('ignore')
sys.path.insert(0, os.getcwd())

from cnfgen.clitools.cnfgen import cli as cnfgen_cli
from cnfgen.clitools.pbgen import cli as pbgen_cli
from cnfgen.clihelpers.simple_helpers import RandCmdHelper, RandXorHelper
from cnfgen.formula.cnf import CNF
from cnfgen.formula.opb import OPB

H = hashlib.sha256()
NOUT = [0]


def emit(*items):
    text = ' '.join(str(x) for x in items)
    H.update(text.encode('utf-8'))
    H.update(b'\n')
    NOUT[0] += 1


def run_cli(cli, argv, mode):
    out, err = io.StringIO(), io.StringIO()
    try:
        with contextlib.redirect_stdout(out), contextlib.redirect_stderr(err):
            res = cli(argv, mode=mode)
        if mode == 'formula':
            res = (res.number_of_variables(), len(res), [list(c) for c in res]
                   if hasattr(res, '__iter__') else None,
                   sorted((k, v) for k, v in res.header.items()
                          if k not in ('generator',)))
        emit('OK', argv, mode, repr(res), repr(out.getvalue()), repr(err.getvalue()))
    except SystemExit as e:
        emit('EXIT', argv, mode, e.code, repr(out.getvalue()), repr(err.getvalue()))
    except BaseException as e:
        emit('EXC', argv, mode, type(e).__name__, str(e), repr(out.getvalue()),
             repr(err.getvalue()))


# 1. command line runs, through both tools
shapes = [(1, 1, 0), (1, 1, 1), (1, 1, 2), (1, 1, 3), (2, 2, 4), (2, 2, 5),
          (2, 3, 12), (2, 3, 13), (3, 3, 8), (3, 3, 9), (3, 3, 1), (3, 3, 2),
          (3, 5, 4), (3, 10, 30), (4, 6, 20), (5, 4, 1), (2, 1, 0), (3, 7, 0),
          (2, 4, 24), (2, 4, 12), (2, 4, 13), (3, 5, 40), (3, 5, 41),
          (3, 5, 70), (3, 5, 71), (3, 5, 80), (3, 5, 81), (4, 4, 15),
          (4, 4, 16), (4, 4, 8), (4, 4, 9), (1, 6, 6), (1, 6, 7), (1, 6, 12)]
for family in ('randkcnf', 'randkxor'):
    for (k, n, m) in shapes:
        for seed in (1, 42):
            for plant in ([], ['-p'], ['--plant']):
                argv = ['-q', '-S', seed, family, k, n, m] + plant
                run_cli(cnfgen_cli, ['cnfgen'] + argv, 'string')
                if seed == 1:
                    run_cli(cnfgen_cli, ['cnfgen'] + argv, 'formula')
                    run_cli(pbgen_cli, ['pbgen'] + argv, 'string')

# options in other positions, wrong options, help
for family in ('randkcnf', 'randkxor'):
    for tool, cli in (('cnfgen', cnfgen_cli), ('pbgen', pbgen_cli)):
        run_cli(cli, [tool, '-q', '-S', 5, family, '-p', 3, 6, 9], 'string')
        run_cli(cli, [tool, '-q', '-S', 5, family, 3, '-p', 6, 9], 'string')
        run_cli(cli, [tool, '-q', '-S', 5, family, 0, 6, 9], 'string')
        run_cli(cli, [tool, '-q', '-S', 5, family, 3, 0, 9], 'string')
        run_cli(cli, [tool, '-q', '-S', 5, family, 3, 6, -1], 'string')
        run_cli(cli, [tool, '-q', '-S', 5, family, 3, 6], 'string')
        run_cli(cli, [tool, '-q', '-S', 5, family, 3, 6, 'a'], 'string')
        run_cli(cli, [tool, '-q', '-S', 5, family, 3, 6, 2, '--planted'], 'string')
        run_cli(cli, [tool, '-q', family, '-h'], 'string')
        run_cli(cli, [tool, '-q', '-S', 5, family, 3, 6, 9, '-p'], 'output')
        run_cli(cli, [tool, '-q', '-S', 5, '-of', 'latex', family, 2, 4, 3, '-p'],
                'string')
    run_cli(cnfgen_cli, ['cnfgen', '-q', '-S', 5, family, 3, 6, 9, '-p', '-T',
                         'shuffle'], 'string')
    run_cli(cnfgen_cli, ['cnfgen', '-q', '-S', 5, '-of', 'opb', family, 3, 6, 4, '-p'],
            'string')


# 2. direct calls of build_formula, recording the state of the random stream
class Recorder(CNF):
    made = []

    def __init__(self, clauses=None, description=None):
        CNF.__init__(self, clauses=clauses, description=description)
        Recorder.made.append(description)


for helper in (RandCmdHelper, RandXorHelper):
    emit(helper.name, helper.description, helper.__doc__,
         helper.build_formula.__doc__, helper.setup_command_line.__doc__)
    for (k, n, m) in shapes + [(0, 0, 0), (0, 3, 0), (0, 3, 1), (0, 3, 2), (0, 0, 1)]:
        for plant in (False, True):
            for fclass in (CNF, OPB, Recorder):
                args = argparse.Namespace(k=k, n=n, m=m, plant=plant)
                random.seed(1000 * k + 100 * n + m)
                try:
                    F = helper.build_formula(args, fclass)
                    emit('OK', helper.name, k, n, m, plant, fclass.__name__,
                         type(F).__name__, F.number_of_variables(), len(F),
                         F.header.get('description'),
                         F.to_dimacs() if fclass is not OPB else F.to_opb())
                except Exception as e:
                    emit('EXC', helper.name, k, n, m, plant, fclass.__name__,
                         type(e).__name__, str(e),
                         type(e.__cause__).__name__, str(e.__cause__),
                         type(e.__context__).__name__, str(e.__context__))
                emit('RND', random.random(), random.getrandbits(64))
    # positional use of formula_class and missing attribute
    try:
        helper.build_formula(argparse.Namespace(k=1, n=2, m=1), CNF)
        emit('no error')
    except Exception as e:
        emit('EXC', type(e).__name__, str(e))
    try:
        helper.build_formula(argparse.Namespace(k=1, n=2, plant=True), CNF)
        emit('no error')
    except Exception as e:
        emit('EXC', type(e).__name__, str(e))
emit(Recorder.made)

sys.stderr.write('%d records\n' % NOUT[0])
print(H.hexdigest())
