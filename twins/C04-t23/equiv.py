"""Equivalence harness for CNFLinear.add_linear and the methods built on it."""
import hashlib
import itertools
import random
import sys
import os

sys.path.insert(0, os.getcwd())

from cnfgen.formula.cnf import CNF
from cnfgen.formula.opb import OPB
from cnfgen.formula.linear import CNFLinear
from cnfgen.transformations.substitutions import (LinearSubstitution,
                                                  ExactlyOneSubstitution,
                                                  MajoritySubstitution,
                                                  FormulaLifting)
from cnfgen.families.counting import CountingPrinciple
from cnfgen.families.pigeonhole import PigeonholePrinciple

OUT = []


def emit(*items):
    OUT.append(repr(items))


def attempt(tag, fn):
    try:
        emit(tag, 'ok', fn())
    except Exception as e:
        chain = []
        while e is not None:
            chain.append((type(e).__name__, str(e)))
            e = e.__cause__
        emit(tag, 'exc', chain)


def dump(F):
    return (F.number_of_variables(), len(F), [list(c) for c in F])


rnd = random.Random(777)

lit_lists = [[], [1], [-1], [7], [1, 2], [-1, 2], [1, 2, 3], [-3, 2, -1],
             [4, -7, 2, 9], [1, -2, 3, -4, 5], [6, 5, 4, 3, 2, 1], [1, 1], [1, -1],
             [2, 3, 4, 5, 6, 7, 8]]
for n in range(2, 8):
    vs = rnd.sample(range(1, 12), n)
    lit_lists.append([v * rnd.choice([1, -1]) for v in vs])

OPS = ['<=', '>=', '<', '>', '==', '!=']
BADOPS = ['=', '=<', '=>', '<>', '', None, 3, 'le', ' <=', '>= ']

SHAPES = {
    'list': lambda L: list(L),
    'tuple': lambda L: tuple(L),
    'gen': lambda L: (x for x in L),
    'iter': lambda L: iter(L),
}


def shapes_for(L):
    yield from SHAPES.items()
    if L and all(b - a == 1 for a, b in zip(L, L[1:])) and L[0] > 0:
        yield 'range', (lambda L: range(L[0], L[-1] + 1))


# 1. add_linear, all operators, all constants (also out of range), all shapes
for cls in (CNF, CNFLinear):
    for L in lit_lists:
        n = len(L)
        for op in OPS:
            for const in range(-2, n + 3):
                for check in (True, False):
                    for sname, mk in shapes_for(L):
                        def go():
                            F = cls()
                            F.update_variable_number(1)
                            arg = mk(L)
                            try:
                                r = F.add_linear(arg, op, const, check=check)
                            finally:
                                emit('state', dump(F))
                            if sname in ('list',):
                                emit('arg-after', arg)
                            return r, dump(F)
                        attempt((cls.__name__, L, op, const, check, sname), go)

# 2. odd constants
odd_constants = [1.0, 0.5, 2.5, -0.5, True, False, None, '1', [1], 10**20, -10**20, float('inf'), float('nan')]
for L in ([], [1], [1, -2, 3], [4, 5, -6, 7]):
    for op in OPS:
        for const in odd_constants:
            for check in (True, False):
                def go():
                    F = CNF()
                    try:
                        r = F.add_linear(list(L), op, const, check=check)
                    finally:
                        emit('state', dump(F))
                    return r, dump(F)
                attempt(('oddconst', L, op, repr(const), check), go)

# 3. invalid operators
for op in BADOPS:
    for L in ([], [1, 2], [0], 'xx', None):
        def go():
            F = CNF()
            try:
                r = F.add_linear(L, op, 1)
            finally:
                emit('state', dump(F))
            return r
        attempt(('badop', repr(op), repr(L)), go)

# 4. invalid literals
bad_lists = [[0], [1, 0, 2], ['a'], [1, 'b'], [None], [1.5, 2], [True, 2], 5, None, 'abc', {1, 2}, {1: 2, 3: 4}]
for L in bad_lists:
    for op in OPS:
        for const in (0, 1, 2):
            for check in (True, False):
                def go():
                    F = CNF()
                    try:
                        r = F.add_linear(L, op, const, check=check)
                    finally:
                        emit('state', dump(F))
                    return r, dump(F)
                attempt(('badlits', repr(L), op, const, check), go)

# 5. wrappers
WRAP2 = ['cardinality_geq', 'cardinality_leq', 'cardinality_eq', 'cardinality_neq']
WRAP1 = ['add_loose_majority', 'add_loose_minority', 'add_strict_majority', 'add_strict_minority']
for cls in (CNF, OPB):
    for L in lit_lists:
        for sname, mk in shapes_for(L):
            for check in (True, False):
                for w in WRAP2:
                    for const in range(-1, len(L) + 2):
                        def go():
                            F = cls()
                            r = getattr(F, w)(mk(L), const, check=check)
                            return r, dump(F)
                        attempt((cls.__name__, w, L, const, sname, check), go)
                for w in WRAP1:
                    def go():
                        F = cls()
                        r = getattr(F, w)(mk(L), check=check)
                        return r, dump(F)
                    attempt((cls.__name__, w, L, sname, check), go)

# 6. keyword / positional call conventions, several constraints in one formula
def go():
    F = CNF()
    F.add_linear([1, 2, 3], '>=', 2)
    F.add_linear(lits=[-4, 5], op='<', constant=2)
    F.add_linear(range(3, 8), '==', 2, False)
    F.add_linear((x for x in [9, -8, 7]), op='!=', constant=1, check=True)
    F.add_linear([10, 11, 12, 13], '>', 1)
    F.add_linear([10, 11, 12, 13], '<=', 3)
    return dump(F), F.to_dimacs()
attempt('mixed', go)

# 7. users
base = CNF([[1, -2], [2, 3], [-1, -3, 2], []])
for k in (1, 2, 3):
    for op in OPS:
        for C in (0, 1, 2, 4):
            def go():
                X = LinearSubstitution(base, k, op, C)
                return dump(X)
            attempt(('linsub', k, op, C), go)
    attempt(('exone', k), lambda: dump(ExactlyOneSubstitution(base, k)))
    attempt(('maj', k), lambda: dump(MajoritySubstitution(base, k)))
    attempt(('lift', k), lambda: dump(FormulaLifting(base, k)))
attempt('count', lambda: CountingPrinciple(5, 2).to_dimacs())
attempt('count2', lambda: CountingPrinciple(6, 3).to_dimacs())
attempt('php', lambda: PigeonholePrinciple(4, 3, functional=True, onto=True).to_dimacs())

print(hashlib.sha256("\n".join(OUT).encode('utf-8')).hexdigest())
