#!/usr/bin/env python
"""Equivalence script for refactoring t17 (VariablesManager.all_variable_labels).

Run as: cd <checkout> && /venv/bin/python equiv.py
Prints one SHA256 digest of everything observed.
"""
import hashlib
import io
import itertools
import os
import random
import sys
import warnings

warnings.simplefilter('ignore')
sys.path.insert(0, os.getcwd())

import networkx as nx

from cnfgen.formula.cnf import CNF
from cnfgen.graphs import Graph, DirectedGraph, BipartiteGraph
from cnfgen.utils.parsedimacs import to_dimacs_file, from_dimacs_file
from cnfgen.utils.opb import to_opb_file
from cnfgen.clitools.cnfgen import cli

OUT = []


def rec(*items):
    OUT.append(repr(items))


def attempt(label, fn):
    try:
        rec(label, 'ok', fn())
    except SystemExit as e:
        rec(label, 'exit', e.code)
    except BaseException as e:  # noqa
        rec(label, 'exc', type(e).__name__, str(e))


def observe(label, F):
    """Everything observable about the labels of F and its DIMACS text"""
    attempt((label, 'labels'), lambda: list(F.all_variable_labels()))
    attempt((label, 'labels-fmt'), lambda: list(F.all_variable_labels('v[{}]')))
    attempt((label, 'labels-kw'),
            lambda: list(F.all_variable_labels(default_label_format='{0}-{0}')))
    attempt((label, 'labels-nofield'), lambda: list(F.all_variable_labels('same')))
    attempt((label, 'labels-badfmt'), lambda: list(F.all_variable_labels('{} {}')))
    attempt((label, 'labels-nonstr'), lambda: list(F.all_variable_labels(None)))
    attempt((label, 'count'),
            lambda: (sum(1 for _ in F.all_variable_labels()), F.number_of_variables()))
    for hdr, vn in itertools.product((True, False), repeat=2):
        def dimacs():
            s = io.StringIO()
            to_dimacs_file(F, s, export_header=hdr, export_varnames=vn)
            text = s.getvalue()
            G = from_dimacs_file(CNF, io.StringIO(text))
            comments = [l for l in text.splitlines()
                        if not l.startswith('p ') and not l[:1] in '-0123456789']
            return (text, G.number_of_variables() == F.number_of_variables(),
                    list(G) == list(F), all(l.startswith('c') for l in comments),
                    list(G.all_variable_labels()))
        attempt((label, 'dimacs', hdr, vn), dimacs)

    def opb():
        s = io.StringIO()
        to_opb_file(F, s, export_header=True, export_varnames=True)
        return s.getvalue()
    attempt((label, 'opb'), opb)
    attempt((label, 'latex'), lambda: F.to_latex())


def lazy(label, F, mutate):
    """Partial consumption of the generator interleaved with mutation"""
    res = []

    def run():
        it = F.all_variable_labels()
        res.append(('type', type(it).__name__))
        mutate(0)
        for k in range(3):
            try:
                res.append(next(it))
            except StopIteration:
                res.append('STOP')
        mutate(1)
        for lab in it:
            res.append(lab)
        res.append(F.number_of_variables())
        return len(res)
    attempt((label, 'lazy'), run)
    rec(label, 'lazy-partial', res)


def main():
    # 1. hand made formulas
    F = CNF()
    observe('empty', F)

    F = CNF([[]])
    observe('emptyclause', F)

    F = CNF([[1, -2], [3]])
    observe('nogroups', F)

    F = CNF()
    F.update_variable_number(5)
    observe('onlyunnamed', F)

    F = CNF()
    x = F.new_variable('X')
    observe('one-singleton', F)

    F = CNF()
    F.new_variable()
    F.new_variable(None)
    F.new_variable('')
    F.new_variable('two\nlines')
    F.new_variable('  spaces  ')
    F.new_variable('ünïcode ☃ {}')
    F.new_variable(17)
    F.new_variable(('t', 1))
    observe('odd-singletons', F)

    F = CNF(description='mixed')
    F.new_variable('X')
    F.new_block(0, 3, label='z{}{}')           # empty group
    F.update_variable_number(4)                # unnamed 2..4
    F.new_combinations(4, 2)
    F.add_clause([9, -12])                     # unnamed 11, 12
    F.new_block(2)
    F.new_block(0)                             # empty group at the end
    observe('mixed', F)
    F.update_variable_number(20)
    observe('mixed-tail', F)
    F.add_clause([-25])
    F.new_variable('last')
    observe('mixed-tail2', F)

    F = CNF()
    F.new_block(0)
    F.new_block(0, 0)
    observe('only-empty-groups', F)
    F.update_variable_number(2)
    observe('only-empty-groups+2', F)

    F = CNF()
    F.update_variable_number(3)
    F.new_block(2, 2, label='b_{{{},{}}}')
    observe('gap-first', F)

    F = CNF()
    F.new_block(3, label='a{}')
    F.new_block(2, 3, label='b({},{})')
    F.new_block(2, 1, 2, label='c<{}|{}|{}>')
    observe('adjacent-blocks', F)

    F = CNF()
    F.new_combinations(4, 2, label='C{}')
    F.update_variable_number(F.number_of_variables() + 1)
    F.new_combinations_with_replacement(3, 2)
    F.new_permutations(3)
    F.new_permutations(4, 2, label='perm{}')
    F.add_clause([F.number_of_variables() + 2])
    F.new_words(2, 3)
    observe('tuples', F)

    F = CNF()
    G = Graph.from_networkx(nx.cycle_graph(5))
    F.new_graph_edges(G)
    F.update_variable_number(F.number_of_variables() + 2)
    D = DirectedGraph.from_networkx(nx.DiGraph([(0, 1), (1, 2), (0, 2), (2, 3)]))
    F.new_digraph_edges(D, label='d[{}->{}]')
    B = BipartiteGraph(3, 2)
    for (u, v) in [(1, 1), (1, 2), (2, 2), (3, 1)]:
        B.add_edge(u, v)
    F.new_bipartite_edges(B)
    F.add_clause([-(F.number_of_variables() + 1)])
    F.new_sparse_mapping(B)
    observe('graphs', F)

    F = CNF()
    F.new_mapping(3, 2)
    F.update_variable_number(F.number_of_variables() + 1)
    F.new_binary_mapping(5, 4)
    F.new_variable('end')
    observe('mappings', F)

    # a group made of zero-size pieces in between real ones
    F = CNF()
    for k in range(6):
        F.new_block(k % 2, label='g' + str(k) + '_{}')
        if k % 3 == 0:
            F.update_variable_number(F.number_of_variables() + 1)
    observe('alternating', F)

    # 2. lazy consumption
    F = CNF()
    F.update_variable_number(2)
    F.new_block(2, label='q{}')

    def mut1(stage):
        if stage == 0:
            F.update_variable_number(6)
        else:
            F.new_variable('late')
            F.update_variable_number(9)
    lazy('lazy1', F, mut1)
    observe('lazy1-after', F)

    F2 = CNF()

    def mut2(stage):
        F2.new_variable('s{}'.format(stage))
    lazy('lazy2', F2, mut2)

    F3 = CNF([[1, 2, 3, 4]])

    def mut3(stage):
        if stage == 1:
            F3.add_clause([7])
    lazy('lazy3', F3, mut3)

    # 3. random constructions
    rnd = random.Random(1717)
    for trial in range(80):
        F = CNF(description='random construction {}'.format(trial))
        for step in range(rnd.randint(0, 8)):
            op = rnd.randint(0, 7)
            if op == 0:
                F.new_variable('s{}_{}'.format(trial, step))
            elif op == 1:
                F.new_block(rnd.randint(0, 3), label='b%d_{}' % step)
            elif op == 2:
                F.new_block(rnd.randint(0, 2), rnd.randint(0, 3), label='m%d_{{{},{}}}' % step)
            elif op == 3:
                F.update_variable_number(F.number_of_variables() + rnd.randint(0, 3))
            elif op == 4:
                n = F.number_of_variables() + rnd.randint(0, 2)
                if n > 0:
                    F.add_clause([rnd.choice([-1, 1]) * rnd.randint(1, n)
                                  for _ in range(rnd.randint(0, 3))])
                else:
                    F.add_clause([])
            elif op == 5:
                F.new_combinations(rnd.randint(0, 4), rnd.randint(0, 2))
            elif op == 6:
                F.new_mapping(rnd.randint(1, 3), rnd.randint(1, 3))
            else:
                F.new_variable()
        observe(('random', trial), F)

    # 4. families and transformation chains from the command line
    cmds = [
        ['php', '4', '3'], ['php', '3', '3', '-T', 'xor', '2'],
        ['op', '4'], ['op', '3', '--total', '-T', 'or', '2'],
        ['tseitin', 'first', 'grid', '3', '3'],
        ['parity', '5'], ['count', '6', '3'], ['matching', 'complete', '4'],
        ['kclique', '2', 'complete', '4'], ['kcolor', '3', 'torus', '3', '3'],
        ['ram', '3', '3', '5'], ['vdw', '6', '3', '3'],
        ['peb', 'pyramid', '3'], ['peb', 'path', '4', '-T', 'lift', '2'],
        ['stone', '3', 'pyramid', '2'], ['and', '2', '3'], ['or', '3', '0'],
        ['randkcnf', '3', '8', '10'], ['randkcnf', '3', '8', '10', '-T', 'shuffle'],
        ['subsetcard', 'complete', '3', '3'], ['bphp', '5', '4'],
        ['cliquecoloring', '4', '3', '2'], ['ec', 'complete', '5'],
        ['domset', '2', 'grid', '2', '3'], ['iso', 'grid', '2', '2', '-e', 'complete', '4'],
        ['pitfall', '5', '4', '4', '2', '4'], ['cpls', '3', '4', '4'],
        ['php', '3', '2', '-T', 'majcomp', '3', '2'],
        ['php', '3', '2', '-T', 'xorcomp', 'glrd', '6', '4', '2'],
        ['op', '3', '-T', 'eq', '2', '-T', 'flip'],
        ['tseitin', 'randomodd', 'gnd', '6', '3', '-T', 'one', '2'],
        ['ptn', '6'], ['php', '3', '2', '-T', 'exact', '2', '1'],
    ]
    for ci, cmd in enumerate(cmds):
        argv = ['cnfgen', '-q', '-S', '11'] + cmd

        def build():
            return cli(argv, mode='formula')
        try:
            F = build()
        except SystemExit as e:
            rec('cli-exit', ci, e.code)
            continue
        except BaseException as e:  # noqa
            rec('cli-exc', ci, type(e).__name__, str(e))
            continue
        observe(('cli', ci), F)

        def varnames_out():
            import contextlib
            s = io.StringIO()
            with contextlib.redirect_stdout(s):
                cli(['cnfgen', '--varnames', '-S', '11'] + cmd, mode='output')
            return s.getvalue()
        attempt(('cli-varnames', ci), varnames_out)

    h = hashlib.sha256()
    for item in OUT:
        h.update(item.encode('utf-8', errors='backslashreplace'))
        h.update(b'\n')
    print(h.hexdigest())


if __name__ == '__main__':
    main()
