#!/usr/bin/env python3
"""Equivalence check for cnfgen.families.dominatingset.unique_neighborhoods
and the two families (domset, tiling) built on it, as CNF and as OPB.
Prints one SHA256 digest."""
import os, sys, io, hashlib, random, contextlib, itertools
sys.path.insert(0, os.getcwd())

import networkx as nx
from cnfgen.graphs import Graph
from cnfgen.families.dominatingset import unique_neighborhoods, DominatingSet, Tiling
from cnfgen.formula.cnf import CNF
from cnfgen.formula.opb import OPB
from cnfgen.clitools import pbgen
from cnfgen.clitools.cnfgen import cli as cnfcli

H = hashlib.sha256()
def rec(*items):
    for it in items:
        H.update(repr(it).encode('utf-8'))
        H.update(b'\x00')

def attempt(label, fn):
    out, err = io.StringIO(), io.StringIO()
    rec(label)
    try:
        with contextlib.redirect_stdout(out), contextlib.redirect_stderr(err):
            res = fn()
        rec('OK', res)
    except SystemExit as e:
        rec('EXIT', e.code)
    except BaseException as e:
        rec('EXC', type(e).__name__, str(e))
    rec(out.getvalue(), err.getvalue())

def mk(n, edges, name=None):
    G = Graph(n, name=name) if name else Graph(n)
    for u, v in edges:
        G.add_edge(u, v)
    return G

graphs = []
graphs.append(('null', Graph(0)))
graphs.append(('single', Graph(1)))
for n in (2, 3, 5):
    graphs.append(('empty%d' % n, Graph.empty_graph(n)))
    graphs.append(('complete%d' % n, Graph.complete_graph(n)))
    graphs.append(('star%d' % n, Graph.star_graph(n)))
    graphs.append(('path%d' % n, mk(n, [(i, i + 1) for i in range(1, n)])))
graphs.append(('cycle4', mk(4, [(1, 2), (2, 3), (3, 4), (4, 1)])))
graphs.append(('cycle6', mk(6, [(i, i % 6 + 1) for i in range(1, 7)])))
# twins: vertices with identical closed neighbourhoods, not adjacent in the sorted order of ids
graphs.append(('twins', mk(6, [(1, 5), (1, 3), (5, 3), (2, 4), (2, 6), (4, 6), (3, 4)])))
graphs.append(('k33', mk(6, [(u, v) for u in (1, 2, 3) for v in (4, 5, 6)])))
graphs.append(('two-triangles', mk(6, [(1, 2), (2, 3), (1, 3), (4, 5), (5, 6), (4, 6)])))
graphs.append(('isolated+edge', mk(5, [(2, 4)])))
for (r, c) in ((2, 2), (2, 3), (3, 3)):
    Gx = nx.convert_node_labels_to_integers(nx.grid_2d_graph(r, c), first_label=1)
    graphs.append(('grid%dx%d' % (r, c), Graph.from_networkx(Gx)))
rnd = random.Random(2024)
for n in (4, 6, 7, 9):
    for p in (0.2, 0.5, 0.85):
        edges = [(u, v) for u, v in itertools.combinations(range(1, n + 1), 2) if rnd.random() < p]
        graphs.append(('rand%d_%s' % (n, p), mk(n, edges)))

def dump(F):
    if isinstance(F, OPB):
        body = [list(c) for c in F]
    else:
        body = [list(c) for c in F]
    return (type(F).__name__, F.number_of_variables(), list(F.all_variable_labels()),
            body, list(F.header.items()))

for name, G in graphs:
    def un():
        r = unique_neighborhoods(G)
        # also make sure the graph itself was not modified
        return (type(r).__name__, [(type(x).__name__, list(x)) for x in r],
                G.number_of_vertices(), sorted(G.edges()))
    attempt(('unique', name), un)
    attempt(('unique-twice', name), lambda: unique_neighborhoods(G) == unique_neighborhoods(G))
    for cls in (CNF, OPB):
        attempt(('tiling', name, cls.__name__), lambda: dump(Tiling(G, formula_class=cls)))
        for d in (1, 2, 3):
            for alt in (False, True):
                attempt(('domset', name, d, alt, cls.__name__),
                        lambda: dump(DominatingSet(G, d, alternative=alt, formula_class=cls)))
        attempt(('domset-bad-d', name, cls.__name__),
                lambda: dump(DominatingSet(G, 0, formula_class=cls)))
    def rendered():
        return (Tiling(G).to_dimacs(), Tiling(G, formula_class=OPB).to_opb(),
                DominatingSet(G, 2).to_dimacs(), DominatingSet(G, 2, formula_class=OPB).to_opb())
    attempt(('render', name), rendered)

# networkx input and bad input
attempt('nx-tiling', lambda: dump(Tiling(nx.petersen_graph())))
attempt('nx-domset', lambda: dump(DominatingSet(nx.cycle_graph(5), 2, formula_class=OPB)))
attempt('bad-graph', lambda: dump(Tiling('not a graph')))
attempt('bad-graph2', lambda: unique_neighborhoods(None))
attempt('bad-d', lambda: dump(DominatingSet(Graph(3), 'x')))

# command lines
specs = [
    ['tiling', 'grid', 2, 3], ['tiling', 'complete', 4], ['tiling', 'empty', 3],
    ['tiling', 'torus', 3, 3], ['tiling', 'gnp', 7, '.5'], ['tiling', 'gnd', 8, 3],
    ['tiling', 'complete', 0],
    ['domset', 2, 'grid', 2, 2], ['domset', 1, 'complete', 3], ['domset', 3, 'gnm', 6, 7],
    ['domset', '--alternative', 2, 'grid', 2, 3], ['domset', 0, 'complete', 3],
    ['domset', 2, 'gnp', 6, '.4', 'plantclique', 3],
]
for spec in specs:
    for tool, cli, pre in (('pbgen', pbgen.cli, []), ('cnfgen', cnfcli, ['-of', 'opb']),
                           ('cnfgen', cnfcli, [])):
        argv = [tool] + pre + ['-q', '--varnames', '-S', '99'] + spec
        random.seed(1)
        attempt(('cli', argv), lambda: cli(argv, mode='string'))

print(H.hexdigest())
