"""Equivalence script for refactoring t15 (PHPArgs.__call__ in clihelpers/php_helpers.py).

Runs the `cnfgen php ...` command line with many argument lists (valid,
boundary and invalid) and hashes everything observable.
"""
import os
import sys
sys.path.insert(0, os.getcwd())
import hashlib
import io
import contextlib
import argparse
import random

from cnfgen.clitools.cnfgen import cli
from cnfgen.clihelpers.php_helpers import PHPArgs
from cnfgen.clitools import CLIParser

out = []


def record(*items):
    out.append(repr(items))


def run(argv, mode='string'):
    sout, serr = io.StringIO(), io.StringIO()
    try:
        with contextlib.redirect_stdout(sout), contextlib.redirect_stderr(serr):
            res = cli(argv, mode=mode)
        if mode == 'formula':
            res = (res.to_dimacs(), sorted(res.header.items()),
                   list(res.all_variable_labels()))
        record('OK', argv, res, sout.getvalue(), serr.getvalue())
    except SystemExit as e:
        record('EXIT', argv, e.code, sout.getvalue(), serr.getvalue())
    except BaseException as e:
        record('EXC', argv, type(e).__name__, str(e), sout.getvalue(),
               serr.getvalue())


base = ['cnfgen', '-q', '--seed', '11']
speclists = []
# single number
for n in [0, 1, 2, 3, 5]:
    speclists.append([n])
# two numbers
for m in range(0, 5):
    for n in range(0, 5):
        speclists.append([m, n])
# three numbers (degree), including degree > holes, degree == holes, zero degree
for m in [0, 1, 3, 5]:
    for n in [0, 1, 3, 4]:
        for d in [0, 1, 2, 3, 4, 5]:
            speclists.append([m, n, d])
# erroneous / boundary ones
speclists += [
    [], [1, 2, 3, 4], [1, 2, 3, 4, 5], [-1], ['-1', '3'], [3, -2], [2, 3, -1],
    ['1.5'], ['2', '3.0'], ['1e2'], ['3', 'x'], ['x', '3'], ['nan'], ['inf'],
    ['3', '4', 'z'], ['+3', '2'], [' 3', '2'], ['0x10'], ['١٢'],
    ['complete', 3, 2], ['complete', 0, 0], ['regular', 4, 4, 2],
    ['glrd', 4, 3, 2], ['shift', 4, 4, 1, 2], ['glrm', 3, 3, 4],
    ['complete', 3], ['nonexistent.matrix'], ['1', 'complete', '2', '2'],
]

for spec in speclists:
    for flags in [[], ['--functional'], ['--onto'], ['--functional', '--onto']]:
        run(base + ['php'] + [str(x) for x in spec] + flags)
    run(base + ['php'] + flags + [str(x) for x in spec])

# a few with different seeds, header output and other output formats
for seed in [0, 1, 42]:
    for spec in [[5, 4, 2], [4, 6, 3], [6, 3, 1]]:
        run(['cnfgen', '--seed', str(seed), 'php'] + [str(x) for x in spec])
        run(['cnfgen', '-q', '--seed', str(seed), '-of', 'opb', 'php'] +
            [str(x) for x in spec])
        run(['cnfgen', '-q', '--seed', str(seed), '-of', 'latex', 'php'] +
            [str(x) for x in spec] + ['--functional'])
        run(['cnfgen', '--seed', str(seed), 'php'] + [str(x) for x in spec],
            mode='formula')
run(['cnfgen', '-q', 'php', '3', '2'], mode='output')
run(['cnfgen', 'php', '-h'], mode='output')
run(['cnfgen', 'php', '2', '1', '-T', 'shuffle'], mode='string')

# Direct use of the action on a bare parser: observe the namespace
for spec in speclists:
    values = [str(x) for x in spec]
    parser = CLIParser(prog='prog')
    parser.add_argument('pigeonholes', action=PHPArgs, nargs='*')
    ns = argparse.Namespace()
    random.seed(5)
    try:
        parser.parse_args(values, namespace=ns)
        d = dict(vars(ns))
        if 'B' in d and d['B'] is not None:
            B = d['B']
            d['B'] = (type(B).__name__, B.left_order(), B.right_order(),
                      sorted(B.edges()), B.name)
        record('NS', values, sorted(d.items(), key=lambda kv: kv[0]))
    except SystemExit as e:
        record('NSEXIT', values, e.code)
    except BaseException as e:
        record('NSEXC', values, type(e).__name__, str(e))

print(hashlib.sha256("\n".join(out).encode('utf-8')).hexdigest())
