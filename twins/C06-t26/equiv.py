"""Equivalence digest for DIMACS/OPB writers, DIMACS reader and BaseCNF bookkeeping."""
import sys, os, io, hashlib, random, tempfile, copy
sys.path.insert(0, os.getcwd())

from cnfgen.formula.basecnf import BaseCNF
from cnfgen.formula.cnfio import CNFio
from cnfgen.formula.cnf import CNF
from cnfgen.formula.opb import OPB
from cnfgen.utils.parsedimacs import to_dimacs_file, parse_dimacs, from_dimacs_file
from cnfgen.utils.opb import to_opb_file
import cnfgen

H = hashlib.sha256()
def rec(*xs):
    for x in xs:
        H.update(repr(x).encode('utf-8', 'backslashreplace'))
        H.update(b'\x00')

def attempt(label, f):
    try:
        r = f()
        rec(label, 'ok', r)
        return r
    except BaseException as e:  # noqa
        rec(label, 'exc', type(e).__name__, str(e),
            type(e.__cause__).__name__ if e.__cause__ is not None else None)
        return None

class Recorder:
    """File-like object that records every write call"""
    def __init__(self):
        self.chunks = []
    def write(self, s):
        self.chunks.append(s)
    def text(self):
        return "".join(self.chunks)

rng = random.Random(1306)

# ---------------------------------------------------------------- formulas
def formulas():
    yield 'empty', CNF()
    yield 'emptycl', CNF([[]])
    yield 'emptycls', CNFio([[], [1], []])
    F = CNF([[1, -2], [3]]); F.update_variable_number(7)
    yield 'unused', F
    F = CNF([[1, 2]], description="multi\nline\r\ndescr è中 c p cnf 1 1\n")
    F.header['weird\nkey'] = "p cnf 3 3\n1 2 0"
    F.header['empty'] = ""
    F.header['num'] = 12
    yield 'weirdheader', F
    F = CNF(description="")
    x = F.new_variable("x\ny")
    b = F.new_block(2, 3, label="b_{{{}}}\n{}")
    F.new_variable("p cnf 9 9")
    F.add_clause([1, -2, 5])
    F.update_variable_number(12)
    yield 'names', F
    yield 'php', cnfgen.PigeonholePrinciple(4, 3)
    yield 'ordering', cnfgen.OrderingPrinciple(4)
    yield 'pmatch', cnfgen.PerfectMatchingPrinciple(cnfgen.Graph.complete_graph(4))
    random.seed(77)
    yield 'count-shuffled', cnfgen.Shuffle(cnfgen.CountingPrinciple(5, 2))
    yield 'xor', cnfgen.XorSubstitution(cnfgen.PigeonholePrinciple(3, 2), 2)
    for i in range(12):
        n = rng.randint(0, 9)
        cls = [[rng.choice([-1, 1]) * rng.randint(1, max(1, n)) for _ in range(rng.randint(0, 5))]
               for _ in range(rng.randint(0, 8))] if n else [[] for _ in range(rng.randint(0, 3))]
        G = rng.choice([BaseCNF, CNFio, CNF])(cls, description="rnd {}\n#{}".format(i, "ü" * (i % 3)))
        G.update_variable_number(n + rng.randint(0, 3))
        yield 'rnd%d' % i, G
    B = BaseCNF()
    B.add_clauses_from([[-1, 2], [1, 0, -2], [1, 3]], check=False)
    yield 'unchecked', B

allF = list(formulas())
dimacs_texts = []
for name, F in allF:
    rec(name, str(F), len(F), F.number_of_variables(), F.number_of_clauses(),
        list(F), list(F.variables()), list(F.all_variable_labels()),
        list(F.all_variable_labels('y_{}')), list(F.header.items()))
    rec(F.clauses() == F, len(F.clauses()), repr(F.clauses()))
    attempt(name + ':debug', lambda: (F.debug(), F.debug(True, True), F.debug(True, False), F.debug(False, True)))
    for eh in (True, False):
        for ev in (True, False):
            r = Recorder()
            attempt(name + ':dimacs', lambda: to_dimacs_file(F, r, export_header=eh, export_varnames=ev))
            rec(r.chunks)
            dimacs_texts.append(r.text())
            r2 = Recorder()
            attempt(name + ':opb', lambda: to_opb_file(F, r2, export_header=eh, export_varnames=ev))
            rec(r2.chunks)
            # round trip
            def rt():
                G = from_dimacs_file(CNF, io.StringIO(r.text()))
                return (G.number_of_variables(), list(G), str(G), list(G.header.items()),
                        G.number_of_variables() == F.number_of_variables(), list(G) == list(F))
            attempt(name + ':rt', rt)
    if hasattr(F, 'to_dimacs'):
        attempt(name + ':to_dimacs', F.to_dimacs)
        attempt(name + ':to_opb', F.to_opb)
        attempt(name + ':to_latex', F.to_latex)
        for fmt in (None, 'dimacs', 'opb', 'latex', 'bogus'):
            out = io.StringIO()
            attempt(name + ':to_file', lambda: F.to_file(out, fileformat=fmt, export_varnames=True))
            rec(out.getvalue())
    G = copy.deepcopy(F)
    attempt(name + ':mutate', lambda: (G.add_clause([G.number_of_variables() + 2, -1]),
                                      G.update_variable_number(3), G.number_of_variables(), list(G)[-1]))
    attempt(name + ':badupd', lambda: G.update_variable_number(-1))
    attempt(name + ':badupd2', lambda: G.update_variable_number('a'))
    attempt(name + ':badcl', lambda: G.add_clause([1, 0]))
    attempt(name + ':badcl2', lambda: G.add_clause([1, 'a']))
    attempt(name + ':badcl3', lambda: G.add_clause([None]))
    rec(G.number_of_variables(), len(G), str(G))

# OPB formulas through the opb writer
P = OPB()
P.cardinality_geq([1, -2, 5], 2)
P.cardinality_eq([3, -4], 1)
P.header['note'] = "a\nbé"
for eh in (True, False):
    for ev in (True, False):
        r = Recorder()
        attempt('opbf', lambda: to_opb_file(P, r, export_header=eh, export_varnames=ev))
        rec(r.chunks)

# ---------------------------------------------------------------- file names, stdout, stdin
tmpdir = tempfile.mkdtemp()
try:
    F = allF[4][1]
    fn = os.path.join(tmpdir, 'f.cnf')
    to_dimacs_file(F, fn, export_header=True, export_varnames=True)
    rec(open(fn, encoding='utf-8').read())
    G = from_dimacs_file(CNF, fn)
    rec(G.header['description'].replace(tmpdir, '<T>'), list(G), G.number_of_variables())
    G = CNF.from_file(fn)
    rec(G.header['description'].replace(tmpdir, '<T>'), list(G), G.number_of_variables())
    fo = os.path.join(tmpdir, 'f.opb')
    to_opb_file(F, fo, export_header=True, export_varnames=True)
    rec(open(fo, encoding='utf-8').read())
    for ext in ('x.tex', 'x.opb', 'x.cnf', 'x'):
        p = os.path.join(tmpdir, ext)
        F.to_file(p)
        rec(ext, open(p, encoding='utf-8').read())
    old_out, old_in = sys.stdout, sys.stdin
    try:
        sys.stdout = io.StringIO()
        to_dimacs_file(F)
        to_opb_file(F)
        F.to_file()
        captured = sys.stdout.getvalue()
        sys.stdin = io.StringIO("p cnf 3 1\n1 -3 0\n")
        G = from_dimacs_file(CNFio)
    finally:
        sys.stdout, sys.stdin = old_out, old_in
    rec(captured, str(G), list(G))
    try:
        from_dimacs_file(CNF, os.path.join(tmpdir, 'missing.cnf'))
        rec('nofile ok')
    except Exception as e:
        rec('nofile', type(e).__name__, str(e).replace(tmpdir, '<T>'))
finally:
    import shutil
    shutil.rmtree(tmpdir)

# ---------------------------------------------------------------- reader on arbitrary text
def drain(text):
    got = []
    try:
        for item in parse_dimacs(io.StringIO(text)):
            got.append(item)
    except BaseException as e:  # noqa
        got.append(('exc', type(e).__name__, str(e)))
    return got

handmade = [
    "", "\n\n", "c only comment\n", "p cnf 0 0", "p cnf 0 0\n", "p cnf 0 1\n0\n", "p cnf 0 1\n",
    "p cnf 2 1\n1 2 0\n", "p cnf 2 1\n1 2 0", "p cnf 2 1\n1 2", "p cnf 2 1\n1\n2\n0\n",
    "p cnf 2 2\n1 0 2 0\n", "p cnf 2 2\n1 0 -2 0 0\n", "p cnf 2 1\n1 3 0\n", "p cnf 2 1\n1 -3 0\n",
    "p cnf 2 2\n1 0 3 0\n", "p cnf 2 1\n1 0 x\n", "p cnf 2 1\n1 x 0\n", "p cnf 2 1\n1 2.0 0\n",
    "1 2 0\np cnf 2 1\n", "p cnf 2 1\np cnf 2 1\n1 0\n", "p cnf 2\n", "p cnf 2 1 3\n", "p cnf a 1\n",
    "p cnf -1 1\n", "p cnf 1 -1\n", "p dnf 2 1\n1 0\n", "p\n", "pcnf 2 1\n", "p  cnf   2\t1 \n 1  -2   0 \n",
    "  c indented comment\n  p cnf 1 1\n  1 0\n", "c\nc x\ncomment 1 0\np cnf 1 1\n1 0\n",
    "p cnf 1 1\n\n\n1\n\n0\n\n", "p cnf 1 1\r\n1 0\r\n", "p cnf 3 2\n1 2 0\nc mid comment\n-3 0\n",
    "p cnf 3 2\n1 2 0\npx\n", "p cnf 3 3\n1 2 0\n-3 0\n", "p cnf 3 1\n1 2 0\n-3 0\n",
    "p cnf 2 1\n+1 -2 0\n", "p cnf 2 1\n01 -02 00\n", "p cnf 2 1\n1_0 0\n", "p cnf 1_0 1\n10 0\n",
    "p cnf 2 1\n١ 0\n", "p cnf 2 1\n1 2 0 %\n", "%\n0\n", "p cnf 2 1\n1 2 0\n%\n0\n",
    "P cnf 2 1\n1 0\n", "C x\np cnf 1 0\n", "p cnf 1 0\nc\n", "p cnf 5 1\n1 2 3\n4 5\n",
    "p cnf 99999999999999999999 0\n", "p cnf 2 1\n-0 0\n", "p cnf 2 1\n1 -0\n",
]
texts = list(handmade) + dimacs_texts[::3]
# truncations and corruptions of valid outputs
valid = [t for t in dimacs_texts if t]
for i in range(150):
    t = rng.choice(valid)
    k = rng.randint(0, 3)
    if k == 0:
        t = t[:rng.randint(0, len(t))]
    elif k == 1:
        pos = rng.randint(0, len(t))
        t = t[:pos] + rng.choice(['0', ' ', '\n', '-', 'p', 'c', '9', 'x', ' 0 ', '\np cnf 1 1\n']) + t[pos:]
    elif k == 2:
        lines = t.splitlines(True)
        if lines:
            del lines[rng.randrange(len(lines))]
        t = "".join(lines)
    else:
        lines = t.splitlines(True)
        rng.shuffle(lines)
        t = "".join(lines)
    texts.append(t)

for t in texts:
    rec(t, drain(t))
    attempt('from', lambda: (lambda G: (G.number_of_variables(), list(G), str(G)))(from_dimacs_file(CNF, io.StringIO(t))))
    attempt('from2', lambda: (lambda G: (G.number_of_variables(), list(G), str(G)))(CNFio.from_file(io.StringIO(t))))

# partial consumption of the generator: items yielded before an error
g = parse_dimacs(io.StringIO("p cnf 2 3\n1 0 2 0\n3 0\n"))
rec([next(g) for _ in range(4)])
attempt('late', lambda: next(g))

# named file object
class Named(io.StringIO):
    name = 'some name.cnf'
rec(str(from_dimacs_file(CNF, Named("p cnf 1 1\n-1 0\n"))))

print(H.hexdigest())
