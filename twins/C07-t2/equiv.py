"""Equivalence script for the refactoring of cnfgen.families.randomformulas.sample_clauses"""
import hashlib
import io
import os
import random
import sys
from contextlib import redirect_stderr

sys.path.insert(0, os.getcwd())

from cnfgen.formula.cnf import CNF
from cnfgen.families.randomformulas import RandomKCNF, sample_clauses, all_clauses
from cnfgen.clitools.cnfgen import cli as cnfgencli
from cnfgen.clitools.pbgen import cli as pbgencli

H = hashlib.sha256()


def emit(*items):
    for x in items:
        H.update(repr(x).encode('utf8'))
        H.update(b'\n')


def observe(tag, fn):
    try:
        res = fn()
    except SystemExit as e:
        emit(tag, 'EXIT', e.code)
        return
    except Exception as e:
        emit(tag, 'EXC', type(e).__name__, str(e))
        emit(tag, 'RND', random.random())
        return
    if isinstance(res, CNF):
        emit(tag, 'CNF', res.number_of_variables(), res.number_of_clauses(),
             list(res.clauses()), sorted(res.header.items()), res.to_dimacs())
    else:
        emit(tag, 'VAL', res)
    emit(tag, 'RND', random.random())


# library: RandomKCNF over a grid of parameters, including the dense
# regime (m close or equal to the number of available clauses), m too
# large, k = 0, k = n, k > n, n = 0, m = 0, negative values
for seed in [0, 1, 2, -7, 31337, 'text']:
    for k in [0, 1, 2, 3, 4]:
        for n in [0, 1, 2, 3, 4, 6, 9]:
            for m in [0, 1, 2, 5, 7, 8, 9, 12, 31, 32, 33, 60, 159, 160, 161]:
                observe(('kcnf', seed, k, n, m), lambda: RandomKCNF(k, n, m, seed=seed))
for args in [(-1, 3, 2), (2, -3, 2), (2, 3, -2), (2.0, 3, 2), ('2', 3, 2), (2, 3, None)]:
    observe(('kcnf-bad', args), lambda: RandomKCNF(*args, seed=5))

# no seed argument: uses the state of the global generator
for seed in [0, 4]:
    random.seed(seed)
    observe(('noseed', seed, 1), lambda: RandomKCNF(3, 7, 20))
    observe(('noseed', seed, 2), lambda: RandomKCNF(3, 7, 20))
    observe(('noseed', seed, 3), lambda: RandomKCNF(2, 4, 24))

# planted assignments
planted_sets = [
    [],
    [[1, 2, 3, 4, 5, 6]],
    [[-1, -2, -3, -4, -5, -6]],
    [[1, -2, 3, -4, 5, -6], [-1, 2, -3, 4, -5, 6]],
    [[1, 2], [-3]],
    [[1, 2, 3, 4, 5, 6], [-1, -2, -3, -4, -5, -6], [1, -2, 3, -4, 5, -6]],
    [[]],
]
for seed in [0, 3, 11]:
    for pi, planted in enumerate(planted_sets):
        for k in [1, 2, 3]:
            for m in [0, 1, 4, 10, 20, 40, 70, 140, 141, 200]:
                observe(('planted', seed, pi, k, m),
                        lambda: RandomKCNF(k, 6, m, seed=seed, planted_assignments=planted))

# sample_clauses and all_clauses directly
for seed in [0, 9]:
    for (k, n, m) in [(3, 5, 0), (3, 5, 10), (3, 5, 79), (3, 5, 80), (3, 5, 81), (1, 1, 2),
                      (0, 3, 1), (0, 3, 2), (2, 2, 4), (5, 5, 32)]:
        for planted in [[], [[1, 2, 3, 4, 5]], [[1], [-1]]]:
            random.seed(seed)
            observe(('sample', seed, k, n, m, planted),
                    lambda: sample_clauses(k, n, m, planted))
observe('all', lambda: [list(all_clauses(k, n, p)) for k in range(4) for n in range(k, 5)
                        for p in ([], [[1, -2]], [[1], [-1]])])

# command line
def runcli(cli, argv):
    err = io.StringIO()
    with redirect_stderr(err):
        res = cli(argv, mode='string')
    return (res, err.getvalue())

for seed in [0, 1, 99]:
    for cmd in [['randkcnf', 3, 10, 20], ['randkcnf', 2, 4, 24], ['randkcnf', 2, 4, 25],
                ['randkcnf', 3, 5, 78], ['randkcnf', 0, 5, 1], ['randkcnf', 4, 3, 1],
                ['randkcnf', 3, 10, 20, '-T', 'shuffle'],
                ['randkcnf', 3, 6, 10, '--plant'], ['randkcnf', 2, 5, 30, '--plant'],
                ['randkcnf', 2, 5, 31, '--plant']]:
        observe(('cnfgen', seed, tuple(cmd)),
                lambda: runcli(cnfgencli, ['cnfgen', '--seed', seed] + cmd))
        observe(('pbgen', seed, tuple(cmd)),
                lambda: runcli(pbgencli, ['pbgen', '--seed', seed] + cmd))
    observe(('cnfgen-noseed-after-seed', seed),
            lambda: (random.seed(seed), runcli(cnfgencli, ['cnfgen', '-q', 'randkcnf', 3, 8, 12]))[1])

print(H.hexdigest())
