"""Equivalence script: graph I/O round trips, networkx conversions, error paths."""
import hashlib
import io
import os
import random
import sys
import tempfile

sys.path.insert(0, os.getcwd())

import networkx
import cnfgen.graphs as gmod
from cnfgen.graphs import (Graph, DirectedGraph, BipartiteGraph, readGraph,
                           writeGraph, supported_graph_formats)

H = hashlib.sha256()
_real_stdout = sys.stdout
sys.stdout = io.StringIO()   # pydot prints parse errors on stdout
sys.stderr = io.StringIO()


import re
TMPDIRS = []


def out(*items):
    line = " | ".join(repr(x) for x in items)
    line = re.sub(r'0x[0-9a-fA-F]+', '0xADDR', line)
    for d in TMPDIRS:
        line = line.replace(d, 'TMP')
    H.update((line + "\n").encode('utf-8'))


def attempt(label, fn, *args, **kwargs):
    try:
        res = fn(*args, **kwargs)
    except Exception as e:  # record type and message
        out(label, 'EXC', type(e).__name__, str(e))
        return None
    out(label, 'OK', describe(res))
    return res


def describe(G):
    if isinstance(G, gmod.BaseBipartiteGraph):
        return ('bip', type(G).__name__, G.left_order(), G.right_order(),
                list(G.edges()), G.name)
    if isinstance(G, gmod.BaseGraph):
        return (type(G).__name__, G.order(), list(G.edges()), G.name,
                G.is_dag() if G.is_directed() else None)
    if isinstance(G, (list, tuple, dict, str, int, bool, type(None))):
        return G
    if isinstance(G, type):
        return G.__name__
    return repr(type(G))


rng = random.Random(20240614)


def rand_simple(n, p):
    G = Graph(n, 'simple {} {}'.format(n, p))
    for u in range(1, n):
        for v in range(u + 1, n + 1):
            if rng.random() < p:
                G.add_edge(u, v)
    return G


def rand_digraph(n, p, dag):
    G = DirectedGraph(n, 'dir {} {} {}'.format(n, p, dag))
    for u in range(1, n + 1):
        for v in range(1, n + 1):
            if u == v or (dag and u > v):
                continue
            if rng.random() < p:
                G.add_edge(u, v)
    return G


def rand_bip(l, r, p):
    G = BipartiteGraph(l, r, 'bip {} {} {}'.format(l, r, p))
    for u in range(1, l + 1):
        for v in range(1, r + 1):
            if rng.random() < p:
                G.add_edge(u, v)
    return G


graphs = []
for n in [0, 1, 2, 3, 9, 10, 11, 14]:
    for p in [0.0, 0.3, 1.0]:
        graphs.append(('simple', rand_simple(n, p)))
        graphs.append(('digraph', rand_digraph(n, p, False)))
        graphs.append(('dag', rand_digraph(n, p, True)))
for l, r in [(0, 0), (1, 0), (0, 2), (1, 1), (3, 4), (10, 3), (4, 12), (11, 11)]:
    for p in [0.0, 0.4, 1.0]:
        graphs.append(('bipartite', rand_bip(l, r, p)))

out('formats', supported_graph_formats())
for cls in [Graph, DirectedGraph, BipartiteGraph, gmod.CompleteBipartiteGraph]:
    out('cls', cls.__name__, cls.supported_file_formats(), cls.graph_type_name())
for cls in [gmod.BaseGraph, gmod.BaseBipartiteGraph]:
    attempt('base fmt ' + cls.__name__, cls.supported_file_formats)
    attempt('base name ' + cls.__name__, cls.graph_type_name)
    attempt('base fromnx ' + cls.__name__, cls.from_networkx, networkx.Graph())

allfmts = ['kthlist', 'gml', 'dot', 'dimacs', 'matrix', 'autodetect', 'xyz']
for gtype, G in graphs:
    for fmt in allfmts:
        buf = io.StringIO()
        try:
            writeGraph(G, buf, gtype, fmt)
        except Exception as e:
            out('write', gtype, fmt, 'EXC', type(e).__name__, str(e))
            continue
        text = buf.getvalue()
        out('write', gtype, fmt, text)
        G2 = attempt(('read', gtype, fmt), readGraph, io.StringIO(text), gtype, fmt)
        if G2 is not None:
            out('same', G2.order() == G.order(), list(G2.edges()) == list(G.edges()))
        # read with the other graph types too
        for other in ['simple', 'digraph', 'dag', 'bipartite', 'weird']:
            if other != gtype:
                attempt(('xread', gtype, other, fmt), readGraph,
                        io.StringIO(text), other, fmt)
        # truncated / corrupted
        if len(text) > 6 and G.order() in (3, 7, 10):
            for cut in [len(text) // 3, len(text) // 2, len(text) - 3]:
                attempt(('trunc', gtype, fmt, cut), readGraph,
                        io.StringIO(text[:cut]), gtype, fmt)
            attempt(('corrupt', gtype, fmt), readGraph,
                    io.StringIO(text.replace('1', 'x', 2)), gtype, fmt)
            attempt(('blank', gtype, fmt), readGraph,
                    io.StringIO(text.replace('\n', '\n\n')), gtype, fmt)

# files on disk, autodetection, from_file
tmpdir = tempfile.mkdtemp()
TMPDIRS.append(tmpdir)
for i, (gtype, G) in enumerate(graphs):
    if i % 5 != 0:
        continue
    for ext in ['kthlist', 'gml', 'dot', 'dimacs', 'matrix', 'txt', '']:
        fname = os.path.join(tmpdir, 'g{}'.format(i) + ('.' + ext if ext else ''))
        short = os.path.basename(fname)
        try:
            writeGraph(G, fname, gtype)
        except Exception as e:
            out('fwrite', gtype, short, type(e).__name__, str(e).replace(tmpdir, 'TMP'))
            continue
        with open(fname) as f:
            out('fwrite', gtype, short, f.read())
        try:
            G2 = readGraph(fname, gtype)
            out('fread', gtype, short, describe(G2))
        except Exception as e:
            out('fread', gtype, short, type(e).__name__, str(e).replace(tmpdir, 'TMP'))
        for cls in [Graph, DirectedGraph, BipartiteGraph]:
            try:
                G3 = cls.from_file(fname)
                out('from_file', cls.__name__, short, describe(G3))
            except Exception as e:
                out('from_file', cls.__name__, short, type(e).__name__,
                    str(e).replace(tmpdir, 'TMP'))
            try:
                with open(fname) as f:
                    G3 = cls.from_file(f, 'kthlist')
                out('from_file2', cls.__name__, short, describe(G3))
            except Exception as e:
                out('from_file2', cls.__name__, short, type(e).__name__,
                    str(e).replace(tmpdir, 'TMP'))

# argument processing
P = gmod._process_graph_io_arguments
named = io.StringIO('')
named.name = 'foo.kthlist'
named2 = io.StringIO('')
named2.name = 'foo.matrix'
named3 = io.StringIO('')
named3.name = 'noext'
for f in [io.StringIO(''), named, named2, named3, io.BytesIO(b''), 'string', None, 12]:
    for gt in ['dag', 'digraph', 'simple', 'bipartite', 'directed', '', None, 3, ['dag']]:
        for ff in ['autodetect', 'kthlist', 'gml', 'dot', 'dimacs', 'matrix', 'bad', None]:
            for me in [False, True]:
                attempt(('P', getattr(f, 'name', repr(type(f))), gt, ff, me), P, f, gt, ff, me)
for a in [('x.gml', None), ('x', None), ('x.tar.gz', None), ('', None), (named, None),
          (io.StringIO(''), None), (None, None), (3, None), (None, 'dot'), ('a.b', 'c')]:
    attempt(('guess', repr(a[0])[:20] if not hasattr(a[0], 'name') else a[0].name, a[1]),
            gmod.guess_fileformat, *a)

# networkx conversions
keyfn = getattr(gmod, '_label_sort_key')
for lab in [0, 1, -5, 10, '2', '10', '-3', 'a', 'b10', '', '--1', '-', 2.5, (1, 2), None, True]:
    attempt(('key', lab), keyfn, lab)
nxgraphs = []
for labels in [[3, 1, 2], ['10', '9', '2', '1'], ['b', 'a', 'c'], [1, 'a', '2'], [(1, 2), (0, 1)],
               [2.5, 1, 'x'], list(range(12, 0, -1)), []]:
    for nxcls in [networkx.Graph, networkx.DiGraph, networkx.MultiGraph]:
        N = nxcls()
        N.add_nodes_from(labels)
        for a, b in zip(labels, labels[1:]):
            N.add_edge(a, b)
        if labels and len(labels) > 2:
            N.add_edge(labels[-1], labels[0])
        N.name = 'nx {}'.format(labels)
        nxgraphs.append(N)
for N in nxgraphs:
    attempt(('nnl', N.name, type(N).__name__),
            lambda N=N: sorted(map(repr, gmod.normalize_networkx_labels(N).edges())))
    for cls in [Graph, DirectedGraph, BipartiteGraph]:
        attempt(('fromnx', cls.__name__, N.name, type(N).__name__), cls.from_networkx, N)
        attempt(('norm', cls.__name__, N.name, type(N).__name__), cls.normalize, N)
        attempt(('norm2', cls.__name__, N.name, type(N).__name__), cls.normalize, N, 'X')
for cls in [Graph, DirectedGraph, BipartiteGraph]:
    for bad in [None, 3, 'G', [1, 2], Graph(3), DirectedGraph(2), BipartiteGraph(1, 2)]:
        attempt(('fromnx-bad', cls.__name__, repr(type(bad))), cls.from_networkx, bad)
        attempt(('norm-bad', cls.__name__, repr(type(bad))), cls.normalize, bad)
B = networkx.Graph()
B.add_nodes_from([1, 2, 3], bipartite=0)
B.add_nodes_from(['a', 'b'], bipartite=1)
B.add_edges_from([(1, 'a'), ('b', 2), (3, 'a')])
attempt('bipnx', BipartiteGraph.from_networkx, B)
B.add_edge(1, 2)
attempt('bipnx-bad', BipartiteGraph.from_networkx, B)
for G in [Graph.complete_graph(4), rand_digraph(5, 0.5, False), rand_bip(2, 3, 0.5)]:
    N = G.to_networkx()
    out('tonx', type(N).__name__, sorted(N.nodes()), sorted(N.edges()), N.name)
    attempt('back', type(G).from_networkx, N)

# hand written texts
texts = {
    'kthlist': ["", "c only\n", "3\n1 : 0\n2 : 1 0\n3 : 1 2 0\n", "3\n1 : 2 0\n2 : 0\n3 : 0\n",
                "c n\n\n3\n\n1 : 0\nc mid\n3 : 2 0\n", "3\n3\n", "-1\n", "x\n", "3\n1 : 2\n",
                "3\n4 : 1 0\n", "3\n1 : 5 0\n", "3\n2 : 0\n1 : 0\n", "3\n1 : a 0\n", "2\n1 : 2 0\n2 : 1 0\n",
                "12\n1 : 11 12 0\n2 : 10 0\n", "4\n1 : 3 0\n3 : 4 0\n", "4\n2 : 3 0\n1: 4 0\n", "1 : 0\n",
                "3\n1 : 2 : 0\n", "c a\nc b\n2\n2 : 1 0"],
    'dimacs': ["", "c x\np edge 3 2\ne 1 2\ne 2 3\n", "p edge 3 1\ne 3 1\n", "p edge 3 2\ne 1 2\n",
               "e 1 2\n", "p edge 2 0\np edge 2 0\n", "p col 2 0\n", "p edge 2\n", "p edge a b\n",
               "p edge 2 1\ne 1 x\n", "p edge 2 1\ne 1 5\n", "p edge 2 1\ne 1\n", "\n\nc\np edge 11 1\n\ne 10 11\n",
               "p edge 2 1\ne 1 1\n", "q\n", "p edge 2 1\ne 1 2\ne 1 2\n"],
    'matrix': ["", "2 2\n1 0\n0 1\n", "2 2\n1 0\n0\n", "2 2\n1 0 0 1 1\n", "2 2\n1 2\n0 1\n", "2 2\n1 a\n",
               "# c\n2 3\n\n1 1 1\n# mid\n0 0 0\n", "0 0\n", "2\n", "0 3\n", "-1 2\n", "1 1 1", "2 2 1 0 0 1\n# end\n"],
    'gml': ["", "graph [\n]", "graph [ node [ id 1 ] node [ id 2 ] edge [ source 1 target 2 ] ]",
            "graph [ directed 1 node [ id 2 ] node [ id 1 ] edge [ source 2 target 1 ] ]",
            "graph [ node [ id 1 bipartite 0 ] node [ id 2 bipartite 1 ] edge [ source 1 target 2 ] ]",
            "graph [ node [ id 1 ] node [ id 1 ] ]", "graph [ node [ id 1 ] edge [ source 1 target 7 ] ]",
            "graph [ node [ id 1 label \"é\" ] ]", "garbage", "graph [ node [ id 1 ]"],
    'dot': ["", "graph G { 1 -- 2; 2 -- 10; }", "digraph G { 1 -> 2; 10 -> 2; 3; }", "digraph G { b -> a; }",
            "graph { 1 [bipartite=0]; 2 [bipartite=1]; 1 -- 2; }", "graph G { 1 -- ", "nonsense {{{"],
}
for fmt, lst in texts.items():
    for k, t in enumerate(lst):
        for gtype in ['simple', 'digraph', 'dag', 'bipartite']:
            attempt(('text', fmt, k, gtype), readGraph, io.StringIO(t), gtype, fmt)

attempt('multi', readGraph, io.StringIO('0\n'), 'simple', 'kthlist', True)
attempt('notgraph', writeGraph, networkx.Graph(), io.StringIO(), 'simple', 'gml')
attempt('nofile', readGraph, os.path.join(tmpdir, 'missing.gml').replace(tmpdir, '/nonexistent-dir'), 'simple')

# command line helper
from cnfgen.clitools.graph_fileinput import read_graph_from_input
for i, (gtype, G) in enumerate(graphs):
    if i % 7 != 0:
        continue
    for ext in ['kthlist', 'gml', 'matrix', 'dimacs', 'foo', '']:
        fname = os.path.join(tmpdir, 'h{}'.format(i) + ('.' + ext if ext else ''))
        with open(fname, 'w') as f:
            try:
                writeGraph(G, f, gtype, ext if ext not in ('foo', '') else 'kthlist')
            except Exception as e:
                out('cli-w', type(e).__name__, str(e))
        for ff in ['autodetect', 'kthlist', ext]:
            try:
                G2 = read_graph_from_input(gtype, fname, ff)
                out('cli', gtype, ext, ff, describe(G2)[:-1] if not G2.is_bipartite() else describe(G2)[:-1],
                    G2.name.replace(tmpdir, 'TMP'))
            except Exception as e:
                out('cli', gtype, ext, ff, type(e).__name__, str(e).replace(tmpdir, 'TMP'))

import shutil
shutil.rmtree(tmpdir, ignore_errors=True)
sys.stdout = _real_stdout
print(H.hexdigest())
