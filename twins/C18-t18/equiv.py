#!/usr/bin/env python
"""Equivalence check for the graph argument parser error paths
(cnfgen/clitools/graph_args.py).

Run as:  cd <checkout> && /venv/bin/python equiv.py
Prints one SHA256 digest of everything observable.
"""
import os
import sys
import io
import random
import shutil
import hashlib
import tempfile
import importlib

ROOT = os.getcwd()
sys.path.insert(0, ROOT)

import cnfgen  # noqa: E402
from cnfgen.clitools import graph_args  # noqa: E402
from cnfgen.clitools import msg as msg_module  # noqa: E402

cnfgen_cli = importlib.import_module('cnfgen.clitools.cnfgen')
pbgen_cli = importlib.import_module('cnfgen.clitools.pbgen')

LOG = []


def record(*items):
    LOG.append(repr(items))


class KeepOpen(io.StringIO):
    def close(self):
        pass


def run_main(module, argv, stdin_text=''):
    """Run the command line entry point in process, like the shell would"""
    out, err = KeepOpen(), KeepOpen()
    old = sys.argv, sys.stdin, sys.stdout, sys.stderr
    sys.argv = list(argv)
    sys.stdin = io.StringIO(stdin_text)
    sys.stdout, sys.stderr = out, err
    code = 0
    # every command line starts in a fresh process: no leftover prefix
    msg_module._prefix = ''
    try:
        try:
            module.main()
        except SystemExit as e:
            code = e.code
        except BaseException as e:  # unhandled internal exception
            code = ('UNHANDLED', type(e).__name__, str(e))
    finally:
        sys.argv, sys.stdin, sys.stdout, sys.stderr = old
    return code, out.getvalue(), err.getvalue()


def try_call(f, *args):
    try:
        res = f(*args)
        if isinstance(res, dict):
            res = sorted(res.items(), key=lambda kv: kv[0])
        return ('OK', repr(res))
    except BaseException as e:
        return ('EXC', type(e).__name__, str(e))


GRAPHTYPES = ['simple', 'bipartite', 'dag', 'digraph']

FIRST_TOKENS = [
    'gnp', 'gnm', 'gnd', 'grid', 'torus', 'complete', 'empty', 'path', 'tree',
    'pyramid', 'glrp', 'glrm', 'glrd', 'regular', 'shift', 'kthlist', 'gml',
    'dot', 'dimacs', 'matrix', 'autodetect', 'nofile', 'nofile.gml',
    'nofile.matrix', 'nofile.kthlist', 'nofile.xyz', '-5', '3', 'save',
    'plantclique', 'addedges', 'simple', 'dag', ''
]

TAILS = [
    [], ['4'], ['4', '2'], ['4', '.5'], ['3', '3', '2'], ['4', '4', '1', '2'],
    ['0'], ['-1'], ['x'], ['4', 'plantclique', '2'], ['4', 'addedges', '1'],
    ['4', '2', 'addedges', '1', 'addedges', '2'], ['4', 'save'],
    ['4', 'save', 'gml'], ['4', 'save', 'kthlist'], ['4', 'save', 'dot'],
    ['4', 'simple'], ['4', '--foo'], ['4', 'bogus'], ['4', 'gnp', '3'],
    ['4', 'plantbiclique', '1', '1'], ['4', 'splitedges', '1'],
    ['out.gml'], ['f.gml', 'bogus'], ['f.matrix', 'plantclique'],
]


def exercise_parser():
    for gt in GRAPHTYPES:
        for name in FIRST_TOKENS:
            record('another', gt, name,
                   try_call(graph_args.construction_for_another_type, name,
                            gt),
                   try_call(graph_args.format_for_another_type, name, gt))
            for tail in TAILS:
                spec = [name] + tail
                record('parse', gt, spec,
                       try_call(graph_args.parse_graph_argument, gt, spec))
        for spec in ['', '   ', 'gnp 4 .5', 'kthlist', 'matrix f.matrix',
                     'gml', 'dot x.dot save', 'complete 3 save dimacs']:
            record('parsestr', gt, spec,
                   try_call(graph_args.parse_graph_argument, gt, spec))
    record('unknown type',
           try_call(graph_args.parse_graph_argument, 'hyper', ['gnp', '3']))


def exercise_builder():
    for gt in GRAPHTYPES:
        for name in FIRST_TOKENS:
            for tail in TAILS:
                if 'save' in tail:
                    continue
                spec = [name] + tail
                random.seed(42)

                def build():
                    G = graph_args.make_graph_from_spec(gt, spec)
                    return (type(G).__name__, G.name, G.number_of_vertices(),
                            sorted(G.edges()))

                record('build', gt, spec, try_call(build))


CNFGEN_CMDS = [
    # wrong type of construction / format, on various formulas
    ['kcolor', '3', 'glrp', '3', '3', '.5'],
    ['kcolor', '3', 'path', '4'],
    ['kcolor', '3', 'matrix', 'g.matrix'],
    ['kcolor', '3', 'kthlist', 'g.kthlist'],
    ['kcolor', '3', 'gnp', '5', '.5'],
    ['kcolor', '3', 'grid', '2', '3'],
    ['kcolor', '3', 'grid', '2', '0'],
    ['kcolor', '3', 'complete', '4', 'plantclique', '9'],
    ['kcolor', '3', 'complete', '4', 'plantbiclique', '1', '1'],
    ['kcolor', '3', 'complete', '4', 'addedges', '1', 'addedges', '1'],
    ['kcolor', '3', 'complete', '4', 'gnp', '3', '1'],
    ['kcolor', '3', 'complete', '4', '-q'],
    ['kcolor', '3', 'complet', '4'],
    ['kcolor', '3', 'nofile.gml'],
    ['kcolor', '3', 'nofile'],
    ['kcolor', '3', 'nofile.kthlist'],
    ['kcolor', '3', 'gml', 'nofile.gml'],
    ['kcolor', '3', 'gml'],
    ['kcolor', '3', 'good.gml'],
    ['kcolor', '3', 'bad.gml'],
    ['kcolor', '3', 'complete', '3', 'save'],
    ['kcolor', '3', 'complete', '3', 'save', 'gml'],
    ['kcolor', '3', 'complete', '3', 'save', 'saved.gml'],
    ['kcolor', '3', 'complete', '3', 'save', 'dot', 'saved.dot'],
    ['kcolor', '3', 'complete', '3', 'save', 'nodir/saved.gml'],
    ['kcolor', '3'],
    ['kcolor'],
    ['php', '3', '2', 'gnp', '3', '1'],
    ['php', '3', '2', 'gml', 'good.gml'],
    ['php', '3', '2', 'glrd', '3', '2', '1'],
    ['php', '3', '2', 'glrd', '3', '2', '5'],
    ['php', '3', '2', 'matrix', 'good.matrix'],
    ['php', '3', '2', 'bad.matrix'],
    ['php', 'shift', '3', '4', '0', '1'],
    ['php', 'shift', '3', '4', '1', '1'],
    ['php', 'complete', '2', '2', 'plantclique', '1'],
    ['peb', 'gnp', '4', '.5'],
    ['peb', 'glrm', '3', '3', '2'],
    ['peb', 'matrix', 'good.matrix'],
    ['peb', 'gml', 'good.gml'],
    ['peb', 'pyramid', '2'],
    ['peb', 'pyramid', '-2'],
    ['peb', 'pyramid', '2', 'addedges', '1'],
    ['peb', 'tree', '1', 'save', 'kthlist', 'saved.kthlist'],
    ['peb', 'good.kthlist'],
    ['peb', 'bad.kthlist'],
    ['tseitin', 'random', 'torus', '3', '3'],
    ['tseitin', 'random', 'dimacs', 'nofile'],
    ['tseitin', 'first', 'regular', '3', '3', '1'],
    ['-of', 'latex', 'kcolor', '2', 'path', '3'],
    ['-of', 'opb', 'kcolor', '2', 'matrix', 'x'],
    ['-q', 'kclique', '2', 'gnm', '4', '3', 'plantclique', '2'],
    ['-q', 'kclique', '2', 'gnm', '4', '7'],
    ['subsetcard', 'gnd', '5', '2'],
    ['subsetcard', 'regular', '4', '4', '2'],
    ['subsetcard', 'regular', '4', '4', '2', 'plantbiclique', '5', '5'],
    ['subsetcard', 'complete', '2', '3', 'plantbiclique', '1'],
]

PBGEN_CMDS = [
    ['kcolor', '2', 'gnp', '4', '.5'],
    ['kcolor', '2', 'glrp', '4', '4', '.5'],
    ['php', '3', '2', 'matrix', 'good.matrix'],
    ['php', '3', '2', 'gml', 'good.gml'],
    ['peb', 'tree', '2'],
    ['peb', 'torus', '2', '2'],
    ['kcolor', '2', 'nofile.gml', 'bogus'],
    ['kcolor', '2', 'complete', '3', 'save'],
    ['-of', 'latex', 'kcolor', '2', 'kthlist', 'good.kthlist'],
]

GOOD_GML = """graph [
  node [ id 1 ]
  node [ id 2 ]
  node [ id 3 ]
  edge [ source 1 target 2 ]
  edge [ source 2 target 3 ]
]
"""

GOOD_MATRIX = "2 3\n1 0 1\n0 1 1\n"
GOOD_KTHLIST = "3\n1 : 0\n2 : 1 0\n3 : 1 2 0\n"


def exercise_cli():
    for cmd in CNFGEN_CMDS:
        random.seed(7)
        record('cnfgen', cmd, run_main(cnfgen_cli, ['cnfgen', '-S', '11'] + cmd))
    for cmd in PBGEN_CMDS:
        random.seed(7)
        record('pbgen', cmd, run_main(pbgen_cli, ['pbgen', '-S', '11'] + cmd))
    for name in sorted(os.listdir('.')):
        with open(name) as f:
            record('file', name, f.read())


def main():
    workdir = tempfile.mkdtemp(prefix='c18t18')
    os.chdir(workdir)
    try:
        with open('good.gml', 'w') as f:
            f.write(GOOD_GML)
        with open('bad.gml', 'w') as f:
            f.write("graph [ node [ id 1 ] edge [ source 1 ")
        with open('good.matrix', 'w') as f:
            f.write(GOOD_MATRIX)
        with open('bad.matrix', 'w') as f:
            f.write("2 3\n1 0\n")
        with open('good.kthlist', 'w') as f:
            f.write(GOOD_KTHLIST)
        with open('bad.kthlist', 'w') as f:
            f.write("3\n1 : 2 0\n2 : x 0\n")
        exercise_parser()
        exercise_builder()
        exercise_cli()
    finally:
        os.chdir(ROOT)
        shutil.rmtree(workdir, ignore_errors=True)

    if '--dump' in sys.argv:
        print("\n".join(LOG))
    print(hashlib.sha256("\n".join(LOG).encode('utf-8')).hexdigest())


if __name__ == '__main__':
    main()
