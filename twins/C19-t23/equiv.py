#!/usr/bin/env python
"""Equivalence script for t23: LinearSubstitution (and its wrappers) and
VariableCompression."""
import sys, os, io, hashlib, random
sys.path.insert(0, os.getcwd())

import networkx
import cnfgen
from cnfgen import CNF, PigeonholePrinciple, OrderingPrinciple, Shuffle, FlipPolarity
from cnfgen import (ExactlyKSubstitution, AtLeastKSubstitution, AtMostKSubstitution,
                    AnythingButKSubstitution, VariableCompression)
from cnfgen.transformations.substitutions import LinearSubstitution
from cnfgen.graphs import BipartiteGraph, Graph

OUT = []


def rec(*items):
    OUT.append(repr(items))


def snapshot(F):
    return (F.number_of_variables(), [list(c) for c in F],
            list(F.all_variable_labels()), list(F.header.items()))


def attempt(tag, fn):
    try:
        rec(tag, 'ok', fn())
    except BaseException as e:  # noqa
        rec(tag, 'exc', type(e).__name__, str(e))


def formulas():
    yield 'php', PigeonholePrinciple(3, 2)
    yield 'op', OrderingPrinciple(3)
    yield 'empty', CNF()
    F = CNF([[1, -2], [], [2, 3, -1], [-3], [3, 3], [1, -1]], description='hand {made}')
    F.header['transformation 1'] = 'earlier step'
    yield 'hand', F
    F = CNF(description='named')
    F.new_variable('a')
    F.new_block(2, 2, label='p_{{{},{}}}')
    F.update_variable_number(7)
    F.add_clause([1, -3, 5])
    F.add_clause([-2, 4, -7])
    yield 'named', F

FORMULAS = list(formulas())
OPS = ['==', '<', '>', '<=', '>=', '!=']

# 1. LinearSubstitution, all operators, boundary constants
for fname, F in FORMULAS:
    before = snapshot(F)
    for k in (1, 2, 3, 4):
        for op in OPS:
            for C in (-1, 0, 1, 2, 3, 4, 5):
                if fname in ('php', 'op') and k == 4 and op in ('==', '!='):
                    continue

                def run():
                    G = LinearSubstitution(F, k, op, C)
                    return snapshot(G), G is F
                attempt(('linear', fname, k, op, C), run)
    rec('untouched', fname, before == snapshot(F))

# 2. argument errors of LinearSubstitution
F = FORMULAS[3][1]
before = snapshot(F)
for args in [(0, '==', 1), (-1, '<', 1), (2.0, '<', 1), ('2', '<', 1), (None, '<', 1),
             (2, '=', 1), (2, '=<', 1), (2, '', 1), (2, None, 1), (2, [], 1), (2, ['=='], 1),
             (2, 1, 1), (2, ' ==', 1), (2, 'eq', 1), (2, ('==',), 1),
             (2, '==', 1.0), (2, '>=', '1'), (2, '!=', None), (2, '<', True), (True, '<', 1),
             (0, 'bad', 'bad'), (2, 'bad', 'bad')]:
    attempt(('linear bad', repr(args)), lambda: snapshot(LinearSubstitution(F, *args)))
rec('untouched after errors', before == snapshot(F))

# 3. wrappers
for fname, F in FORMULAS:
    for W in (ExactlyKSubstitution, AtLeastKSubstitution, AtMostKSubstitution,
              AnythingButKSubstitution):
        for N, k in [(1, 0), (1, 1), (2, 1), (3, 1), (3, 2), (3, 3), (2, 3), (3, 0), (0, 1), (2, -1)]:
            attempt(('wrapper', fname, W.__name__, N, k),
                    lambda: (lambda G: (snapshot(G), G.to_dimacs()))(W(F, N, k)))

# 4. VariableCompression
def mkB(L, R, edges):
    B = BipartiteGraph(L, R)
    for u, v in edges:
        B.add_edge(u, v)
    return B


def bsnap(B):
    return (B.left_order(), B.right_order(), sorted(B.edges()), B.name)

rng = random.Random(99)
for fname, F in FORMULAS:
    V = F.number_of_variables()
    before = snapshot(F)
    graphs = []
    graphs.append(('noedges', mkB(V, 3, [])))
    graphs.append(('single', mkB(V, 1, [(i, 1) for i in range(1, V + 1)])))
    graphs.append(('diag', mkB(V, max(V, 1), [(i, i) for i in range(1, V + 1)])))
    graphs.append(('three', mkB(V, 5, sorted(set((i, (i * j) % 5 + 1)
                                              for i in range(1, V + 1) for j in (1, 2, 3))))))
    graphs.append(('rand', mkB(V, 6, sorted(set((i, rng.randint(1, 6))
                                             for i in range(1, V + 1) for _ in range(4))))))
    graphs.append(('complete', mkB(V, 3, [(i, j) for i in range(1, V + 1) for j in (1, 2, 3)])))
    graphs.append(('toobig', mkB(V + 1, 3, [(1, 1)])))
    if V > 0:
        graphs.append(('toosmall', mkB(V - 1, 3, [])))
    for gname, B in graphs:
        gb = bsnap(B)
        for function in ['xor', 'maj', 'XOR', 'and', '', None, [], 3, ('xor',)]:
            def run():
                G = VariableCompression(F, B, function)
                return snapshot(G), G is F, G.to_dimacs()
            attempt(('compress', fname, gname, repr(function)), run)
        attempt(('compress kw', fname, gname),
                lambda: snapshot(VariableCompression(F, B, function='maj')))
        rec('graph untouched', gb == bsnap(B))
    rec('untouched', fname, before == snapshot(F))

# networkx bipartite graph as argument, and wrong kinds of graph
F = PigeonholePrinciple(2, 2)
nxB = networkx.Graph()
nxB.add_nodes_from(['a', 'b', 'c', 'd'], bipartite=0)
nxB.add_nodes_from([10, 20, 30], bipartite=1)
nxB.add_edges_from([('a', 10), ('a', 20), ('b', 20), ('c', 30), ('d', 10), ('d', 30), ('d', 20)])
nodes_before = sorted(map(repr, nxB.nodes(data=True)))
edges_before = sorted(map(repr, nxB.edges()))
for function in ('xor', 'maj', 'bad'):
    attempt(('compress nx', function),
            lambda: snapshot(VariableCompression(F, nxB, function)))
rec('nx untouched', nodes_before == sorted(map(repr, nxB.nodes(data=True))),
    edges_before == sorted(map(repr, nxB.edges())))
for bad in (None, 5, 'graph', Graph(4), networkx.complete_graph(4), [[1, 2]]):
    for function in ('xor', 'bad'):
        attempt(('compress badgraph', type(bad).__name__, function),
                lambda: snapshot(VariableCompression(F, bad, function)))

# 5. chains mixing the refactored transformations
random.seed(31)
F = FORMULAS[3][1]
G1 = LinearSubstitution(F, 2, '>=', 1)
G2 = VariableCompression(G1, mkB(G1.number_of_variables(), 4,
                                 [(i, i % 4 + 1) for i in range(1, G1.number_of_variables() + 1)]),
                         'xor')
G3 = Shuffle(G2)
G4 = LinearSubstitution(G3, 2, '!=', 1)
G5 = FlipPolarity(G4)
G6 = VariableCompression(G5, mkB(G5.number_of_variables(), 5,
                                 [(i, (i * i) % 5 + 1)
                                  for i in range(1, G5.number_of_variables() + 1)]), 'maj')
for G in (F, G1, G2, G3, G4, G5, G6):
    rec('chain', list(G.header.items()), G.number_of_variables(), G.number_of_clauses())
rec('chain out', G6.to_dimacs())
rec('chain latex', G4.to_latex())

# 6. command line
from cnfgen.clitools import cnfgen as cli
for argv in [['cnfgen', '--seed', 1, 'php', 3, 2, '-T', 'atleast', 3, 2],
             ['cnfgen', '--seed', 1, 'php', 3, 2, '-T', 'atmost', 2, 1, '-T', 'exact', 2, 1],
             ['cnfgen', '--seed', 1, 'op', 3, '-T', 'anybut', 3, 1, '-T', 'xorcomp', 6, 2],
             ['cnfgen', '--seed', 4, 'op', 3, '-T', 'majcomp', 5, 3, '-T', 'atleast', 2, 2],
             ['cnfgen', '--seed', 4, 'op', 3, '-T', 'atleast', 2, 0],
             ['cnfgen', '--seed', 4, 'op', 3, '-T', 'exact', 1, 3]]:
    attempt(('cli', tuple(map(str, argv))), lambda: cli(argv, mode='string'))

if os.environ.get('EQUIV_DEBUG'):
    sys.stderr.write("\n".join(o[:300] for o in OUT) + "\n")
print(hashlib.sha256("\n".join(OUT).encode('utf-8')).hexdigest())
