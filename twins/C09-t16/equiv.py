#!/usr/bin/env python
"""Equivalence script for t16: cnfgen.clitools.cnfgen.parse_command_line

Exercises the split of the command line around '-T' (none, one, many,
leading, trailing, doubled '-T', bad options, help requests), directly and
through the `cnfgen` cli with '-T shuffle' chains. Prints one SHA256 digest.
"""
import contextlib
import hashlib
import io
import os
import random
import sys

sys.path.insert(0, os.getcwd())

from cnfgen.clitools.cnfgen import cli, parse_command_line, setup_command_line_parsers
from cnfgen.clitools.cmdline import get_formula_helpers, get_transformation_helpers

LOG = []


def log(*items):
    LOG.append(repr(items))


def nsdescr(ns):
    out = []
    for k, v in sorted(vars(ns).items()):
        if k in ('generator', 'transformation'):
            v = v.name
        elif isinstance(v, io.IOBase) or hasattr(v, 'write'):
            v = '<stream>'
        out.append((k, repr(v)))
    return out


def run(tag, thunk):
    out, err = io.StringIO(), io.StringIO()
    try:
        with contextlib.redirect_stdout(out), contextlib.redirect_stderr(err):
            res = thunk()
        log(tag, 'ok', res, out.getvalue(), err.getvalue())
    except SystemExit as e:
        log(tag, 'exit', e.code, out.getvalue(), err.getvalue())
    except BaseException as e:  # noqa
        log(tag, 'exc', type(e).__name__, str(e), out.getvalue(), err.getvalue())
    log(tag, 'rnd', random.random())


FORMULAS = [
    ['php', 3, 2],
    ['php', '4', '3'],
    ['op', 3],
    ['parity', 4],
    ['and', 0, 0],
    ['or', 0, 2],
    ['randkcnf', 3, 6, 9],
    ['ram', 3, 3, 5],
]

TCHAINS = [
    [],
    ['-T', 'shuffle'],
    ['-T', 'shuffle', '-p'],
    ['-T', 'shuffle', '-v'],
    ['-T', 'shuffle', '-c'],
    ['-T', 'shuffle', '-p', '-v'],
    ['-T', 'shuffle', '-pvc'],
    ['-T', 'shuffle', '--no-polarity-flips', '--no-clauses-permutation'],
    ['-T', 'shuffle', '-T', 'shuffle'],
    ['-T', 'shuffle', '-c', '-T', 'shuffle', '-v', '-T', 'shuffle', '-p'],
    ['-T', 'xor', 2, '-T', 'shuffle'],
    ['-T', 'shuffle', '-T', 'or', 2],
    ['-T', 'none', '-T', 'shuffle', '-v'],
    # errors
    ['-T'],
    ['-T', '-T', 'shuffle'],
    ['-T', 'shuffle', '-T'],
    ['-T', 'shuffle', '-x'],
    ['-T', 'shuffle', 'extra'],
    ['-T', 'shufle'],
    ['-T', 'shuffle', '-h'],
    ['-T', 'xor'],
    ['-T', 'xor', 'a'],
    ['-t', 'shuffle'],
]

GLOBALS = [
    [],
    ['-q'],
    ['--seed', 42, '-q'],
    ['-of', 'dimacs', '-S', '11'],
]

# 1. the cli, string and formula modes
for gl in GLOBALS:
    for fidx, fm in enumerate(FORMULAS):
        for tidx, tc in enumerate(TCHAINS):
            if (fidx + tidx + len(gl)) % 3 != 0 and tidx > 12 and fidx > 1:
                continue
            argv = ['cnfgen'] + gl + fm + tc
            random.seed(12345)
            run(('string', argv), lambda: cli(list(argv), mode='string'))
            if tidx < 13 and fidx % 2 == 0:
                random.seed(999)

                def formula():
                    F = cli(list(argv), mode='formula')
                    return (F.number_of_variables(), F.number_of_clauses(),
                            [list(c) for c in F], sorted((k, str(v)) for k, v in F.header.items()))
                run(('formula', argv), formula)

# 2. odd command lines at the cli level
ODD = [
    ['cnfgen'],
    ['cnfgen', '-T', 'shuffle'],
    ['cnfgen', '-T'],
    ['-T'],
    ['-T', 'php', 3, 2],
    ['cnfgen', '-h'],
    ['cnfgen', 'php', '-h'],
    ['cnfgen', 'php', 3, 2, '-T', 'shuffle', '--help'],
    ['cnfgen', '--tutorial'],
    ['cnfgen', 'php', 3, 2, '-T', 'shuffle', '-S', 4],
    ['cnfgen', '-S', 4, '-T', 'shuffle', 'php', 3, 2],
    ['cnfgen', 'php', 3, 2, '-T shuffle'],
    ['cnfgen', 'php', 3, 2, '-Tshuffle'],
    ['cnfgen', 'php', 3, 2, '--', '-T', 'shuffle'],
    ['cnfgen', 'php', 3, '-T', 'shuffle', 2],
    ['cnfgen', 'php', -3, 2, '-T', 'shuffle'],
    ['cnfgen', '-of', 'latex', 'php', 3, 2, '-T', 'shuffle'],
    ['cnfgen', '-of', 'opb', 'php', 3, 2, '-T', 'shuffle', '-c'],
    ['cnfgen', '-of', 'nonsense', 'php', 3, 2, '-T', 'shuffle', '-c'],
    ['cnfgen', '-v', 'php', 3, 2, '-T', 'shuffle', '-p', '-c'],
]
for argv in ODD:
    random.seed(5)
    run(('odd', argv), lambda: cli(list(argv), mode='string'))

# 3. parse_command_line itself
fparser, tparser = setup_command_line_parsers('cnfgen', get_formula_helpers(),
                                              get_transformation_helpers())


def direct(argv):
    fargs, targs = parse_command_line(argv, fparser, tparser)
    return (type(targs).__name__, nsdescr(fargs), [nsdescr(t) for t in targs])


DIRECT = [
    [],
    ['prog'],
    ['-T'],
    ['prog', '-T'],
    ['prog', '-T', '-T'],
    ['prog', 'php', '3', '2'],
    ['ignored-first-token', 'php', '3', '2', '-T', 'shuffle'],
    ['prog', 'php', '3', '2', '-T', 'shuffle', '-p', '-T', 'shuffle', '-v', '-T', 'shuffle', '-c'],
    ['prog', 'php', '3', '2', '-T', 'shuffle', '-T'],
    ['prog', 'php', '3', '2', '-T', '-T', 'shuffle'],
    ['prog', '-S', '3', 'op', '4', '-T', 'shuffle', '-T', 'xor', '2'],
    ['prog', '-S', '3', 'op', '4', '-T', 'shuffle', '-T', 'xor', 'zz'],
    ['prog', '-S', '3', 'op', 'zz', '-T', 'shuffle', '-z'],
    ['prog', 'op', '4', '-T', 'shuffle', '-z', '-T', 'nothing'],
    ('prog', 'op', '4', '-T', 'shuffle'),
    ['prog', 'op', '4', '-T', 'none'],
]
for argv in DIRECT:
    random.seed(77)
    run(('direct', list(argv)), lambda: direct(argv))
    # the argv must not be modified
    log('argv-after', list(argv))

print(hashlib.sha256("\n".join(LOG).encode('utf-8')).hexdigest())
