import os, sys, io, hashlib, random, tempfile
sys.path.insert(0, os.getcwd())
import cnfgen
import importlib
cnfgen_tool = importlib.import_module('cnfgen.clitools.cnfgen')
pbgen_tool = importlib.import_module('cnfgen.clitools.pbgen')
shuffle_tool = importlib.import_module('cnfgen.clitools.cnfshuffle')
msgmod = importlib.import_module('cnfgen.clitools.msg')

H = hashlib.sha256()
def rec(*items):
    for it in items:
        H.update(repr(it).encode('utf-8'))
        H.update(b'\x00')

class Sink(io.StringIO):
    def close(self):
        pass

TOOLS = {'cnfgen': cnfgen_tool.main, 'pbgen': pbgen_tool.main, 'cnfshuffle': shuffle_tool.main}

def run(tool, args, stdin=''):
    """Run the real entry point main() in process, record everything observable"""
    old = sys.argv, sys.stdout, sys.stderr, sys.stdin
    out, err = Sink(), Sink()
    sys.argv = [tool] + [str(a) for a in args]
    sys.stdout, sys.stderr, sys.stdin = out, err, io.StringIO(stdin)
    msgmod._prefix = ''
    random.seed(12345)
    status = 'ok'
    try:
        try:
            TOOLS[tool]()
        except SystemExit as e:
            status = 'exit %r' % (e.code,)
        except BaseException as e:
            status = 'EXC %s: %s' % (type(e).__name__, e)
    finally:
        sys.argv, sys.stdout, sys.stderr, sys.stdin = old
    rec(tool, args, status, out.getvalue(), err.getvalue())
    return status, out.getvalue(), err.getvalue()

# ---- t26: choice of the output format from request / file name (guess_output_format)
import pathlib
from cnfgen.formula.cnfio import guess_output_format
from cnfgen.formula.cnf import CNF
from cnfgen.formula.opb import OPB
from cnfgen.formula import opbio

rec(opbio.guess_output_format is guess_output_format)

workdir = tempfile.TemporaryDirectory()
os.chdir(workdir.name)

class Named:
    def __init__(self, name):
        self.name = name
class Unnamed:
    pass
class RaisingName:
    def __init__(self, exc):
        self.exc = exc
    @property
    def name(self):
        raise self.exc

realfiles = [open(n, 'w') for n in ['x.tex', 'x.opb', 'x.cnf', 'x', 'x.tex.cnf', 'X.TEX']]
names = ['', 'a', 'a.tex', 'a.opb', 'a.cnf', 'a.dimacs', 'a.latex', '.tex', '.opb', 'tex', 'opb', 'a.tex.opb', 'a.opb.tex', 'a.TEX',
         'a.Opb', 'a.tex ', 'a..tex', 'dir.tex/a', 'dir.opb/a.tex', '/', '-', 'a.', '...', 'a.texx', 'a.op', u'é.tex',
         b'a.tex', b'a.opb', b'', pathlib.Path('p.tex'), pathlib.PurePosixPath('q/r.opb'), None, 0, 3, 2.5, [], ['a.tex'], ('a.opb',), {},
         sys.__stdout__, io.StringIO(), io.BytesIO(), Unnamed(), Named('n.tex'), Named('n.opb'), Named('n.cnf'), Named(''), Named(None),
         Named(5), Named(b'n.tex'), Named(pathlib.Path('z.opb')), Named(['n.tex']), RaisingName(AttributeError('a')),
         RaisingName(ValueError('v')), RaisingName(IndexError('i')), RaisingName(KeyError('k')), RaisingName(TypeError('t')),
         RaisingName(OSError('o'))] + realfiles
requests = [None, 'latex', 'dimacs', 'opb', 'tex', 'cnf', '', 'LATEX', 'Dimacs', ' opb', 0, False, True, [], ['latex'], ('opb',), {}, b'latex',
            'autodetect', 1.5, object]

def label(x):
    if isinstance(x, (str, bytes, int, float, list, tuple, dict, type(None), pathlib.PurePath)):
        return repr(x)
    if isinstance(x, (Named,)):
        return 'Named(%r)' % (x.name,)
    if isinstance(x, RaisingName):
        return 'RaisingName(%r)' % (x.exc,)
    return type(x).__name__ + ':' + str(getattr(x, 'name', '?'))

for req in requests:
    for name in names:
        try:
            rec(label(name), repr(req), 'OK', guess_output_format(name, req))
        except BaseException as e:
            rec(label(name), repr(req), 'EXC', type(e).__name__, str(e))
for f in realfiles:
    f.close()

# through to_file of CNF and OPB formulas
F = CNF([[1, -2], [2, 3], [-1, -3]])
F.header['note'] = 'cnf'
P = OPB()
P.update_variable_number(3)
P.cardinality_geq([1, 2, -3], 2)
P.add_clause([1, -2])
for formula, tag in [(F, 'F'), (P, 'P')]:
    for name in ['o.tex', 'o.opb', 'o.cnf', 'o', 'o.TEX', '.tex', 'o.tex.opb', 'nodir/o.tex', pathlib.Path('o2.opb')]:
        for req in [None, 'latex', 'dimacs', 'opb', 'tex', '']:
            try:
                formula.to_file(name, fileformat=req)
                with open(name) as f:
                    rec(tag, str(name), req, 'OK', f.read())
                os.unlink(name)
            except BaseException as e:
                rec(tag, str(name), req, 'EXC', type(e).__name__, str(e))
    for req in [None, 'latex', 'dimacs', 'opb', 'bad']:
        for mk in [io.StringIO, lambda: Named('n.tex')]:
            buf = mk()
            try:
                formula.to_file(buf, fileformat=req)
                rec(tag, 'buffer', req, 'OK', buf.getvalue())
            except BaseException as e:
                rec(tag, 'buffer', req, 'EXC', type(e).__name__, str(e))
        old = sys.stdout
        sys.stdout = cap = Sink()
        try:
            try:
                formula.to_file(fileformat=req)
                status = 'OK'
            except BaseException as e:
                status = 'EXC %s %s' % (type(e).__name__, e)
        finally:
            sys.stdout = old
        rec(tag, 'stdout', req, status, cap.getvalue())

# through the command line tools
outs = [[], ['-o', 'f.tex'], ['-o', 'f.opb'], ['-o', 'f.cnf'], ['-o', 'f'], ['-o', 'f.TEX'], ['-o', '.tex'], ['-o', 'a.b.opb'],
        ['-o', 'f.tex.cnf'], ['-o', '-'], ['-o', 'nodir/f.tex'], ['-o', '.'], ['-o', ''], ['-o']]
ofs = [[], ['-of', 'latex'], ['-of', 'dimacs'], ['-of', 'opb'], ['-of', 'tex'], ['-l'], ['-of']]
for o in outs:
    for of in ofs:
        for body in [['php', '3', '2'], ['php', '2'], ['op', '3', '-T', 'xor', '2'], []]:
            run('cnfgen', of + o + body)
        for body in [['php', '3', '2'], ['php'], ['nosuch']]:
            run('pbgen', of + o + body)
        for name in sorted(os.listdir('.')):
            if os.path.isfile(name):
                with open(name) as f:
                    rec('file', name, f.read())
                os.unlink(name)
for tool, mod in [('cnfgen', cnfgen_tool), ('pbgen', pbgen_tool)]:
    for of in ofs:
        for o in outs[:6]:
            msgmod._prefix = ''
            try:
                rec(tool, of, o, mod.cli([tool] + of + o + ['php', '3', '2'], mode='string'))
            except BaseException as e:
                rec(tool, of, o, 'EXC', type(e).__name__, str(e))
            for name in sorted(os.listdir('.')):
                os.unlink(name)
run('cnfshuffle', ['-S', '1', '-o', 'sh.tex'], stdin='p cnf 3 2\n1 -2 0\n2 3 0\n')
run('cnfshuffle', ['-S', '1', '-o', 'sh.opb', '-q'], stdin='p cnf 3 2\n1 -2 0\n2 3 0\n')
run('cnfshuffle', ['-S', '1'], stdin='p cnf 3 2\n1 -2 0\n2 3 0\n')
run('cnfshuffle', ['-S', '1'], stdin='p cnf 3 2\n1 -2 0\n2 7 0\n')
for name in sorted(os.listdir('.')):
    with open(name) as f:
        rec('file', name, f.read())

os.chdir('/')
workdir.cleanup()
print(H.hexdigest())
