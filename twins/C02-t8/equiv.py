import sys, os, hashlib, random, itertools, warnings, io, contextlib
warnings.simplefilter("ignore")
sys.path.insert(0, os.getcwd())
import networkx as nx
from cnfgen.graphs import Graph

_H = hashlib.sha256()


def emit(*items):
    for it in items:
        _H.update(repr(it).encode("utf-8"))
        _H.update(b"\x00")


def dump(tag, fn, *args, **kwargs):
    """Call fn and record everything observable about the outcome."""
    emit("CALL", tag)
    try:
        F = fn(*args, **kwargs)
    except Exception as exc:  # record the exception type and message
        emit("EXC", type(exc).__name__, str(exc))
        return None
    emit("HEADER", sorted((str(k), str(v)) for k, v in F.header.items()))
    emit("NVARS", F.number_of_variables(), "NCLS", F.number_of_clauses())
    emit("LABELS", list(F.all_variable_labels()))
    emit("CLAUSES", [list(c) for c in F.clauses()])
    emit("DIMACS", F.to_dimacs())
    return F


def mkgraph(n, edges, name=None):
    G = Graph(n, name=name) if name is not None else Graph(n)
    for u, v in edges:
        G.add_edge(u, v)
    return G


def all_graphs(maxn):
    """Every labelled simple graph with at most maxn vertices."""
    for n in range(0, maxn + 1):
        pairs = list(itertools.combinations(range(1, n + 1), 2))
        for mask in range(1 << len(pairs)):
            yield n, [p for i, p in enumerate(pairs) if (mask >> i) & 1]


def random_graphs(rng, count, nmin, nmax):
    for _ in range(count):
        n = rng.randint(nmin, nmax)
        p = rng.choice([0.0, 0.2, 0.5, 0.8, 1.0])
        pairs = itertools.combinations(range(1, n + 1), 2)
        yield n, [e for e in pairs if rng.random() < p]



def run_cli(cli, argv, seed=4242):
    random.seed(seed)
    out, err = io.StringIO(), io.StringIO()
    code = None
    try:
        with contextlib.redirect_stdout(out), contextlib.redirect_stderr(err):
            cli(argv)
    except SystemExit as exc:
        code = exc.code
    except Exception as exc:
        emit("CLI-EXC", type(exc).__name__, str(exc))
    emit("CLI", argv, code, out.getvalue(), err.getvalue(), random.random())


# ---- T8: unique_neighborhoods (helper of DominatingSet and Tiling, cnfgen/families/dominatingset.py) ----
from cnfgen import DominatingSet, Tiling
from cnfgen.families.dominatingset import unique_neighborhoods
from cnfgen.clitools.cnfgen import cli as cnfgen_cli

def nsat(F):
    """Number of satisfying assignments by brute force (small formulas only)"""
    n = F.number_of_variables()
    cls = [list(c) for c in F.clauses()]
    count = 0
    for bits in range(1 << n):
        for c in cls:
            for l in c:
                if ((bits >> (abs(l) - 1)) & 1) == (l > 0):
                    break
            else:
                break
        else:
            count += 1
    return count



rng = random.Random(8008)


def call_un(tag, G):
    emit("UN", tag)
    try:
        R = unique_neighborhoods(G)
    except Exception as exc:
        emit("EXC", type(exc).__name__, str(exc))
    else:
        emit(type(R).__name__, [(type(x).__name__, list(x)) for x in R])


# 1. the helper itself on every labelled graph with at most 5 vertices
for n, edges in all_graphs(5):
    call_un((n, edges), mkgraph(n, edges))
for n, edges in random_graphs(rng, 80, 6, 14):
    call_un((n, edges), mkgraph(n, edges))
call_un("complete", Graph.complete_graph(7))
call_un("star", Graph.star_graph(6))
call_un("empty", Graph.empty_graph(6))
call_un("null", Graph.null_graph())
# objects that are not cnfgen graphs
call_un("nx", nx.path_graph(3))
call_un("none", None)
call_un("int", 3)


class Duck:
    """Minimal object with the two methods used by the helper"""
    def __init__(self, adj):
        self.adj = adj

    def number_of_vertices(self):
        return len(self.adj)

    def neighbors(self, v):
        return iter(self.adj[v - 1])


call_un("duck", Duck([[2, 3], [1], [1]]))
call_un("duck-unsorted", Duck([[3, 2], [1], [1], []]))
call_un("duck-empty", Duck([]))
call_un("duck-bad", Duck([[2], None]))

# 2. the two families built on it: all graphs with at most 4 vertices
for n, edges in all_graphs(4):
    G = mkgraph(n, edges)
    F = dump(("tiling", n, edges), Tiling, G)
    if F is not None:
        emit("NSAT", nsat(F))
    for d in range(1, 4):
        for alt in (False, True):
            F = dump(("domset", n, edges, d, alt), DominatingSet, G, d, alternative=alt)
            if F is not None and F.number_of_variables() <= 12:
                emit("NSAT", nsat(F))
for n, edges in random_graphs(rng, 40, 5, 9):
    G = mkgraph(n, edges, name="rnd graph %d" % n)
    dump(("tiling-rnd", n, edges), Tiling, G)
    d = rng.randint(1, 4)
    alt = rng.choice([True, False])
    dump(("domset-rnd", n, edges, d, alt), DominatingSet, G, d, alt)
for H in [nx.path_graph(5), nx.cycle_graph(6), nx.complete_graph(4), nx.empty_graph(3),
          nx.null_graph(), nx.grid_2d_graph(2, 3), nx.star_graph(4)]:
    dump(("tiling-nx", sorted(map(str, H.edges()))), Tiling, H)
    dump(("domset-nx", sorted(map(str, H.edges()))), DominatingSet, H, 2)
    dump(("domset-nx-alt", sorted(map(str, H.edges()))), DominatingSet, H, 2, True)
# bad arguments
G = mkgraph(4, [(1, 2), (2, 3)])
for d in (0, -1, 1.5, "2", None):
    dump(("domset-bad", d), DominatingSet, G, d)
dump("domset-badgraph", DominatingSet, 7, 2)
dump("tiling-badgraph", Tiling, "grid")
dump("tiling-digraph", Tiling, nx.DiGraph([(1, 2)]))

# 3. command line front end
for cmd in (["tiling", "grid", "3", "3"], ["tiling", "complete", "4"], ["tiling", "empty", "3"],
            ["tiling", "complete", "0"], ["tiling", "gnp", "7", "0.4"], ["tiling"],
            ["domset", "2", "grid", "3", "3"], ["domset", "-a", "2", "grid", "2", "3"],
            ["domset", "1", "complete", "4"], ["domset", "3", "empty", "3"],
            ["domset", "2", "complete", "0"], ["domset", "0", "grid", "2", "2"],
            ["domset", "--alternative", "1", "gnd", "6", "3"], ["domset", "grid", "2", "2"]):
    for pre in (["cnfgen", "-q"], ["cnfgen", "--seed", "5"], ["cnfgen", "-q", "-of", "latex"]):
        run_cli(cnfgen_cli, pre + cmd)

print(_H.hexdigest())
