#!/usr/bin/env python
"""Equivalence check for BipartiteEdgeList.__iter__ in cnfgen/graphs.py
(property C11: edge variable groups enumerate their indices in identifier
order).

Builds many bipartite graphs (empty sides, no edges, sparse, complete,
random generators with fixed seed) and records: the edge list (iterated
several times, partially, while the graph is modified), its length and
membership tests, the conversions to networkx and to the graph file
formats, and every variable group built on bipartite edge lists
(bipartite edges, unary and sparse mappings, simple graph and digraph
edges): indices, identifiers, labels, wildcards, round trips for positive
and negative literals, error messages.  Prints a single SHA256 digest.
"""
import sys
import io
import hashlib
import random
import itertools
import warnings

warnings.simplefilter('ignore')
sys.path.insert(0, '.')

from cnfgen import CNF
from cnfgen.graphs import BipartiteGraph, CompleteBipartiteGraph
from cnfgen.graphs import Graph, DirectedGraph, BipartiteEdgeList
from cnfgen.graphs import writeGraph
from cnfgen.graphs import bipartite_random_left_regular, bipartite_random_m_edges
from cnfgen.graphs import bipartite_random, bipartite_shift, bipartite_random_regular

H = hashlib.sha256()


def out(*args):
    H.update((' '.join(repr(a) for a in args) + '\n').encode('utf8'))


def attempt(tag, fn, *args):
    try:
        res = fn(*args)
        if not isinstance(res, (list, tuple, str, int, bool, type(None))):
            res = list(res)
        out(tag, args, 'OK', res)
        return res
    except Exception as e:
        out(tag, args, 'EXC', type(e).__name__, str(e))
        return None


def graph_report(B):
    L, R = B.left_order(), B.right_order()
    E = B.edges()
    out('graph', type(B).__name__, L, R, B.number_of_edges(), type(E).__name__)
    edges = list(E)
    out('edges', edges, len(E))
    assert edges == sorted(edges) and len(edges) == len(E)
    # the list can be iterated again, and lazily
    out('again', list(E), list(iter(E)), [e for e in B.edges()])
    it = iter(E)
    out('partial', list(itertools.islice(it, 2)), list(itertools.islice(it, 1)),
        list(it), list(it))
    out('types', [(type(e).__name__, len(e)) for e in edges[:3]])
    for u in range(0, L + 2):
        for v in range(0, R + 2):
            out('in', u, v, (u, v) in E, [u, v] in E)
    attempt('in-bad', lambda: (1,) in E)
    attempt('in-bad', lambda: (1, 2, 3) in E)
    attempt('in-bad', lambda: 5 in E)
    attempt('zip', lambda: [x == y for x, y in zip(E, E)])
    nx = B.to_networkx()
    out('networkx', sorted(nx.nodes(data=True)), sorted(nx.edges()), nx.name)
    for fmt in ['kthlist', 'matrix', 'dot', 'gml']:
        buf = io.StringIO()
        attempt('write-' + fmt, lambda: writeGraph(B, buf, 'bipartite', fmt))
        out('file', fmt, buf.getvalue())


def group_report(F, g, side):
    out('group', type(g).__name__, len(g), list(g))
    idx = attempt('indices', g.indices)
    ids = attempt('ids', g)
    lab = attempt('labels', g.label)
    if len(g):
        assert ids == list(range(g[0], g[-1] + 1))
    for t, v in zip(idx or [], ids or []):
        out('rt', t, v, g(*t), g.to_index(v), g.to_index(-v), g.label(*t),
            v in g, -v in g)
        assert tuple(g.to_index(v)) == tuple(t) and g(*t) == v
    first = g[0] if len(g) else F.number_of_variables() + 1
    last = g[-1] if len(g) else first - 1
    for lit in [first - 2, first - 1, last + 1, last + 2, 0, -(last + 1)]:
        attempt('to_index', g.to_index, lit)
    for a in [None, 0, 1, 2, side, side + 1]:
        for b in [None, 0, 1, 2, side, side + 1]:
            attempt('pat-idx', g.indices, a, b)
            attempt('pat-ids', g, a, b)
            attempt('pat-lab', g.label, a, b)
    attempt('pat-1', g.indices, 1)
    attempt('pat-3', g.indices, 1, 1, 1)
    attempt('dict', lambda: sorted(g.to_dict().items()))


def formula_report(B, offset):
    F = CNF()
    F.update_variable_number(offset)
    side = max(B.left_order(), B.right_order())
    e = F.new_bipartite_edges(B, label='e[{},{}]')
    F.add_clause([1, -2])
    s = F.new_sparse_mapping(B)
    F.update_variable_number(F.number_of_variables() + 2)
    m = F.new_mapping(B.left_order(), B.right_order())
    for g in (e, s, m):
        group_report(F, g, side)
    for g in (s, m):
        out('dom', list(g.domain()), list(g.range()),
            [list(g.range(u)) for u in g.domain()],
            [list(g.domain(v)) for v in g.range()])
    attempt('complete', lambda: (F.force_complete_mapping(s), len(F))[1])
    attempt('functional', lambda: (F.force_functional_mapping(s), len(F))[1])
    attempt('surjective', lambda: (F.force_surjective_mapping(m), len(F))[1])
    attempt('injective', lambda: (F.force_injective_mapping(s), len(F))[1])
    attempt('nondecr', lambda: (F.force_nondecreasing_mapping(s), len(F))[1])
    out('names', list(F.all_variable_labels()))
    out('dimacs', F.to_dimacs())


rng = random.Random(14)
graphs = []
for L, R in [(0, 0), (0, 3), (3, 0), (1, 1), (2, 3), (4, 4), (5, 2)]:
    graphs.append(BipartiteGraph(L, R))                     # no edges
    graphs.append(CompleteBipartiteGraph(L, R))
    for density in (0.2, 0.6):
        B = BipartiteGraph(L, R, name='random {} {} {}'.format(L, R, density))
        pairs = [(u, v) for u in range(1, L + 1) for v in range(1, R + 1)]
        rng.shuffle(pairs)                                  # insertion order is scrambled
        for u, v in pairs:
            if rng.random() < density:
                B.add_edge(u, v)
        graphs.append(B)
graphs.append(bipartite_random_left_regular(5, 6, 2, seed=3))
graphs.append(bipartite_random_m_edges(4, 5, 7, seed=4))
graphs.append(bipartite_random(4, 4, 0.5, seed=5))
graphs.append(bipartite_shift(5, 6, [0, 1, 3]))
graphs.append(bipartite_random_regular(6, 4, 2, seed=6))

for i, B in enumerate(graphs):
    out('GRAPH', i)
    graph_report(B)
    formula_report(B, offset=[0, 1, 10][i % 3])

# direct use of the edge list object, and iteration while the graph grows
B = BipartiteGraph(3, 3)
E = BipartiteEdgeList(B)
out('direct-empty', list(E), len(E))
B.add_edge(2, 2)
B.add_edge(1, 3)
it = iter(E)
first = next(it)
B.add_edge(1, 1)
B.add_edge(2, 3)
B.add_edge(3, 1)
out('direct-grow', first, list(it), list(E), len(E))
attempt('bad-graph', lambda: list(BipartiteEdgeList(Graph(3))))
attempt('bad-graph', lambda: list(BipartiteEdgeList(None)))

# groups for simple and directed graphs use bipartite edge lists internally
for n in [0, 1, 2, 4, 6]:
    for trial in range(3):
        G = Graph(n)
        D = DirectedGraph(n)
        if n >= 2:
            for _ in range(rng.randint(0, 2 * n)):
                u, v = rng.sample(range(1, n + 1), 2)
                G.add_edge(u, v)
                D.add_edge(min(u, v), max(u, v)) if rng.random() < 0.6 else D.add_edge(u, v)
        F = CNF()
        F.update_variable_number(trial)
        out('GD', n, trial, list(G.edges()), list(D.edges()))
        group_report(F, F.new_graph_edges(G), n)
        F.add_clause([-1, 3])
        group_report(F, F.new_digraph_edges(D, sortby='pred'), n)
        group_report(F, F.new_digraph_edges(D, label='s({},{})', sortby='succ'), n)
        out('names', list(F.all_variable_labels()))

print(H.hexdigest())
