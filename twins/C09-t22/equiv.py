#!/usr/bin/env python
"""Equivalence script for t22: the 'transformation <i>' header bookkeeping
(helper add_description) shared between Shuffle and the substitutions.

Run as:  cd <checkout> && /venv/bin/python equiv.py
"""
import sys, os, io, random, hashlib, contextlib
from collections import OrderedDict
sys.path.insert(0, os.getcwd())

import cnfgen
from cnfgen import CNF, Shuffle
from cnfgen.transformations import shuffle as shuffle_mod
from cnfgen.transformations import substitutions as subst_mod
from cnfgen.transformations.shuffle import Shuffle as Shuffle2
from cnfgen.transformations.substitutions import (
    add_description, FlipPolarity, XorSubstitution, OrSubstitution,
    AllEqualSubstitution, NotAllEqualSubstitution, MajoritySubstitution,
    IfThenElseSubstitution, ExactlyOneSubstitution, FormulaLifting)
from cnfgen.clitools import cnfgen as cnfgen_cli
from cnfgen.clitools import cnfshuffle as cnfshuffle_cli
from cnfgen.clitools import CLIError

H = hashlib.sha256()


def rec(*items):
    for x in items:
        H.update(repr(x).encode('utf-8'))
        H.update(b'\x00')


def attempt(label, fn, *args, **kwargs):
    try:
        res = fn(*args, **kwargs)
        rec(label, 'ok', res)
        return res
    except Exception as e:
        rec(label, 'exc', type(e).__name__, str(e))
        return None


def full_text(F):
    out = io.StringIO()
    F.to_file(out, fileformat='dimacs', export_header=True)
    return out.getvalue()


def observe(label, F):
    rec(label, type(F.header).__name__, list(F.header.items()), full_text(F),
        F.number_of_variables(), F.number_of_clauses(), str(F))


rec(Shuffle is Shuffle2, callable(add_description), add_description.__name__,
    add_description.__doc__)


def base_formula():
    return CNF([[1, -2, 3], [-1], [2, 4], [], [-3, -4, 1, 2]], description='base')


# --- 1. add_description itself on many header shapes
def header_variants():
    yield 'plain', {}
    yield 'nodesc', None
    yield 't1', {'transformation 1': 'first'}
    yield 't12', {'transformation 1': 'first', 'transformation 2': 'second'}
    yield 'gap', {'transformation 1': 'first', 'transformation 3': 'third'}
    yield 'only2', {'transformation 2': 'second'}
    yield 't0', {'transformation 0': 'zeroth'}
    yield 'pad', {'transformation 01': 'padded', 'transformation  1': 'spaces'}
    yield 'caps', {'Transformation 1': 'caps'}
    yield 'many', {'transformation {}'.format(i): 'n{}'.format(i) for i in range(1, 13)}
    yield 'nonstr', {1: 'one', ('transformation', 1): 'tuple'}
    yield 'extra', {'author': 'me', 'transformation 1': 'x', 'zzz': 'y'}


for name, extra in header_variants():
    for kind in ('add', 'shuffle', 'flip', 'xor', 'chain'):
        F = base_formula()
        if extra is None:
            del F.header['description']
        else:
            for k, v in extra.items():
                F.header[k] = v
        before = list(F.header.items())
        random.seed(name + kind)
        if kind == 'add':
            r = add_description(F, 'some text {} }} {{')
            rec(r)
            G = F
            add_description(G, '')
            add_description(G, 'third\nline')
        elif kind == 'shuffle':
            G = Shuffle(F)
        elif kind == 'flip':
            G = FlipPolarity(F)
        elif kind == 'xor':
            G = XorSubstitution(F, 2)
        else:
            G = Shuffle(OrSubstitution(Shuffle(FlipPolarity(Shuffle(F, 'fixed', 'fixed', 'fixed'))), 2),
                        'shuffle', 'fixed', 'shuffle')
        observe('{}-{}'.format(name, kind), G)
        if kind != 'add':
            # the input formula is left alone and headers are not shared
            rec('input untouched', before == list(F.header.items()), G.header is F.header)
            G.header['probe'] = 1
            rec('probe' in F.header)

# --- 2. header types other than OrderedDict
for hdr in (dict(), OrderedDict(), {'description': 'd', 'transformation 1': 'a'}):
    F = base_formula()
    F.header = hdr
    random.seed(5)
    G = Shuffle(F)
    observe('hdrtype', G)
    rec(type(G.header).__name__, G.header is hdr, list(hdr.items()))

# header without item assignment / odd headers -> errors must be the same
for hdr in (None, [], 'transformation 1', ('description',), 7):
    F = base_formula()
    F.header = hdr
    random.seed(5)
    attempt('badhdr {!r}'.format(hdr), lambda: list(Shuffle(F).header.items()))
    attempt('badhdr-add {!r}'.format(hdr), add_description, F, 'x')
    attempt('badhdr-flip {!r}'.format(hdr), lambda: list(FlipPolarity(F).header.items()))

# --- 3. Shuffle semantics: all modes, explicit and invalid arguments, random stream
random.seed(99)
formulas = [CNF(), CNF([[]]), CNF([[1]]), base_formula()]
F = CNF(description='random one')
F.update_variable_number(9)
for _ in range(15):
    F.add_clause([random.choice([-1, 1]) * random.randint(1, 9) for _ in range(random.randint(0, 5))])
formulas.append(F)
modes = ('fixed', 'shuffle')
for fi, F in enumerate(formulas):
    N, M = F.number_of_variables(), F.number_of_clauses()
    for seed in (0, 7, 'seed'):
        for pf in modes:
            for vp in modes:
                for cp in modes:
                    random.seed(seed)
                    G = Shuffle(F, pf, vp, cp)
                    observe('modes {} {} {} {} {}'.format(fi, seed, pf, vp, cp), G)
                    rec(random.random())
    random.seed(fi)
    flips = [random.choice([-1, 1]) for _ in range(N)]
    vperm = list(range(1, N + 1)); random.shuffle(vperm)
    cperm = list(range(M)); random.shuffle(cperm)
    observe('explicit {}'.format(fi), Shuffle(F, flips, vperm, cperm))
    observe('explicit-kw {}'.format(fi), Shuffle(F, clauses_permutation=tuple(cperm),
                                                polarity_flips=tuple(flips),
                                                variables_permutation=tuple(vperm)))
    for bj, (a, b, c) in enumerate([
            (flips + [1], vperm, cperm), ([0] * N, vperm, cperm) if N else ([3], vperm, cperm),
            (flips, vperm + [1], cperm), (flips, [N + 1] * N, cperm) if N else (flips, [1], cperm),
            (flips, vperm, cperm + [0]), (flips, vperm, [M] * M) if M else (flips, vperm, [0]),
            ('x', 'fixed', 'fixed'), ('fixed', 'x', 'fixed'), ('fixed', 'fixed', 'x'),
            (None, None, None)]):
        before = list(F.header.items())
        attempt('invalid {} {}'.format(fi, bj), lambda: full_text(Shuffle(F, a, b, c)))
        rec(before == list(F.header.items()))

# --- 4. the other substitutions still number their descriptions as before
F = base_formula()
random.seed(1)
steps = [lambda X: XorSubstitution(X, 2), Shuffle, FlipPolarity,
         Shuffle, lambda X: OrSubstitution(X, 2), lambda X: Shuffle(X, 'fixed', 'shuffle', 'fixed'),
         lambda X: FlipPolarity(X), Shuffle, lambda X: Shuffle(X, 'fixed', 'fixed', 'fixed'), Shuffle]
for si, st in enumerate([lambda X: AllEqualSubstitution(X, 2), lambda X: NotAllEqualSubstitution(X, 3),
                         lambda X: IfThenElseSubstitution(X), lambda X: ExactlyOneSubstitution(X, 2),
                         lambda X: FormulaLifting(X, 2), lambda X: MajoritySubstitution(X, 3)]):
    random.seed(si)
    G = Shuffle(st(Shuffle(CNF([[1, -2], [2]], description='single start'))))
    rec('single', si, list(G.header.items()), G.number_of_variables(), G.number_of_clauses(),
        hashlib.sha256(full_text(G).encode()).hexdigest())
random.seed(1)
G = CNF([[1, -2], [2]], description='chain start')
for si, st in enumerate(steps):
    G = st(G)
    rec('chain', si, list(G.header.items()), G.number_of_variables(), G.number_of_clauses())
rec(hashlib.sha256(full_text(G).encode()).hexdigest())

# --- 5. command line: -T shuffle chains and the cnfshuffle tool
cmdlines = [
    ['cnfgen', '--seed', '3', 'php', '3', '2', '-T', 'shuffle'],
    ['cnfgen', '--seed', '3', 'php', '3', '2', '-T', 'shuffle', '-T', 'shuffle', '-p'],
    ['cnfgen', '--seed', '4', 'php', '3', '2', '-T', 'shuffle', '-T', 'xor', '2', '-T', 'shuffle', '-v', '-c'],
    ['cnfgen', '--seed', '5', 'op', '4', '-T', 'flip', '-T', 'shuffle', '-p', '-v', '-c'],
    ['cnfgen', '--seed', '6', 'randkcnf', '3', '6', '10', '-T', 'shuffle', '-c', '-T', 'or', '2'],
    ['cnfgen', '--seed', '6', 'and', '2', '2', '-T', 'none', '-T', 'shuffle'],
    ['cnfgen', '--seed', '6', 'and', '2', '2', '-T', 'shuffle', '--bogus'],
    ['cnfgen', '--seed', '6', 'and', '2', '2', '-T', 'shuffle', '3'],
]
for ci, cmd in enumerate(cmdlines):
    err = io.StringIO()
    try:
        with contextlib.redirect_stderr(err):
            F = cnfgen_cli(cmd, mode='formula')
        observe('cli {}'.format(ci), F)
        with contextlib.redirect_stderr(err):
            rec(cnfgen_cli(cmd, mode='string'))
        out = io.StringIO()
        with contextlib.redirect_stdout(out), contextlib.redirect_stderr(err):
            cnfgen_cli(cmd, mode='output')
        rec(out.getvalue())
    except SystemExit as e:
        rec('cli', ci, 'SystemExit', e.code)
    except Exception as e:
        rec('cli', ci, type(e).__name__, str(e))
    rec(err.getvalue())

dimacs = "c a comment\np cnf 5 4\n1 -2 0\n3 4 -5 0\n0\n-1 2 5 0\n"
for ci, opts in enumerate([[], ['-p'], ['-v'], ['-c'], ['-p', '-v', '-c'], ['-q'], ['--seed', 'zz', '-q', '-c']]):
    for mode in ('formula', 'string', 'output'):
        old_stdin = sys.stdin
        sys.stdin = io.StringIO(dimacs)
        out, err = io.StringIO(), io.StringIO()
        try:
            with contextlib.redirect_stdout(out), contextlib.redirect_stderr(err):
                res = cnfshuffle_cli(['cnfshuffle', '--seed', '11'] + opts, mode=mode)
            if mode == 'formula':
                observe('cnfshuffle {} {}'.format(ci, mode), res)
            else:
                rec('cnfshuffle', ci, mode, res)
        except SystemExit as e:
            rec('cnfshuffle', ci, mode, 'SystemExit', e.code)
        except Exception as e:
            rec('cnfshuffle', ci, mode, type(e).__name__, str(e))
        finally:
            sys.stdin = old_stdin
        rec(out.getvalue(), err.getvalue())

print(H.hexdigest())
