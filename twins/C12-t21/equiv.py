#!/usr/bin/env python
"""Equivalence harness for t21: string exports (to_dimacs/to_opb/to_latex)
of CNFio / OPBio and of their subclasses CNF / OPB.

Run as: cd <checkout> && /venv/bin/python equiv.py
Prints one SHA256 digest of everything observed.
"""
import hashlib
import io
import os
import random
import sys
import tempfile

sys.path.insert(0, os.getcwd())

from cnfgen.info import info
# the version string comes from `git describe`: pin it, so that the
# digest does not depend on the commit that is checked out
info['version'] = 'pinned-version'
from cnfgen.formula.cnf import CNF
from cnfgen.formula.opb import OPB
from cnfgen.formula.cnfio import CNFio
from cnfgen.formula.opbio import OPBio
from cnfgen.formula.basecnf import BaseCNF
from cnfgen.formula.baseopb import BaseOPB

LOG = []


def rec(*items):
    LOG.append(repr(items))


def attempt(tag, fn, *args, **kwargs):
    try:
        res = fn(*args, **kwargs)
        rec(tag, 'ok', res)
    except Exception as e:  # noqa
        rec(tag, 'exc', type(e).__name__, str(e))


def cnf_formulas():
    rnd = random.Random(2112)
    yield 'empty', CNFio()
    yield 'emptyCNF', CNF()
    yield 'one-empty-clause', CNFio([[]])
    yield 'two-empty', CNF([[], []])
    yield 'unit', CNFio([[1]])
    yield 'negunit', CNFio([[-1]])
    yield 'small', CNFio([[-1, 2, -3], [-2, -4], [2, 3, -4]])
    yield 'desc', CNF([[1, -2]], description='a_b è multi\nline')
    F = CNF([[1, 2], [], [-3]])
    F.update_variable_number(7)
    yield 'extra-vars', F
    F = CNF()
    x = F.new_variable('x')
    P = F.new_block(2, 3, label='p_{{{},{}}}')
    y = F.new_variable('y^2_k')
    F.add_clause([x, -y])
    F.add_clause(P(1, None))
    F.add_clause([-v for v in P(None, 2)])
    F.add_clause([])
    yield 'named', F
    F = CNF()
    f = F.new_mapping(3, 2)
    F.force_complete_mapping(f)
    F.force_injective_mapping(f)
    yield 'php', F
    # random formulas, some long enough to cause page splits
    for m in (1, 34, 35, 36, 70, 71, 113):
        n = rnd.randint(1, 12)
        cls = []
        for _ in range(m):
            w = rnd.randint(0, 4)
            cls.append([rnd.choice([-1, 1]) * rnd.randint(1, n)
                        for _ in range(w)])
        yield 'rand{}'.format(m), CNF(cls, description='rand {}'.format(m))
    # broken formulas (no checks)
    F = CNFio()
    F.add_clause([1, 5], check=False)
    yield 'unchecked-big-literal', F
    F = CNFio()
    F.add_clause([1, 'a'], check=False)
    yield 'unchecked-str-literal', F
    F = CNFio()
    F.add_clause([1, 0, -2], check=False)
    F.update_variable_number(2)
    yield 'unchecked-zero', F


def opb_formulas():
    rnd = random.Random(1221)
    yield 'empty', OPBio()
    yield 'emptyOPB', OPB()
    yield 'empty-geq', OPBio([['>=', 0]])
    yield 'empty-eq', OPB([['==', 3], ['>=', -2], ['<', 0]])
    F = OPBio()
    F.cardinality_geq([1, 3, -2, 4], 3)
    F.cardinality_eq([1, 3, -2, 4], 3)
    F.cardinality_leq([1, 4, 2], 2)
    F.add_constraint([(2, 3), (2, -1), (1, -2), ">=", 2])
    F.add_constraint([(-5, 3), (7, -1), (0, 2), "<", -2])
    F.add_constraint([(10 ** 20, 6), (-3, -6), "==", 10 ** 19])
    F.add_clause([1, -2, 5])
    F.add_clause([])
    yield 'mixed', F
    F = OPB(description='pb_é\n\nthree lines')
    x = F.new_variable('x')
    P = F.new_block(2, 2, label='q^{}_{}')
    z = F.new_variable('zeta')
    F.add_constraint([(3, x), (2, -z), (1, P(1, 2)), '>', 1])
    F.add_constraint([(1, P(2, 1)), (4, P(2, 2)), '==', 4])
    F.add_parity([x, z], 1)
    F.update_variable_number(9)
    yield 'named', F
    F = OPB()
    f = F.new_mapping(4, 3)
    F.force_complete_mapping(f)
    F.force_injective_mapping(f)
    F.force_functional_mapping(f)
    yield 'php', F
    for m in (1, 35, 36, 71, 106):
        n = rnd.randint(1, 10)
        cons = []
        for _ in range(m):
            w = rnd.randint(0, 4)
            lin = [(rnd.randint(-4, 6), rnd.choice([-1, 1]) * rnd.randint(1, n))
                   for _ in range(w)]
            cons.append(lin + [rnd.choice(['>=', '<=', '==', '>', '<']),
                               rnd.randint(-5, 9)])
        yield 'rand{}'.format(m), OPB(cons, description='pb {}'.format(m))
    F = OPBio()
    F.add_constraint([(1, 1), (2, 9), '>=', 1], check=False)
    yield 'unchecked-big-literal', F
    F = OPBio()
    F.add_constraint([(1, 1), (2, 'b'), '>=', 1], check=False)
    yield 'unchecked-str-literal', F
    F = OPBio()
    F.add_constraint([(1, 1), (2, 2), '!=', 1], check=False)
    F.update_variable_number(2)
    yield 'unchecked-op', F


def exercise(name, F, methods):
    rec(name, type(F).__name__, len(F), F.number_of_variables(), list(F))
    for meth in methods:
        attempt((name, meth), getattr(F, meth))
        # a second call must give the same thing (no state kept)
        attempt((name, meth, 'again'), getattr(F, meth))
    tmpdir = tempfile.mkdtemp()
    for fmt in (None, 'opb', 'latex', 'dimacs', 'bogus'):
        for hdr in (True, False):
            for vn in (True, False):
                buf = io.StringIO()
                attempt((name, 'to_file', fmt, hdr, vn),
                        F.to_file, buf, fileformat=fmt,
                        export_header=hdr, export_varnames=vn,
                        extra_text='EXTRA\n')
                rec(name, 'buf', fmt, hdr, vn, buf.getvalue())
    for ext in ('opb', 'tex', 'cnf', 'txt'):
        path = os.path.join(tmpdir, 'f.' + ext)
        attempt((name, 'to_file-name', ext), F.to_file, path)
        if os.path.exists(path):
            with open(path, encoding='utf-8') as fh:
                rec(name, 'file', ext, fh.read())
            os.unlink(path)
    os.rmdir(tmpdir)
    # exporting does not alter the formula
    rec(name, 'after', len(F), F.number_of_variables(), list(F),
        list(F.header.items()))


def main():
    for name, F in cnf_formulas():
        exercise('cnf:' + name, F, ['to_dimacs', 'to_opb', 'to_latex'])
    for name, F in opb_formulas():
        exercise('opb:' + name, F, ['to_opb', 'to_latex'])
    # stdout capture of the default destination
    old = sys.stdout
    try:
        for F in (CNF([[1, -2], []]), OPB([[(2, 1), (1, -2), '>=', 2]])):
            for fmt in ('opb', 'latex'):
                sys.stdout = cap = io.StringIO()
                F.to_file(None, fileformat=fmt)
                LOG.append(repr(('stdout', fmt, cap.getvalue())))
    finally:
        sys.stdout = old
    # public interface of the I/O classes is as before
    for cls in (CNFio, OPBio, CNF, OPB):
        names = sorted(n for n in dir(cls) if not n.startswith('_'))
        rec(cls.__name__, names)
        for meth in ('to_opb', 'to_latex', 'to_file'):
            rec(cls.__name__, meth, getattr(cls, meth).__qualname__,
                getattr(cls, meth).__doc__)
    rec(issubclass(CNFio, BaseCNF), issubclass(OPBio, BaseOPB),
        issubclass(CNF, CNFio), issubclass(OPB, OPBio))
    digest = hashlib.sha256('\n'.join(LOG).encode('utf-8')).hexdigest()
    print(digest)


if __name__ == '__main__':
    main()
