"""Equivalence harness for cnfgen.utils.parsedimacs.parse_dimacs (the DIMACS
reader feeding cnfshuffle), also through CNF.from_file and the cnfshuffle cli.

Run as: cd <checkout> && /venv/bin/python equiv.py
Prints one SHA256 digest of everything observable.
"""
import sys, os, io, hashlib, random, importlib, warnings
warnings.simplefilter('ignore')
sys.path.insert(0, os.getcwd())

pd = importlib.import_module("cnfgen.utils.parsedimacs")
cs = importlib.import_module("cnfgen.clitools.cnfshuffle")
from cnfgen.formula.cnf import CNF
import cnfgen.clitools.msg as m

LOG = []


def rec(*items):
    LOG.append(repr(items))


def step_through(text):
    """Consume the generator one item at a time, logging items and the end"""
    items = []
    gen = pd.parse_dimacs(io.StringIO(text))
    while True:
        try:
            items.append(next(gen))
        except StopIteration:
            items.append('<stop>')
            break
        except Exception as e:
            items.append(('exc', type(e).__name__, str(e),
                          type(e.__cause__).__name__, type(e.__context__).__name__))
            break
    # a finished generator stays finished
    try:
        next(gen)
        items.append('<more?>')
    except StopIteration:
        items.append('<stop2>')
    return items


BASE = [
    "",
    "\n",
    "\n\n\n",
    "c only comments\nc more\n",
    "p cnf 0 0\n",
    "p cnf 0 0",
    "p cnf 3 0\n",
    "p cnf 0 1\n0\n",
    "p cnf 0 2\n0 0\n",
    "p cnf 1 2\n1 0\n-1 0\n",
    "c a comment\np cnf 4 3\n1 -2 3 0\n-4 0\n2 4 -1 -3 0\n",
    "c a comment\n\n  \np cnf 4 3\n\n1 -2 3 0\nc inner comment\n-4 0\n   \n2 4 -1 -3 0\n\n",
    "p cnf 5 4\n1 2 3 4 5 0\n-1 -2 0\n\n3 -4 0\n5\n -1 0\n",
    "p cnf 5 4\n1 2 3 4 5 0 -1 -2 0 3 -4 0 5 -1 0\n",
    "p cnf 5 4\n1 2 3 4 5 0 -1 -2 0 3 -4 0 5 -1 0",
    "p cnf 6 6\n1 -1 0\n2 2 0\n0\n3 4 0\n-5 6 0\n6 0\n",
    "   p cnf 2 1\n\t1 -2 0\n",
    "p  cnf   2    1\n1\t-2\t0\n",
    "p dnf 2 1\n1 2 0\n",
    "p 2 1 1\n1 0\n",
    "pcnf 2 1\n1 2 0\n",
    "p cnf 2 1 extra\n1 2 0\n",
    "p cnf 2\n",
    "p\n",
    "p cnf -1 1\n1 0\n",
    "p cnf 1 -1\n1 0\n",
    "p cnf x y\n",
    "p cnf 2.0 1\n1 0\n",
    "p cnf +2 +1\n+1 -2 0\n",
    "p cnf 2 1\n1 3 0\n",
    "p cnf 2 1\n1 -3 0\n",
    "p cnf 2 2\n1 2 0\n",
    "p cnf 2 1\n1 2 0\n-1 0\n",
    "p cnf 2 1\n1 2\n",
    "p cnf 2 1\n1 2 0 1\n",
    "p cnf 2 1\np cnf 2 1\n1 0\n",
    "p cnf 2 1\n1 0\np cnf 2 1\n",
    "1 2 0\n",
    "\n\n1 2 0\np cnf 2 1\n",
    "c x\nc y\n-1 0\n",
    "p cnf 2 1\n1 a 0\n",
    "p cnf 2 1\n1 2 0 a\n",
    "p cnf 2 2\n1 2 0\n1 2 0 b 0\n",
    "p cnf 2 1\n1 1.5 0\n",
    "p cnf 2 1\ncomment like line\n1 2 0\n",
    "p cnf 2 1\nc1 2 0\n1 2 0\n",
    "p cnf 2 1\n1 2 0\n%\n0\n",
    "p cnf 3 2\r\n1 -3 0\r\n2 0\r\n",
    "p cnf 3 2\n1 -3 0\n\x0c\n2 0\n",
    "P CNF 2 1\n1 2 0\n",
    "p cnf 10 3\n" + " ".join(str(i) for i in range(1, 11)) + " 0\n" + "-10 0\n" * 2,
    "p cnf 2 1\n" + "\n" * 50 + "1 2 x\n",
    "c\n" * 30 + "p cnf 2 1\n" + "c\n" * 30 + "3 0\n",
    "c\n" * 7 + "p cnf 1 1\n1 0\n" + "\n" * 5 + "p cnf 1 1\n",
]

# seeded mutations of well formed files
rnd = random.Random(909)
MUT = []
for _ in range(250):
    n = rnd.randint(0, 6)
    mm = rnd.randint(0, 7)
    lines = ["c random formula"] * rnd.randint(0, 2) + ["p cnf {} {}".format(n, mm)]
    for _ in range(mm):
        w = rnd.randint(0, 4) if n > 0 else 0
        lits = [rnd.choice([-1, 1]) * rnd.randint(1, n) for _ in range(w)]
        lines.append(" ".join(str(l) for l in lits + [0]))
    # mutate
    for _ in range(rnd.randint(0, 3)):
        op = rnd.randint(0, 7)
        pos = rnd.randint(0, len(lines))
        if op == 0:
            lines.insert(pos, "")
        elif op == 1:
            lines.insert(pos, "c comment")
        elif op == 2 and lines:
            del lines[min(pos, len(lines) - 1)]
        elif op == 3:
            lines.insert(pos, "p cnf {} {}".format(n, mm))
        elif op == 4:
            lines.insert(pos, "{} 0".format(n + 1))
        elif op == 5:
            lines.insert(pos, "1 z 0")
        elif op == 6 and lines:
            k = min(pos, len(lines) - 1)
            lines[k] = lines[k].rstrip("0")
        elif op == 7 and len(lines) > 1:
            k = min(pos, len(lines) - 2)
            lines[k:k + 2] = [lines[k] + " " + lines[k + 1]]
    MUT.append("\n".join(lines) + rnd.choice(["\n", "", "\n\n"]))

TEXTS = BASE + MUT

for k, text in enumerate(TEXTS):
    rec('steps', k, text, step_through(text))

    # through the classmethod
    try:
        F = CNF.from_file(io.StringIO(text))
        out = ('ok', F.number_of_variables(), [tuple(c) for c in F],
               sorted((str(a), str(b)) for a, b in F.header.items()), F.to_dimacs())
    except Exception as e:
        out = ('exc', type(e).__name__, str(e))
    rec('from_file', k, out)

    # through the shuffler tool
    for argv in (['cnfshuffle', '-S', str(k)], ['cnfshuffle', '-q', '-p', '-v', '-c'],
                 ['cnfshuffle', '-S', 'x', '-c']):
        old = (sys.stdin, sys.stdout, sys.stderr)
        sys.stdin, sys.stdout, sys.stderr = io.StringIO(text), io.StringIO(), io.StringIO()
        try:
            try:
                out = ('ok', cs.cli(argv, mode='string'))
            except SystemExit as e:
                out = ('SystemExit', e.code)
            except Exception as e:
                out = ('exc', type(e).__name__, str(e))
            so, se = sys.stdout.getvalue(), sys.stderr.getvalue()
        finally:
            sys.stdin, sys.stdout, sys.stderr = old
        rec('shuffle', k, argv, out, so, se, random.random() if '-S' in argv else None)
        m._prefix = ''


# file objects that are not StringIO: only readlines() may be needed
class OnlyReadlines:
    def __init__(self, lines):
        self.lines = lines
        self.calls = 0

    def readlines(self):
        self.calls += 1
        return self.lines


for lines in ([], ["p cnf 1 1", "1 0"], ["p cnf 1 1\n", "1", "0"], ("p cnf 2 1\n", "2 -1 0\n"),
              iter(["p cnf 1 1\n", "2 0\n"]), ["p cnf 1 1\n", "\n", "c\n", "bad\n"]):
    f = OnlyReadlines(lines)
    try:
        out = ('ok', list(pd.parse_dimacs(f)))
    except Exception as e:
        out = ('exc', type(e).__name__, str(e))
    rec('readlines', out, f.calls)

# nothing is read before the first next()
f = OnlyReadlines(["p cnf 1 1\n", "1 0\n"])
g = pd.parse_dimacs(f)
rec('lazy', f.calls)
rec('lazy', next(g), f.calls, next(g), next(g), f.calls)

# real files on disk, by name
import tempfile, shutil
tmpdir = tempfile.mkdtemp()
try:
    for k, text in enumerate(BASE):
        path = os.path.join(tmpdir, 'f{}.cnf'.format(k))
        with open(path, 'w', newline='') as fh:
            fh.write(text)
        try:
            F = CNF.from_file(path)
            out = ('ok', F.to_dimacs(), F.header.get('description', '').replace(tmpdir, '<TMP>'))
        except Exception as e:
            out = ('exc', type(e).__name__, str(e).replace(tmpdir, '<TMP>'))
        rec('disk', k, out)
finally:
    shutil.rmtree(tmpdir, ignore_errors=True)

h = hashlib.sha256()
for line in LOG:
    h.update(line.encode('utf-8', errors='backslashreplace'))
    h.update(b'\n')
print(h.hexdigest())
