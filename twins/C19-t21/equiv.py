#!/usr/bin/env python
"""Equivalence script for t21: xorcomp / majcomp command line helpers."""
import sys, os, io, hashlib, random, copy, argparse, contextlib
sys.path.insert(0, os.getcwd())

import cnfgen
from cnfgen import CNF, PigeonholePrinciple, OrderingPrinciple
from cnfgen.graphs import BipartiteGraph
from cnfgen.clitools import cnfgen as cli, CLIError
from cnfgen.clitools import get_transformation_helpers, CLIParser
from cnfgen.clihelpers import transformation_helpers as TH

OUT = []


def rec(*items):
    OUT.append(repr(items))


def snapshot(F):
    return (F.number_of_variables(), [list(c) for c in F],
            list(F.all_variable_labels()), list(F.header.items()))


def attempt(tag, fn):
    try:
        res = fn()
        rec(tag, 'ok', res)
    except SystemExit as e:
        rec(tag, 'exit', e.code)
    except BaseException as e:  # noqa
        rec(tag, 'exc', type(e).__name__, str(e))


# 1. registry of transformation helpers
helpers = get_transformation_helpers()
rec('helpers', [(h.__name__, h.name) for h in helpers])
for h in helpers:
    rec('mro', h.__name__, TH.TransformationHelper in h.__mro__,
        callable(h.transform_cnf), callable(h.setup_command_line))

# 2. help text / usage of the two subcommands
for cls in (TH.XorCompressionCmd, TH.MajCompressionCmd):
    p = CLIParser(prog='cnfgen <formula> <args> -T ' + cls.name)
    cls.setup_command_line(p)
    rec('help', cls.name, p.format_help(), p.format_usage())

# 3. full command lines
cmdlines = [
    ['php', 7, 5, '-T', 'xorcomp', 12, 3],
    ['php', 7, 5, '-T', 'majcomp', 12, 3],
    ['php', 7, 5, '-T', 'xorcomp', 12],
    ['php', 7, 5, '-T', 'majcomp', 12],
    ['php', 7, 5, '-T', 'xorcomp', 'glrd', 35, 12, 3],
    ['php', 7, 5, '-T', 'majcomp', 'glrd', 35, 12, 3],
    ['php', 7, 5, '-T', 'xorcomp', 'glrd', 30, 12, 3],
    ['php', 7, 5, '-T', 'majcomp', 'glrd', 30, 12, 3],
    ['php', 3, 2, '-T', 'xorcomp', 1, 1],
    ['php', 3, 2, '-T', 'majcomp', 1, 1],
    ['php', 3, 2, '-T', 'xorcomp', 4, 9],
    ['php', 3, 2, '-T', 'majcomp', 0],
    ['php', 3, 2, '-T', 'xorcomp'],
    ['php', 3, 2, '-T', 'majcomp', 'foo'],
    ['php', 3, 2, '-T', 'xorcomp', 3, 2, 1],
    ['and', 0, 0, '-T', 'xorcomp', 3, 2],
    ['and', 0, 0, '-T', 'majcomp', 3, 2],
    ['or', 2, 2, '-T', 'xorcomp', 'complete', 4, 3],
    ['or', 2, 2, '-T', 'majcomp', 'complete', 4, 3],
    ['op', 4, '-T', 'xorcomp', 8, 2, '-T', 'majcomp', 6, 3, '-T', 'shuffle'],
    ['op', 4, '-T', 'shuffle', '-T', 'majcomp', 8, 3, '-T', 'xorcomp', 5, 2,
     '-T', 'flip'],
    ['php', 4, 3, '-T', 'or', 2, '-T', 'xorcomp', 10, 2, '-T', 'lift', 2],
    ['php', 4, 3, '-T', 'none', '-T', 'majcomp', 'glrd', 12, 7, 3],
]
for seed in (17, 'abc'):
    for cl in cmdlines:
        argv = ['cnfgen', '-q', '--seed', seed] + cl
        for mode in ('formula',):
            def run():
                err = io.StringIO()
                with contextlib.redirect_stderr(err):
                    try:
                        res = cli(list(argv), mode=mode)
                    finally:
                        rec('stderr', err.getvalue())
                return snapshot(res), res.to_dimacs()
            attempt(('cli', seed, tuple(map(str, cl)), mode), run)
        rec('rnd', random.random())
# non quiet output, several formats
for fmt in ('dimacs', 'latex', 'opb'):
    attempt(('fmt', fmt), lambda: cli(['cnfgen', '--seed', 5, '-of', fmt, 'op', 3,
                                       '-T', 'xorcomp', 5, 2, '-T', 'majcomp', 4, 3],
                                      mode='string'))

# 4. direct calls of the helper classes
def mkB(L, R, edges):
    B = BipartiteGraph(L, R)
    for u, v in edges:
        B.add_edge(u, v)
    return B

F0 = PigeonholePrinciple(3, 2)
F1 = OrderingPrinciple(3)
F2 = CNF([[1, -2], [2, 3], [-1, -3], []], description='tiny {weird}')
F2.header['transformation 1'] = 'something earlier'
F3 = CNF()
for cls in (TH.XorCompressionCmd, TH.MajCompressionCmd):
    for F in (F0, F1, F2, F3):
        V = F.number_of_variables()
        before = snapshot(F)
        for (N, d) in [(1, 1), (3, 1), (4, 2), (5, 3), (5, 5), (2, 3)]:
            random.seed(1000 * N + d)
            ns = argparse.Namespace(N=N, d=d)
            attempt(('direct-Nd', cls.name, before[0], N, d),
                    lambda: snapshot(cls.transform_cnf(F, ns)))
            rec(vars(ns) == {'N': N, 'd': d}, random.random())
        edges = [(i, (i * j) % 4 + 1) for i in range(1, V + 1) for j in (1, 2, 3)]
        edges = sorted(set(edges))
        B = mkB(V, 4, edges)
        Bsnap = (B.left_order(), B.right_order(), sorted(B.edges()))
        ns = argparse.Namespace(B=B)
        attempt(('direct-B', cls.name, before[0]),
                lambda: snapshot(cls.transform_cnf(F, ns)))
        rec('B untouched', Bsnap == (B.left_order(), B.right_order(), sorted(B.edges())))
        # both N and B given: N wins
        random.seed(3)
        ns = argparse.Namespace(B=B, N=3, d=2)
        attempt(('direct-both', cls.name, before[0]),
                lambda: snapshot(cls.transform_cnf(F, ns)))
        # wrong sized graph
        ns = argparse.Namespace(B=mkB(V + 1, 2, [(1, 1)]))
        attempt(('direct-badB', cls.name, before[0]),
                lambda: snapshot(cls.transform_cnf(F, ns)))
        # neither
        attempt(('direct-none', cls.name, before[0]),
                lambda: snapshot(cls.transform_cnf(F, argparse.Namespace())))
        attempt(('direct-onlyN', cls.name, before[0]),
                lambda: snapshot(cls.transform_cnf(F, argparse.Namespace(N=3))))
        # via instance too
        random.seed(9)
        attempt(('direct-instance', cls.name, before[0]),
                lambda: snapshot(cls().transform_cnf(F, argparse.Namespace(N=4, d=2))))
        rec('input untouched', before == snapshot(F))

# 5. chain through the helper classes
random.seed(77)
G = F2
chain = []
for cls, ns in [(TH.XorCompressionCmd, argparse.Namespace(N=4, d=2)),
                (TH.FlipCmd, argparse.Namespace()),
                (TH.MajCompressionCmd, argparse.Namespace(N=5, d=3)),
                (TH.ShuffleCmd, argparse.Namespace(no_polarity_flips=False,
                                                   no_variables_permutation=True,
                                                   no_clauses_permutation=False)),
                (TH.XorCompressionCmd, argparse.Namespace(N=3, d=1))]:
    prev = snapshot(G)
    H = cls.transform_cnf(G, ns)
    rec('chain', cls.name, snapshot(H), prev == snapshot(G), H is G)
    G = H
rec('chain dimacs', G.to_dimacs())

if os.environ.get('EQUIV_DEBUG'):
    sys.stderr.write("\n".join(o[:300] for o in OUT) + "\n")
print(hashlib.sha256("\n".join(OUT).encode('utf-8')).hexdigest())
