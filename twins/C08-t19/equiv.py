#!/usr/bin/env python
"""Equivalence harness for the constraint handling of BaseOPB
(cnfgen/formula/baseopb.py): normalisation of the constraints, the
cardinality helpers (in particular "not equal"), and the pseudo-Boolean
formulas produced by pbgen for the families that use them, together
with their satisfying assignments and those of the CNF counterpart.
"""
import sys, os, hashlib, random, itertools
sys.path.insert(0, os.getcwd())

from cnfgen.formula import baseopb
from cnfgen.formula.baseopb import BaseOPB
from cnfgen.formula.opb import OPB
from cnfgen.formula.cnf import CNF
from cnfgen.clitools.cnfgen import cli as cnfgen_cli
from cnfgen.clitools.pbgen import cli as pbgen_cli

H = hashlib.sha256()
VERBOSE = os.environ.get('EQUIV_VERBOSE')


def rec(*items):
    for it in items:
        if VERBOSE:
            print('REC', repr(it)[:300], file=sys.__stderr__)
        H.update(repr(it).encode('utf-8'))
        H.update(b'\x00')


def attempt(tag, fn):
    try:
        rec(tag, 'ok', fn())
    except BaseException as e:
        rec(tag, 'exc', type(e).__name__, str(e))


def dump(F):
    return (F.number_of_variables(), len(F), list(F), F.to_opb() if hasattr(F, 'to_opb') else None)


# ------------------------------------------------------- normalisation
normalize = [getattr(baseopb, n) for n in sorted(dir(baseopb))
             if n.startswith('normalize')]
rec(len(normalize))
normalize = normalize[0]

OPS = ['>=', '<=', '==', '<', '>', '!=', '=', 7, None]
FIXED = [
    [(1, 3), (-2, 2), (1, 4), '>', 3],
    [(1, 3), (2, 1), (3, -2), '>=', 3],
    [(1, 3), (2, 1), (-3, -2), '==', 3],
    [(2, -3), '<', 1],
    ['>=', 0], ['<', 0], ['<=', -1], ['==', 5],
    [(0, 1), (0, -2), '<=', 0],
    [(-1, 1), (-1, 1), (-1, -1), '>=', -3],
    [[1, 3], [-2, 2], '>=', 1],               # terms as lists
    [[1, 3], [-2, 2], '<=', 1],
    ([1, 3], (-2, 2), '>=', 1),               # constraint as tuple
    ((1, 3), (2, 2), '>=', 1),
    ((1, 3), (2, 2), '<=', 1),
    [(True, 1), (False, 2), '<', 1],
    [(1.5, 1), (-2.5, 2), '>', 0.5],
    [(-1, 'a'), '>=', 1],
    [('a', 1), '>=', 1],
    [(1, 2, 3), '>=', 1],
    [(1,), '>=', 1],
    [5, '>=', 1],
    [(1, 2), '>=', None],
    [(-1, 2), '>=', None],
    [(-1, 2), '<', None],
    [(1, 2), '<=', 'x'],
    ['>='], [], [3],
]
for c in FIXED:
    before = repr(c)
    attempt('norm:' + before, lambda: normalize(c))
    rec('unchanged', repr(c) == before, repr(c))

rnd = random.Random(819)
for i in range(300):
    terms = [(rnd.randint(-6, 6), rnd.choice([-1, 1]) * rnd.randint(1, 9))
             for _ in range(rnd.randint(0, 7))]
    c = terms + [rnd.choice(OPS), rnd.randint(-10, 10)]
    keep = list(c)
    attempt('normrnd%d' % i, lambda: normalize(c))
    rec(c == keep)

# -------------------------------------------------- formula level checks
for cls in (BaseOPB, OPB):
    for c in FIXED:
        for check in (True, False):
            F = cls()
            attempt('add:%s:%r:%r' % (cls.__name__, c, check),
                    lambda: F.add_constraint(c, check=check))
            rec(F.number_of_variables(), len(F), list(F))
    attempt('init:' + cls.__name__, lambda: dump(cls(constraints=FIXED[:10])))
    attempt('init-bad:' + cls.__name__, lambda: dump(cls(constraints=FIXED)))
    F = cls()
    attempt('from', lambda: F.add_constraints_from(FIXED[:10]))
    rec(dump(F), F.debug(), F.debug(allow_opposite=True), F.debug(allow_repetition=True))

# ------------------------------------------------------- sanity checker
def debug_all(F):
    out = []
    for ao in (False, True):
        for ar in (False, True):
            try:
                out.append(F.debug(allow_opposite=ao, allow_repetition=ar))
            except BaseException as e:
                out.append((type(e).__name__, str(e)))
    return out


DEBUG_CASES = [
    [], [['>=', 0]], [[(1, 1), '>=', 1]],
    [[(1, 1), (1, 1), '>=', 1]], [[(1, 1), (1, -1), '>=', 1]],
    [[(1, 1), (2, 2), (1, -1), '>=', 1]], [[(1, 1), (2, 2), (1, 1), '==', 1]],
    [[(1, 3), (1, 2), (1, -3), (1, 2), '>=', 1]],
    [[(1, 1), (1, 2), '>=', 1], [(1, 2), (1, -2), '>=', 1]],
    [[(1, 1), (1, 2), '>=', 1], [(1, 3), (1, 3), '>=', 1]],
    [[(-1, 1), (-1, -1), '<=', 1]], [[(0, 1), '>=', 1]],
]
for cls in (BaseOPB, OPB):
    for cons in DEBUG_CASES:
        F = cls()
        attempt('debug-add:%r' % cons, lambda: F.add_constraints_from(cons))
        rec(list(F), debug_all(F))
    F = cls()
    F.add_clauses_from([[-1, 2], [1, 0, -2], [1, 3]], check=False)
    rec('unchecked', debug_all(F))
    F = cls()
    F.add_clauses_from([[1, 'a'], [2, 2]], check=False)
    rec('unchecked2', debug_all(F))
    F = cls()
    F.add_clause([1, 5], check=False)
    rec('unchecked3', debug_all(F))
    F.update_variable_number(5)
    rec('unchecked3b', debug_all(F))
    rnd2 = random.Random(77)
    for i in range(150):
        F = cls()
        for _ in range(rnd2.randint(0, 4)):
            terms = [(rnd2.randint(-3, 5), rnd2.choice([-1, 1]) * rnd2.randint(1, 4))
                     for _ in range(rnd2.randint(0, 5))]
            F.add_constraint(terms + [rnd2.choice(['>=', '<=', '==', '<', '>']),
                                      rnd2.randint(-3, 6)])
        rec('debugrnd', i, list(F), debug_all(F))

# ------------------------------------------------------- cardinalities
LITS = [[], [1], [-1], [1, 2], [1, 4, 2, -3, 6], [3, -3], [2, 2, 2], [5, 4, 3, 2, 1, -7],
        [0, 1], [1, 'a'], (1, 2, 3), range(1, 5)]
METHODS = ['cardinality_geq', 'cardinality_leq', 'cardinality_eq', 'cardinality_neq']
HALVES = ['add_loose_majority', 'add_loose_minority', 'add_strict_majority',
          'add_strict_minority']
for cls in (BaseOPB, OPB):
    for lits in LITS:
        for check in (True, False):
            for name in METHODS:
                for value in range(-1, len(lits) + 2):
                    F = cls()
                    F.add_clause([1, -2], check=True)
                    arg = lits
                    attempt('%s:%s:%r:%r:%r' % (cls.__name__, name, lits, value, check),
                            lambda: getattr(F, name)(arg, value, check=check))
                    rec(F.number_of_variables(), list(F))
                    rec('arg', repr(arg))
            for name in HALVES:
                F = cls()
                attempt('%s:%s:%r:%r' % (cls.__name__, name, lits, check),
                        lambda: getattr(F, name)(lits, check=check))
                rec(F.number_of_variables(), list(F))
    # generators and odd values
    for name in METHODS:
        for value in (0, 1, 2, 3, 1.0, '1', None, True):
            F = cls()
            attempt('gen:%s:%r' % (name, value),
                    lambda: getattr(F, name)((x for x in [1, -2, 3]), value))
            rec(F.number_of_variables(), list(F))
    # the caller's list must be left as it was
    mine = [1, -2, 3, 4]
    F = cls()
    F.cardinality_neq(mine, 2)
    rec(mine, list(F))
    for k in (0, 1):
        F = cls()
        attempt('parity', lambda: F.add_parity([1, -2, 3], k))
        rec(list(F))

# --------------------------------------------------- satisfying assignments
def sat_opb(F):
    n = F.number_of_variables()
    sols = []
    for bits in itertools.product([0, 1], repeat=n):
        ok = True
        for con in F:
            lhs = sum(c * (bits[l - 1] if l > 0 else 1 - bits[-l - 1]) for c, l in con[:-2])
            if con[-2] == '>=':
                ok = lhs >= con[-1]
            else:
                ok = lhs == con[-1]
            if not ok:
                break
        if ok:
            sols.append(bits)
    return sols


def sat_cnf(F):
    n = F.number_of_variables()
    sols = []
    for bits in itertools.product([0, 1], repeat=n):
        if all(any((bits[l - 1] if l > 0 else 1 - bits[-l - 1]) for l in cls) for cls in F):
            sols.append(bits)
    return sols


for n in range(0, 6):
    for value in range(-1, n + 2):
        P, C = OPB(), CNF()
        lits = [(-1) ** i * (i + 1) for i in range(n)]
        for name in METHODS:
            getattr(P, name)(lits, value)
            getattr(C, name)(lits, value)
            rec(name, n, value, list(P), list(C), sat_opb(P) == sat_cnf(C), sat_opb(P))
            P, C = OPB(), CNF()

CMDS = [
    ['php', 3, 2], ['php', 2, 2, '--functional', '--onto'], ['rphp', 2, 2, 2],
    ['parity', 3], ['parity', 4], ['count', 4, 2], ['count', 3, 3],
    ['matching', 'complete', 4], ['ec', 'complete', 3], ['ec', 'complete', 4],
    ['tseitin', 'first', 'grid', 2, 2], ['tseitin', 'randomodd', 'complete', 4],
    ['domset', 1, 'grid', 2, 2], ['tiling', 'grid', 2, 2], ['tiling', 'complete', 3],
    ['vdw', 4, 2, 2], ['vdw', 3, 2, 2, 2],
    ['subsetcard', 'complete', 3, 3], ['subsetcard', 'complete', 2, 3, '--equal'],
    ['subsetcard', 'regular', 4, 4, 2],
    ['kcolor', 2, 'complete', 3], ['op', 3], ['bphp', 2, 2],
]
for cmd in CMDS:
    def both():
        P = pbgen_cli(['pbgen', '-S', 11] + cmd, mode='formula')
        C = cnfgen_cli(['cnfgen', '-S', 11] + cmd, mode='formula')
        out = [P.number_of_variables(), list(P), P.to_opb(),
               list(P.all_variable_labels()) == list(C.all_variable_labels()),
               C.number_of_variables()]
        if P.number_of_variables() <= 16:
            sp = sat_opb(P)
            out += [len(sp), sp == sat_cnf(C)]
        return out
    attempt('tools:%r' % cmd, both)

print(H.hexdigest())
