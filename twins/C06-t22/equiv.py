#!/usr/bin/env python
"""Equivalence script for t22: header comments of DIMACS and OPB output

Exercises cnfgen.utils.parsedimacs.to_dimacs_file and
cnfgen.utils.opb.to_opb_file (directly, through CNF/OPB methods and
through the command line tools) on formulas whose headers contain
unusual material, and reads the DIMACS output back.
Prints one SHA256 digest of everything observed.
"""
import contextlib
import hashlib
import io
import os
import random
import sys
import tempfile
from collections import OrderedDict

sys.path.insert(0, os.getcwd())

from cnfgen.formula.basecnf import BaseCNF
from cnfgen.formula.cnfio import CNFio
from cnfgen.formula.cnf import CNF
from cnfgen.formula.opb import OPB
from cnfgen.utils.parsedimacs import to_dimacs_file, from_dimacs_file
from cnfgen.utils.opb import to_opb_file
import cnfgen
from cnfgen.clitools.cnfgen import cli as cnfgen_cli
from cnfgen.clitools.pbgen import cli as pbgen_cli
from cnfgen.clitools.cnfshuffle import cli as cnfshuffle_cli

LOG = []


def rec(*items):
    LOG.append(repr(items))


def attempt(tag, fn, *args, **kwargs):
    try:
        res = fn(*args, **kwargs)
        rec(tag, 'ok', res if isinstance(res, (type(None), bool, int, str, list, tuple))
            else type(res).__name__)
        return res
    except BaseException as e:  # noqa
        rec(tag, 'exc', type(e).__name__, str(e))
        return None


class Recorder:
    """File like object recording each chunk written"""
    def __init__(self):
        self.chunks = []

    def write(self, text):
        self.chunks.append(text)
        return len(text)


class NoisyValue:
    def __str__(self):
        return 'noisyüvalue\r\nsecond'

    def __format__(self, spec):
        return 'formatted<' + spec + '>\nline2'


def writers(tag, F):
    for fname, fn in (('dimacs', to_dimacs_file), ('opb', to_opb_file)):
        for h in (False, True):
            for v in (False, True):
                out = io.StringIO()
                r = attempt('%s:%s:%s%s' % (tag, fname, h, v), fn, F, out,
                            export_header=h, export_varnames=v)
                text = out.getvalue()
                rec(tag, fname, h, v, text)
                chunks = Recorder()
                attempt('%s:%s:%s%s:chunks' % (tag, fname, h, v), fn, F, chunks,
                        export_header=h, export_varnames=v)
                rec(tag, fname, h, v, 'chunks', chunks.chunks)
                if fname == 'dimacs' and isinstance(F, BaseCNF):
                    # every non clause line is a comment or the p line
                    lines = text.splitlines()
                    rec(tag, 'kinds', [l[:1] for l in lines])
                    G = attempt(tag + ':reread', from_dimacs_file, CNF,
                                io.StringIO(text))
                    if G is not None:
                        rec(tag, 'rt', G.number_of_variables(),
                            [list(c) for c in G],
                            G.number_of_variables() == F.number_of_variables(),
                            [list(c) for c in G] == [list(c) for c in F])
        # defaults
        out = io.StringIO()
        attempt(tag + ':' + fname + ':defaults', fn, F, out)
        rec(tag, fname, 'defaults', out.getvalue())
        # positional arguments
        out = io.StringIO()
        attempt(tag + ':' + fname + ':positional', fn, F, out, True, True)
        rec(tag, fname, 'positional', out.getvalue())
        # standard output
        buf = io.StringIO()
        with contextlib.redirect_stdout(buf):
            attempt(tag + ':' + fname + ':stdout', fn, F, None, True, True)
            attempt(tag + ':' + fname + ':stdout-default', fn, F)
        rec(tag, fname, 'stdout', buf.getvalue())


def methods(tag, F):
    for name in ('to_dimacs', 'to_opb', 'to_latex'):
        if hasattr(F, name):
            attempt(tag + ':' + name, getattr(F, name))
    for fmt in (None, 'dimacs', 'opb', 'latex', 'bogus'):
        for h in (False, True):
            for v in (False, True):
                out = io.StringIO()
                attempt('%s:to_file:%s:%s%s' % (tag, fmt, h, v), F.to_file, out,
                        fileformat=fmt, export_header=h, export_varnames=v)
                rec(tag, 'to_file', fmt, h, v, out.getvalue())


def headers():
    yield 'default', None
    yield 'empty', OrderedDict()
    yield 'onlydesc', OrderedDict(description='just this')
    yield 'emptyvalue', OrderedDict([('description', ''), ('', ''), ('k', None)])
    yield 'multiline', OrderedDict([('description', 'first\nsecond\n\nfourth\n'),
                                    ('note', '\n'), ('x', '\n\nz'),
                                    ('crlf', 'a\r\nb\rc'), ('ff', 'a\x0cb\x1cc\x85d e')])
    yield 'nonascii', OrderedDict([('description', 'formülä αβ \U0001f600 naïve'),
                                   ('clé', 'p cnf 3 3'), ('c', 'c'), ('p cnf', '1 2 0')])
    yield 'nonstring', OrderedDict([(1, 2), (None, [1, 2]), ((1, 2), {'a': 1}),
                                    (2.5, True), ('noisy', NoisyValue())])
    yield 'braces', OrderedDict([('{}', '{0} {x}'), ('%s', '%d'), ('tab\there', ' lead and trail ')])
    yield 'plaindict', {'b': 1, 'a': 2}
    yield 'long', OrderedDict([('description', 'word ' * 400), ('k%d' % 1, 'v')] +
                              [('key%d' % i, 'value\n%d' % i) for i in range(30)])


def main():
    random.seed(60622)

    clause_sets = [[], [[]], [[1, -2], [], [3]], [[-4, 2, 2], [4]], [[1]]]
    for hname, hdr in headers():
        for i, cs in enumerate(clause_sets):
            for cls in (BaseCNF, CNFio, CNF):
                if cls is not CNF and i not in (0, 2):
                    continue
                tag = 'H/%s/%d/%s' % (hname, i, cls.__name__)
                F = cls(cs, description='descr %s' % hname)
                if hdr is not None:
                    F.header = hdr
                F.update_variable_number(F.number_of_variables() + (i % 2))
                writers(tag, F)
                if cls is not BaseCNF:
                    methods(tag, F)
        # OPB formulas
        P = OPB(description='opb %s' % hname)
        if hdr is not None:
            P.header = hdr
        writers('P0/' + hname, P)
        P.add_constraint([(1, 1), (2, -3), '>=', 2])
        P.add_constraint([(3, 2), (1, -4), '==', 1])
        writers('P1/' + hname, P)
        methods('P1/' + hname, P)

    # header edited in place, as the command line tools do
    F = CNF([[1, 2], [-1]], description=None)
    F.header['random seed'] = 42
    F.header['command line'] = 'cnfgen -v php 3 2 — "quoted"'
    del F.header['url']
    writers('edited', F)
    methods('edited', F)

    # variables with unusual names
    F = CNF(description='names\nwith newline')
    x = F.new_variable('x\ny')
    y = F.new_variable('c p cnf 1 1')
    z = F.new_variable('été {}')
    b = F.new_block(2, 2, label='b[{},{}]')
    F.add_clause([x, -y, z])
    F.add_clause([-b(1, 1), b(2, 2)])
    F.add_clause([])
    writers('names', F)
    methods('names', F)

    # description given at construction time
    for d in (None, '', 'plain', 'two\nlines', '\n', 'café', 'c', 'p cnf 1 1\n1 0',
              '   ', 'trailing\n\n\n', '\ttab'):
        for cls in (CNF, OPB):
            F = cls(description=d)
            writers('descr/%r/%s' % (d, cls.__name__), F)

    # families and transformations
    fams = [
        ('php', lambda: cnfgen.PigeonholePrinciple(4, 3)),
        ('op', lambda: cnfgen.OrderingPrinciple(3)),
        ('rk', lambda: cnfgen.RandomKCNF(3, 6, 9)),
        ('count', lambda: cnfgen.CountingPrinciple(4, 2)),
        ('vdw', lambda: cnfgen.VanDerWaerden(6, 3, 3)),
    ]
    for name, mk in fams:
        F = attempt(name + ':build', mk)
        if F is None:
            continue
        writers(name, F)
        methods(name, F)
        G = attempt(name + ':shuffle', lambda: cnfgen.Shuffle(F))
        if G is not None:
            writers(name + '/shuffle', G)
        G = attempt(name + ':or', lambda: cnfgen.OrSubstitution(F, 2))
        if G is not None:
            writers(name + '/or', G)

    # files and command line tools
    cwd = os.getcwd()
    with tempfile.TemporaryDirectory() as tmp:
        os.chdir(tmp)
        try:
            F = CNF([[1, -2], [], [4]], description='file tést\nline')
            P = OPB(description='opb file tést\nline')
            P.add_constraint([(2, 1), (1, -2), '>=', 1])
            for obj, names in ((F, ('a.cnf', 'a.opb', 'a.tex', 'a', 'a.CNF.txt')),
                               (P, ('p.opb', 'p.tex', 'p.cnf', 'p'))):
                for fname in names:
                    for h in (False, True):
                        for v in (False, True):
                            attempt('tofile:%s:%s%s' % (fname, h, v), obj.to_file,
                                    fname, export_header=h, export_varnames=v)
                            with open(fname, encoding='utf-8') as f:
                                rec('file', fname, h, v, f.read())
            for h in (False, True):
                attempt('dimacs-by-name', to_dimacs_file, F, 'x.cnf', h, True)
                attempt('opb-by-name', to_opb_file, F, 'x.opb', h, True)
                attempt('opb-by-name-P', to_opb_file, P, 'y.opb', h, True)
                for fname in ('x.cnf', 'x.opb', 'y.opb'):
                    with open(fname, encoding='utf-8') as f:
                        rec('byname', fname, h, f.read())
                G = attempt('from_file', CNF.from_file, 'x.cnf')
                if G is not None:
                    rec('from_file', G.number_of_variables(), [list(c) for c in G],
                        G.header.get('description'))
            attempt('dimacs-bad-dir', to_dimacs_file, F, 'no/such/dir/x.cnf')
            attempt('opb-bad-dir', to_opb_file, F, 'no/such/dir/x.opb')

            cmdlines = [
                ['cnfgen', 'php', '3', '2'],
                ['cnfgen', '-q', 'php', '3', '2'],
                ['cnfgen', '--varnames', 'op', '3'],
                ['cnfgen', '-q', '--varnames', 'op', '3'],
                ['cnfgen', '--seed', '7', 'randkcnf', '3', '5', '6'],
                ['cnfgen', '--seed', '7', '--varnames', '-of', 'opb', 'randkcnf', '3', '5', '6'],
                ['cnfgen', '-of', 'opb', 'php', '3', '2'],
                ['cnfgen', '-q', '-of', 'opb', 'php', '3', '2'],
                ['cnfgen', '-o', 'out.cnf', '--varnames', 'php', '3', '2', '-T', 'xor', '2'],
                ['cnfgen', '-o', 'out.opb', '--varnames', 'php', '3', '2'],
                ['cnfgen', 'dimacs', 'x.cnf'],
                ['cnfgen', '--varnames', 'dimacs', 'x.cnf', '-T', 'shuffle'],
            ]
            for argv in cmdlines:
                buf = io.StringIO()
                err = io.StringIO()
                with contextlib.redirect_stdout(buf), contextlib.redirect_stderr(err):
                    attempt('cli:' + ' '.join(argv), cnfgen_cli, argv, mode='output')
                rec('cli', argv, buf.getvalue(), err.getvalue())
                attempt('clistr:' + ' '.join(argv), cnfgen_cli, argv, mode='string')
            for fname in ('out.cnf', 'out.opb'):
                with open(fname, encoding='utf-8') as f:
                    rec('cli-file', fname, f.read())
            for argv in (['pbgen', 'php', '3', '2'], ['pbgen', '-q', '--varnames', 'php', '3', '2'],
                         ['pbgen', '--varnames', 'php', '3', '2']):
                buf = io.StringIO()
                err = io.StringIO()
                with contextlib.redirect_stdout(buf), contextlib.redirect_stderr(err):
                    attempt('pbcli:' + ' '.join(argv), pbgen_cli, argv, mode='output')
                rec('pbcli', argv, buf.getvalue(), err.getvalue())
            for argv in (['cnfshuffle', '--seed', '3', '-i', 'x.cnf'],
                         ['cnfshuffle', '--seed', '3', '-q', '-i', 'x.cnf', '-o', 'sh.cnf']):
                buf = io.StringIO()
                err = io.StringIO()
                with contextlib.redirect_stdout(buf), contextlib.redirect_stderr(err):
                    attempt('shcli:' + ' '.join(argv), cnfshuffle_cli, argv, mode='output')
                rec('shcli', argv, buf.getvalue(), err.getvalue())
            with open('sh.cnf', encoding='utf-8') as f:
                rec('sh.cnf', f.read())
        finally:
            os.chdir(cwd)

    blob = "\n".join(LOG).encode('utf-8', errors='backslashreplace')
    print(hashlib.sha256(blob).hexdigest())


if __name__ == '__main__':
    main()
