#!/usr/bin/env python
"""Equivalence script for t8: CNFLinear majority / minority builders (CNF clause encoding)."""
import sys, os, hashlib, random, io, contextlib
from itertools import product
sys.path.insert(0, os.getcwd())

from cnfgen import CNF
from cnfgen.formula.linear import CNFLinear
import cnfgen

H = hashlib.sha256()


def emit(*args):
    H.update((" ".join(repr(a) for a in args) + "\n").encode())


def attempt(tag, F, fn):
    try:
        emit(tag, 'OK', fn())
    except Exception as e:  # noqa
        emit(tag, 'EXC', type(e).__name__, str(e),
             type(e.__cause__).__name__, str(e.__cause__))
    if F is not None:
        emit(tag, 'state', F.number_of_variables(), len(F), list(F))


def sat_set(clauses, nvars):
    res = []
    for bits in product([False, True], repeat=nvars):
        if all(any((bits[abs(l) - 1] == (l > 0)) for l in cl) for cl in clauses):
            res.append(''.join('1' if b else '0' for b in bits))
    return res


NAMES = ['add_loose_majority', 'add_loose_minority',
         'add_strict_majority', 'add_strict_minority']

BASE = [[], [1], [-1], [1, 2], [1, -2], [-3, 2, 1], [1, 2, 3, 4], [4, -2, 7, -1, 3],
        [1, 2, 3, 4, 5, 6], [-1, -2, -3, -4, -5, -6, -7], [2, 2, 3], [1, -1], [9]]
BAD = [[0], [1, 0, 2], ['a'], [1, 'a'], [None], [1.5, 2], [2.0], [True, 3], [[1], 2]]


def shapes(lits):
    yield 'list', lambda: list(lits)
    yield 'tuple', lambda: tuple(lits)
    yield 'gen', lambda: (x for x in lits)
    yield 'genfn', lambda: (lambda: (yield from lits))()
    yield 'iter', lambda: iter(lits)
    yield 'map', lambda: map(lambda x: x, lits)
    yield 'dictkeys', lambda: dict.fromkeys(lits).keys() if all(
        isinstance(x, (int, str, float, type(None))) for x in lits) else list(lits)
    if all(isinstance(x, int) for x in lits) and lits == list(range(1, len(lits) + 1)):
        yield 'range', lambda: range(1, len(lits) + 1)


# 1. every builder, every input shape, both check modes; contents and models
for cls in (CNFLinear, CNF):
    for check in (True, False):
        for li, lits in enumerate(BASE + BAD):
            for shape, mk in shapes(lits):
                for name in NAMES:
                    F = cls()
                    F.update_variable_number(2)
                    src = mk()
                    attempt((cls.__name__, name, check, li, shape), F,
                            lambda: getattr(F, name)(src, check=check))
                    try:
                        emit('leftover', list(src))
                    except Exception as e:  # noqa
                        emit('leftover-exc', type(e).__name__)
                    if cls is CNFLinear and shape in ('list', 'gen') and li < len(BASE) \
                            and F.number_of_variables() <= 9 and check:
                        emit('models', name, li, shape,
                             sat_set(list(F), F.number_of_variables()))

# 2. other callers of add_linear / parity, for good measure
OPS = ['<=', '>=', '<', '>', '==', '!=', '=', 'leq', None]
for lits in BASE[:9]:
    for op in OPS:
        for const in range(-2, len(lits) + 3):
            for shape, mk in list(shapes(lits))[:3]:
                F = CNFLinear()
                attempt(('linear', tuple(lits), op, const, shape), F,
                        lambda: F.add_linear(mk(), op, const))
    for const in (0, 1, 2, -1):
        for shape, mk in list(shapes(lits))[:3]:
            F = CNFLinear()
            attempt(('parity', tuple(lits), const, shape), F,
                    lambda: F.add_parity(mk(), const))

# 3. thresholds are the intended ones: count the models by weight
for n in range(0, 8):
    lits = list(range(1, n + 1))
    for name in NAMES:
        F = CNFLinear()
        F.update_variable_number(n)
        getattr(F, name)(x for x in lits)
        weights = sorted(set(m.count('1') for m in sat_set(list(F), n)))
        emit('weights', n, name, weights)

# 4. families / transformations that use these builders (generators are passed in)
from cnfgen.graphs import BipartiteGraph, CompleteBipartiteGraph
rng = random.Random(99)
for t in range(6):
    L, R = rng.randint(1, 5), rng.randint(1, 5)
    B = BipartiteGraph(L, R)
    for u in range(1, L + 1):
        for v in range(1, R + 1):
            if rng.random() < 0.6:
                B.add_edge(u, v)
    for eq in (False, True):
        attempt(('subsetcard', t, eq), None,
                lambda: cnfgen.SubsetCardinalityFormula(B, eq).to_dimacs())
attempt(('subsetcard', 'K44'), None,
        lambda: cnfgen.SubsetCardinalityFormula(CompleteBipartiteGraph(4, 4)).to_dimacs())

from cnfgen.transformations.substitutions import MajoritySubstitution
for k in (1, 2, 3, 4):
    attempt(('majsub', k), None,
            lambda: MajoritySubstitution(CNF([[1, -2], [2, 3], [-1, -3], []]), k).to_dimacs())

# 5. command line
from cnfgen.clitools import cnfgen as cli
for argv in (['cnfgen', '-q', 'subsetcard', 'complete', '3', '3'],
             ['cnfgen', '-q', 'subsetcard', 'complete', '2', '4'],
             ['cnfgen', '-q', '--seed', '11', 'subsetcard', 'glrd', '5', '5', '3'],
             ['cnfgen', '-q', 'php', '3', '2', '-T', 'maj', '3'],
             ['cnfgen', '-q', 'php', '2', '2', '-T', 'maj', '2'],
             ['cnfgen', '-q', 'op', '3', '-T', 'xor', '2']):
    out, err = io.StringIO(), io.StringIO()
    code = None
    try:
        with contextlib.redirect_stdout(out), contextlib.redirect_stderr(err):
            cli(argv)
    except SystemExit as e:
        code = e.code
    except Exception as e:  # noqa
        code = (type(e).__name__, str(e))
    emit('cli', argv, code, out.getvalue(), err.getvalue())

print(H.hexdigest())
