"""Equivalence harness for cnfgen.clitools.cnfshuffle.main (error/exit paths).

Run as: cd <checkout> && /venv/bin/python equiv.py
Prints one SHA256 digest of everything observable: stdout, stderr, exit codes,
whether stderr was closed, escaping exceptions.
"""
import sys, os, io, hashlib, random, itertools, tempfile
sys.path.insert(0, os.getcwd())

import importlib
cs = importlib.import_module("cnfgen.clitools.cnfshuffle")
assert hasattr(cs, "main") and hasattr(cs, "cli")
from cnfgen.clitools.msg import InternalBug
from cnfgen.clitools.cmdline import CLIError

LOG = []


def rec(*items):
    LOG.append(repr(items))


class KeepIO(io.StringIO):
    """StringIO that remembers close() but keeps its content"""
    def __init__(self, *a):
        super().__init__(*a)
        self.closed_count = 0

    def close(self):
        self.closed_count += 1

    def isatty(self):
        return False


class RaisingOut(KeepIO):
    def __init__(self, exc):
        super().__init__()
        self.exc = exc

    def write(self, s):
        raise self.exc


def run_main(argv, stdin_text, stdout=None, patch_shuffle=None):
    old = (sys.argv, sys.stdin, sys.stdout, sys.stderr, cs.Shuffle)
    out = stdout if stdout is not None else KeepIO()
    err = KeepIO()
    sin = KeepIO(stdin_text)
    sys.argv, sys.stdin, sys.stdout, sys.stderr = argv, sin, out, err
    if patch_shuffle is not None:
        cs.Shuffle = patch_shuffle
    outcome = None
    try:
        try:
            ret = cs.main()
            outcome = ('returned', ret)
        except SystemExit as e:
            outcome = ('SystemExit', e.code)
        except BaseException as e:  # anything escaping main
            outcome = ('escaped', type(e).__name__, str(e))
    finally:
        sys.argv, sys.stdin, sys.stdout, sys.stderr, cs.Shuffle = old
    rec(argv, stdin_text, outcome, out.getvalue(), err.getvalue(),
        err.closed_count, out.closed_count)


GOOD = [
    "p cnf 0 0\n",
    "p cnf 3 0\n",
    "p cnf 0 1\n0\n",
    "p cnf 1 2\n1 0\n-1 0\n",
    "c a comment\np cnf 4 3\n1 -2 3 0\n-4 0\n2 4 -1 -3 0\n",
    "p cnf 5 4\n1 2 3 4 5 0\n-1 -2 0\n\n3 -4 0\n5\n -1 0\n",
    "p cnf 6 6\n1 -1 0\n2 2 0\n0\n3 4 0\n-5 6 0\n6 0\n",
]
BAD = [
    "",
    "1 2 0\n",
    "p cnf 2 1\n1 3 0\n",
    "p cnf 2 2\n1 2 0\n",
    "p cnf 2 1\n1 2\n",
    "p cnf 2 1\np cnf 2 1\n1 0\n",
    "p cnf -1 1\n1 0\n",
    "p cnf x y\n",
    "p cnf 2 1\n1 a 0\n",
    "p cnf 2\n",
]

SWITCHES = [[], ['-p'], ['-v'], ['-c'], ['-p', '-v'], ['-p', '-c'], ['-v', '-c'],
            ['-p', '-v', '-c'],
            ['--no-polarity-flips', '--no-variables-permutation', '--no-clauses-permutation']]

# 1. normal runs, many seeds / switches
for text in GOOD:
    for sw in SWITCHES:
        for seed in ['0', '1', 'abc', '42']:
            run_main(['cnfshuffle', '-S', seed] + sw, text)
            run_main(['cnfshuffle', '-q', '--seed', seed] + sw, text)

# unseeded, but with everything switched off: deterministic
for text in GOOD:
    run_main(['cnfshuffle', '-p', '-v', '-c'], text)
    run_main(['/usr/local/bin/cnfshuffle', '-pvc', '-q'], text)

# 2. DIMACS errors (ValueError path)
for text in BAD:
    for sw in ([], ['-p', '-v', '-c'], ['-q']):
        run_main(['cnfshuffle', '-S', '7'] + sw, text)

# 3. command line errors (CLIError path) and help (SystemExit from argparse)
for argv in [['cnfshuffle', '--bogus'],
             ['cnfshuffle', '-S'],
             ['cnfshuffle', 'extra'],
             ['cnfshuffle', '-i', '/nonexistent/dir/file.cnf'],
             ['cnfshuffle', '-o', '/nonexistent/dir/file.cnf'],
             ['shuf', '-i'],
             ['cnfshuffle', '-h'],
             ['cnfshuffle', '--help'],
             ['cnfshuffle', '-p', '-p', '--nope', '3']]:
    run_main(argv, GOOD[4])

# 4. file input / output
tmpdir = tempfile.mkdtemp()
try:
    inp = os.path.join(tmpdir, 'in.cnf')
    outp = os.path.join(tmpdir, 'out.cnf')
    for k, text in enumerate(GOOD + BAD):
        with open(inp, 'w') as f:
            f.write(text)
        if os.path.exists(outp):
            os.unlink(outp)
        old = (sys.argv, sys.stdin, sys.stdout, sys.stderr)
        err = KeepIO()
        out = KeepIO()
        sys.argv = ['cnfshuffle', '-S', str(k), '-i', inp, '-o', outp]
        sys.stdin, sys.stdout, sys.stderr = KeepIO(''), out, err
        try:
            try:
                cs.main()
                outcome = ('returned',)
            except SystemExit as e:
                outcome = ('SystemExit', e.code)
            except BaseException as e:
                outcome = ('escaped', type(e).__name__, str(e))
        finally:
            sys.argv, sys.stdin, sys.stdout, sys.stderr = old
        content = open(outp).read().replace(tmpdir, '<TMP>') if os.path.exists(outp) else None
        rec('file', k, outcome, content, out.getvalue(),
            err.getvalue().replace(tmpdir, '<TMP>'), err.closed_count)
finally:
    import shutil
    shutil.rmtree(tmpdir, ignore_errors=True)

# 5. output stream failing: BrokenPipeError (swallowed) and other I/O errors
for exc in [BrokenPipeError(32, 'Broken pipe'), BrokenPipeError(),
            IOError('disk on fire'), OSError(28, 'No space left on device'),
            PermissionError(13, 'Permission denied'),
            ConnectionResetError('reset'), TimeoutError('slow'),
            UnicodeEncodeError('ascii', 'x', 0, 1, 'bad'),  # a ValueError
            KeyError('k'), RuntimeError('boom'), ValueError('plain value error')]:
    for sw in ([], ['-q']):
        run_main(['cnfshuffle', '-S', '3'] + sw, GOOD[4], stdout=RaisingOut(exc))

# 6. exceptions coming out of the shuffler itself
def raiser(exc):
    def f(*a, **k):
        raise exc
    return f

for exc in [InternalBug('inconsistent'), InternalBug(''), CLIError('bad cli\nsecond line'),
            CLIError(''), ValueError('weird value'), ValueError(), IOError('io'),
            BrokenPipeError('bp'), FileNotFoundError(2, 'No such file'),
            RuntimeError('rt'), TypeError('ty'), KeyboardInterrupt(),
            AssertionError('as'), SystemExit(5)]:
    run_main(['cnfshuffle', '-S', '3'], GOOD[3], patch_shuffle=raiser(exc))

# 7. the messages prefix must be restored/unchanged afterwards
import cnfgen.clitools.msg as m
rec('prefix', m._prefix)

h = hashlib.sha256()
for line in LOG:
    h.update(line.encode('utf-8', errors='backslashreplace'))
    h.update(b'\n')
print(h.hexdigest())
