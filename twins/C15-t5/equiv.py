"""Equivalence check for _write_graph_matrix_format (cnfgen/graphs.py), the
writer behind `save matrix <file>` / `save <file>.matrix` of bipartite graphs."""
import warnings
warnings.simplefilter("ignore")
import hashlib
import io
import os
import random
import sys
import tempfile

sys.path.insert(0, os.getcwd())

from cnfgen.graphs import (BipartiteGraph, CompleteBipartiteGraph, Graph,
                           writeGraph, readGraph, _write_graph_matrix_format,
                           bipartite_random, bipartite_random_m_edges,
                           bipartite_shift)
from cnfgen.clitools.graph_args import make_graph_from_spec

H = hashlib.sha256()


def emit(*items):
    for x in items:
        H.update(repr(x).encode('utf-8'))
        H.update(b'\n')
        if os.environ.get('EQUIV_DEBUG'):
            sys.stderr.write(repr(x)[:160] + '\n')


def attempt(label, fn, *args):
    emit('CALL', label)
    try:
        res = fn(*args)
    except BaseException as e:
        emit('EXC', type(e).__name__, str(e))
    else:
        emit('OK', res)


def write_direct(G):
    out = io.StringIO()
    _write_graph_matrix_format(G, out)
    return out.getvalue()


def write_api(G, fmt):
    out = io.StringIO()
    writeGraph(G, out, 'bipartite', fmt)
    return out.getvalue()


def roundtrip(G):
    text = write_api(G, 'matrix')
    B = readGraph(io.StringIO(text), 'bipartite', 'matrix')
    return (B.left_order(), B.right_order(), sorted(B.edges()),
            sorted(B.edges()) == sorted(G.edges()))


graphs = []
for L in range(0, 5):
    for R in range(0, 5):
        graphs.append(('empty', L, R, BipartiteGraph(L, R)))
        if L > 0 and R > 0:
            graphs.append(('complete', L, R, CompleteBipartiteGraph(L, R)))
            for p in (0.0, 0.3, 0.5, 1.0):
                graphs.append(('glrp', L, R, p,
                               bipartite_random(L, R, p, seed=L * 31 + R)))
            for m in range(0, L * R + 1):
                graphs.append(('glrm', L, R, m,
                               bipartite_random_m_edges(L, R, m, seed=m + 7)))
            graphs.append(('shift', L, R, bipartite_shift(L, R, [0, 1])))
# one bigger instance
graphs.append(('big', bipartite_random(17, 23, 0.4, seed=99)))
# hand made, edges inserted out of order
B = BipartiteGraph(3, 4, name='hand made')
for e in [(3, 4), (1, 2), (2, 1), (3, 1), (1, 4)]:
    B.add_edge(*e)
graphs.append(('hand', B))

for item in graphs:
    G = item[-1]
    emit('GRAPH', item[:-1], G.name)
    attempt('direct', write_direct, G)
    attempt('api-matrix', write_api, G, 'matrix')
    attempt('api-kthlist', write_api, G, 'kthlist')
    attempt('roundtrip', roundtrip, G)

# wrong kind of graphs: refused
attempt('simple graph', write_direct, Graph(3))
attempt('none', write_direct, None)
closed = io.StringIO()
closed.close()
attempt('closed file', _write_graph_matrix_format, BipartiteGraph(2, 2), closed)

# through the command line graph specification, with the `save` option
origdir = os.getcwd()
scratch = tempfile.mkdtemp()
os.chdir(scratch)
try:
    specs = [
        'glrm 3 4 5 save matrix out.txt',
        'glrm 3 4 12 save out.matrix',
        'glrm 3 4 0 save out.matrix',
        'glrd 4 5 2 save matrix g.matrix',
        'regular 4 4 2 plantbiclique 2 2 save g.matrix',
        'shift 5 5 0 1 3 addedges 3 save matrix g',
        'complete 2 3 save g.matrix',
        'empty 2 2 save g.matrix',
        'empty 1 1 addedges 1 save g.matrix',
        'glrp 4 4 0.5 plantbiclique 1 3 addedges 2 save matrix x.kthlist',
        'glrp 4 4 0.5 save matrix',
        'glrp 4 4 0.5 save',
        'glrm 2 2 5 save g.matrix',
    ]
    for seed in (1, 2):
        for spec in specs:
            emit('SPEC', seed, spec)
            random.seed(seed)
            try:
                G = make_graph_from_spec('bipartite', spec)
            except BaseException as e:
                emit('EXC', type(e).__name__, str(e))
            else:
                emit(G.name, G.left_order(), G.right_order(), sorted(G.edges()))
            emit(random.random())
            for fname in sorted(os.listdir('.')):
                with open(fname, 'rb') as f:
                    data = f.read()
                emit('FILE', fname, data)
                if fname.endswith('matrix') or b':' not in data:
                    try:
                        B = readGraph(fname, 'bipartite', 'matrix')
                        emit('REREAD', sorted(B.edges()))
                    except BaseException as e:
                        emit('EXC', type(e).__name__, str(e))
                os.unlink(fname)
    # simple graphs do not have the matrix format
    for spec in ['gnm 4 3 save matrix g.txt', 'gnm 4 3 save g.matrix']:
        emit('SPEC simple', spec)
        random.seed(5)
        try:
            G = make_graph_from_spec('simple', spec)
        except BaseException as e:
            emit('EXC', type(e).__name__, str(e))
        else:
            emit(G.name, sorted(G.edges()))
        for fname in sorted(os.listdir('.')):
            with open(fname, 'rb') as f:
                emit('FILE', fname, f.read())
            os.unlink(fname)
finally:
    os.chdir(origdir)
    os.rmdir(scratch)

print(H.hexdigest())
