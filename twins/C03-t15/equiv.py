#!/usr/bin/env python
"""Equivalence script for the refactoring of cnfgen.localtypes.positive_int_seq
(and its use in VanDerWaerden / the `vdw` command line)."""
import hashlib
import io
import sys
import fractions
import decimal
import random
from contextlib import redirect_stdout, redirect_stderr

sys.path.insert(0, '.')

from cnfgen.localtypes import positive_int_seq
from cnfgen.families.ramsey import VanDerWaerden
from cnfgen.clitools import cnfgen as cnfgen_cli

OUT = []


def rec(*items):
    OUT.append(repr(items))


def describe_exc(e):
    chain = []
    seen = 0
    while e is not None and seen < 5:
        chain.append((type(e).__name__, str(e), e.__suppress_context__))
        e = e.__cause__
        seen += 1
    return chain


class Weird:
    """An iterable failing with TypeError half way"""
    def __init__(self, items, exc):
        self.items = items
        self.exc = exc

    def __iter__(self):
        for x in self.items:
            yield x
        raise self.exc


class Counting:
    """Sequence that records how many times and how far it is iterated"""
    def __init__(self, items):
        self.items = items
        self.log = []

    def __iter__(self):
        self.log.append('start')
        for x in self.items:
            self.log.append(x)
            yield x
        self.log.append('end')


class MyInt(int):
    pass


def gen(items):
    for x in items:
        yield x


VALUES = [
    (), [], [1], [1, 2, 3], (5, 1, 7), [0], [1, 0, 2], [-1], [3, -4],
    [1, 'a'], ['a', 1], [0, 'a'], ['a', 0], [-1, 2.0], [2.0], [1.5, 0],
    [None], [1, None, 0], [True], [False], [True, False, 2], [MyInt(4), MyInt(0)],
    [fractions.Fraction(2, 1)], [decimal.Decimal(3)], [[1]], [(1,)],
    None, 3, 0, -1, 2.5, 'abc', '', '12', b'\x01\x02', b'\x00', b'',
    range(1, 5), range(0, 3), range(-2, 2), range(0), {1, 2}, {0}, {'x'},
    {1: 'a', 2: 'b'}, {0: 1}, {'k': 1},
    [10**30], [-10**30], [1, 10**30, 0],
]


def test_direct():
    for val in VALUES:
        for name in ['*ks', 'x', '']:
            try:
                r = positive_int_seq(val, name)
                rec('direct', repr(val), name, 'ok', r)
            except Exception as e:
                rec('direct', repr(val), name, 'exc', describe_exc(e))
    # iterables with side effects / errors
    for items, exc in [([1, 2], TypeError('boom')), ([0], TypeError('boom2')),
                       (['a'], TypeError('boom3')), ([], TypeError('e')),
                       ([1], ValueError('vboom')), ([0, 'a'], KeyError('k')),
                       (['q', 1], ValueError('vb'))]:
        try:
            r = positive_int_seq(Weird(items, exc), 'w')
            rec('weird', items, 'ok', r)
        except Exception as e:
            rec('weird', items, 'exc', describe_exc(e))
    for items in [[1, 2, 3], [1, 0, 3], [1, 'a', 3], [0, 'a'], ['a', 0], []]:
        c = Counting(items)
        try:
            r = positive_int_seq(c, 'c')
            rec('counting', items, 'ok', r, c.log)
        except Exception as e:
            rec('counting', items, 'exc', describe_exc(e), c.log)
    # generators are consumed by the first pass
    for items in [[1, 2], [0, 1], [1, 'a'], ['a'], [0, 'a']]:
        g = gen(items)
        try:
            r = positive_int_seq(g, 'g')
            rec('gen', items, 'ok', r, list(g))
        except Exception as e:
            rec('gen', items, 'exc', describe_exc(e), list(g))
    rnd = random.Random(2024)
    pool = [0, 1, 2, -3, 7, 'a', 2.0, None, True, False, 10**20, (1,), MyInt(2)]
    for _ in range(400):
        val = [rnd.choice(pool) for _ in range(rnd.randint(0, 5))]
        try:
            r = positive_int_seq(val, 'r')
            rec('rand', repr(val), 'ok', r)
        except Exception as e:
            rec('rand', repr(val), 'exc', describe_exc(e))


def test_vdw():
    cases = []
    for N in [0, 1, 2, 5, 9]:
        for ks in [(), (1,), (2,), (3, 1), (2, 2, 2), (0,), (2, 0), (-1,), ('a',),
                   (2.0,), (1, 'a', 0), (0, 'a'), (None,), (True,), ([2],)]:
            cases.append((N, 2, 3, ks))
            cases.append((N, 1, 1, ks))
    cases += [(4, 0, 2, ()), (4, 2, 'x', (1,)), (-1, 2, 2, (0,)), ('n', 2, 2, ('a',))]
    for N, k1, k2, ks in cases:
        try:
            F = VanDerWaerden(N, k1, k2, *ks)
            rec('vdw', N, k1, k2, repr(ks), 'ok', F.number_of_variables(),
                list(F.clauses()) if hasattr(F, 'clauses') else list(F),
                F.to_dimacs())
        except Exception as e:
            rec('vdw', N, k1, k2, repr(ks), 'exc', describe_exc(e))


def test_cli():
    cmds = [
        ['cnfgen', 'vdw', 5, 2, 2],
        ['cnfgen', 'vdw', 6, 2, 3, 2],
        ['cnfgen', 'vdw', 4, 1, 2, 1, 3],
        ['cnfgen', 'vdw', 0, 2, 2, 2],
        ['cnfgen', '-q', 'vdw', 7, 3, 3, 1, 1],
        ['cnfgen', 'vdw', 5, 2, 2, 0],
        ['cnfgen', 'vdw', 5, 2, 2, -1],
        ['cnfgen', 'vdw', 5, 2, 2, 'a'],
        ['cnfgen', 'vdw', 5, 0, 2],
        ['cnfgen', 'vdw', 5],
        ['cnfgen', '-of', 'latex', 'vdw', 5, 2, 2, 2],
        ['cnfgen', '-of', 'opb', 'vdw', 5, 2, 1, 2],
    ]
    for cmd in cmds:
        out = io.StringIO()
        err = io.StringIO()
        try:
            with redirect_stdout(out), redirect_stderr(err):
                r = cnfgen_cli(cmd, mode='string')
            rec('cli', cmd, 'ok', r, out.getvalue(), err.getvalue())
        except SystemExit as e:
            rec('cli', cmd, 'exit', e.code, out.getvalue(), err.getvalue())
        except Exception as e:
            rec('cli', cmd, 'exc', describe_exc(e), out.getvalue(), err.getvalue())


test_direct()
test_vdw()
test_cli()

h = hashlib.sha256()
for line in OUT:
    h.update(line.encode('utf-8', 'backslashreplace'))
    h.update(b'\n')
print(h.hexdigest())
