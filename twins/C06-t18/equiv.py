#!/usr/bin/env python
"""Equivalence probe for the DIMACS reader (cnfgen.utils.parsedimacs.parse_dimacs
and everything layered on top of it).

Run as:  cd <checkout> && /venv/bin/python equiv.py
Prints one SHA256 digest of everything observed.
"""
import hashlib
import io
import os
import random
import sys
import tempfile

sys.path.insert(0, os.getcwd())

from cnfgen import CNF
from cnfgen.utils import parsedimacs
from cnfgen.clitools import cnfgen as cnfgen_cli
from cnfgen.clitools import redirect_stdin, CLIError

# the version string is taken from `git describe`: pin it, so that the digest
# does not depend on the commit the checkout happens to be at
from cnfgen.info import info as _info
_info['version'] = 'pinned-version'

LOG = []


def log(*items):
    LOG.append(repr(items))


def describe_exc(e):
    cause = e.__cause__
    ctx = e.__context__
    return (type(e).__name__, str(e),
            None if cause is None else (type(cause).__name__, str(cause)),
            None if ctx is None else (type(ctx).__name__, str(ctx)))


def probe_generator(text):
    """Drain parse_dimacs item by item, recording what was emitted before failing"""
    emitted = []
    try:
        for item in parsedimacs.parse_dimacs(io.StringIO(text)):
            emitted.append(item)
        log('gen', text, emitted, 'ok')
    except BaseException as e:
        log('gen', text, emitted, describe_exc(e))


def probe_reader(text):
    try:
        F = CNF.from_file(io.StringIO(text))
        log('read', text, F.number_of_variables(), F.number_of_clauses(),
            list(F), dict(F.header), F.to_dimacs())
    except BaseException as e:
        log('read', text, describe_exc(e))


def probe_cli(text):
    try:
        with redirect_stdin(io.StringIO(text)):
            out = cnfgen_cli(['cnfgen', '-q', 'dimacs'], mode='string')
        log('cli', text, out)
    except CLIError as e:
        log('cli', text, 'CLIError', str(e))
    except SystemExit as e:
        log('cli', text, 'SystemExit', e.code)
    except BaseException as e:
        log('cli', text, describe_exc(e))


FIXED = [
    "",
    "\n",
    "\n\n  \n",
    "c only a comment\n",
    "Hej!\n",
    "p cnf 0 0\n",
    "p cnf 0 0",
    "   p cnf 0 0   \n",
    "\tp cnf 3 0\n",
    "p cnf 0 1\n0\n",
    "p cnf 0 2\n0 0\n",
    "p cnf 0 1\n",
    "p cnf 0 0\n0\n",
    "c Hej!\np cnf 0 0\n",
    "c Hej!\np cnf 2 1\n1 -2 0\n",
    "c Hej!\np cnf 1 2\n1 0\n-1 0\n",
    "p cnf 5 4\n1 2 3 0\n-1 -2 0\n4 5 0 -4\n-5 0\n",
    "p cnf 5 3\n1 2\n3\n0 -1 -2 0 4 5 0\n",
    "p cnf 3 2\n1 2 0 3",
    "p cnf 3 2\n1 2 0 3\n",
    "p cnf 3 2\n1 2 0\n",
    "p cnf 3 2\n1 2 0\n3 0\n-1 0\n",
    "p cnf 3 1\n1 2 4 0\n",
    "p cnf 3 1\n1 2 -4 0\n",
    "p cnf 3 1\n1 2 x 0\n",
    "p cnf 3 1\n1 2 1.0 0\n",
    "p cnf 3 1\n1 +2 -3 0\n",
    "p cnf 3 1\n1 2 -0 0\n",
    "p cnf 3 1\n1 2 00 \n",
    "p cnf 3 1\n1 2 --3 0\n",
    "p cnf 3 1\n1 2 1_0 0\n",
    "p cnf 30 1\n1 2 1_0 0\n",
    "p cnf 3 1\n١ 2 0\n",
    "1 2 0\np cnf 2 1\n",
    "0\np cnf 2 1\n",
    "p cnf 2 1\np cnf 2 1\n1 2 0\n",
    "p cnf 2 1\n1 2 0\np cnf 2 1\n",
    "p cnf 0 0\np cnf 0 0\n",
    "p cnf\n",
    "p\n",
    "p cnf 2\n",
    "p cnf 2 1 7\n",
    "p cnf -1 0\n",
    "p cnf 1 -1\n",
    "p cnf -0 0\n",
    "p cnf +2 +1\n1 -2 0\n",
    "p cnf 2.0 1\n1 -2 0\n",
    "p cnf two one\n",
    "p cnf 1_0 1\n10 0\n",
    "p dnf 2 1\n1 -2 0\n",
    "p  cnf   2    1\n1 -2 0\n",
    "pcnf 2 1\n1 2 0\n",
    "p2 cnf 2 1\n1 2 0\n",
    "pp q 2 1\n1 2 0\n",
    "pcnf cnf 2 1 \n1 2 0\n",
    "c p cnf 9 9\np cnf 2 1\n1 2 0\n",
    "p cnf 2 1\nc 7 8 9 0\n1 2 0\nc trailing\n",
    "p cnf 2 1\ncomment-like 0\n1 2 0\n",
    "p cnf 2 1\n1 2 0 c no inline comments\n",
    "p cnf 2 1\n1 2 0\n%\n0\n",
    "p cnf 2 1\r\n1 2 0\r\n",
    "p cnf 2 1\r1 2 0\r",
    "p cnf 2 1\n1\t2\x0b0\x0c\n",
    "p cnf 2 2\n1 2 0\n\n\n-1 0\n",
    "﻿p cnf 2 1\n1 2 0\n",
    "p cnf 2 1\n1 2 0\n\x00\n",
    "P CNF 2 1\n1 2 0\n",
    "p cnf 100000000000000000000 0\n",
    "p cnf 4 1\n1 1 -1 1 0\n",
    "p cnf 2 3\n0\n0\n0\n",
    "p cnf 2 3\n0 0 0",
]


def random_formula_text(rng):
    n = rng.randint(0, 6)
    m = rng.randint(0, 6)
    lines = []
    if rng.random() < 0.5:
        lines.append("c description: random %d" % rng.randint(0, 99))
    lines.append("p cnf %d %d" % (n, m))
    for _ in range(m):
        w = rng.randint(0, 4) if n > 0 else 0
        lits = [rng.choice([-1, 1]) * rng.randint(1, n) for _ in range(w)]
        lines.append(" ".join(str(l) for l in lits + [0]))
    return "\n".join(lines) + "\n"


def corrupt(rng, text):
    kind = rng.randint(0, 7)
    if not text:
        return text
    pos = rng.randrange(len(text))
    if kind == 0:    # truncate
        return text[:pos]
    if kind == 1:    # delete a char
        return text[:pos] + text[pos + 1:]
    if kind == 2:    # replace a char
        return text[:pos] + rng.choice("0123456789-+ pc\nx.") + text[pos + 1:]
    if kind == 3:    # insert a char
        return text[:pos] + rng.choice("0123456789-+ pc\nx.") + text[pos:]
    if kind == 4:    # duplicate a line
        lines = text.splitlines(True)
        i = rng.randrange(len(lines))
        return "".join(lines[:i] + [lines[i]] + lines[i:])
    if kind == 5:    # drop a line
        lines = text.splitlines(True)
        i = rng.randrange(len(lines))
        return "".join(lines[:i] + lines[i + 1:])
    if kind == 6:    # swap two lines
        lines = text.splitlines(True)
        i = rng.randrange(len(lines))
        j = rng.randrange(len(lines))
        lines[i], lines[j] = lines[j], lines[i]
        return "".join(lines)
    return text.replace(" ", "  ").replace("\n", " \n")


def main():
    rng = random.Random(20611)
    texts = list(FIXED)
    for _ in range(250):
        t = random_formula_text(rng)
        texts.append(t)
        c = t
        for _ in range(rng.randint(1, 3)):
            c = corrupt(rng, c)
        texts.append(c)

    for t in texts:
        probe_generator(t)
        probe_reader(t)
    for t in texts[:len(FIXED) + 60]:
        probe_cli(t)

    # file objects without a name, with a name, and real file names
    class Named(io.StringIO):
        name = 'some name.cnf'
    for t in ["p cnf 2 1\n1 -2 0\n", "p cnf 2 1\n1 -3 0\n"]:
        try:
            F = CNF.from_file(Named(t))
            log('named', list(F), F.header['description'])
        except ValueError as e:
            log('named', describe_exc(e))
    tmpdir = tempfile.mkdtemp()
    try:
        for i, t in enumerate(texts[:40]):
            fname = os.path.join(tmpdir, 'f%d.cnf' % i)
            with open(fname, 'w', encoding='utf-8') as f:
                f.write(t)
            try:
                F = CNF.from_file(fname)
                log('file', i, F.number_of_variables(), list(F),
                    F.header['description'].replace(tmpdir, '<tmp>'))
            except BaseException as e:
                log('file', i, describe_exc(e))
            os.unlink(fname)
    finally:
        os.rmdir(tmpdir)

    # lazy behaviour of the generator: n, m available before the clauses are checked
    g = parsedimacs.parse_dimacs(io.StringIO("p cnf 2 5\n1 2 0\n9 0\n"))
    got = [next(g), next(g), next(g)]
    try:
        next(g)
    except ValueError as e:
        got.append(describe_exc(e))
    log('lazy', got)

    digest = hashlib.sha256("\n".join(LOG).encode('utf-8', 'backslashreplace'))
    print(digest.hexdigest())


if __name__ == '__main__':
    main()
