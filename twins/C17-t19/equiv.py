"""Equivalence script for t19: the "two parsers" argument dispatcher of
cnfgen/clitools/cmdline.py and every command line helper that uses it
(tseitin, subsetcard, op, -T xorcomp, -T majcomp).
Run as: cd <checkout> && /venv/bin/python equiv.py
"""
import sys, os, hashlib, random, io, tempfile, contextlib, inspect, argparse
sys.path.insert(0, os.getcwd())

from cnfgen.clitools.cnfgen import cli as cnfgen_cli
from cnfgen.clitools.pbgen import cli as pbgen_cli
from cnfgen.clitools import cmdline
from cnfgen.clitools.cmdline import CLIParser, CLIError
from cnfgen.clitools.graph_args import make_graph_from_spec
from cnfgen.families.tseitin import TseitinFormula
from cnfgen.families.subsetcardinality import SubsetCardinalityFormula
from cnfgen.families.ordering import OrderingPrinciple, GraphOrderingPrinciple
from cnfgen.families.pigeonhole import PigeonholePrinciple
from cnfgen.transformations.substitutions import VariableCompression
from cnfgen.graphs import readGraph

H = hashlib.sha256()


def rec(*items):
    for it in items:
        H.update(repr(it).encode('utf-8'))
        H.update(b'\x00')


def attempt(label, f):
    err = io.StringIO()
    out = io.StringIO()
    try:
        with contextlib.redirect_stderr(err), contextlib.redirect_stdout(out):
            res = f()
        rec(label, 'OK', res, out.getvalue(), err.getvalue())
    except SystemExit as e:
        rec(label, 'EXIT', e.code, out.getvalue(), err.getvalue())
    except BaseException as e:
        rec(label, 'EXC', type(e).__name__, str(e), out.getvalue(),
            err.getvalue())


def same(F, L):
    return (list(F.clauses()) == list(L.clauses()),
            F.number_of_variables() == L.number_of_variables(),
            list(F.all_variable_labels()) == list(L.all_variable_labels()))


tmp = tempfile.mkdtemp()
old = os.getcwd()
os.chdir(tmp)
try:
    # graphs on disk
    attempt('mk-g', lambda: cnfgen_cli(
        ['cnfgen', '-q', '-S', 1, 'kcolor', 2, 'gnm', 7, 11, 'save', 'g.gml'],
        mode='string'))
    attempt('mk-b', lambda: cnfgen_cli(
        ['cnfgen', '-q', '-S', 2, 'subsetcard', 'glrd', 5, 4, 2, 'save',
         'b.matrix'], mode='string'))
    for fn in ['g.gml', 'b.matrix']:
        with open(fn) as f:
            rec(fn, f.read())

    cmds = []
    # tseitin: shortcut and long form, every charge
    for tail in [[6], [6, 3], [7, 4], [5, 4], [4, 3], [5, 3], [3, 5], [1],
                 [0], [-2], ['2.0'], ['1e1'], [6, 3, 1], [],
                 ['first', 'g.gml'], ['random', 'g.gml'],
                 ['randomodd', 'g.gml'], ['randomeven', 'g.gml'],
                 ['zero', 'g.gml'], ['one', 'g.gml'], ['bogus', 'g.gml'],
                 ['first'], ['first', 'gnd', 6, 3], ['randomodd', 'grid', 2, 3],
                 ['first', 'complete', 4, 'plantclique', 2],
                 ['first', 'nonexistent.gml'], ['g.gml'], ['gnd', 6, 3]]:
        cmds.append(['cnfgen', '-q', '-S', 5, 'tseitin'] + tail)
    # subsetcard
    for tail in [[3], [4, 2], [5, 4], [4, 3], [0], [3, 7], [], ['b.matrix'],
                 ['-e', 'b.matrix'], ['b.matrix', '-e'], ['-e', 4],
                 ['glrm', 3, 4, 6], ['matrix', 'b.matrix'], ['complete', 2, 3],
                 ['nonexistent.matrix'], ['3', 'b.matrix'], ['g.gml']]:
        cmds.append(['cnfgen', '-q', '-S', 6, 'subsetcard'] + tail)
    # op
    for tail in [[4], [1], [0], [5, 2], [6, 3], [5, 3], [4, 4], [], ['g.gml'],
                 ['g.gml', '--plant'], ['--total', 4], ['--smart', 4],
                 ['--knuth2', 4], ['--knuth3', 'g.gml'], ['-p', 5, 2],
                 ['--total', '--smart', 3], ['gnm', 5, 6], ['x'], ['3', 'x'],
                 ['2.5'], ['torus', 3]]:
        cmds.append(['cnfgen', '-q', '-S', 7, 'op'] + tail)
    # -T xorcomp / majcomp
    for tr in ['xorcomp', 'majcomp']:
        for tail in [[5], [5, 2], [4, 4], [3, 4], [0], [], ['b.matrix'],
                     ['glrd', 12, 4, 2], ['complete', 12, 2],
                     ['nonexistent.matrix'], ['g.gml'], [5, 2, 1]]:
            cmds.append(['cnfgen', '-q', '-S', 8, 'php', 4, 3, '-T', tr] +
                        tail)
        cmds.append(['cnfgen', '-q', '-S', 9, 'and', 3, 2, '-T', tr,
                     'b.matrix', '-T', 'flip', '-T', tr, 6, 2])
    for cmd in cmds:
        attempt(('cnfgen', cmd), lambda: cnfgen_cli(cmd, mode='string'))
    for cmd in cmds:
        if '-T' in cmd:
            continue
        pcmd = ['pbgen'] + cmd[1:]
        attempt(('pbgen', pcmd), lambda: pbgen_cli(pcmd, mode='string'))

    # help text of the commands built on the dispatcher
    for sub in ['tseitin', 'subsetcard', 'op']:
        attempt(('help', sub), lambda: cnfgen_cli(['cnfgen', sub, '-h'],
                                                 mode='string'))
    for tr in ['xorcomp', 'majcomp']:
        attempt(('help', tr), lambda: cnfgen_cli(
            ['cnfgen', 'php', 3, 2, '-T', tr, '-h'], mode='string'))

    # comparison with the library
    with open('g.gml') as f:
        G = readGraph(f, 'simple', 'gml')
    with open('b.matrix') as f:
        B = readGraph(f, 'bipartite', 'matrix')
    n = G.order()
    F = cnfgen_cli(['cnfgen', 'tseitin', 'first', 'g.gml'], mode='formula')
    rec('lib-tseitin-first', same(F, TseitinFormula(G, [1] + [0] * (n - 1))))
    F = cnfgen_cli(['cnfgen', 'tseitin', 'one', 'g.gml'], mode='formula')
    rec('lib-tseitin-one', same(F, TseitinFormula(G, [1] * n)))
    F = cnfgen_cli(['cnfgen', 'tseitin', 'zero', 'g.gml'], mode='formula')
    rec('lib-tseitin-zero', same(F, TseitinFormula(G, [0] * n)))
    for e in [False, True]:
        cmd = ['cnfgen', 'subsetcard', 'b.matrix'] + (['-e'] if e else [])
        F = cnfgen_cli(cmd, mode='formula')
        rec('lib-ssc', e, same(F, SubsetCardinalityFormula(B, e)))
    F = cnfgen_cli(['cnfgen', 'op', 5, '--total'], mode='formula')
    rec('lib-op', same(F, OrderingPrinciple(5, True, False, False, None)))
    F = cnfgen_cli(['cnfgen', 'op', 'g.gml', '--plant'], mode='formula')
    rec('lib-gop', same(F, GraphOrderingPrinciple(G, False, False, True,
                                                  None)))
    P = PigeonholePrinciple(2, 2)
    rec('nvars', P.number_of_variables())
    attempt('mk-b4', lambda: cnfgen_cli(
        ['cnfgen', '-q', '-S', 3, 'subsetcard', 'glrd', 4, 3, 2, 'save',
         'b4.matrix'], mode='string'))
    with open('b4.matrix') as f:
        B4 = readGraph(f, 'bipartite', 'matrix')
    for tr, fn in [('xorcomp', 'xor'), ('majcomp', 'maj')]:
        F = cnfgen_cli(['cnfgen', 'php', 2, 2, '-T', tr, 'b4.matrix'],
                       mode='formula')
        rec('lib-comp', tr, same(F, VariableCompression(P, B4, function=fn)))

    # the dispatcher itself (looked up by signature, not by name),
    # with default and custom test functions
    cands = [f for _, f in inspect.getmembers(cmdline, inspect.isfunction)
             if list(inspect.signature(f).parameters) ==
             ['parser1', 'parser2', 'test']]
    rec('ncands', len(cands))
    dispatcher = cands[0]
    rec('doc', dispatcher.__doc__)

    def make(test):
        p1 = CLIParser()
        p1.add_argument('A', type=int)
        p1.add_argument('B', type=int, nargs='?', default=9)
        p2 = CLIParser()
        p2.add_argument('W')
        p2.add_argument('Z', nargs='*')
        top = CLIParser(prog='prog', usage='USAGE', description='DESCR')
        if test == 'default':
            act = dispatcher(p1, p2)
        elif test == 'none':
            act = dispatcher(p1, p2, None)
        else:
            act = dispatcher(p1, p2, test=test)
        top.add_argument('--flag', action='store_true')
        top.add_argument('args', action=act, nargs='*')
        return top, p1, p2

    tests = {'default': 'default', 'none': 'none',
             'len1': lambda v: len(v) == 1,
             'never': lambda v: False, 'always': lambda v: True}
    lines = [[], ['1'], ['1', '2'], ['1', '2', '3'], ['w'], ['w', 'x', 'y'],
             ['--flag', '3'], ['3', '--flag'], ['1.5'], ['-4'], ['inf'],
             ['nan', 'x'], ['1', 'x'], ['']]
    for tn in sorted(tests):
        for line in lines:
            def run():
                top, p1, p2 = make(tests[tn])
                ns = top.parse_args(line)
                # the action is reusable: parse a second line too
                ns2 = top.parse_args(['7'])
                return (sorted(vars(ns).items()), sorted(vars(ns2).items()),
                        p1.prog, p2.prog, p1.usage, p2.usage, p1.description,
                        p2.description)
            attempt(('dispatch', tn, line), run)
finally:
    os.chdir(old)

print(H.hexdigest())
