#!/usr/bin/env python
"""Equivalence script for refactoring t3
(cnfgen.formula.linear.CNFLinear.add_linear, the '!=' case, and its users).

Run as:  cd <checkout> && /venv/bin/python equiv.py
Prints one SHA256 digest of everything observable.
"""
import sys
import os
import hashlib
import warnings

warnings.simplefilter('ignore')
sys.path.insert(0, os.getcwd())

import cnfgen
from cnfgen import CNF
from cnfgen.formula.linear import CNFLinear

H = hashlib.sha256()


def emit(*items):
    for it in items:
        H.update(repr(it).encode('utf-8'))
        H.update(b'\x00')


def snapshot(F):
    hdr = [(k, v) for k, v in F.header.items() if k != 'generator']
    return (hdr,
            F.number_of_variables(),
            F.number_of_clauses(),
            [list(c) for c in F],
            )


OPS = ['<=', '>=', '<', '>', '==', '!=', '=', '=/=', None]

LITS = [
    [],
    [1],
    [-1],
    [1, 2],
    [-1, 2, -3],
    [1, 2, 3, 4],
    [5, -2, 7, -9, 4],
    [1, 1, -1],          # repeated and opposite literals
    [3, -3],
    (2, -4, 6),          # tuple
    range(1, 5),         # range
    [0, 1],              # invalid literal
    ['a', 2],            # invalid literal
    [1.0, 2],            # float
    [None],
]


def run(tag, build, lits_maker, check_same=True):
    F = CNFLinear(description='host')
    F.add_clause([1, -2])
    lits = lits_maker()
    rep = repr(lits)
    try:
        res = build(F, lits)
        emit(tag, 'ok', res)
    except Exception as e:  # noqa
        emit(tag, 'exc', type(e).__name__, str(e))
    emit(tag, snapshot(F))
    if check_same:
        emit(tag, 'arg-same', repr(lits) == rep, rep)


for li, L in enumerate(LITS):
    n = len(L)
    for op in OPS:
        for const in list(range(-2, n + 3)) + [1.5, None]:
            for check in (True, False):
                tag = (li, op, const, check)
                run(tag, lambda F, lits: F.add_linear(lits, op, const, check=check),
                    lambda: type(L)(L) if not isinstance(L, range) else L)
    # generators as argument
    for op in OPS[:6]:
        for const in range(-1, n + 2):
            tag = (li, 'gen', op, const)
            run(tag, lambda F, lits: F.add_linear(lits, op, const),
                lambda: (x for x in L), check_same=False)
    # the named wrappers
    for const in range(-1, n + 2):
        for check in (True, False):
            tag = (li, 'wrap', const, check)
            run(tag + ('neq',), lambda F, lits: F.cardinality_neq(lits, const, check=check),
                lambda: list(L))
            run(tag + ('eq',), lambda F, lits: F.cardinality_eq(lits, const, check=check),
                lambda: list(L))
            run(tag + ('leq',), lambda F, lits: F.cardinality_leq(lits, const, check=check),
                lambda: list(L))
            run(tag + ('geq',), lambda F, lits: F.cardinality_geq(lits, const, check=check),
                lambda: list(L))
    for meth in ('add_loose_majority', 'add_loose_minority',
                 'add_strict_majority', 'add_strict_minority'):
        run((li, meth), lambda F, lits: getattr(F, meth)(lits), lambda: list(L))

# larger instance of !=
for n in (6, 7):
    for const in range(0, n + 1):
        run(('big', n, const),
            lambda F, lits: F.add_linear(lits, '!=', const),
            lambda: [(-1) ** i * (i + 1) for i in range(n)])

# transformations and families that go through add_linear
bases = [CNF(), CNF([[]]), CNF([[1, -2], [2], [-1, -2, 3]], description='b'),
         cnfgen.PigeonholePrinciple(3, 2)]
for bi, B in enumerate(bases):
    before = snapshot(B)
    for k in (1, 2, 3):
        for c in (-1, 0, 1, 2, 3, 4):
            for name in ('AnythingButKSubstitution', 'ExactlyKSubstitution',
                         'AtLeastKSubstitution', 'AtMostKSubstitution'):
                try:
                    out = getattr(cnfgen, name)(B, k, c)
                    emit(bi, name, k, c, snapshot(out),
                         list(out.all_variable_labels()))
                except Exception as e:  # noqa
                    emit(bi, name, k, c, 'exc', type(e).__name__, str(e))
        try:
            out = cnfgen.ExactlyOneSubstitution(B, k)
            emit(bi, 'one', k, snapshot(out))
        except Exception as e:  # noqa
            emit(bi, 'one', k, 'exc', type(e).__name__, str(e))
    emit(bi, 'input-same', snapshot(B) == before)

for F in (cnfgen.CountingPrinciple(5, 2), cnfgen.PerfectMatchingPrinciple(cnfgen.Graph.complete_graph(4)),
          cnfgen.SubsetCardinalityFormula(cnfgen.BipartiteGraph(2, 2)),
          cnfgen.BinaryPigeonholePrinciple(3, 2)):
    emit(snapshot(F))

print(H.hexdigest())
