#!/usr/bin/env python
"""Equivalence script for property C12 (OPB and LaTeX renderings).

Run as:  cd <checkout> && /venv/bin/python equiv.py
Prints one SHA256 digest of everything observable: OPB text, LaTeX
snippets and documents, files written by name, text sent to stdout,
variable labels, exceptions and their messages, command line output.
"""
import sys
import os
import io
import hashlib
import random
import tempfile
import contextlib
import warnings

warnings.simplefilter("ignore")
sys.path.insert(0, os.getcwd())

from cnfgen.info import info
info['version'] = 'VERSION'   # do not depend on `git describe`

from cnfgen.formula.cnf import CNF
from cnfgen.formula.opb import OPB
from cnfgen.formula.cnfio import CNFio, guess_output_format
from cnfgen.formula.opbio import OPBio
from cnfgen.formula.basecnf import BaseCNF
from cnfgen.formula.baseopb import BaseOPB
from cnfgen.formula.variables import VariablesManager
from cnfgen.utils.opb import to_opb_file
from cnfgen.utils.latexoutput import to_latex_string, to_latex_document
import cnfgen.utils.latexoutput as latexoutput

H = hashlib.sha256()
NREC = [0]
DUMP = open(os.environ['C12_DUMP'], 'w') if os.environ.get('C12_DUMP') else None
TMP = tempfile.mkdtemp(prefix='c12equiv')


def rec(*items):
    NREC[0] += 1
    if DUMP is not None:
        DUMP.write(repr(items).replace(TMP, '<TMP>') + '\n')
    for it in items:
        H.update(repr(it).replace(TMP, '<TMP>').encode('utf-8', errors='backslashreplace'))
        H.update(b'\x00')
    H.update(b'\x01')


def attempt(tag, fn, *args, **kwargs):
    """Run fn, record its value or its exception."""
    try:
        res = fn(*args, **kwargs)
    except BaseException as e:  # noqa
        rec(tag, 'EXC', type(e).__name__, str(e))
        return None
    rec(tag, 'OK', res)
    return res


def captured_stdout(fn, *args, **kwargs):
    buf = io.StringIO()
    with contextlib.redirect_stdout(buf):
        try:
            res = fn(*args, **kwargs)
            status = ('OK', res)
        except BaseException as e:  # noqa
            status = ('EXC', type(e).__name__, str(e))
    return status, buf.getvalue()


def all_renderings(tag, F):
    """Every way of rendering F in OPB and LaTeX."""
    attempt(tag + ':n', F.number_of_variables)
    attempt(tag + ':len', len, F)
    attempt(tag + ':labels', lambda: list(F.all_variable_labels()))
    attempt(tag + ':labels_', lambda: list(F.all_variable_labels(default_label_format='y_{}^{{a}}')))
    attempt(tag + ':opb', F.to_opb)
    attempt(tag + ':latex', F.to_latex)
    attempt(tag + ':latexstr', to_latex_string, F)
    for hd in (False, True):
        for vn in (False, True):
            def opbio():
                out = io.StringIO()
                to_opb_file(F, out, export_header=hd, export_varnames=vn)
                return out.getvalue()
            attempt(tag + ':opbfile%d%d' % (hd, vn), opbio)

            def tofile(fmt):
                out = io.StringIO()
                F.to_file(out, fileformat=fmt, export_header=hd,
                          export_varnames=vn, extra_text="EXTRA_%d\n" % vn)
                return out.getvalue()
            attempt(tag + ':tofile_opb%d%d' % (hd, vn), tofile, 'opb')
            attempt(tag + ':tofile_tex%d%d' % (hd, vn), tofile, 'latex')
        def texdoc():
            out = io.StringIO()
            to_latex_document(F, out, export_header=hd)
            return out.getvalue()
        attempt(tag + ':texdoc%d' % hd, texdoc)
    # page splits and compactness in the snippet printer
    for split in (-1, 0, 1, 2, 3, 35):
        for compact in (True, False):
            def snippet():
                out = io.StringIO()
                latexoutput._print_latex(F, out, split_every=split, compact=compact)
                return out.getvalue()
            attempt(tag + ':snippet%d%d' % (split, compact), snippet)
    # by file name, with format guessed from extension
    for ext in ('opb', 'tex'):
        name = os.path.join(TMP, 'f.' + ext)
        if os.path.exists(name):
            os.unlink(name)
        attempt(tag + ':byname:' + ext, F.to_file, name, export_varnames=True)
        if os.path.exists(name):
            with open(name, 'rb') as f:
                rec(tag + ':byname-content:' + ext, f.read())
        else:
            rec(tag + ':byname-missing:' + ext)
    name = os.path.join(TMP, 'g.opb')
    attempt(tag + ':opbbyname', to_opb_file, F, name, export_header=False, export_varnames=True)
    with open(name, 'rb') as f:
        rec(tag + ':opbbyname-content', f.read())
    name = os.path.join(TMP, 'g.tex')
    attempt(tag + ':texbyname', to_latex_document, F, name, export_header=False, extra_text='%x\n')
    with open(name, 'rb') as f:
        rec(tag + ':texbyname-content', f.read())
    # to stdout
    rec(tag + ':stdout-opb', captured_stdout(to_opb_file, F))
    rec(tag + ':stdout-opb2', captured_stdout(F.to_file, None, 'opb', False, True))
    rec(tag + ':stdout-tex', captured_stdout(to_latex_document, F, None))
    rec(tag + ':stdout-tex2', captured_stdout(F.to_file, None, 'latex'))


# ---------------------------------------------------------------- CNF
formulas = []

formulas.append(('cnf-empty', CNF()))
formulas.append(('cnfio-empty', CNFio()))
formulas.append(('cnf-emptyclause', CNF([[]])))
formulas.append(('cnf-emptyclauses', CNF([[], [1, -2], [], [3]])))
formulas.append(('cnf-unit', CNF([[1]])))
formulas.append(('cnf-negunit', CNF([[-1]])))
formulas.append(('cnf-doc', CNF([[-1, 2, -3], [-2, -4], [2, 3, -4]], description='doc_example with_underscores')))
formulas.append(('cnfio-doc', CNFio([[-1, 2, -3], [-2, -4], [2, 3, -4]])))
formulas.append(('basecnf-like', CNFio([[5, -5, 5], [-7]])))

F = CNF([[1, 2]], description='multi\nline\n\ndescription è non ascii ∀')
F.header['empty'] = ''
F.header['number'] = 42
F.header['tail'] = 'ends with newline\n'
formulas.append(('cnf-header', F))

F = CNF()
F.update_variable_number(7)
formulas.append(('cnf-onlyvars', F))

F = CNF()
F.update_variable_number(3)
F.add_clause([1, -3])
F.add_clause([2, 9])
formulas.append(('cnf-extra-vars', F))

# named variables, with gaps and every kind of label shape
F = CNF(description='named')
x = F.new_variable(label='X')
F.update_variable_number(3)
y = F.new_variable(label='Y_1')
z = F.new_block(2, 3, label='z_{{{},{}}}')
w = F.new_variable(label='w^2_3')
e0 = F.new_block(0, 4, label='empty_{}_{}')
u = F.new_variable(label='_lead')
v = F.new_variable(label='^hat')
p = F.new_variable(label='plain')
q = F.new_variable(label='multi\nline label')
r = F.new_variable(label='q^{a}_b')
F.update_variable_number(F.number_of_variables() + 2)
n = F.number_of_variables()
F.add_clause([x, -y, z(1, 1), -z(2, 3)])
F.add_clause([-w, u, -v, p, -p, -u, v, w])
F.add_clause([-q, r, -r, q])
F.add_clause([2, -3, n, -(n - 1)])
F.add_clause([-x])
F.add_clause(list(range(1, n + 1)))
F.add_clause([-i for i in range(1, n + 1)])
formulas.append(('cnf-named', F))

F = CNF()
F.new_block(0, label='a_{}')
F.new_block(0, 0, label='b_{}_{}')
formulas.append(('cnf-only-empty-groups', F))

F = CNF()
F.new_block(0, label='a_{}')
F.update_variable_number(2)
F.new_block(0, 3, label='b_{}_{}')
s = F.new_variable('S')
F.new_block(2, 0, label='c_{}_{}')
F.add_clause([1, -2, s])
formulas.append(('cnf-empty-groups-and-gap', F))

F = CNF()
f = F.new_mapping(3, 2)
F.force_complete_mapping(f)
F.force_injective_mapping(f)
g = F.new_binary_mapping(3, 4)
F.force_injective_mapping(g)
c = F.new_combinations(4, 2)
pp = F.new_permutations(3)
ww = F.new_words(2, 2)
F.add_clause([c(1, 2), -c(3, 4), pp(2, 1, 3), -ww(2, 2)])
formulas.append(('cnf-mappings', F))

import networkx as nx
from cnfgen.graphs import Graph, DirectedGraph, BipartiteGraph
F = CNF()
G = Graph.from_networkx(nx.cycle_graph(5))
eg = F.new_graph_edges(G, label='e_{{{},{}}}')
D = DirectedGraph.from_networkx(nx.DiGraph([(1, 2), (2, 3), (1, 3), (3, 4)]))
ed = F.new_digraph_edges(D)
B = BipartiteGraph(3, 2)
B.add_edge(1, 1)
B.add_edge(2, 2)
B.add_edge(3, 1)
B.add_edge(3, 2)
eb = F.new_bipartite_edges(B, label='b^{}_{}')
sm = F.new_sparse_mapping(B)
for lit in list(eg())[:3]:
    F.add_clause([lit, -lit])
F.add_clause(list(ed()))
F.add_clause([-l for l in eb()])
F.force_complete_mapping(sm)
formulas.append(('cnf-graphs', F))

# page split boundaries
for m in (34, 35, 36, 69, 70, 71, 106):
    F = CNF(description='pages %d' % m)
    a = F.new_block(3, label='a_{}')
    rnd = random.Random(m)
    for i in range(m):
        k = rnd.randint(0, 4)
        F.add_clause([rnd.choice([-1, 1]) * rnd.randint(1, 6) for _ in range(k)])
    formulas.append(('cnf-pages%d' % m, F))

# unchecked weird literals
F = CNF()
F.add_clause([1, 0, -2], check=False)
formulas.append(('cnf-unchecked-zero', F))
F = CNF()
F.add_clause([1, 5], check=False)
formulas.append(('cnf-unchecked-outofrange', F))
F = CNF()
F.update_variable_number(2)
F.add_clause([True, -2], check=False)
formulas.append(('cnf-unchecked-bool', F))
F = CNF()
F.update_variable_number(2)
F.add_clause([1.0, -2.0], check=False)
formulas.append(('cnf-unchecked-float', F))
F = CNF()
F.update_variable_number(2)
F.add_clause(['a', 2], check=False)
formulas.append(('cnf-unchecked-str', F))

# random CNFs
rnd = random.Random(2024)
for t in range(12):
    F = CNF(description='random cnf %d' % t)
    if t % 3 == 0:
        F.new_block(2, 2, label='r_{{{},{}}}')
    if t % 3 == 1:
        F.update_variable_number(2)
        F.new_variable(label='S^%d' % t)
    nv = rnd.randint(1, 9)
    for _ in range(rnd.randint(0, 12)):
        k = rnd.randint(0, 5)
        F.add_clause([rnd.choice([-1, 1]) * rnd.randint(1, nv) for _ in range(k)])
    formulas.append(('cnf-random%d' % t, F))

# ---------------------------------------------------------------- OPB
formulas.append(('opb-empty', OPB()))
formulas.append(('opbio-empty', OPBio()))
formulas.append(('opb-emptycons', OPB([['>=', 0]])))
formulas.append(('opb-emptycons2', OPB([['==', 3], ['<', -2], ['>', 5], ['<=', 0], [(1, 1), '>=', 1], ['>=', 1]])))

F = OPB(description='pb doc_example')
F.cardinality_geq([1, 3, -2, 4], 3)
F.cardinality_eq([1, 3, -2, 4], 3)
F.cardinality_leq([1, 4, 2], 2)
F.add_constraint([(2, 3), (2, -1), (1, -2), ">=", 2])
formulas.append(('opb-doc', F))

F = OPBio()
F.cardinality_geq([1, 2, 4, -3], 3)
F.add_clause([1, -2])
F.add_clause([])
formulas.append(('opbio-doc', F))

F = OPB()
F.add_constraint([(1, 3), (-2, 2), (1, 4), '>', 3])
F.add_constraint([(1, 3), (2, 1), (-3, -2), '==', 3])
F.add_constraint([(2, -3), '<', 1])
F.add_constraint([(0, 1), (0, -2), '>=', 0])
F.add_constraint([(10**20, 1), (-10**20, 2), (7, -5), '<=', -10**21])
F.add_constraint([(1, 1), (1, 1), (1, -1), (3, 1), '==', -4])
F.add_constraint([(5, 2), '>=', -7])
formulas.append(('opb-coefficients', F))

F = OPB(description='pb named é\nsecond line')
x = F.new_variable(label='X')
F.update_variable_number(3)
y = F.new_variable(label='Y_1')
z = F.new_block(2, 2, label='z_{{{},{}}}')
w = F.new_variable(label='w^2_3')
F.new_block(0, label='nothing_{}')
u = F.new_variable(label='_lead')
p = F.new_variable(label='plain')
q = F.new_variable(label='two\nlines')
F.update_variable_number(F.number_of_variables() + 1)
n = F.number_of_variables()
F.add_constraint([(1, x), (2, -y), (3, z(1, 2)), (1, -z(2, 2)), '>=', 3])
F.add_constraint([(1, -w), (4, u), (1, -u), (2, p), (7, -p), (1, w), '==', 5])
F.add_constraint([(2, q), (1, -q), (1, 2), (1, -3), (9, n), (1, -n), '<', 5])
F.add_clause([x, -y])
F.add_clause([])
F.add_parity([x, y, -p], 1)
F.cardinality_neq([x, y, p], 2)
F.add_loose_majority([x, -y, p])
F.add_strict_minority([x, -y, p, u])
formulas.append(('opb-named', F))

F = OPB()
f = F.new_mapping(4, 3)
F.force_complete_mapping(f)
F.force_injective_mapping(f)
F.force_functional_mapping(f)
formulas.append(('opb-php', F))

for m in (34, 35, 36, 70, 71):
    F = OPB(description='pb pages %d' % m)
    F.new_block(2, label='b_{}')
    rnd = random.Random(1000 + m)
    for i in range(m):
        k = rnd.randint(0, 4)
        lin = [(rnd.randint(-4, 6), rnd.choice([-1, 1]) * rnd.randint(1, 5)) for _ in range(k)]
        F.add_constraint(lin + [rnd.choice(['>=', '<=', '==', '<', '>']), rnd.randint(-5, 8)])
    formulas.append(('opb-pages%d' % m, F))

# unchecked weird constraints
F = OPB()
F.add_constraint([(1, 0), (2, -1), '>=', 1], check=False)
formulas.append(('opb-unchecked-zero', F))
F = OPB()
F.add_constraint([(1, 4), (2, -1), '>=', 1], check=False)
formulas.append(('opb-unchecked-outofrange', F))
F = OPB()
F.update_variable_number(3)
F.add_constraint([(1.5, 2), (2, -1), '>=', 1.5], check=False)
F.add_constraint([(True, 3), (2, True), '==', False], check=False)
formulas.append(('opb-unchecked-float', F))
F = OPB()
F.update_variable_number(3)
F._constraints.append([(1, 1), (1, -2), 'weird', 2])
F._constraints.append([('a', 1), '>=', 2])
formulas.append(('opb-raw-operator', F))
F = OPB()
F.update_variable_number(2)
F._constraints.append([(1, 1), (-3, -2), '>=', 2])
F._constraints.append([(1, 1), (0, 2), '==', 0])
formulas.append(('opb-raw-negative-coeff', F))
F = OPB()
F.update_variable_number(2)
F._constraints.append([(1, 'a'), '>=', 2])
formulas.append(('opb-raw-strlit', F))

rnd = random.Random(77)
for t in range(12):
    F = OPB(description='random opb %d' % t)
    if t % 3 == 0:
        F.new_block(3, label='r_{}')
    if t % 3 == 1:
        F.update_variable_number(1)
        F.new_variable(label='T_%d^x' % t)
    nv = rnd.randint(1, 8)
    for _ in range(rnd.randint(0, 10)):
        k = rnd.randint(0, 5)
        lin = [(rnd.randint(-9, 9), rnd.choice([-1, 1]) * rnd.randint(1, nv)) for _ in range(k)]
        F.add_constraint(lin + [rnd.choice(['>=', '<=', '==', '<', '>']), rnd.randint(-10, 10)])
    formulas.append(('opb-random%d' % t, F))

for tag, F in formulas:
    all_renderings(tag, F)

# --------------------------------------- a bare variable manager
for base in (BaseCNF, BaseOPB):
    Fb = base()
    V = VariablesManager(Fb)
    attempt('vm0:' + base.__name__, lambda: list(V.all_variable_labels()))
    Fb.update_variable_number(2)
    V.new_variable(label='A')
    V.new_block(0, label='n_{}')
    V.new_block(2, label='m_{}')
    Fb.update_variable_number(7)
    attempt('vm1:' + base.__name__, lambda: list(V.all_variable_labels()))
    attempt('vm2:' + base.__name__, lambda: list(V.all_variable_labels('v{}_{}')))
    attempt('vm3:' + base.__name__, lambda: list(V.all_variable_labels('v{')))
    attempt('vm4:' + base.__name__, lambda: list(V.all_variable_labels(None)))
    gen = V.all_variable_labels()
    first = next(gen)
    Fb.update_variable_number(9)     # after the generator started
    attempt('vm5:' + base.__name__, lambda: [first] + list(gen))
    gen = V.all_variable_labels()
    Fb.update_variable_number(11)    # before the generator started
    attempt('vm6:' + base.__name__, lambda: list(gen))
    attempt('vm7:' + base.__name__, lambda: list(Fb.all_variable_labels('k{}')))

# a formula that is neither CNF nor OPB, and bad arguments
class Strange:
    header = {'description': 'strange_thing'}
    def number_of_variables(self): return 2
    def number_of_clauses(self): return 1
    def __len__(self): return 1
    def __iter__(self): return iter([[(1, 1), (2, -2), '>=', 1]])
    def __getitem__(self, i): return [(1, 1), (2, -2), '>=', 1]
    def all_variable_labels(self, default_label_format='x{}'):
        return ['s_1', 't']

def strange_opb():
    out = io.StringIO()
    to_opb_file(Strange(), out, export_varnames=True)
    return out.getvalue()
attempt('strange-opb', strange_opb)
attempt('strange-latex', to_latex_string, Strange())
def strange_doc():
    out = io.StringIO()
    to_latex_document(Strange(), out)
    return out.getvalue()
attempt('strange-doc', strange_doc)
attempt('none-opb', to_opb_file, None, io.StringIO())
attempt('none-latex', to_latex_string, None)
attempt('badfile-opb', to_opb_file, CNF([[1]]), 42)
attempt('badfile-tex', to_latex_document, CNF([[1]]), 42)
attempt('baddir-opb', to_opb_file, CNF([[1]]), os.path.join(TMP, 'no', 'such', 'dir.opb'))
attempt('baddir-tex', to_latex_document, CNF([[1]]), os.path.join(TMP, 'no', 'such', 'dir.tex'))

# output format guessing
class Named:
    def __init__(self, name): self.name = name
for fn in ('a.tex', 'a.opb', 'a.cnf', 'a', '', '.tex', 'a.tex.opb', 'A.TEX', None, 42,
           Named('b.tex'), Named('b.opb'), Named(None), Named(7), io.StringIO()):
    for req in (None, 'latex', 'dimacs', 'opb', 'tex', '', 0):
        attempt('guess', guess_output_format, fn, req)

# ------------------------------------------------ command line tools
from cnfgen.clitools.cnfgen import cli as cnfgen_cli
from cnfgen.clitools.pbgen import cli as pbgen_cli

def run_cli(tag, cli, argv, mode):
    err = io.StringIO()
    random.seed(20240612)
    with contextlib.redirect_stderr(err):
        status, out = captured_stdout(cli, argv, mode=mode)
    if status[0] == 'OK' and mode == 'formula':
        status = ('OK', 'formula')
    rec(tag, argv, mode, status, out, err.getvalue())

cnf_cmds = [
    ['php', 3, 2], ['php', 5, 4], ['and', 0, 0], ['and', 2, 1], ['or', 0, 0],
    ['op', 3], ['parity', 3], ['randkcnf', 3, 5, 40], ['--seed', 7, 'randkcnf', 2, 4, 20],
    ['tseitin', 'randomodd', 'complete', 4], ['peb', 'pyramid', 3],
    ['php', 3, 2, '-T', 'xor', 2], ['count', 4, 2], ['cliquecoloring', 4, 2, 2],
]
for cmd in cnf_cmds:
    for fmt in (['-of', 'opb'], ['-of', 'latex'], ['-l'], ['-o', os.path.join(TMP, 'cli.opb')],
                ['-o', os.path.join(TMP, 'cli.tex')]):
        for extra in ([], ['-v'], ['--varnames'], ['-q']):
            argv = ['cnfgen'] + fmt + extra + cmd
            run_cli('cnfgen-string', cnfgen_cli, argv, 'string')
            if extra != ['-q'] or fmt[0] == '-o':
                run_cli('cnfgen-output', cnfgen_cli, argv, 'output')
            if fmt[0] == '-o':
                with open(fmt[1], 'rb') as f:
                    rec('cnfgen-file', f.read())

pb_cmds = [
    ['php', 3, 2], ['php', 6, 6], ['php', 0, 0], ['php', 3, 2, '--functional'],
    ['php', 7, 6, '--onto'],
]
for cmd in pb_cmds:
    for fmt in ([], ['-of', 'opb'], ['-of', 'latex'], ['-l'], ['-o', os.path.join(TMP, 'pb.opb')],
                ['-o', os.path.join(TMP, 'pb.tex')], ['-o', os.path.join(TMP, 'pb.cnf')],
                ['-of', 'dimacs']):
        for extra in ([], ['-v'], ['--varnames'], ['-v', '--varnames']):
            argv = ['pbgen'] + fmt + extra + cmd
            run_cli('pbgen-string', pbgen_cli, argv, 'string')
            run_cli('pbgen-output', pbgen_cli, argv, 'output')
            if fmt and fmt[0] == '-o' and os.path.exists(fmt[1]):
                with open(fmt[1], 'rb') as f:
                    rec('pbgen-file', f.read())
run_cli('pbgen-T', pbgen_cli, ['pbgen', 'php', 3, 2, '-T', 'xor', 2], 'string')
run_cli('pbgen-nothing', pbgen_cli, ['pbgen'], 'string')
run_cli('pbgen-help', pbgen_cli, ['pbgen', '-h'], 'string')

import shutil
shutil.rmtree(TMP, ignore_errors=True)

sys.stderr.write("records: %d\n" % NREC[0])
print(H.hexdigest())
