#!/usr/bin/env python
"""Equivalence check for cnfgen.graphs.split_random_edges (and the
'splitedges' command line option built on top of it)."""
import sys
import os
import io
import random
import hashlib
import tempfile
import contextlib

sys.path.insert(0, os.getcwd())

from cnfgen.graphs import Graph, BipartiteGraph, DirectedGraph
from cnfgen.graphs import split_random_edges
from cnfgen.clitools import make_graph_from_spec
from cnfgen.clitools import cnfgen as cnfgen_cli
from cnfgen.clitools import CLIError

H = hashlib.sha256()


def emit(*items):
    H.update((" ".join(str(x) for x in items) + "\n").encode('utf-8'))


def describe(G):
    return (type(G).__name__, G.number_of_vertices(), G.number_of_edges(),
            sorted(G.edges()), getattr(G, 'name', None))


def attempt(label, fn):
    try:
        res = fn()
        emit(label, 'OK', res)
    except BaseException as e:  # noqa
        emit(label, 'EXC', type(e).__name__, str(e))
    emit(label, 'rnd', random.random())


# ---- direct calls ----
def base_graph(kind, n):
    if kind == 'complete':
        return Graph.complete_graph(n)
    if kind == 'empty':
        return Graph.empty_graph(n)
    if kind == 'star':
        return Graph.star_graph(n)
    G = Graph(n)
    for u in range(1, n):
        G.add_edge(u, u + 1)
    if n > 2:
        G.add_edge(1, n)
    return G


for kind in ['complete', 'empty', 'star', 'cycle']:
    for n in [1, 2, 3, 4, 6, 9]:
        G0 = base_graph(kind, n)
        m = G0.number_of_edges()
        for k in sorted(set([-1, 0, 1, 2, m - 1, m, m + 1, m + 5])):
            for seed in [None, 0, 7, 'abc']:
                def run(kind=kind, n=n, k=k, seed=seed):
                    G = base_graph(kind, n)
                    random.seed(1234)
                    ret = split_random_edges(G, k, seed=seed)
                    return (ret, describe(G),
                            [G.degree(v) for v in G.vertices()])
                attempt(('direct', kind, n, k, seed), run)

# wrong kinds of arguments
for k in [1.0, 2.5, '2', None, True]:
    def run(k=k):
        G = Graph.complete_graph(4)
        random.seed(5)
        split_random_edges(G, k)
        return describe(G)
    attempt(('badk', repr(k)), run)

for other in [BipartiteGraph(2, 3), DirectedGraph(3), None, 5]:
    def run(other=other):
        random.seed(5)
        split_random_edges(other, 0)
        return 'done'
    attempt(('badG', type(other).__name__), run)

# ---- through the graph specification parser ----
specs = [
    'complete 5 splitedges 0', 'complete 5 splitedges 1',
    'complete 5 splitedges 10', 'complete 5 splitedges 11',
    'complete 5 splitedges -1', 'complete 5 splitedges 2.5',
    'complete 5 splitedges', 'complete 5 splitedges 1 2',
    'complete 1 splitedges 0', 'complete 1 splitedges 1',
    'empty 4 splitedges 0', 'empty 4 splitedges 1',
    'gnm 8 12 splitedges 5', 'gnm 8 12 splitedges 12', 'gnm 8 12 splitedges 13',
    'gnp 7 .5 splitedges 3', 'gnd 8 3 splitedges 4',
    'grid 3 3 splitedges 6', 'torus 3 4 splitedges 7',
    'gnm 8 12 addedges 3 splitedges 15', 'gnm 8 12 addedges 3 splitedges 16',
    'gnm 8 12 splitedges 4 addedges 3',
    'complete 4 plantclique 3 splitedges 2',
    'gnm 6 3 plantclique 4 addedges 2 splitedges 5',
    'complete 3 2 splitedges 4',
    'gnm 6 6 splitedges 3 splitedges 2',
]
for spec in specs:
    for seed in [1, 42]:
        def run(spec=spec, seed=seed):
            random.seed(seed)
            return describe(make_graph_from_spec('simple', spec))
        attempt(('spec', spec, seed), run)

for spec in ['complete 3 3 splitedges 1', 'glrm 3 3 4 splitedges 2']:
    attempt(('bspec', spec),
            lambda spec=spec: describe(make_graph_from_spec('bipartite', spec)))
for spec in ['path 3 splitedges 1', 'tree 2 splitedges 2']:
    attempt(('dspec', spec),
            lambda spec=spec: describe(make_graph_from_spec('dag', spec)))

# ---- through the cnfgen command line, including 'save' ----
tmpdir = tempfile.mkdtemp()
cmdlines = [
    ['cnfgen', '-q', '--seed', '3', 'tseitin', 'first', 'gnm', 7, 10, 'splitedges', 4],
    ['cnfgen', '-q', '--seed', '3', 'kcolor', 3, 'complete', 4, 'splitedges', 6],
    ['cnfgen', '-q', '--seed', '3', 'kcolor', 3, 'complete', 4, 'splitedges', 7],
    ['cnfgen', '-q', '--seed', '5', 'domset', 2, 'grid', 3, 2, 'splitedges', 3],
    ['cnfgen', '-q', '--seed', '5', 'kclique', 3, 'gnp', 6, 0.6, 'splitedges', 2],
    ['cnfgen', '-q', '--seed', '5', 'kclique', 3, 'gnp', 6, 0.6, 'splitedges', -2],
    ['cnfgen', '-q', '--seed', '8', 'ec', 'gnd', 6, 3, 'splitedges', 9],
]
for fmt in ['kthlist', 'dimacs', 'matrix', 'gml']:
    if fmt == 'matrix':
        continue
    cmdlines.append(['cnfgen', '-q', '--seed', '11', 'kcolor', 3, 'gnm', 6, 7,
                     'splitedges', 3, 'save', fmt,
                     os.path.join(tmpdir, 'saved.' + fmt)])

for cmd in cmdlines:
    def run(cmd=cmd):
        out = io.StringIO()
        err = io.StringIO()
        try:
            with contextlib.redirect_stdout(out), contextlib.redirect_stderr(err):
                res = cnfgen_cli(cmd, mode='string')
        except SystemExit as e:
            return ('exit', e.code, out.getvalue(), err.getvalue())
        return (res, out.getvalue(), err.getvalue())
    label = [str(x).replace(tmpdir, '<TMP>') for x in cmd]
    try:
        res = run()
        emit(label, 'OK', str(res).replace(tmpdir, '<TMP>'))
    except BaseException as e:  # noqa
        emit(label, 'EXC', type(e).__name__, str(e).replace(tmpdir, '<TMP>'))

for name in sorted(os.listdir(tmpdir)):
    with open(os.path.join(tmpdir, name), encoding='utf-8') as f:
        emit('file', name, f.read())
    os.remove(os.path.join(tmpdir, name))
os.rmdir(tmpdir)

print(H.hexdigest())
