#!/usr/bin/env python
"""Equivalence digest for cnfgen.clitools.cnfgen.parse_command_line
(splitting the command line around '-T' and parsing every chunk)."""
import hashlib
import io
import os
import random
import sys
import contextlib

sys.path.insert(0, os.getcwd())

from cnfgen.clitools.cnfgen import cli, parse_command_line
from cnfgen.clitools.cnfgen import setup_command_line_parsers
from cnfgen.clitools.cmdline import get_formula_helpers
from cnfgen.clitools.cmdline import get_transformation_helpers

H = hashlib.sha256()


def record(*items):
    for it in items:
        H.update(repr(it).encode('utf-8'))
        H.update(b'\x00')


def ns_dump(ns):
    out = []
    for k, v in sorted(vars(ns).items()):
        if k in ('generator', 'transformation'):
            out.append((k, v.name))
        elif isinstance(v, (int, float, str, bool, type(None), list, tuple)):
            out.append((k, repr(v)))
        elif hasattr(v, 'number_of_edges'):
            try:
                out.append((k, type(v).__name__, v.number_of_vertices(),
                            sorted(v.edges())))
            except Exception as e:
                out.append((k, type(v).__name__, repr(e)))
        else:
            out.append((k, type(v).__name__))
    return out


def run(argv, mode='string'):
    random.seed(12345)
    err = io.StringIO()
    out = io.StringIO()
    try:
        with contextlib.redirect_stderr(err), contextlib.redirect_stdout(out):
            res = cli(argv, mode=mode)
        if mode == 'formula':
            res = (res.number_of_variables(), list(res.clauses()),
                   list(res.all_variable_labels()),
                   sorted((k, str(v)) for k, v in res.header.items()))
        record('OK', argv, res, out.getvalue(), err.getvalue())
    except SystemExit as e:
        record('EXIT', argv, e.code, out.getvalue(), err.getvalue())
    except BaseException as e:
        record('EXC', argv, type(e).__name__, str(e), out.getvalue(),
               err.getvalue())


# 1. direct calls to parse_command_line
parser, t_parser = setup_command_line_parsers('cnfgen', get_formula_helpers(),
                                              get_transformation_helpers())
direct = [
    ['cnfgen', 'php', '3', '2'],
    ['cnfgen', '-q', 'php', '3', '2', '-T', 'xor', '2'],
    ['cnfgen', 'op', '4', '-T', 'or', '2', '-T', 'flip', '-T', 'none'],
    ['cnfgen', 'op', '4', '-T'],
    ['cnfgen', '-T', 'xor', '2'],
    ['cnfgen'],
    [],
    ['-T'],
    ['-T', '-T'],
    ['cnfgen', 'php', '3', '2', '-T', '-T', 'xor', '2'],
    ['cnfgen', 'php', '3', '2', '-T', 'xor'],
    ['cnfgen', 'php', '3', '2', '-T', 'foo', '2'],
    ['cnfgen', 'php', '3', '-T', 'xor', '2'],
    ['cnfgen', 'nosuch', '3', '-T', 'xor', '2'],
    ['cnfgen', 'php', '3', '2', '-Txor', '2'],
    ['cnfgen', 'php', '3', '2', '-T', 'shuffle', '-p', '-T', 'lift', '3'],
    ['cnfgen', '-S', '7', 'randkcnf', '3', '6', '9', '-T', 'shuffle'],
    ['cnfgen', 'peb', 'pyramid', '2', '-T', 'xor', 'bad'],
    ['cnfgen', 'peb', 'pyramid', '2', '-T', 'xor', '2', '-T', 'or', 'bad'],
    ['cnfgen', 'php', 'a', 'b', '-T', 'xor', 'bad'],
]
for argv in direct:
    random.seed(99)
    try:
        fargs, targs = parse_command_line(list(argv), parser, t_parser)
        record('PARSE', argv, ns_dump(fargs), type(targs).__name__,
               len(targs), [ns_dump(t) for t in targs])
    except SystemExit as e:
        record('PEXIT', argv, e.code)
    except BaseException as e:
        record('PEXC', argv, type(e).__name__, str(e))

# 2. whole command lines with transformation chains
formulas = [
    ['php', '4', '3'],
    ['php', '--functional', '3', '2'],
    ['op', '4'],
    ['peb', 'pyramid', '3'],
    ['tseitin', 'first', 'grid', '3', '3'],
    ['randkcnf', '3', '7', '11'],
    ['parity', '4'],
]
chains = [
    [],
    [['none']],
    [['xor', '2']],
    [['or', '2'], ['flip']],
    [['flip'], ['or', '2']],
    [['eq', '2'], ['flip']],
    [['neq', '2']],
    [['flip'], ['xor', '2'], ['none']],
    [['lift', '2']],
    [['shuffle']],
    [['shuffle', '-p'], ['or', '3'], ['shuffle', '-c', '-v']],
    [['exact', '3', '2'], ['flip']],
    [['maj', '3']],
    [['ite']],
    [['one', '2'], ['flip'], ['none'], ['flip']],
    [['atleast', '2', '1']],
    [['atmost', '2', '1'], ['none']],
    [['xorcomp', '6', '2']],
    [[]],
    [['xor', '2'], []],
    [['xor']],
    [['bogus']],
    [['xor', '0']],
    [['or', '2'], ['exact', '2', '5']],
]
for f in formulas:
    for ch in chains:
        for opts in (['-q'], ['-S', '42', '--output-format', 'opb']):
            argv = ['cnfgen'] + opts + f
            for c in ch:
                argv = argv + ['-T'] + c
            run(argv, 'string')
        argv = ['cnfgen', '-S', '3'] + f
        for c in ch:
            argv = argv + ['-T'] + c
        run(argv, 'formula')

# 3. non string tokens, odd positions of -T
run(['cnfgen', '-q', 'php', 4, 3, '-T', 'xor', 2])
run(['cnfgen', '-T', 'xor', 2, 'php', 4, 3])
run(['cnfgen', '-q', '-T', 'xor', 2])
run(['cnfgen', '-q', 'php', 4, 3, '-T', '-T'])
run(['-T', 'php', 4, 3])
run(['cnfgen', '-q', 'php', 2, 1, '-T', 'xor', 2, '-T', 'or', 2, '-T', 'xor', 2, '-T', 'flip'])

print(H.hexdigest())
