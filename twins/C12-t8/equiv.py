#!/usr/bin/env python
"""Equivalence script for C12/t8: to_latex_document (cnfgen/utils/latexoutput.py),
the full-document LaTeX rendering with page splits.

Run as:  cd <checkout> && /venv/bin/python equiv.py
Prints one SHA256 digest of everything observable (text written, the exact
sequence of write() calls, exceptions and partial output on failing streams).
"""
import hashlib
import io
import os
import random
import shutil
import sys
import tempfile
import warnings
from collections import OrderedDict
from contextlib import redirect_stdout, redirect_stderr

warnings.simplefilter("ignore")
sys.path.insert(0, os.getcwd())

from cnfgen.utils.latexoutput import to_latex_document, to_latex_string
from cnfgen.formula.cnf import CNF
from cnfgen.formula.opb import OPB
from cnfgen.formula.cnfio import CNFio
from cnfgen.formula.opbio import OPBio
from cnfgen.formula.basecnf import BaseCNF
from cnfgen.formula.baseopb import BaseOPB

H = hashlib.sha256()
tmpdir = tempfile.mkdtemp(prefix="c12t8_")


def rec(*items):
    for it in items:
        H.update(repr(it).replace(tmpdir, "<TMP>").encode("utf-8", errors="replace"))
        H.update(b"\x00")
    H.update(b"\n")


def attempt(label, fn, *args, **kwargs):
    try:
        res = fn(*args, **kwargs)
        rec(label, "OK", res)
        return res
    except BaseException as e:  # noqa
        rec(label, "EXC", type(e).__name__, str(e))
        return None


class Recorder:
    """File-like object logging each write call; may fail after some calls"""

    def __init__(self, fail_after=None, exc=OSError):
        self.calls = []
        self.fail_after = fail_after
        self.exc = exc

    def write(self, text):
        if self.fail_after is not None and len(self.calls) >= self.fail_after:
            raise self.exc("write number %d refused" % (len(self.calls) + 1))
        self.calls.append(text)
        return len(text)


class StrLike(str):
    """A str subclass used as a file name"""


def cnf_rows(m, seed=0, named=False):
    rng = random.Random(1000 * m + seed)
    F = CNF(description="cnf_with_%d_rows" % m)
    if named:
        F.new_variable("A")
        F.new_block(2, 2, label="p_{{{},{}}}")
        F.new_variable("q^2_3")
        F.new_variable("r^{a}")
        F.update_variable_number(9)
    n = max(F.number_of_variables(), 6)
    F.update_variable_number(n)
    for i in range(m):
        k = 0 if i % 11 == 3 else rng.randint(1, 4)
        F.add_clause([v * rng.choice([1, -1]) for v in rng.sample(range(1, n + 1), k)])
    return F


def opb_rows(m, seed=0, named=False):
    rng = random.Random(2000 * m + seed)
    F = OPB(description="opb_with_%d_rows" % m)
    if named:
        F.new_variable("w^2")
        F.new_combinations(3, 2)
        F.new_variable("t_1^2")
        F.update_variable_number(7)
    n = max(F.number_of_variables(), 5)
    F.update_variable_number(n)
    for i in range(m):
        k = 0 if i % 9 == 2 else rng.randint(1, 4)
        lits = [v * rng.choice([1, -1]) for v in rng.sample(range(1, n + 1), k)]
        F.add_constraint([(rng.randint(-4, 7), l) for l in lits]
                         + [rng.choice([">=", "<=", "==", ">", "<"]), rng.randint(-3, 6)])
    return F


SIZES = [0, 1, 2, 34, 35, 36, 69, 70, 71, 105, 106]
HEADERS = [
    None,
    OrderedDict([("description", "under_score_title")]),
    OrderedDict([("description", "multi\nline title_x"), ("other", "three\nmore\nlines\n")]),
    OrderedDict([("description", "café ∀x_1"), ("über", "naïve")]),
    OrderedDict([("description", ""), ("", ""), ("empty", "\n")]),
    OrderedDict([("description", "\\end{lstlisting} % {braces}"), (3, None), (("a", 1), [1, 2])]),
    {"z": "no description first", "description": "plain_dict"},
]
EXTRAS = ["", "EXTRA TEXT\n", "\\noindent\\textbf{Docstring:}\n\\begin{lstlisting}\nfoo_bar\n\\end{lstlisting}\n\n"]

# ------------------------------------------------------------------ main sweep
for kind, mk in (("cnf", cnf_rows), ("opb", opb_rows)):
    for m in SIZES:
        for named in (False, True):
            for hi, hd in enumerate(HEADERS):
                for eh in (True, False):
                    xi = (m + hi) % len(EXTRAS)
                    F = mk(m, named=named)
                    if hd is not None:
                        F.header = hd
                    label = ("sweep", kind, m, named, hi, eh, xi)
                    r = Recorder()
                    attempt(label, to_latex_document, F, r, export_header=eh, extra_text=EXTRAS[xi])
                    rec(label, "calls", r.calls)
                    text = "".join(r.calls)
                    rec(label, "counts", text.count("\\pagebreak"), text.count("\\begin{align}"),
                        text.count("\\\\\n"), text.count("\\square"), text.count("\\top"))

# defaults, snippet form, to_file
for kind, mk in (("cnf", cnf_rows), ("opb", opb_rows)):
    for m in (0, 1, 36, 71):
        F = mk(m, named=True)
        buf = io.StringIO()
        attempt(("defaults", kind, m), to_latex_document, F, buf)
        rec(("defaults", kind, m), buf.getvalue())
        attempt(("snippet", kind, m), to_latex_string, F)
        attempt(("to_latex", kind, m), F.to_latex)
        for eh in (True, False):
            buf = io.StringIO()
            attempt(("to_file", kind, m, eh), F.to_file, buf, fileformat="latex",
                    export_header=eh, export_varnames=eh, extra_text="X\n")
            rec(("to_file", kind, m, eh), buf.getvalue())

# formulas of the base classes and of the io classes
for label, F in [("basecnf", BaseCNF([[1, -2], [], [3]])),
                 ("baseopb", BaseOPB([[(2, 1), (1, -2), ">=", 2], [(1, 3), "==", 1], [">=", 0]])),
                 ("cnfio", CNFio([[1], [-1, 2]], description="io_cnf")),
                 ("opbio", OPBio([[(1, 1), (3, 2), "<=", 2]], description="io_opb")),
                 ("basecnf0", BaseCNF()), ("baseopb0", BaseOPB())]:
    r = Recorder()
    attempt(("classes", label), to_latex_document, F, r)
    rec(("classes", label), r.calls)

# ------------------------------------------------------------ broken headers
for kind, mk in (("cnf", cnf_rows), ("opb", opb_rows)):
    for hi, hd in enumerate([OrderedDict(), OrderedDict([("title", "no description")]),
                             OrderedDict([("description", 12)]), OrderedDict([("description", None)]),
                             OrderedDict([("description", b"bytes_title")]),
                             None, [("description", "list")], "description", 7]):
        for eh in (True, False):
            F = mk(3)
            F.header = hd
            r = Recorder()
            attempt(("badheader", kind, hi, eh), to_latex_document, F, r, export_header=eh)
            rec(("badheader", kind, hi, eh), r.calls)
    for xi, extra in enumerate([None, 5, b"bytes", ["list"]]):
        F = mk(2)
        r = Recorder()
        attempt(("badextra", kind, xi), to_latex_document, F, r, extra_text=extra)
        rec(("badextra", kind, xi), r.calls)

# ----------------------------------------------------- failing output streams
for kind, mk in (("cnf", cnf_rows), ("opb", opb_rows)):
    for m in (0, 2, 37):
        for k in list(range(0, 26)) + [40, 60, 80]:
            for exc in (OSError, ValueError):
                F = mk(m, named=True)
                r = Recorder(fail_after=k, exc=exc)
                label = ("failing", kind, m, k, exc.__name__)
                attempt(label, to_latex_document, F, r, export_header=True, extra_text="E\n")
                rec(label, r.calls)


class NoWrite:
    pass


for kind, mk in (("cnf", cnf_rows), ("opb", opb_rows)):
    F = mk(2)
    attempt(("nowrite", kind), to_latex_document, F, NoWrite())
    closed = io.StringIO()
    closed.close()
    attempt(("closed", kind), to_latex_document, F, closed)
    attempt(("int-target", kind), to_latex_document, F, 5)
    attempt(("bytes-name", kind), to_latex_document, F, b"name.tex")
    attempt(("false-target", kind), to_latex_document, F, False)
    attempt(("zero-target", kind), to_latex_document, F, 0)
    binary = io.BytesIO()
    attempt(("bytes-target", kind), to_latex_document, F, binary)
    rec(("bytes-target", kind), binary.getvalue())

# ----------------------------------------------------- file names and stdout
for kind, mk in (("cnf", cnf_rows), ("opb", opb_rows)):
    for m in (0, 1, 35, 36, 72):
        for eh in (True, False):
            F = mk(m, named=True)
            F.header["unicode"] = "café\nsecond"
            F.header["description"] = "títle_%d" % m
            path = os.path.join(tmpdir, "f_%s_%d_%d.tex" % (kind, m, eh))
            res = attempt(("filename", kind, m, eh), to_latex_document, F, path,
                          export_header=eh, extra_text="ünï\n")
            with open(path, "rb") as fh:
                rec(("filename", kind, m, eh), fh.read())
            path2 = StrLike(os.path.join(tmpdir, "g_%s_%d_%d.tex" % (kind, m, eh)))
            attempt(("strlike", kind, m, eh), to_latex_document, F, path2, export_header=eh)
            with open(path2, "rb") as fh:
                rec(("strlike", kind, m, eh), fh.read())
            out = io.StringIO()
            with redirect_stdout(out):
                attempt(("stdout", kind, m, eh), to_latex_document, F, None, export_header=eh)
            rec(("stdout", kind, m, eh), out.getvalue())
            # existing files are overwritten, not appended
            attempt(("overwrite", kind, m, eh), to_latex_document, mk(1), path, export_header=False)
            with open(path, "rb") as fh:
                rec(("overwrite", kind, m, eh), fh.read())

attempt(("missing-dir",), to_latex_document, cnf_rows(2), os.path.join(tmpdir, "no", "such", "dir.tex"))
attempt(("is-a-dir",), to_latex_document, cnf_rows(2), tmpdir)
attempt(("empty-name",), to_latex_document, cnf_rows(2), "")
# an error while writing to a named file: the file is closed and keeps the partial text
Fbad = cnf_rows(2)
Fbad.header = OrderedDict([("title", "no description")])
pbad = os.path.join(tmpdir, "partial.tex")
attempt(("partial",), to_latex_document, Fbad, pbad)
with open(pbad, "rb") as fh:
    rec(("partial",), fh.read())

# ----------------------------------------------------------- command lines
from cnfgen.clitools.cnfgen import cli as cnfgen_cli
from cnfgen.clitools.pbgen import cli as pbgen_cli

for k, (cli, argv) in enumerate([
        (cnfgen_cli, ["cnfgen", "-of", "latex", "php", "3", "2"]),
        (cnfgen_cli, ["cnfgen", "-q", "-l", "op", "4"]),
        (cnfgen_cli, ["cnfgen", "-l", "--seed", "5", "randkcnf", "3", "5", "7"]),
        (cnfgen_cli, ["cnfgen", "-l", "peb", "pyramid", "2", "-T", "xor", "2"]),
        (cnfgen_cli, ["cnfgen", "-o", os.path.join(tmpdir, "cli.tex"), "php", "5", "3"]),
        (pbgen_cli, ["pbgen", "-l", "php", "6", "5"]),
        (pbgen_cli, ["pbgen", "-q", "-of", "latex", "php", "3", "2"]),
        (pbgen_cli, ["pbgen", "-o", os.path.join(tmpdir, "pb.tex"), "php", "2", "2"])]):
    out, err = io.StringIO(), io.StringIO()
    with redirect_stdout(out), redirect_stderr(err):
        try:
            res = cli(argv, mode="output")
            rec(("cli", k), "OK", res)
        except BaseException as e:  # noqa
            rec(("cli", k), "EXC", type(e).__name__, str(e))
    rec(("cli", k), out.getvalue(), err.getvalue())
for name in ("cli.tex", "pb.tex"):
    with open(os.path.join(tmpdir, name), "rb") as fh:
        rec(("cli-file", name), fh.read())

shutil.rmtree(tmpdir, ignore_errors=True)
print(H.hexdigest())
