#!/usr/bin/env python
"""Equivalence check for refactoring t23 (property C18).

Exercises cnfgen.graphs.writeGraph on every graph type and file format
(streams, file names, file handles, format given or guessed from the
extension, unsupported and malformed choices, wrong arguments), reads
the results back, and drives the `save` option of graph specifications
through the command line tools, checking afterwards that the files
written can be fed again to the tools.  Prints one SHA256 digest of
everything observed.

Run as:  cd <checkout> && /venv/bin/python equiv.py
"""
import os
import sys
import io
import random
import hashlib
import tempfile
import shutil
import warnings

warnings.simplefilter('ignore')

sys.path.insert(0, os.getcwd())

import cnfgen  # noqa
from cnfgen.info import info as _info
# the version is asked to git: make the digest independent of the commit
REAL_VERSION = str(_info['version'])
_info['version'] = 'VERSION'
import importlib
cnfgen_tool = importlib.import_module('cnfgen.clitools.cnfgen')
pbgen_tool = importlib.import_module('cnfgen.clitools.pbgen')
from cnfgen.clitools import graph_args
from cnfgen.clitools.cmdline import CLIParser, CLIError, CLIHelpFormatter
from cnfgen.clitools.msg import msg_prefix
from cnfgen.clitools import msg as msg_module

LOG = []
CHECKOUT = os.getcwd()


def log(*items):
    LOG.append(repr(items))


class Sink(io.StringIO):
    """StringIO that survives close() (main() closes stderr)"""
    def close(self):
        pass


def run_main(tool, argv):
    """Run the `main` entry point of a tool as the shell would do"""
    out, err = Sink(), Sink()
    saved = sys.argv, sys.stdout, sys.stderr, sys.stdin
    sys.argv, sys.stdout, sys.stderr = list(argv), out, err
    sys.stdin = io.StringIO('')
    code = 0
    exc = None
    random.seed(12345)
    msg_module._prefix = ''  # a fresh process starts with no prefix
    try:
        tool.main()
    except SystemExit as e:
        code = e.code
    except BaseException as e:  # an unhandled internal exception
        exc = (type(e).__name__, str(e))
    finally:
        sys.argv, sys.stdout, sys.stderr, sys.stdin = saved
    log('main', argv, code, exc, out.getvalue(), err.getvalue())


def run_cli(tool, argv, mode='string'):
    out, err = Sink(), Sink()
    saved = sys.stdin, sys.stdout, sys.stderr
    sys.stdin, sys.stdout, sys.stderr = io.StringIO(''), out, err
    random.seed(54321)
    msg_module._prefix = ''
    try:
        res = tool.cli(list(argv), mode=mode)
        if mode == 'formula':
            res = (type(res).__name__, res.number_of_variables(),
                   len(res), sorted(res.header.items()))
        log('cli', argv, mode, 'ok', res)
    except SystemExit as e:
        log('cli', argv, mode, 'exit', e.code)
    except BaseException as e:
        log('cli', argv, mode, 'exc', type(e).__name__, str(e),
            type(e.__cause__).__name__, type(e.__context__).__name__)
    finally:
        sys.stdin, sys.stdout, sys.stderr = saved
    log('cli-streams', out.getvalue(), err.getvalue())


def describe_graph(G):
    try:
        edges = sorted(G.edges())
    except Exception as e:
        edges = repr(e)
    return (type(G).__name__, G.number_of_vertices(), G.number_of_edges(),
            edges, getattr(G, 'name', None))


def run_action(action_cls, tokens, dest='G', with_prefix='c '):
    """Use the action in a stand alone parser"""
    parser = CLIParser(prog='prog', usage='usage: prog <graph>',
                       description='descr')
    parser.add_argument('--flag', action='store_true')
    act = parser.add_argument(dest, action=action_cls)
    log('action-attrs', action_cls.__name__, act.dest, act.nargs,
        act.option_strings, act.required, act.metavar,
        isinstance(act, graph_args.ObtainGraphAction),
        [c.__name__ for c in action_cls.__mro__])
    random.seed(999)
    msg_module._prefix = ''
    out, err = Sink(), Sink()
    saved = sys.stdin, sys.stdout, sys.stderr
    sys.stdin, sys.stdout, sys.stderr = io.StringIO(''), out, err
    try:
        with msg_prefix(with_prefix):
            ns = parser.parse_args(list(tokens))
        log('action', action_cls.__name__, tokens, 'ok', ns.flag,
            describe_graph(getattr(ns, dest)))
    except CLIError as e:
        log('action', action_cls.__name__, tokens, 'clierror', str(e))
    except SystemExit as e:
        log('action', action_cls.__name__, tokens, 'exit', e.code)
    except BaseException as e:
        log('action', action_cls.__name__, tokens, 'exc',
            type(e).__name__, str(e))
    finally:
        sys.stdin, sys.stdout, sys.stderr = saved
    log('action-streams', out.getvalue(), err.getvalue())
    log('help', parser.format_help(), parser.format_usage())


def write(name, content):
    with open(name, 'w') as f:
        f.write(content)


def main():
    checkout = os.getcwd()
    tmp = tempfile.mkdtemp(prefix='equiv_c18_')
    os.chdir(tmp)
    try:
        body()
    finally:
        os.chdir(checkout)
        shutil.rmtree(tmp, ignore_errors=True)
    data = "\n".join(LOG).encode('utf-8', 'backslashreplace')
    if '--dump' in sys.argv[1:]:
        sys.stdout.write("\n".join(LOG) + "\n")
    print(hashlib.sha256(data).hexdigest())


def body():
    from io import StringIO, BytesIO
    from cnfgen.graphs import (Graph, DirectedGraph, BipartiteGraph,
                               CompleteBipartiteGraph, writeGraph, readGraph,
                               supported_graph_formats, dag_pyramid,
                               dag_path, dag_complete_binary_tree)

    log('formats', sorted(supported_graph_formats().items()))

    def simple(n, edges):
        G = Graph(n, name='simple test graph')
        for u, v in edges:
            G.add_edge(u, v)
        return G

    def directed(n, edges):
        G = DirectedGraph(n, name='directed test graph')
        for u, v in edges:
            G.add_edge(u, v)
        return G

    def bipartite(l, r, edges):
        G = BipartiteGraph(l, r, name='bipartite test graph')
        for u, v in edges:
            G.add_edge(u, v)
        return G

    graphs = {
        'simple': [simple(0, []), simple(1, []), simple(4, []),
                   simple(4, [(1, 2), (2, 3), (3, 4), (1, 4)]),
                   Graph.complete_graph(5), Graph.star_graph(3)],
        'digraph': [directed(0, []), directed(3, []),
                    directed(3, [(1, 2), (2, 3), (3, 1)]),
                    directed(4, [(1, 2), (1, 3), (2, 4), (3, 4)])],
        'dag': [directed(0, []), directed(1, []),
                directed(4, [(1, 2), (1, 3), (2, 4), (3, 4)]),
                directed(3, [(3, 1)]),
                dag_pyramid(2), dag_path(3), dag_complete_binary_tree(2)],
        'bipartite': [bipartite(0, 0, []), bipartite(2, 3, []),
                      bipartite(2, 3, [(1, 1), (1, 3), (2, 2)]),
                      bipartite(1, 1, [(1, 1)]),
                      CompleteBipartiteGraph(2, 2)],
    }
    all_formats = ['kthlist', 'gml', 'dot', 'dimacs', 'matrix', 'autodetect',
                   'bogus', '', None, 'KTHLIST']

    counter = 0
    for gtype in ['simple', 'digraph', 'dag', 'bipartite', 'bogus', None]:
        for G in graphs.get(gtype, [simple(2, [(1, 2)])]):
            for fmt in all_formats:
                # on a text stream
                buf = StringIO()
                try:
                    res = writeGraph(G, buf, gtype, fmt)
                    log('write-stream', gtype, fmt, describe_graph(G), res,
                        buf.getvalue())
                except Exception as e:
                    log('write-stream', gtype, fmt, describe_graph(G),
                        type(e).__name__, str(e), buf.getvalue())
                    continue
                # ... and back
                if fmt in ('autodetect', None):
                    continue
                try:
                    H = readGraph(StringIO(buf.getvalue()), gtype, fmt)
                    log('read-back', gtype, fmt, describe_graph(H))
                except Exception as e:
                    log('read-back', gtype, fmt, type(e).__name__, str(e))
            # on named files, the extension gives the format
            for ext in ['kthlist', 'gml', 'dot', 'dimacs', 'matrix', 'xyz',
                        '']:
                counter += 1
                fname = 'w{}.{}'.format(counter, ext) if ext else \
                    'w{}'.format(counter)
                for fmt in ('autodetect', 'kthlist', 'dimacs'):
                    try:
                        res = writeGraph(G, fname, gtype, fmt)
                        with open(fname) as f:
                            log('write-file', gtype, ext, fmt, res, f.read())
                    except Exception as e:
                        log('write-file', gtype, ext, fmt,
                            type(e).__name__, str(e),
                            os.path.exists(fname) and open(fname).read())
                    try:
                        with open(fname, 'w') as f:
                            res = writeGraph(G, f, gtype, fmt)
                        with open(fname) as f:
                            log('write-handle', gtype, ext, fmt, res,
                                f.read())
                    except Exception as e:
                        log('write-handle', gtype, ext, fmt,
                            type(e).__name__, str(e))

    # wrong arguments
    G = simple(3, [(1, 2)])
    for args in [(None, StringIO(), 'simple', 'dimacs'),
                 ('graph', StringIO(), 'simple', 'dimacs'),
                 (G.to_networkx(), StringIO(), 'simple', 'dimacs'),
                 (G, None, 'simple', 'dimacs'),
                 (G, 42, 'simple', 'dimacs'),
                 (G, BytesIO(), 'simple', 'dimacs'),
                 (G, BytesIO(), 'simple', 'gml'),
                 (G, StringIO(), 'simple', ['dimacs']),
                 (G, StringIO(), ['simple'], 'dimacs'),
                 (G, 'nodir/x.dimacs', 'simple', 'dimacs'),
                 (G, '', 'simple', 'dimacs'),
                 (bipartite(1, 1, [(1, 1)]), StringIO(), 'simple', 'dimacs'),
                 (bipartite(1, 1, [(1, 1)]), StringIO(), 'simple', 'kthlist'),
                 (G, StringIO(), 'bipartite', 'kthlist'),
                 (G, StringIO(), 'bipartite', 'matrix'),
                 (G, StringIO(), 'dag', 'kthlist'),
                 (directed(2, [(1, 2)]), StringIO(), 'simple', 'kthlist'),
                 (directed(2, [(1, 2)]), StringIO(), 'simple', 'dimacs')]:
        try:
            res = writeGraph(*args)
            out = args[1].getvalue() if hasattr(args[1], 'getvalue') else None
            log('write-args', repr(args[2:]), res, out)
        except Exception as e:
            log('write-args', repr(args[2:]), type(e).__name__, str(e))
    try:
        writeGraph(G, StringIO())
    except Exception as e:
        log('write-noargs', type(e).__name__, str(e))

    # ------------------------------------------------------------
    # through the command line: the 'save' option of graph arguments
    # ------------------------------------------------------------
    save_cmds = []
    for fmt in ['kthlist', 'gml', 'dot', 'dimacs', 'matrix', 'bogus']:
        save_cmds += [
            ['kcolor', '2', 'complete', '3', 'save', 's1.' + fmt],
            ['kcolor', '2', 'gnm', '5', '4', 'save', fmt, 's2_' + fmt],
            ['php', 'complete', '2', '3', 'save', 's3.' + fmt],
            ['php', 'glrd', '3', '3', '2', 'save', fmt, 's4_' + fmt],
            ['peb', 'pyramid', '2', 'save', 's5.' + fmt],
            ['peb', 'tree', '2', 'save', fmt, 's6_' + fmt],
        ]
    save_cmds += [
        ['kcolor', '2', 'complete', '3', 'save'],
        ['kcolor', '2', 'complete', '3', 'save', 'dimacs'],
        ['kcolor', '2', 'complete', '3', 'save', 'noextension'],
        ['kcolor', '2', 'complete', '3', 'save', 'nodir/s.dimacs'],
        ['kcolor', '2', 'complete', '3', 'save', 'dimacs', '-'],
        ['kcolor', '2', 'complete', '0', 'save', 's7.dimacs'],
        ['kcolor', '2', 'complete', '3', 'plantclique', '2', 'save',
         's8.kthlist', 'addedges', '1'],
        ['php', 'empty', '0', '0', 'save', 's9.matrix'],
        ['peb', 'path', '0', 'save', 's10.kthlist'],
        ['-S', '5', 'tseitin', 'random', 'gnd', '6', '3', 'save', 's11.gml'],
    ]
    for cmd in save_cmds:
        run_main(cnfgen_tool, ['cnfgen'] + cmd)
    for cmd in save_cmds[2:14:4]:
        run_main(pbgen_tool, ['pbgen'] + cmd)
        run_cli(cnfgen_tool, ['cnfgen', '-of', 'latex'] + cmd, mode='string')

    for fname in sorted(os.listdir('.')):
        if os.path.isfile(fname) and fname.startswith('s'):
            with open(fname) as f:
                log('saved', fname, f.read())
        else:
            log('present', fname)

    # the saved graphs can be read again by the tools
    for fname in sorted(os.listdir('.')):
        if not fname.startswith('s'):
            continue
        for sub in (['kcolor', '2'], ['php'], ['peb']):
            run_main(cnfgen_tool, ['cnfgen', '-q'] + sub + [fname])


if __name__ == '__main__':
    main()
