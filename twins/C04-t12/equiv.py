#!/usr/bin/env python
"""Equivalence harness for BinaryMappingVariables (flips table, forbid)
and the mapping constraints built on top of it.

Prints one SHA256 digest of everything observable.
"""
import sys
import os
import hashlib
import warnings

warnings.simplefilter('ignore')
sys.path.insert(0, os.getcwd())

from cnfgen.formula.cnf import CNF
from cnfgen.formula.opb import OPB
from cnfgen.formula.basecnf import BaseCNF
from cnfgen.formula.variables import BinaryMappingVariables

out = []


def rec(*args):
    out.append(repr(args))


def attempt(tag, fn, show=True):
    try:
        res = fn()
        rec(tag, 'ok', res if show else None)
        return res
    except Exception as e:
        rec(tag, 'EXC', type(e).__name__, str(e))
        return None


# --- direct construction: flips table, attributes
for offset in [0, 3]:
    for n in range(0, 5):
        for m in range(0, 10):
            F = BaseCNF()
            F.update_variable_number(offset)
            f = BinaryMappingVariables(F, n, m, labelfmt='f({},{})')
            rec('init', offset, n, m, type(f.flips).__name__,
                [type(x).__name__ for x in f.flips], f.flips,
                f.bitlength, f.bits(), len(f), f.domain_size, f.range_size,
                f.id_offset, list(f.domain()), list(f.range()),
                list(f.label()), F.number_of_variables())
            k = f.bits()
            for i in range(-1, n + 3):
                for j in list(range(-3, 2**k + 3)) + [2**k * 4, 10**6]:
                    attempt(('forbid', offset, n, m, i, j),
                            lambda: f.forbid(i, j))
            # result must be a fresh list every time
            if n >= 1 and m >= 1:
                a = f.forbid(1, 0)
                b = f.forbid(1, 0)
                rec('fresh', a is b, a == b, type(a).__name__)
                a.append(99)
                rec('fresh2', f.forbid(1, 0), f.flips)

# odd arguments for j and i
F = BaseCNF()
f = BinaryMappingVariables(F, 3, 6)
for j in [None, 'a', 1.0, 7.0, 8.0, 2.5, True, False, (1,), [1]]:
    attempt(('forbid-odd-j', repr(j)), lambda: f.forbid(2, j))
for i in [None, 'a', 1.0, 0, 4, -1, True]:
    attempt(('forbid-odd-i', repr(i)), lambda: f.forbid(i, 3))
for nm in [(-1, 3), (3, -1), (-1, -1), (0, 0)]:
    attempt(('init-bad', nm), lambda: len(BinaryMappingVariables(BaseCNF(), *nm)))
attempt('init-str', lambda: BinaryMappingVariables(BaseCNF(), 'a', 3))
attempt('init-float', lambda: BinaryMappingVariables(BaseCNF(), 2, 2.5).flips)

# --- mapping constraints on binary mappings, CNF and OPB
methods = ['force_complete_mapping', 'force_functional_mapping',
           'force_injective_mapping', 'force_nondecreasing_mapping',
           'force_surjective_mapping']
for cls in [CNF, OPB]:
    for n in range(0, 5):
        for m in range(0, 8):
            for meth in methods:
                F = cls()
                x = F.new_variable('x')
                f = attempt(('new', cls.__name__, n, m),
                            lambda: F.new_binary_mapping(n, m), show=False)
                if f is None:
                    continue
                attempt((meth, cls.__name__, n, m),
                        lambda: getattr(F, meth)(f))
                rec('formula', cls.__name__, n, m, meth, list(F),
                    F.number_of_variables(), len(F))
                if cls is CNF:
                    rec('dimacs', F.to_dimacs())
                else:
                    rec('opb', F.to_opb())
                rec('labels', list(F.all_variable_labels()))
            # all together
            F = cls()
            f = F.new_binary_mapping(n, m)
            for meth in methods[:4]:
                getattr(F, meth)(f)
            rec('all', cls.__name__, n, m, list(F))

print(hashlib.sha256("\n".join(out).encode('utf-8')).hexdigest())
