#!/usr/bin/env python
"""Equivalence digest for the refactoring of the tail of CNFLinear.add_linear
(reduction of ==, <, >, <= to >= and the final clause generation).

Run as:  cd <checkout> && /venv/bin/python equiv.py
Prints one SHA256 digest of every observable thing produced.
"""
import sys
import os
import random
import hashlib

sys.path.insert(0, os.getcwd())

from cnfgen.formula.cnf import CNF
from cnfgen.formula.linear import CNFLinear
from cnfgen.graphs import BipartiteGraph, CompleteBipartiteGraph
from cnfgen.transformations import substitutions as S

H = hashlib.sha256()


def emit(*items):
    H.update((" ".join(repr(x) for x in items) + "\n").encode('utf-8'))


def attempt(tag, fn):
    try:
        res = fn()
    except Exception as e:  # record type and message
        emit(tag, 'EXC', type(e).__name__, str(e))
        return None
    return res


def dump(tag, F):
    if F is None:
        return
    emit(tag, 'nvars', F.number_of_variables(), 'nclauses', len(F))
    emit(tag, 'clauses', [list(c) for c in F])
    emit(tag, 'header', sorted(F.header.items()))
    emit(tag, 'labels', list(F.all_variable_labels()))
    if len(F) <= 200:
        emit(tag, 'dimacs', F.to_dimacs())


def formulas():
    rng = random.Random(50505)
    out = []
    out.append(('empty', CNF()))
    out.append(('emptyclause', CNF([[]])))
    F = CNF()
    F.update_variable_number(3)
    out.append(('novar-clauses', F))
    F = CNF([[1, -2], []])
    F.update_variable_number(4)
    out.append(('unused', F))
    out.append(('repeat', CNF([[1, 1, -2], [2, -2], [-1, -1]])))
    out.append(('unit', CNF([[1], [-1]])))
    F = CNF()
    x = F.new_variable('x')
    y = F.new_block(2, label='y_{{{}}}')
    F.add_clause([x, -y(1)])
    F.add_clause([-x, y(2), y(1)])
    out.append(('named', F))
    for n in range(1, 5):
        for t in range(2):
            m = rng.randint(0, 4)
            cls = []
            for _ in range(m):
                w = rng.randint(0, 3)
                cls.append([rng.choice([-1, 1]) * rng.randint(1, n)
                            for _ in range(w)])
            F = CNF(cls)
            F.update_variable_number(n)
            out.append(('rnd-{}-{}'.format(n, t), F))
    return out


def graphs_for(n):
    rng = random.Random(177 + n)
    out = []
    out.append(('complete', CompleteBipartiteGraph(n, 3)))
    B = BipartiteGraph(n, 5)
    for u in range(1, n + 1):
        for v in range(1, 6):
            if rng.random() < 0.5:
                B.add_edge(u, v)
    out.append(('rnd', B))
    out.append(('edgeless', BipartiteGraph(n, 2)))
    out.append(('noright', BipartiteGraph(n, 0)))
    return out


class Lits:
    """A non-list iterable container of literals"""
    def __init__(self, data):
        self.data = list(data)

    def __iter__(self):
        return iter(self.data)

    def __len__(self):
        return len(self.data)

    def __contains__(self, x):
        return x in self.data


def linear_section():
    rng = random.Random(515)
    litsets = [[], [1], [-1], [1, 2], [-1, 2], [1, 2, 3], [3, -5, 7, -9],
               [1, 1], [1, -1], [2, 2, -2], [1, 2, 3, 4, 5, 6], (4, 5),
               range(1, 4), [0], [1, 0, 2], ['a'], ['a', 'b'], [1.5, 2],
               [True, 2], None, 7, Lits([1, -2, 3]), {1, 2}, 'xy']
    for _ in range(10):
        w = rng.randint(1, 7)
        litsets.append([rng.choice([-1, 1]) * rng.randint(1, 9) for _ in range(w)])
    ops = ['<=', '>=', '<', '>', '==', '!=', '=', '=<', None, 3]
    consts = [-2, -1, 0, 1, 2, 3, 4, 7, 8, True, False, 1.0, 1.5, '1', None]
    for lits in litsets:
        for op in ops:
            for const in consts:
                for check in [True, False]:
                    tag = 'linear/{!r}/{!r}/{!r}/{}'.format(
                        lits.data if isinstance(lits, Lits) else lits,
                        op, const, check)
                    C = CNFLinear()
                    C.update_variable_number(2)
                    res = attempt(tag, lambda: C.add_linear(lits, op, const, check=check))
                    emit(tag, res, C.number_of_variables(), len(C),
                         [list(c) for c in C])
    # generator input
    for op in ['<=', '>=', '<', '>', '==', '!=']:
        for const in range(-1, 5):
            C = CNF()
            res = attempt('linear/gen',
                          lambda: C.add_linear((i for i in [1, -3, 4]), op, const))
            emit('linear/gen', op, const, res, C.number_of_variables(),
                 [list(c) for c in C])
    # the caller's list is not modified, and the stored clauses are fresh lists
    for op in ['<=', '>=', '<', '>', '==', '!=']:
        lits = [1, -2, 3, 4]
        C = CNF()
        C.add_linear(lits, op, 2)
        emit('linear/unmodified', op, lits, [list(c) for c in C],
             [type(c).__name__ for c in C._clauses])
    # the wrappers
    for n in range(0, 7):
        lits = [(-1) ** i * (i + 1) for i in range(n)]
        for meth in ['add_loose_majority', 'add_loose_minority',
                     'add_strict_majority', 'add_strict_minority']:
            C = CNF()
            res = attempt(meth, lambda: getattr(C, meth)(lits))
            emit('wrap', meth, n, res, C.number_of_variables(), [list(c) for c in C])
        for meth in ['cardinality_geq', 'cardinality_leq', 'cardinality_eq',
                     'cardinality_neq']:
            for v in range(-1, n + 2):
                C = CNF()
                res = attempt(meth, lambda: getattr(C, meth)(lits, v))
                emit('wrap', meth, n, v, res, C.number_of_variables(),
                     [list(c) for c in C])
    # larger, the order of the clauses matters
    for n in [8, 10]:
        for op in ['<=', '>=', '<', '>', '==']:
            for const in [0, 1, n // 2, n - 1, n, n + 1]:
                C = CNF()
                C.add_linear(list(range(1, n + 1)), op, const)
                emit('linear/big', n, op, const, len(C), [list(c) for c in C])
    # a subclass that records the calls of add_clause
    class Rec(CNFLinear):
        def __init__(self):
            CNFLinear.__init__(self)
            self.calls = []

        def add_clause(self, clause, check=True):
            clause = list(clause)
            self.calls.append((clause, check))
            CNFLinear.add_clause(self, clause, check=check)
    for op in ['<=', '>=', '<', '>', '==', '!=']:
        for const in range(-1, 5):
            R = Rec()
            attempt('rec', lambda: R.add_linear([1, -2, 3], op, const))
            emit('rec', op, const, R.calls, R.number_of_variables())


def main():
    linear_section()

    for name, F in formulas():
        for k in [1, 2, 3, 4]:
            for fname in ['MajoritySubstitution', 'ExactlyOneSubstitution',
                          'FormulaLifting']:
                tag = '{}/{}/{}'.format(name, fname, k)
                dump(tag, attempt(tag, lambda: getattr(S, fname)(F, k)))
            if k == 4 and len(F) > 2:
                continue
            for c in range(-1, k + 2):
                for fname in ['AtLeastKSubstitution', 'AtMostKSubstitution',
                              'ExactlyKSubstitution', 'AnythingButKSubstitution']:
                    tag = '{}/{}/{}/{}'.format(name, fname, k, c)
                    dump(tag, attempt(tag, lambda: getattr(S, fname)(F, k, c)))
                for op in ['<', '>']:
                    tag = '{}/linear/{}/{}/{}'.format(name, k, op, c)
                    dump(tag, attempt(tag, lambda: S.LinearSubstitution(F, k, op, c)))
        for gname, B in graphs_for(F.number_of_variables()):
            tag = '{}/compress/{}/maj'.format(name, gname)
            dump(tag, attempt(tag, lambda: S.VariableCompression(F, B, 'maj')))

    F = CNF([[1, -2], [2]])
    dump('bad/op', attempt('bad/op', lambda: S.LinearSubstitution(F, 2, '=', 1)))
    dump('bad/C', attempt('bad/C', lambda: S.LinearSubstitution(F, 2, '==', 'x')))
    dump('bad/C2', attempt('bad/C2', lambda: S.LinearSubstitution(F, 2, '==', 1.0)))

    print(H.hexdigest())


if __name__ == '__main__':
    main()
