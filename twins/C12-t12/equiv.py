"""Equivalence check for VariablesManager.all_variable_labels (C12).

Exercises variable labelling (gaps between groups, empty groups, singleton
and multi-index groups, tampered variable counts) through the label
generator itself and through the OPB / LaTeX / DIMACS writers that use it.
"""
import hashlib
import io
import itertools
import os
import sys
import tempfile

sys.path.insert(0, os.getcwd())

import networkx as nx
from cnfgen.formula.cnf import CNF
from cnfgen.formula.opb import OPB
from cnfgen.graphs import Graph, BipartiteGraph, DirectedGraph

OUT = []


def rec(*items):
    OUT.append(repr(items))


def attempt(tag, fn):
    try:
        rec(tag, 'ok', fn())
    except BaseException as e:  # noqa
        rec(tag, 'exc', type(e).__name__, str(e))


def drain(gen):
    """All the items produced, and how the generator ended"""
    items = []
    try:
        for item in gen:
            items.append(item)
    except BaseException as e:  # noqa
        return items, type(e).__name__, str(e)
    return items, None, None


def renderings(tag, F):
    for fmt in ['x{}', 'x_{}', 'y^{}', '{}', 'v', 'w_{{{}}}']:
        attempt((tag, 'labels', fmt),
                lambda: drain(F.all_variable_labels(default_label_format=fmt)))
    attempt((tag, 'labels-default'), lambda: drain(F.all_variable_labels()))
    # partial consumption of the generator
    attempt((tag, 'labels-first3'),
            lambda: list(itertools.islice(F.all_variable_labels(), 3)))
    attempt((tag, 'opb'), F.to_opb)
    attempt((tag, 'latex'), F.to_latex)
    for fileformat in ['opb', 'latex', 'dimacs']:
        if fileformat == 'dimacs' and isinstance(F, OPB):
            continue
        for hd in [True, False]:
            for vn in [True, False]:
                def dump():
                    buf = io.StringIO()
                    F.to_file(buf, fileformat=fileformat, export_header=hd,
                              export_varnames=vn, extra_text='EXTRA\n')
                    return buf.getvalue()
                attempt((tag, 'file', fileformat, hd, vn), dump)


def fill(F, kind):
    n = F.number_of_variables()
    if n == 0:
        return
    lits = list(range(1, n + 1))
    if kind == 'cnf':
        F.add_clause([])
        F.add_clause(lits)
        F.add_clause([-l for l in lits])
        for i in range(0, n - 1, 2):
            F.add_clause([lits[i], -lits[i + 1]])
    else:
        F.add_constraint(['>=', 0])
        F.add_constraint([(i + 1, l) for i, l in enumerate(lits)] + ['>=', 3])
        F.add_constraint([(2, -l) for l in lits] + ['==', 2])
        F.add_constraint([(-3, l) for l in lits[:3]] + ['<', 1])
        F.add_clause(lits[:2])


def scenarios(cls, kind):
    # 0: nothing
    F = cls()
    yield 'empty', F

    # 1: only anonymous variables
    F = cls()
    F.update_variable_number(5)
    yield 'anon5', F

    # 2: only named singletons
    F = cls()
    for name in ['X', 'Y_1', 'Z^2', 'w_{a}^{b}', '_lead', '^lead', 'plain']:
        F.new_variable(label=name)
    yield 'singletons', F

    # 3: gaps before, between and after the groups
    F = cls()
    F.update_variable_number(2)
    F.new_variable(label='A')
    F.update_variable_number(6)
    F.new_block(2, 3, label='b_{{{},{}}}')
    F.update_variable_number(15)
    F.new_variable(label='C')
    F.update_variable_number(18)
    yield 'gaps', F

    # 4: empty groups interleaved
    F = cls()
    F.new_block(0, label='e_{}')
    F.new_variable(label='first')
    F.new_block(3, 0, label='e_{{{},{}}}')
    F.update_variable_number(4)
    F.new_block(0, label='ee_{}')
    F.new_block(2, label='t_{}')
    F.new_block(0, label='last_{}')
    yield 'emptygroups', F

    # 5: only empty groups
    F = cls()
    F.new_block(0, label='e_{}')
    F.new_block(0, 4, label='f_{},{}')
    yield 'onlyempty', F

    # 6: many kinds of groups
    F = cls()
    F.new_combinations(4, 2)
    F.update_variable_number(F.number_of_variables() + 1)
    F.new_permutations(3, 2, label='perm_{{{}}}')
    F.new_words(2, 2, label='w_{{{}}}')
    F.new_combinations_with_replacement(3, 2, label='cr_{{{}}}')
    G = Graph.from_networkx(nx.cycle_graph(4))
    F.new_graph_edges(G, label='e_{{{},{}}}')
    B = BipartiteGraph(2, 3)
    B.add_edge(1, 1)
    B.add_edge(1, 3)
    B.add_edge(2, 2)
    F.new_bipartite_edges(B, label='b({},{})')
    F.new_sparse_mapping(B, label='f({})={}')
    D = DirectedGraph(3)
    D.add_edge(1, 2)
    D.add_edge(1, 3)
    D.add_edge(2, 3)
    F.new_digraph_edges(D, label='d({},{})')
    F.new_mapping(2, 3)
    F.new_binary_mapping(3, 5)
    F.update_variable_number(F.number_of_variables() + 2)
    yield 'manygroups', F

    # 7: block of one variable, unlabeled groups
    F = cls()
    F.new_variable()
    F.new_block(1)
    F.new_block(2, 2)
    yield 'unlabeled', F

    # 8: labels with non ascii characters and new lines
    F = cls()
    F.new_variable(label='α_1')
    F.new_variable(label='two\nlines')
    F.new_block(2, label='é_{}')
    yield 'nonascii', F


def main():
    for cls, kind in [(CNF, 'cnf'), (OPB, 'opb')]:
        for tag, F in scenarios(cls, kind):
            renderings((kind, tag, 'bare'), F)
            attempt((kind, tag, 'fill'), lambda: fill(F, kind))
            renderings((kind, tag, 'filled'), F)

    # clauses mentioning variables beyond the named groups
    F = CNF()
    F.new_block(2, label='q_{}')
    F.add_clause([1, -2, 7])
    renderings(('cnf', 'beyond'), F)
    F = OPB()
    F.new_block(2, label='q_{}')
    F.add_constraint([(2, 1), (3, -2), (5, 6), '>=', 4])
    renderings(('opb', 'beyond'), F)

    # tampered internal state: fewer variables than the groups need,
    # and groups out of order
    for cls, kind in [(CNF, 'cnf'), (OPB, 'opb')]:
        F = cls()
        F.new_variable(label='A')
        F.new_block(3, label='b_{}')
        F.update_variable_number(6)
        F._numvar = 2
        attempt((kind, 'tamper-low'), lambda: drain(F.all_variable_labels()))
        attempt((kind, 'tamper-low-partial'),
                lambda: list(itertools.islice(F.all_variable_labels(), 4)))
        F._numvar = 4
        attempt((kind, 'tamper-exact'), lambda: drain(F.all_variable_labels()))
        F._numvar = 6
        F._groups.reverse()
        attempt((kind, 'tamper-reversed'), lambda: drain(F.all_variable_labels()))
        F._groups = F._groups + F._groups
        attempt((kind, 'tamper-dup'), lambda: drain(F.all_variable_labels()))

    # through real file names
    with tempfile.TemporaryDirectory() as d:
        for cls, kind in [(CNF, 'cnf'), (OPB, 'opb')]:
            for tag, F in scenarios(cls, kind):
                fill(F, kind)
                for ext in ['opb', 'tex']:
                    path = os.path.join(d, '{}-{}.{}'.format(kind, tag, ext))
                    attempt((kind, tag, ext, 'write'),
                            lambda: F.to_file(path, export_varnames=True))
                    with open(path, 'rb') as fh:
                        rec((kind, tag, ext), fh.read())

    blob = "\n".join(OUT).encode('utf-8')
    if os.environ.get('EQUIV_DUMP'):
        with open(os.environ['EQUIV_DUMP'], 'wb') as fh:
            fh.write(blob)
    print(hashlib.sha256(blob).hexdigest())


if __name__ == '__main__':
    main()
