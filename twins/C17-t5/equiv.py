#!/usr/bin/env python
"""Equivalence digest for parse_graph_argument (graph_args.py), in particular
the local helpers consumenumbers / consumesaveinfo, and the command lines that
go through them (save / reload of graphs)."""
import os, sys, hashlib, random, tempfile, shutil
sys.path.insert(0, os.getcwd())

from cnfgen.clitools.graph_args import parse_graph_argument, make_graph_from_spec
from cnfgen.clitools.cnfgen import cli as cnfgen_cli_fn
from cnfgen.clitools.cmdline import CLIError

out = []
def rec(*a):
    out.append(repr(a))

def attempt(label, f, *args):
    try:
        r = f(*args)
        rec(label, 'OK', r)
        return r
    except BaseException as e:
        rec(label, 'EXC', type(e).__name__, str(e))
        return None

def show_parsed(p):
    return sorted(p.items(), key=lambda kv: kv[0])

tokens = ['gnp', 'gnm', 'gnd', 'grid', 'torus', 'complete', 'empty',
          'glrp', 'glrm', 'glrd', 'regular', 'shift', 'path', 'tree', 'pyramid',
          'save', 'addedges', 'plantclique', 'plantbiclique', 'splitedges',
          'dot', 'gml', 'kthlist', 'dimacs', 'matrix', 'autodetect',
          'G.gml', 'G.dot', 'file.kthlist', 'noext', '-', '--opt', '-q',
          '0', '1', '3', '10', '.5', '1e2', '-4', 'nan', 'inf', '0x10', '1_0', ' 7']

specs = []
# hand written, boundary
specs += [
    [], '', 'gnp', 'gnp 10 .5', 'gnp 10 .5 save', 'gnp 10 .5 save G.gml',
    'gnp 10 .5 save gml', 'gnp 10 .5 save gml G', 'gnp 10 .5 save dot',
    'gnp 10 .5 save kthlist', 'gnp 10 .5 save kthlist out', 'gnp 10 .5 save save',
    'gnp 10 .5 save a b', 'gnp 10 .5 save gml x save y',
    'gnp 10 .5 addedges 3 save gml f plantclique 4',
    'gnp 10 .5 addedges addedges', 'gnp 10 .5 addedges 1 addedges 2',
    'gnp 10 .5 plantclique 3 4 5 save 1 2', 'gnp 10 .5 save 12', 'gnp 10 .5 save 1.5 f',
    'gml', 'gml file', 'gml file save', 'gml file save dot', 'file.gml save dot out.dot',
    'dot f.gml save f.dot', 'kthlist f', 'matrix f', 'glrp 3 4 .5', 'path 4',
    'gnp 10 .5 gnp', 'gnp 10 .5 simple', 'gnp 10 .5 dag', 'f.gml -x', 'f.gml zzz',
    'gnp zzz', 'gnp 10 .5 -4', 'gnp -4 -5 -x', 'gnp 1 2 3 4 5 6 7',
    ['gnp', 10, 0.5], ['glrd', 5, 4, 3], ['glrd', 5, 4, 3, 'save', 'matrix', 'x'],
    'save', 'save x', 'addedges 3', 'complete 5 save', 'empty 3 save dimacs',
    'grid save f.gml', 'torus 3 3 splitedges 2 save gml t',
]
for gt in ['simple', 'bipartite', 'dag', 'digraph']:
    for s in specs:
        lab = ('parse', gt, s if isinstance(s, str) else tuple(s))
        try:
            p = parse_graph_argument(gt, s)
            rec(lab, 'OK', show_parsed(p))
        except BaseException as e:
            rec(lab, 'EXC', type(e).__name__, str(e))

# unknown graph type
attempt('badtype', parse_graph_argument, 'nosuch', 'gnp 3 .5')

# random token sequences
rnd = random.Random(20240517)
nums = ['0', '1', '3', '10', '.5', '1e2', '-4', 'nan', 'inf', '0x10', '1_0', ' 7']
opts = ['save', 'addedges', 'plantclique', 'plantbiclique', 'splitedges']
fmts = ['dot', 'gml', 'kthlist', 'dimacs', 'matrix', 'autodetect']
names = ['G.gml', 'G.dot', 'file.kthlist', 'noext', '-', '--opt', '-q', 'simple', 'dag']
for i in range(4000):
    gt = rnd.choice(['simple', 'bipartite', 'dag', 'digraph'])
    mode = rnd.random()
    if mode < 0.3:
        n = rnd.randint(1, 8)
        s = [rnd.choice(tokens) for _ in range(n)]
    else:
        if rnd.random() < 0.6:
            good = {'simple': tokens[0:7], 'bipartite': tokens[7:12] + ['complete', 'empty'],
                    'dag': tokens[12:15], 'digraph': tokens[12:15]}[gt]
            cons = rnd.choice(good) if rnd.random() < 0.8 else rnd.choice(tokens[:15])
            s = [cons] + [rnd.choice(nums) for _ in range(rnd.randint(0, 3))]
        elif rnd.random() < 0.5:
            s = [rnd.choice(fmts), rnd.choice(names)]
        else:
            s = [rnd.choice(names)]
        for _ in range(rnd.randint(0, 3)):
            goodo = {'simple': ['plantclique', 'addedges', 'splitedges', 'save', 'save'],
                     'bipartite': ['plantbiclique', 'addedges', 'save', 'save'],
                     'dag': ['save'], 'digraph': ['save']}[gt]
            o = rnd.choice(goodo) if rnd.random() < 0.85 else rnd.choice(opts)
            s.append(o)
            if o == 'save':
                r = rnd.random()
                if r < 0.4:
                    s += [rnd.choice(fmts), rnd.choice(names + nums)]
                elif r < 0.7:
                    s += [rnd.choice(names + nums)]
                elif r < 0.85:
                    s += [rnd.choice(fmts)]
            else:
                s += [rnd.choice(nums) for _ in range(rnd.randint(0, 2))]
    if rnd.random() < 0.5:
        s = ' '.join(s)
    lab = ('rparse', gt, s if isinstance(s, str) else tuple(s))
    try:
        p = parse_graph_argument(gt, s)
        rec(lab, 'OK', show_parsed(p))
    except BaseException as e:
        rec(lab, 'EXC', type(e).__name__, str(e))

# End to end: save the graph, reload it, and build formulas from command line
tmp = tempfile.mkdtemp(prefix='c17t5')
cwd = os.getcwd()
try:
    os.chdir(tmp)
    def cli(argv):
        lab = ('cli', tuple(argv))
        try:
            F = cnfgen_cli_fn(['cnfgen'] + argv, mode='formula')
            hdr = dict(F.header)
            rec(lab, 'OK', F.number_of_variables(), list(F.all_variable_labels()),
                [tuple(c) for c in F.clauses()], sorted((str(k), str(v)) for k, v in hdr.items()))
        except SystemExit as e:
            rec(lab, 'EXIT', e.code)
        except BaseException as e:
            rec(lab, 'EXC', type(e).__name__, str(e))
    cmds = [
        ['-S', '7', 'tseitin', 'first', 'gnp', '7', '.6', 'save', 'a.gml'],
        ['tseitin', 'first', 'a.gml'],
        ['tseitin', 'first', 'gml', 'a.gml'],
        ['-S', '7', 'kcolor', '3', 'gnm', '6', '8', 'save', 'dot', 'b'],
        ['kcolor', '3', 'dot', 'b'],
        ['kcolor', '3', 'b'],
        ['-S', '3', 'kclique', '3', 'gnp', '6', '.5', 'plantclique', '3', 'addedges', '1', 'save', 'kthlist', 'c.txt'],
        ['kclique', '3', 'kthlist', 'c.txt'],
        ['-S', '5', 'php', '5', '4', '3', 'save', 'matrix', 'm.out'],
        ['php', 'matrix', 'm.out'],
        ['-S', '5', 'php', 'glrd', '5', '4', '2', 'save', 'p.matrix'],
        ['php', 'p.matrix'],
        ['php', '--functional', '--onto', 'p.matrix'],
        ['peb', 'pyramid', '3', 'save', 'pyr.kthlist'],
        ['peb', 'pyr.kthlist'],
        ['peb', 'kthlist', 'pyr.kthlist', '-T', 'xor', '2'],
        ['peb', 'pyramid', '2', 'save'],
        ['peb', 'pyramid', '2', 'save', 'kthlist'],
        ['peb', 'pyramid', '2', 'save', 'nofmt'],
        ['peb', 'pyramid', '2', 'save', 'x.kthlist', 'save', 'y.kthlist'],
        ['peb', 'tree', '2', 'save', 'gml', 't.g'],
        ['peb', 'gml', 't.g'],
        ['kcolor', '3', 'gnp', '5', 'x'],
        ['kcolor', '3', 'gnp', '5', '.5', '-q'],
        ['kcolor', '3', 'missing.gml'],
        ['-S', '11', 'domset', '2', 'gnd', '6', '3', 'save', 'dimacs', 'd.dimacs'],
        ['domset', '2', 'd.dimacs'],
        ['-S', '2', 'subsetcard', 'regular', '6', '6', '3', 'save', 'r.matrix'],
        ['subsetcard', 'r.matrix'],
    ]
    for c in cmds:
        cli(c)
    for fn in sorted(os.listdir('.')):
        with open(fn) as f:
            rec('file', fn, f.read())
finally:
    os.chdir(cwd)
    shutil.rmtree(tmp, ignore_errors=True)

h = hashlib.sha256()
for line in out:
    h.update(line.encode('utf-8', 'backslashreplace'))
    h.update(b'\n')
if os.environ.get('EQUIV_DEBUG'):
    sys.stderr.write('\n'.join(out) + '\n')
print(h.hexdigest())
