"""Equivalence script for the refactoring of
cnfgen.transformations.substitutions.FormulaLifting (inner helper `lift`)

Applies lifting (directly, chained with other transformations, and through the
`cnfgen` command line) to a range of formulas and arities, including boundary
and invalid ones, and prints one SHA256 digest of everything observed.
"""
import hashlib
import os
import random
import sys

sys.path.insert(0, os.getcwd())

from cnfgen import CNF
from cnfgen import PigeonholePrinciple, OrderingPrinciple, RandomKCNF
from cnfgen import PebblingFormula, TseitinFormula, Shuffle
from cnfgen.graphs import Graph, DirectedGraph
from cnfgen.transformations.substitutions import (
    FormulaLifting, XorSubstitution, OrSubstitution, FlipPolarity,
    IfThenElseSubstitution, apply_substitution)
from cnfgen.clitools.cnfgen import cli as cnfgencli

H = hashlib.sha256()


def emit(*items):
    for x in items:
        H.update(repr(x).encode('utf-8'))
        H.update(b'\x00')


def observe(tag, F):
    n = F.number_of_variables()
    clauses = [list(c) for c in F]
    emit(tag, n, len(clauses), clauses)
    emit(list(F.all_variable_labels()))
    emit(list(F.header.items()))
    emit(all(type(l) is int and 1 <= abs(l) <= n for c in clauses for l in c))
    emit(F.to_dimacs())
    emit(F.debug(allow_opposite=True, allow_repetition=True))


def attempt(tag, fn):
    try:
        F = fn()
    except Exception as e:  # noqa
        emit(tag, 'exc', type(e).__name__, str(e))
        return None
    observe(tag, F)
    return F


def path_dag(n):
    D = DirectedGraph(n)
    for i in range(1, n):
        D.add_edge(i, i+1)
    if n >= 3:
        D.add_edge(1, 3)
    return D


def cycle(n):
    G = Graph(n)
    for i in range(1, n):
        G.add_edge(i, i+1)
    G.add_edge(n, 1)
    return G


bases = []
bases.append(('empty', CNF()))
bases.append(('emptyclause', CNF([[]])))
bases.append(('unit', CNF([[1]])))
bases.append(('negunit', CNF([[-1]])))
bases.append(('small', CNF([[1, -2], [2, 3], [-1, -3, 2], [], [3, 3], [1, -1]])))
gap = CNF([[1, -5]])
gap.update_variable_number(7)
bases.append(('gap', gap))
named = CNF()
named.new_variable('a{b}')
named.new_block(2, 2, label='z_{{{},{}}}')
named.add_clauses_from([[1, -3], [2, 4, -5], [-1, -2]])
bases.append(('named', named))
bases.append(('php', PigeonholePrinciple(6, 5)))
bases.append(('op', OrderingPrinciple(5)))
bases.append(('rand', RandomKCNF(3, 25, 60, seed=42)))
bases.append(('peb', PebblingFormula(path_dag(9))))
bases.append(('tseitin', TseitinFormula(cycle(7))))

for name, F in bases:
    for k in (1, 2, 3, 5):
        attempt(('lift', name, k), lambda: FormulaLifting(F, k))

# larger arity on a moderately large formula
attempt(('lift', 'php', 12), lambda: FormulaLifting(PigeonholePrinciple(5, 3), 12))
attempt(('lift', 'rand-large', 4),
        lambda: FormulaLifting(RandomKCNF(5, 120, 300, seed=7), 4))

# invalid arities
for k in (0, -1, 1.5, '2', None, True):
    attempt(('badk', k), lambda: FormulaLifting(bases[4][1], k))

# chains
small = bases[4][1]
attempt('lift-lift', lambda: FormulaLifting(FormulaLifting(small, 2), 3))
attempt('xor-lift', lambda: FormulaLifting(XorSubstitution(small, 2), 2))
attempt('lift-or', lambda: OrSubstitution(FormulaLifting(small, 2), 2))
attempt('lift-flip', lambda: FlipPolarity(FormulaLifting(named, 3)))
attempt('ite-lift', lambda: FormulaLifting(IfThenElseSubstitution(named), 2))
random.seed(99)
attempt('lift-shuffle', lambda: Shuffle(FormulaLifting(PigeonholePrinciple(4, 3), 3)))

# command line
for argv in (['cnfgen', '-q', 'php', '5', '4', '-T', 'lift', '3'],
             ['cnfgen', 'op', '4', '-T', 'lift', '1'],
             ['cnfgen', '-q', '--seed', '5', 'randkcnf', '3', '10', '20', '-T', 'lift', '4', '-T', 'shuffle'],
             ['cnfgen', '-q', 'php', '3', '2', '-T', 'xor', '2', '-T', 'lift', '2'],
             ['cnfgen', '-q', 'php', '3', '2', '-T', 'lift', '0'],
             ['cnfgen', '-q', 'php', '3', '2', '-T', 'lift', 'x'],
             ['cnfgen', '-q', '-of', 'latex', 'php', '3', '2', '-T', 'lift', '2']):
    try:
        out = cnfgencli(argv, mode='string')
        emit('cli', argv, out)
    except SystemExit as e:
        emit('cli', argv, 'exit', e.code)
    except Exception as e:  # noqa
        emit('cli', argv, 'exc', type(e).__name__, str(e))

print(H.hexdigest())
