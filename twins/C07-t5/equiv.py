"""Equivalence script for C07/t5: Tseitin command line helper (charge vectors).

Runs `cnfgen tseitin ...` and `pbgen tseitin ...` in process on many command
lines / seeds and prints one SHA256 of everything observable: the full output
(header included), exceptions and their messages, and the state of the random
generator after every run.
"""
import sys
import os
sys.path.insert(0, os.getcwd())
import warnings
warnings.simplefilter('ignore')

import io
import re
import random
import hashlib
import contextlib
from types import SimpleNamespace

from cnfgen.clitools.cnfgen import cli as cnfgen_cli
from cnfgen.clitools.pbgen import cli as pbgen_cli
from cnfgen.clihelpers.counting_helpers import TseitinCmdHelper
from cnfgen.formula.cnf import CNF
from cnfgen.graphs import Graph

H = hashlib.sha256()
VERSION = re.compile(r'CNFgen \([^)]*\)')


def record(*items):
    for x in items:
        H.update(repr(x).encode('utf-8'))
        H.update(b'\x00')


def run(tool, argv):
    out, err = io.StringIO(), io.StringIO()
    cli = cnfgen_cli if tool == 'cnfgen' else pbgen_cli
    result = None
    try:
        with contextlib.redirect_stdout(out), contextlib.redirect_stderr(err):
            cli([tool] + [str(a) for a in argv], mode='output')
        result = 'ok'
    except SystemExit as e:
        result = ('SystemExit', e.code)
    except BaseException as e:
        result = (type(e).__name__, str(e))
    record(tool, argv, result,
           VERSION.sub('CNFgen (V)', out.getvalue()),
           VERSION.sub('CNFgen (V)', err.getvalue()),
           random.getstate())


CHARGES = ['first', 'random', 'randomodd', 'randomeven', 'zero', 'one']
GRAPHS = [
    ['gnd', 6, 3],
    ['gnp', 5, '.5'],
    ['gnp', 3, '.7', 2],
    ['gnm', 6, 7],
    ['complete', 4],
    ['complete', 1],
    ['empty', 1],
    ['empty', 3],
    ['grid', 2, 3],
    ['torus', 3, 3],
    ['gnm', 5, 4, 'addedges', 2],
    ['gnm', 5, 4, 'splitedges', 2],
    ['gnp', 6, '.3', 'plantclique', 3],
]

for seed in [0, 1, 7, -3, 123456789]:
    for charge in CHARGES:
        for g in GRAPHS:
            run('cnfgen', ['--seed', seed, 'tseitin', charge] + g)
    # shortcut forms
    for spec in [[5], [6], [7], [8, 3], [6, 5], [7, 2], [9, 2], [4, 2], [2, 1]]:
        run('cnfgen', ['--seed', seed, 'tseitin'] + spec)
        run('cnfgen', ['-S', seed, '-q', 'tseitin'] + spec)

for seed in [0, 5, 42]:
    for charge in CHARGES:
        for g in GRAPHS[:6]:
            run('pbgen', ['--seed', seed, 'tseitin', charge] + g)
    for spec in [[5], [6, 3], [8, 2]]:
        run('pbgen', ['--seed', seed, 'tseitin'] + spec)

# error paths
for spec in [[3, 3], [3, 5], [5, 3], [7, 3], [1], [4], [0], [-2], [5, 0],
             ['weird', 'gnd', 6, 3], ['random'], ['random', 'gnd', 5, 3],
             ['random', 'gnp', 5, 2], ['randomodd', 'nograph', 3], []]:
    run('cnfgen', ['--seed', 11, 'tseitin'] + spec)
    run('pbgen', ['--seed', 11, 'tseitin'] + spec)

# no seed given, generator seeded from outside: still deterministic
for charge in CHARGES:
    random.seed(2024)
    run('cnfgen', ['tseitin', charge, 'gnd', 8, 3])

# direct calls of the helper, including illegal charge specs and order 0 / 1
def direct(ns):
    try:
        F = TseitinCmdHelper.build_formula(ns, formula_class=CNF)
        res = (list(F.clauses()), sorted(F.header.items())[:1])
    except BaseException as e:
        res = (type(e).__name__, str(e))
    record(res, random.getstate())


def cycle(n):
    G = Graph(n)
    for i in range(1, n):
        G.add_edge(i, i + 1)
    if n > 2:
        G.add_edge(1, n)
    return G


for n in [0, 1, 2, 3, 6]:
    for charge in CHARGES + ['bogus', '', None]:
        random.seed(99 + n)
        direct(SimpleNamespace(G=cycle(n), charge=charge))
    random.seed(5)
    direct(SimpleNamespace(G=cycle(n)))
for N, d in [(6, 3), (5, 4), (4, 4), (3, 5), (5, 3), (2, 1), (10, 4)]:
    random.seed(1000 * N + d)
    direct(SimpleNamespace(N=N, d=d))

print(H.hexdigest())
