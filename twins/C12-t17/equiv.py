#!/usr/bin/env python
"""Equivalence script for the refactoring of
cnfgen.clitools.pbgen.build_latex_cmdline_description"""
import argparse
import contextlib
import hashlib
import io
import os
import sys
import tempfile

sys.path.insert(0, os.getcwd())

import cnfgen.info
# the version is derived from `git describe`: pin it, so that the digest
# does not depend on the commit that is checked out
cnfgen.info.info['version'] = 'VERSION'

from cnfgen.clitools import pbgen
from cnfgen.clitools.pbgen import build_latex_cmdline_description
from cnfgen.clitools.pbgen import cli as pbgen_cli
from cnfgen.clitools.cnfgen import cli as cnfgen_cli

LOG = []
tmpdir = tempfile.mkdtemp(prefix='c12_t17')
# the name of the directory shows up in headers and (with '_' escaped) in
# LaTeX titles: all its spellings are scrubbed from what is recorded
TMPNAMES = [tmpdir.replace('_', '\\\\_'), tmpdir.replace('_', '\\_'), tmpdir]


def rec(*items):
    text = repr(items)
    for name in TMPNAMES:
        text = text.replace(name, 'TMP')
    LOG.append(text)


# ---------------------------------------------------------------
# 1. direct calls on hand made namespaces
# ---------------------------------------------------------------
class Gen:
    pass


class GenDoc:
    docstring = "A generator\nwith a two line docstring_and %s | chars"


class GenEmptyDoc:
    docstring = ""


class GenNoneDoc:
    docstring = None


class GenIntDoc:
    docstring = 42


class GenRaisingDoc:
    @property
    def docstring(self):
        raise ValueError("no docstring for you")


class FakeFile:
    """Not an io.IOBase, but it looks like an input file"""
    def __init__(self, name, mode='r', text='fake content\n'):
        self.name = name
        self.mode = mode
        self.text = text
        self.events = []

    def seek(self, *args):
        self.events.append(('seek', ) + args)

    def read(self):
        self.events.append(('read', ))
        return self.text


class ModeRaises:
    def __init__(self):
        self.touched = 0

    @property
    def mode(self):
        self.touched += 1
        raise RuntimeError("mode was looked at")


class IOSub(io.StringIO):
    mode = 'r'
    name = 'iosub'


class NoDict:
    __slots__ = ('generator', )


path_r = os.path.join(tmpdir, 'input.txt')
with open(path_r, 'w', encoding='utf-8') as fh:
    fh.write("line one\nline two |verb| \\end{lstlisting}\n")
path_w = os.path.join(tmpdir, 'output.txt')


def direct(tag, ns, argv=('pbgen', 'x')):
    try:
        res = build_latex_cmdline_description(list(argv), ns)
        rec('direct', tag, 'OK', res)
    except BaseException as e:  # noqa
        rec('direct', tag, 'EXC', type(e).__name__, str(e))


gens = [('nodoc', Gen), ('doc', GenDoc), ('emptydoc', GenEmptyDoc),
        ('nonedoc', GenNoneDoc), ('intdoc', GenIntDoc),
        ('raisingdoc', GenRaisingDoc)]

for gtag, G in gens:
    direct((gtag, 'bare'), argparse.Namespace(generator=G()))
    direct((gtag, 'class'), argparse.Namespace(generator=G))
    direct((gtag, 'plain'),
           argparse.Namespace(generator=G(), n=3, name='abc', flag=True,
                              none=None, lst=[1, 2], _hidden='h',
                              __dunder='d'))
    with open(path_r, 'r', encoding='utf-8') as fr, \
            open(path_w, 'w', encoding='utf-8') as fw, \
            open(path_r, 'rb') as fb:
        fr.read(4)
        pos = (fr.tell(), fb.tell())
        ns = argparse.Namespace(generator=G(), input=fr, output=fw,
                                binary=fb, _private=fr, stdin=sys.stdin,
                                stdout=sys.stdout, sio=io.StringIO('text'),
                                bio=io.BytesIO(b'bytes'), sub=IOSub('sub'))
        direct((gtag, 'files'), ns)
        rec('positions', gtag, pos, (fr.tell(), fb.tell()), fr.read())
    fake = FakeFile('fake.txt')
    fake_w = FakeFile('fakew.txt', mode='w')
    fake_none = FakeFile(None, mode=None)
    raising = ModeRaises()
    ns = argparse.Namespace(generator=G(), fake=fake, fake_w=fake_w,
                            fake_none=fake_none, raising=raising,
                            _raising=raising, _fake=fake)
    direct((gtag, 'fakes'), ns)
    rec('fake-events', gtag, fake.events, fake_w.events, fake_none.events,
        raising.touched)

# namespaces that are not quite namespaces
direct('no-generator', argparse.Namespace(n=1))
direct('none', None)
direct('dict', {'generator': GenDoc()})
nd = NoDict()
nd.generator = GenDoc()
direct('nodict', nd)


class Obj:
    pass


o = Obj()
o.generator = GenDoc()
o.stream = io.StringIO('abc')
o._x = 1
direct('plain-object', o)
ns = argparse.Namespace(generator=GenDoc())
vars(ns)[7] = 'non string key'
direct('non-string-key', ns)
ns = argparse.Namespace(generator=GenDoc())
vars(ns)[''] = io.StringIO()
vars(ns)['_'] = io.StringIO()
direct('odd-keys', ns)
# argv of different kinds is not looked at
direct('argv-none', argparse.Namespace(generator=GenDoc()), argv=())


# ---------------------------------------------------------------
# 2. through the command line of pbgen (and cnfgen, which has its own
#    copy of the helper)
# ---------------------------------------------------------------
cnf_path = os.path.join(tmpdir, 'input.cnf')
with open(cnf_path, 'w') as fh:
    fh.write("c a comment\np cnf 4 3\n1 -2 0\n2 3 -4 0\n0\n")
gml_path = os.path.join(tmpdir, 'graph.gml')
with open(gml_path, 'w') as fh:
    fh.write('graph [\n node [ id 1 ]\n node [ id 2 ]\n node [ id 3 ]\n'
             ' edge [ source 1 target 2 ]\n edge [ source 2 target 3 ]\n'
             ' edge [ source 1 target 3 ]\n]\n')
kth_path = os.path.join(tmpdir, 'dag.kthlist')
with open(kth_path, 'w') as fh:
    fh.write("3\n1 :\n2 : 1\n3 : 1 2\n")


def run_cli(tag, cli, argv, outname=None, mode='output', stdin=''):
    out, err = io.StringIO(), io.StringIO()
    path = None
    if outname is not None:
        path = os.path.join(tmpdir, 'cli_' + outname)
        argv = argv[:1] + ['-o', path] + argv[1:]
    old_stdin = sys.stdin
    sys.stdin = io.StringIO(stdin)
    try:
        with contextlib.redirect_stdout(out), contextlib.redirect_stderr(err):
            res = cli(argv, mode=mode)
        status = ('OK', res if isinstance(res, (str, type(None)))
                  else type(res).__name__)
    except SystemExit as e:
        status = ('EXIT', e.code)
    except BaseException as e:  # noqa
        status = ('EXC', type(e).__name__, str(e))
    finally:
        sys.stdin = old_stdin
    content = None
    if path is not None and os.path.exists(path):
        with open(path, encoding='utf-8') as fh:
            content = fh.read()
        os.unlink(path)
    rec(tag, argv, mode, status, out.getvalue(), err.getvalue(), content)


families = [
    ['php', '3', '2'], ['op', '3'], ['and', '2', '1'], ['or', '1', '2'],
    ['false'], ['true'], ['count', '4', '2'], ['parity', '4'],
    ['matching', 'complete', '4'], ['tseitin', 'first', 'complete', '4'],
    ['kcolor', '3', 'complete', '3'], ['kcolor', '2', gml_path],
    ['kcolor', '2', 'gml', gml_path],
    ['subsetcard', 'bipartite', 'complete', '2', '3'],
    ['peb', 'pyramid', '2'], ['peb', kth_path], ['peb', 'kthlist', kth_path],
    ['dimacs', cnf_path], ['dimacs'], ['dimacs', os.path.join(tmpdir, 'missing.cnf')],
    ['randkcnf', '3', '5', '4'], ['ram', '3', '3', '4'], ['vdw', '5', '2', '2'],
    ['bphp', '3', '2'], ['rphp', '3', '2', '2'], ['domset', '2', 'complete', '3'],
    ['nosuchfamily'], []
]
for fam in families:
    for fmt in [['-of', 'latex'], ['-l'], ['-of', 'opb'], []]:
        for verb in [[], ['-q']]:
            argv = ['pbgen', '--seed', '17'] + fmt + verb + fam
            run_cli('pbgen', pbgen_cli, argv,
                    stdin="p cnf 2 2\n1 2 0\n-1 0\n")
    run_cli('pbgen-file', pbgen_cli, ['pbgen', '--seed', '17'] + fam,
            outname='out.tex', stdin="p cnf 1 1\n1 0\n")
    run_cli('pbgen-file', pbgen_cli,
            ['pbgen', '--seed', '17', '--varnames'] + fam, outname='out.opb',
            stdin="p cnf 1 1\n1 0\n")
    run_cli('pbgen-string', pbgen_cli,
            ['pbgen', '--seed', '17', '-of', 'latex'] + fam, mode='string',
            stdin="p cnf 1 1\n1 0\n")
    run_cli('cnfgen', cnfgen_cli,
            ['cnfgen', '--seed', '17', '-of', 'latex'] + fam,
            stdin="p cnf 2 2\n1 2 0\n-1 0\n")

run_cli('pbgen-T', pbgen_cli, ['pbgen', '-of', 'latex', 'php', '3', '2', '-T', 'shuffle'])
run_cli('pbgen-dimacs', pbgen_cli, ['pbgen', '-of', 'dimacs', 'php', '3', '2'])
run_cli('pbgen-cnfout', pbgen_cli, ['pbgen', 'php', '3', '2'], outname='x.cnf')
run_cli('cnfgen-T', cnfgen_cli,
        ['cnfgen', '-of', 'latex', 'dimacs', cnf_path, '-T', 'xor', '2',
         '-T', 'shuffle'])

# the function the command line really calls is the one of the module
rec('same-function', pbgen.build_latex_cmdline_description
    is build_latex_cmdline_description)

for root, dirs, files in os.walk(tmpdir, topdown=False):
    for f in files:
        os.unlink(os.path.join(root, f))
    os.rmdir(root)

digest = hashlib.sha256("\n".join(LOG).encode('utf-8', 'replace')).hexdigest()
print(digest)
