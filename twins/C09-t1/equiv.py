#!/usr/bin/env python
"""Equivalence digest for property C09 (Shuffle / cnfshuffle / '-T shuffle').

Run as:  cd <checkout> && /venv/bin/python equiv.py
Prints one SHA256 digest of everything observable.
"""
import os
import sys
sys.path.insert(0, os.getcwd())
os.environ['COLUMNS'] = '80'

import contextlib
import hashlib
import io
import itertools
import random
import re
import tempfile

from cnfgen import CNF, Shuffle
from cnfgen.clitools.cnfshuffle import cli as shuffle_cli
import importlib
shuffle_mod = importlib.import_module('cnfgen.clitools.cnfshuffle')
from cnfgen.clitools.cnfgen import cli as cnfgen_cli
from cnfgen.clitools.cnfgen import parse_command_line
from cnfgen.clihelpers.transformation_helpers import ShuffleCmd

H = hashlib.sha256()
DEBUG = open(os.environ['EQUIV_DEBUG'], 'w') if os.environ.get('EQUIV_DEBUG') else None
VERS = re.compile(r'CNFgen \([^)]*\)')


TMPDIR = None


def norm(text):
    if TMPDIR is not None:
        text = text.replace(TMPDIR, '<TMP>')
    return VERS.sub('CNFgen (X)', text)


def rec(*items):
    for it in items:
        H.update(norm(repr(it)).encode('utf-8'))
        H.update(b'\x00')
    H.update(b'\n')
    if DEBUG:
        DEBUG.write(norm(repr(items)) + '\n')


def describe(G):
    return (G.number_of_variables(), G.number_of_clauses(),
            [list(c) for c in G.clauses()], list(G.header.items()))


class KeepIO(io.StringIO):
    def close(self):
        # cnfshuffle's main() closes sys.stderr
        pass


def attempt(label, fn):
    """Run fn, record result or exception, plus stdout/stderr and the
    state of the random stream afterwards"""
    out, err = KeepIO(), KeepIO()
    try:
        with contextlib.redirect_stdout(out), contextlib.redirect_stderr(err):
            res = fn()
        if isinstance(res, CNF):
            res = describe(res)
        rec(label, 'OK', res)
    except SystemExit as e:
        rec(label, 'EXIT', e.code)
    except BaseException as e:
        rec(label, 'EXC', type(e).__name__, str(e))
    rec(out.getvalue(), err.getvalue(), random.random())


# ---------------------------------------------------------------- formulas
def formulas():
    fs = []
    fs.append(('empty', CNF()))
    F = CNF()
    F.update_variable_number(4)
    fs.append(('novars-clauses', F))
    fs.append(('emptyclause', CNF([[]])))
    fs.append(('unit', CNF([[1]])))
    fs.append(('small', CNF([[1, -2], [2, 3], [-1], [1, 2, -3, 4], []])))
    fs.append(('dups', CNF([[1, 2], [1, 2], [-1, -2], [1, 2]])))
    rnd = random.Random(99)
    for n, m, k in [(5, 12, 3), (9, 30, 4), (20, 60, 3)]:
        cls = []
        for _ in range(m):
            vs = rnd.sample(range(1, n + 1), rnd.randint(0, k))
            cls.append([v * rnd.choice([-1, 1]) for v in vs])
        F = CNF(cls)
        F.update_variable_number(n + 2)
        fs.append(('rand%d' % n, F))
    F = CNF([[1, 2], [-1, 3]])
    F.header['transformation 1'] = 'something'
    F.header['transformation 2'] = 'else'
    del F.header['description']
    fs.append(('hdr', F))
    return fs


FS = formulas()
MODES = ['fixed', 'shuffle']

# ------------------------------------------------ library, string arguments
for name, F in FS:
    before = describe(F)
    for seed in [0, 1, 2, 17, 'abc']:
        for p, v, c in itertools.product(MODES, MODES, MODES):
            random.seed(seed)
            attempt(('lib', name, seed, p, v, c),
                    lambda: Shuffle(F, polarity_flips=p,
                                    variables_permutation=v,
                                    clauses_permutation=c))
    random.seed(5)
    attempt(('lib-default', name), lambda: Shuffle(F))
    random.seed(5)
    attempt(('lib-positional', name), lambda: Shuffle(F, 'fixed', 'shuffle', 'fixed'))
    rec('input untouched', before == describe(F))

# ---------------------------------------------- library, explicit arguments
rnd = random.Random(2024)
for name, F in FS:
    N, M = F.number_of_variables(), F.number_of_clauses()
    for trial in range(6):
        flips = [rnd.choice([-1, 1]) for _ in range(N)]
        vperm = list(range(1, N + 1))
        rnd.shuffle(vperm)
        cperm = list(range(M))
        rnd.shuffle(cperm)
        random.seed(trial)
        attempt(('exp-all', name, trial),
                lambda: Shuffle(F, flips, vperm, cperm))
        attempt(('exp-tuple', name, trial),
                lambda: Shuffle(F, tuple(flips), tuple(vperm), tuple(cperm)))
        attempt(('exp-range', name, trial),
                lambda: Shuffle(F, flips, range(1, N + 1), range(M)))
        for which in range(3):
            args = ['shuffle', 'fixed', 'shuffle']
            args[which] = [flips, vperm, cperm][which]
            random.seed(trial)
            attempt(('exp-one', name, trial, which),
                    lambda: Shuffle(F, *args))
    # invalid ones
    bad_flips = [[1] * (N + 1), [1] * max(N - 1, 0) if N else [1],
                 [0] * N if N else [0], [2] + [1] * (N - 1) if N else [-1, -1],
                 [1] * (N - 1) + [-3] if N else [5], [], 'abc', None, 7]
    bad_vperm = [list(range(N)), list(range(1, N + 2)), list(range(2, N + 2)),
                 [1] * N if N > 1 else [2], list(range(1, N)) if N else [1],
                 [-x for x in range(1, N + 1)] if N else [0],
                 [N + 1] + list(range(2, N + 1)) if N else [1, 2], 'xyz', None,
                 [1.5] * N if N else [1.5]]
    bad_cperm = [list(range(1, M + 1)) if M else [0], list(range(M + 1)),
                 list(range(M - 1)) if M else [1, 0],
                 [0] * M if M > 1 else [3], [M] + list(range(1, M)) if M else [0, 1],
                 [-1] + list(range(1, M)) if M else [-1], 'qq', None]
    for i, b in enumerate(bad_flips):
        random.seed(i)
        attempt(('bad-flips', name, i), lambda: Shuffle(F, polarity_flips=b))
        attempt(('bad-flips-fixed', name, i),
                lambda: Shuffle(F, b, 'fixed', 'fixed'))
    for i, b in enumerate(bad_vperm):
        random.seed(i)
        attempt(('bad-vperm', name, i), lambda: Shuffle(F, variables_permutation=b))
        attempt(('bad-vperm-fixed', name, i),
                lambda: Shuffle(F, 'fixed', b, 'fixed'))
    for i, b in enumerate(bad_cperm):
        random.seed(i)
        attempt(('bad-cperm', name, i), lambda: Shuffle(F, clauses_permutation=b))
        attempt(('bad-cperm-fixed', name, i),
                lambda: Shuffle(F, 'fixed', 'fixed', b))
    # first invalid one wins
    attempt(('bad-all', name),
            lambda: Shuffle(F, [1] * (N + 3), [0] * (N + 3), [0] * (M + 3)))
    attempt(('bad-vc', name),
            lambda: Shuffle(F, [1] * N, [0] * (N + 3), [0] * (M + 3)))

# repeated shuffling: header transformation counter
random.seed(11)
G = FS[4][1]
for i in range(4):
    G = Shuffle(G)
    rec('iter', i, describe(G))

# ----------------------------------------------------------- cnfshuffle tool
DIMACS = {
    'tiny': "p cnf 3 2\n1 -2 0\n2 3 0\n",
    'comment': "c hello\nc world\np cnf 5 4\n1 -2 0\n2 3 -5 0\n0\n-4 0\n",
    'zero': "p cnf 0 0\n",
    'wide': FS[7][1].to_dimacs(),
    'bad1': "p cnf 2 1\n1 3 0\n",
    'bad2': "p cnf 2 2\n1 2 0\n",
    'bad3': "hello\n",
    'bad4': "",
}
tmpdir = tempfile.mkdtemp(prefix='c09equiv')
TMPDIR = tmpdir
SW = [('-p', '--no-polarity-flips'), ('-v', '--no-variables-permutation'),
      ('-c', '--no-clauses-permutation')]


def with_stdin(text, fn):
    old = sys.stdin
    sys.stdin = io.StringIO(text)
    try:
        return fn()
    finally:
        sys.stdin = old


for dname, text in DIMACS.items():
    path = os.path.join(tmpdir, dname + '.cnf')
    with open(path, 'w') as f:
        f.write(text)
    for mask in range(8):
        for longopt in (0, 1):
            sw = [SW[j][longopt] for j in range(3) if mask & (1 << j)]
            for seed in ['0', '42']:
                for mode in ['string', 'formula', 'output']:
                    argv = ['cnfshuffle', '-S', seed] + sw
                    random.seed(123)
                    attempt(('sh-stdin', dname, mask, longopt, seed, mode),
                            lambda: with_stdin(text, lambda: shuffle_cli(argv, mode=mode)))
                argv = ['cnfshuffle', '--seed', seed, '-q', '-i', path] + sw
                attempt(('sh-file', dname, mask, longopt, seed),
                        lambda: shuffle_cli(argv, mode='string'))
    # unseeded: uses the global stream
    random.seed(77)
    attempt(('sh-unseeded', dname),
            lambda: with_stdin(text, lambda: shuffle_cli(['cnfshuffle', '-q'], mode='string')))
    # output on file
    opath = os.path.join(tmpdir, dname + '.out')
    attempt(('sh-outfile', dname),
            lambda: shuffle_cli(['cnfshuffle', '-S', 9, '-i', path, '-o', opath, '-pc']))
    if os.path.exists(opath):
        with open(opath) as f:
            rec('outfile', f.read())
    # default mode and main() with exit codes
    for extra in [[], ['-q'], ['-v', '-q'], ['--bogus'], ['-S'], ['-h']]:
        def run_main():
            old = sys.argv
            sys.argv = ['cnfshuffle', '-S', '3', '-i', path] + extra
            try:
                return shuffle_mod.cli(sys.argv)
            finally:
                sys.argv = old

        def run_real_main():
            old = sys.argv
            sys.argv = ['cnfshuffle', '-S', '3', '-i', path] + extra
            try:
                return shuffle_mod.main()
            finally:
                sys.argv = old
        attempt(('sh-default', dname, extra), run_main)
        attempt(('sh-main', dname, extra), run_real_main)

attempt(('sh-missing-file',),
        lambda: shuffle_cli(['cnfshuffle', '-i', os.path.join(tmpdir, 'nonexistent.cnf')], mode='string'))
attempt(('sh-positional',), lambda: with_stdin(DIMACS['tiny'],
        lambda: shuffle_cli(['cnfshuffle', 'extra'], mode='string')))

# ------------------------------------------------------------- '-T shuffle'
GEN = [['php', '3', '2'], ['op', '3'], ['and', '2', '1'], ['randkcnf', '3', '6', '9'],
       ['and', '0', '0'], ['or', '0', '0']]
for gen in GEN:
    for mask in range(8):
        for longopt in (0, 1):
            sw = [SW[j][longopt] for j in range(3) if mask & (1 << j)]
            for seed in ['1', '23', 'xyz']:
                argv = ['cnfgen', '-S', seed] + gen + ['-T', 'shuffle'] + sw
                for mode in ['string', 'formula']:
                    random.seed(5)
                    attempt(('T', gen, mask, longopt, seed, mode),
                            lambda: cnfgen_cli(argv, mode=mode))
    random.seed(31)
    attempt(('T-unseeded', gen),
            lambda: cnfgen_cli(['cnfgen', '-q'] + gen + ['-T', 'shuffle'], mode='string'))
    attempt(('T-output', gen),
            lambda: cnfgen_cli(['cnfgen', '-S', '8'] + gen + ['-T', 'shuffle', '-c']))
    attempt(('T-opb', gen),
            lambda: cnfgen_cli(['cnfgen', '-S', '8', '-of', 'opb'] + gen + ['-T', 'shuffle', '-v'], mode='string'))
    attempt(('T-latex', gen),
            lambda: cnfgen_cli(['cnfgen', '-S', '8', '-of', 'latex'] + gen + ['-T', 'shuffle', '-pvc'], mode='string'))
    attempt(('T-chain', gen),
            lambda: cnfgen_cli(['cnfgen', '-S', '8'] + gen + ['-T', 'shuffle', '-T', 'xor', '2', '-T', 'shuffle', '-p', '-T', 'none'], mode='string'))
    attempt(('T-twice', gen),
            lambda: cnfgen_cli(['cnfgen', '-S', '8'] + gen + ['-T', 'shuffle', '-T', 'shuffle'], mode='formula'))
    for bad in [['-T'], ['-T', 'shuffle', '-x'], ['-T', 'shuffle', 'extra'],
                ['-T', 'shuffle', '-h'], ['-T', 'shufle'], ['-T', '-T', 'shuffle'],
                ['-T', 'shuffle', '-T'], ['-T', 'shuffle', '--no-polarity'],
                ['-T', 'shuffle', '--no-']]:
        attempt(('T-bad', gen, bad),
                lambda: cnfgen_cli(['cnfgen', '-S', '8'] + gen + bad, mode='string'))

# helper called directly


class NS:
    def __init__(self, p, v, c):
        self.no_polarity_flips = p
        self.no_variables_permutation = v
        self.no_clauses_permutation = c


for name, F in FS:
    for p, v, c in itertools.product([False, True], repeat=3):
        random.seed(name)
        attempt(('helper', name, p, v, c),
                lambda: ShuffleCmd.transform_cnf(F, NS(p, v, c)))
    for p, v, c in [(0, 1, ''), ('x', None, []), ([0], 0.0, 'no')]:
        random.seed(name)
        attempt(('helper-truthy', name, repr((p, v, c))),
                lambda: ShuffleCmd.transform_cnf(F, NS(p, v, c)))
attempt(('helper-missing',), lambda: ShuffleCmd.transform_cnf(FS[3][1], object()))

# command line splitting


class FakeParser:
    def __init__(self, tag, fail_on=None):
        self.tag = tag
        self.fail_on = fail_on
        self.calls = []

    def parse_args(self, cmd):
        self.calls.append(list(cmd))
        if self.fail_on is not None and self.fail_on in cmd:
            raise ValueError('fail ' + self.tag + ' ' + repr(cmd))
        return (self.tag, tuple(cmd))


for argv in [[], ['cnfgen'], ['cnfgen', 'php', '3', '2'], ['cnfgen', '-T'],
             ['-T'], ['-T', '-T'], ['cnfgen', 'a', '-T', 'b', 'c', '-T', 'd', '-T'],
             ['cnfgen', 'a', '-T', 'BOOM', '-T', 'd'], ['cnfgen', 'BOOM', '-T', 'b'],
             ['cnfgen', 'a', '-T', 'b', '-T', 'BOOM', '-T', 'e'], ['cnfgen', '-t', '-TT', '-T']]:
    fp, tp = FakeParser('f', 'BOOM'), FakeParser('t', 'BOOM')
    attempt(('split', argv), lambda: parse_command_line(argv, fp, tp))
    rec(fp.calls, tp.calls)

import shutil
shutil.rmtree(tmpdir, ignore_errors=True)
print(H.hexdigest())
