import os, sys, io, hashlib, random, tempfile
sys.path.insert(0, os.getcwd())
import cnfgen
import importlib
cnfgen_tool = importlib.import_module('cnfgen.clitools.cnfgen')
pbgen_tool = importlib.import_module('cnfgen.clitools.pbgen')
shuffle_tool = importlib.import_module('cnfgen.clitools.cnfshuffle')
msgmod = importlib.import_module('cnfgen.clitools.msg')

H = hashlib.sha256()
def rec(*items):
    for it in items:
        H.update(repr(it).encode('utf-8'))
        H.update(b'\x00')

class Sink(io.StringIO):
    def close(self):
        pass

TOOLS = {'cnfgen': cnfgen_tool.main, 'pbgen': pbgen_tool.main, 'cnfshuffle': shuffle_tool.main}

def run(tool, args, stdin=''):
    """Run the real entry point main() in process, record everything observable"""
    old = sys.argv, sys.stdout, sys.stderr, sys.stdin
    out, err = Sink(), Sink()
    sys.argv = [tool] + [str(a) for a in args]
    sys.stdout, sys.stderr, sys.stdin = out, err, io.StringIO(stdin)
    msgmod._prefix = ''
    random.seed(12345)
    status = 'ok'
    try:
        try:
            TOOLS[tool]()
        except SystemExit as e:
            status = 'exit %r' % (e.code,)
        except BaseException as e:
            status = 'EXC %s: %s' % (type(e).__name__, e)
    finally:
        sys.argv, sys.stdout, sys.stderr, sys.stdin = old
    rec(tool, args, status, out.getvalue(), err.getvalue())
    return status, out.getvalue(), err.getvalue()

# ---- t24: graph arguments on the command line (ObtainSimpleGraph / Bipartite / DAG actions)
import argparse
from cnfgen.clitools import graph_args
from cnfgen.clitools.cmdline import CLIParser, CLIError

workdir = tempfile.TemporaryDirectory()
os.chdir(workdir.name)
with open('g.gml', 'w') as f:
    f.write('graph [\n node [ id 1 ]\n node [ id 2 ]\n node [ id 3 ]\n edge [ source 1 target 2 ]\n edge [ source 2 target 3 ]\n]\n')
with open('g.kthlist', 'w') as f:
    f.write('3\n1 : 2 3 0\n2 : 3 0\n3 : 0\n')
with open('d.kthlist', 'w') as f:
    f.write('3\n1 : 0\n2 : 1 0\n3 : 1 2 0\n')
with open('b.matrix', 'w') as f:
    f.write('2 3\n1 1 0\n0 1 1\n')
with open('bad.matrix', 'w') as f:
    f.write('2 3\n1 1\n0 x 1\n')
with open('bad.kthlist', 'w') as f:
    f.write('3\n1 : 2 7 0\nfoo\n')
with open('bad.gml', 'w') as f:
    f.write('this is not gml')
with open('noext', 'w') as f:
    f.write('3\n')
with open('empty.dot', 'w') as f:
    f.write('')

simple_specs = [
    'gnp 6 .5', 'gnp 0 .5', 'gnp 6 1.5', 'gnp 6', 'gnp -1 .5', 'gnp 6 .5 7', 'gnm 5 4', 'gnm 5 11', 'gnm 5 -1',
    'gnd 6 3', 'gnd 5 3', 'gnd 4 5', 'grid 3 2', 'grid', 'grid 0', 'torus 3 3', 'torus 1', 'complete 4', 'complete 0',
    'complete -2', 'empty 3', 'empty', 'complete 5 plantclique 3', 'gnp 6 .2 plantclique 9', 'gnp 6 .2 plantclique',
    'gnp 6 .2 addedges 3', 'gnp 4 .2 addedges 30', 'complete 4 splitedges 2', 'complete 4 splitedges 20',
    'gnp 5 .5 save out.gml', 'gnp 5 .5 save gml', 'gnp 5 .5 save', 'gnp 5 .5 save kthlist out2.txt', 'gnp 5 .5 save out.zzz',
    'gnp 5 .5 save /nonexistent_dir/out.gml',
    'g.gml', 'gml g.gml', 'kthlist g.kthlist', 'g.kthlist', 'bad.kthlist', 'bad.gml', 'noext', 'gml', 'missing.gml',
    'missing', 'matrix b.matrix', 'glrp 3 3 .5', 'pyramid 3', 'gnp 5 .5 gnp 4 .5', 'gnp 5 .5 simple', 'gnp 5 .5 --foo',
    'gnp 5 .5 plantbiclique 2 2', 'gnp 5 .5 addedges 1 addedges 1', 'dot empty.dot', 'empty.dot', 'gnp x y', 'gnp 3.5 .5',
    '.', '/', 'gnp 5 .5 save .',
]
bip_specs = [
    'glrp 3 4 .5', 'glrp 3 4 2', 'glrp 3', 'glrm 3 3 4', 'glrm 3 3 10', 'glrd 4 4 2', 'glrd 4 4 5', 'regular 4 4 2',
    'regular 4 6 3', 'regular 4 5 3', 'shift 3 5 1 2', 'shift 3 5', 'shift 3 5 1 7', 'shift 0 0', 'complete 2 3', 'complete 2',
    'complete 0 3', 'empty 2 2', 'complete 4 4 plantbiclique 2 2', 'glrp 3 3 .1 plantbiclique 5 5', 'glrp 3 3 .1 plantbiclique 1',
    'glrp 3 3 .1 addedges 2', 'glrp 2 2 .1 addedges 20', 'b.matrix', 'matrix b.matrix', 'bad.matrix', 'matrix', 'gml g.gml',
    'kthlist g.kthlist', 'gnp 5 .5', 'missing.matrix', 'glrp 3 3 .5 save b2.matrix', 'glrp 3 3 .5 save matrix',
    'glrp 3 3 .5 plantclique 2', 'glrp 3 3 .5 -x', 'noext',
]
dag_specs = [
    'pyramid 3', 'pyramid 0', 'pyramid -1', 'pyramid', 'pyramid 2 2', 'tree 2', 'tree 0', 'tree x', 'path 4', 'path 0', 'path',
    'd.kthlist', 'kthlist d.kthlist', 'g.kthlist', 'kthlist g.kthlist', 'bad.kthlist', 'g.gml', 'missing.kthlist', 'kthlist',
    'pyramid 3 save p.kthlist', 'pyramid 3 save', 'pyramid 3 addedges 2', 'pyramid 3 tree 2', 'gnp 4 .5', 'matrix b.matrix',
    'noext', 'pyramid 3 save dot p.dot', 'pyramid 3 save gml p.gml',
]

def show_graph(G):
    try:
        edges = sorted(G.edges())
    except Exception as e:
        edges = 'EDGES %s %s' % (type(e).__name__, e)
    return (type(G).__name__, getattr(G, 'name', None), edges)

# 1. the actions inside a bare CLIParser
actions = [('simple', graph_args.ObtainSimpleGraph, simple_specs),
           ('bipartite', graph_args.ObtainBipartiteGraph, bip_specs),
           ('dag', graph_args.ObtainDirectedAcyclicGraph, dag_specs)]
for gtype, action, specs in actions:
    rec('class', action.__name__, [c.__name__ for c in action.__mro__])
    for spec in specs:
        parser = CLIParser(prog='tool', usage='usage: tool G')
        parser.add_argument('G', action=action)
        random.seed(42)
        try:
            ns = parser.parse_args(spec.split())
            rec(gtype, spec, 'OK', show_graph(ns.G), random.random())
        except BaseException as e:
            rec(gtype, spec, 'EXC', type(e).__name__, str(e), random.random())
    for kw in [dict(nargs=2), dict(nargs='*')]:
        parser = CLIParser(prog='tool', usage='usage: tool G')
        try:
            parser.add_argument('G', action=action, **kw)
            rec('nargs accepted')
        except BaseException as e:
            rec('nargs', type(e).__name__, str(e))
    parser = CLIParser(prog='tool', usage='usage: tool G')
    a = parser.add_argument('G', action=action, help='a graph')
    rec(a.nargs, a.dest, parser.format_help(), parser.format_usage())

# base class used directly
parser = CLIParser(prog='tool', usage='usage: tool G')
try:
    parser.add_argument('G', action=graph_args.ObtainGraphAction)
    ns = parser.parse_args(['gnp', '4', '.5'])
    rec('base', sorted(vars(ns)))
except BaseException as e:
    rec('base', type(e).__name__, str(e))

# 2. through the real command lines
for spec in simple_specs:
    run('cnfgen', ['-S', '7', 'kcolor', '3'] + spec.split())
    run('cnfgen', ['-q', 'matching'] + spec.split())
for spec in simple_specs[:30:3]:
    run('cnfgen', ['-of', 'latex', 'kclique', '2'] + spec.split())
    run('cnfgen', ['-of', 'opb', 'domset', '2'] + spec.split())
    run('pbgen', ['vertexcover', '2'] + spec.split())
for spec in bip_specs:
    run('cnfgen', ['-S', '3', 'php'] + spec.split())
    run('cnfgen', ['-S', '3', 'subsetcard'] + spec.split())
    run('cnfgen', ['-S', '3', 'op', '3', '-T', 'xorcomp'] + spec.split())
for spec in dag_specs:
    run('cnfgen', ['-S', '3', 'peb'] + spec.split())
    run('cnfgen', ['-of', 'latex', 'stone', '2'] + spec.split())
run('cnfgen', ['kcolor', '3'])
run('cnfgen', ['iso', 'gnp', '4', '.5', '-e', 'complete', '4'])
run('cnfgen', ['iso', 'gnp', '4', '.5', '-e', 'missing.gml'])
run('cnfgen', ['kcolor', '3', '-'], stdin='graph [ node [ id 1 ] ]')
run('cnfgen', ['kcolor', '3', 'gml', '-'], stdin='graph [\n node [ id 1 ]\n node [ id 2 ]\n edge [ source 1 target 2 ]\n]\n')
run('cnfgen', ['kcolor', '3', 'gml', '-'], stdin='garbage')
run('cnfgen', ['peb', 'kthlist', '-'], stdin='3\n1 : 0\n2 : 1 0\n3 : 1 2 0\n')
run('cnfgen', ['peb', 'kthlist', '-'], stdin='3\n1 : 2 0\n2 : 1 0\n')
run('cnfgen', ['php', 'matrix', '-'], stdin='2 2\n1 0\n0 1\n')
run('cnfgen', ['php', 'matrix', '-'], stdin='2 2\n1 0\n')

# files written by 'save'
for name in sorted(os.listdir('.')):
    with open(name) as f:
        rec('file', name, f.read())
os.chdir('/')
workdir.cleanup()
print(H.hexdigest())
