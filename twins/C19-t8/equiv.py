#!/usr/bin/env python
"""Equivalence check for the command line helpers of the variable
compression transformations (XorCompressionCmd / MajCompressionCmd in
cnfgen.clihelpers.transformation_helpers): produced formulas, headers
with the provenance entries, random stream, error messages."""
import os
import sys
import io
import hashlib
import random
import contextlib
from argparse import Namespace

sys.path.insert(0, os.getcwd())

import cnfgen
from cnfgen import CNF
from cnfgen.graphs import BipartiteGraph, CompleteBipartiteGraph
from cnfgen.clihelpers.transformation_helpers import XorCompressionCmd, MajCompressionCmd
from cnfgen.clitools.cnfgen import cli as cnfgen_cli
from cnfgen.clitools.kthlist2pebbling import cli as kth_cli
from cnfgen.clitools.cmdline import get_transformation_helpers

out = []


def record(*items):
    out.append(repr(items))


def fsnap(F):
    return (F.number_of_variables(), F.number_of_clauses(),
            list(F.all_variable_labels()), [tuple(c) for c in F],
            list(F.header.items()))


def bsnap(B):
    return (B.left_order(), B.right_order(), B.name,
            [list(B.right_neighbors(u)) for u in range(1, B.left_order() + 1)])


# the set of helpers discovered by the command line tools must not change
record('helpers', [(h.name, h.__name__) for h in get_transformation_helpers()])

F3 = CNF([[1, -2], [2, 3], [-1, -3], [1, 2, 3]], description='three variables')
F3.header['transformation 1'] = 'an earlier step'
F1 = CNF([[1], [-1]], description='one variable')
F0 = CNF(description='no variables')
F0c = CNF([[]], description='no variables, empty clause')

B34 = BipartiteGraph(3, 4, name='explicit mapping')
for u, v in [(1, 1), (1, 2), (2, 2), (2, 3), (3, 3), (3, 4), (3, 1)]:
    B34.add_edge(u, v)


def namespaces():
    yield 'N3 d2', Namespace(N=3, d=2)
    yield 'N5 d3', Namespace(N=5, d=3)
    yield 'N4 d4', Namespace(N=4, d=4)
    yield 'N1 d1', Namespace(N=1, d=1)
    yield 'N2 d3 (d too large)', Namespace(N=2, d=3)
    yield 'N4 d0', Namespace(N=4, d=0)
    yield 'N0 d0', Namespace(N=0, d=0)
    yield 'N -1', Namespace(N=-1, d=1)
    yield 'N str', Namespace(N='4', d='2')
    yield 'N without d', Namespace(N=4)
    yield 'd without N', Namespace(d=4)
    yield 'B', Namespace(B=B34)
    yield 'B complete', Namespace(B=CompleteBipartiteGraph(3, 2))
    yield 'B 1x3', Namespace(B=CompleteBipartiteGraph(1, 3))
    yield 'B empty', Namespace(B=BipartiteGraph(0, 0))
    yield 'B wrong size', Namespace(B=CompleteBipartiteGraph(2, 2))
    yield 'B None', Namespace(B=None)
    yield 'B bad type', Namespace(B=[1, 2, 3])
    yield 'both N and B', Namespace(N=4, d=2, B=B34)
    yield 'N None and B', Namespace(N=None, d=None, B=B34)
    yield 'nothing', Namespace()
    yield 'unrelated', Namespace(args=['5', '2'], transformation=XorCompressionCmd)


for helper in (XorCompressionCmd, MajCompressionCmd):
    record(helper.name, helper.__name__, helper.__mro__[1].__name__,
           sorted(k for k in vars(helper) if not k.startswith('__')))
    for fname, F in (('F3', F3), ('F1', F1), ('F0', F0), ('F0c', F0c)):
        for nsname, ns in namespaces():
            random.seed(4242)
            fbefore = fsnap(F)
            nsbefore = sorted(k for k in vars(ns))
            bbefore = bsnap(B34)
            try:
                R = helper.transform_cnf(F, ns)
                record(helper.name, fname, nsname, 'ok', R is F, fsnap(R))
            except BaseException as e:
                record(helper.name, fname, nsname, 'exc', type(e).__name__, str(e))
            record('random stream', random.random())
            record('untouched', fsnap(F) == fbefore,
                   sorted(k for k in vars(ns)) == nsbefore, bsnap(B34) == bbefore)

# through the command line
CMDS = [
    ['cnfgen', '--seed', 3, 'php', 3, 2, '-T', 'xorcomp', 4],
    ['cnfgen', '--seed', 3, 'php', 3, 2, '-T', 'xorcomp', 4, 2],
    ['cnfgen', '--seed', 3, 'php', 3, 2, '-T', 'majcomp', 4],
    ['cnfgen', '--seed', 3, 'php', 3, 2, '-T', 'majcomp', 5, 1],
    ['cnfgen', '--seed', 3, 'php', 3, 2, '-T', 'majcomp', 2, 3],
    ['cnfgen', '--seed', 3, 'php', 3, 2, '-T', 'xorcomp', 0],
    ['cnfgen', '--seed', 3, 'php', 3, 2, '-T', 'xorcomp', 3, 0],
    ['cnfgen', '--seed', 3, 'php', 3, 2, '-T', 'xorcomp', 3, 2, 1],
    ['cnfgen', '--seed', 3, 'php', 3, 2, '-T', 'xorcomp', 2.5],
    ['cnfgen', '--seed', 3, 'php', 3, 2, '-T', 'xorcomp'],
    ['cnfgen', '--seed', 3, 'php', 3, 2, '-T', 'majcomp'],
    ['cnfgen', '--seed', 3, 'php', 3, 2, '-T', 'xorcomp', 'glrd', 6, 4, 2],
    ['cnfgen', '--seed', 3, 'php', 3, 2, '-T', 'majcomp', 'glrd', 6, 5, 3],
    ['cnfgen', '--seed', 3, 'php', 3, 2, '-T', 'xorcomp', 'glrd', 5, 4, 2],
    ['cnfgen', '--seed', 3, 'php', 3, 2, '-T', 'majcomp', 'complete', 6, 2],
    ['cnfgen', '--seed', 3, 'php', 3, 2, '-T', 'majcomp', 'nosuchgraph', 6, 2],
    ['cnfgen', '--seed', 3, 'php', 3, 2, '-T', 'xorcomp', 5, 2, '-T', 'majcomp', 4, 3],
    ['cnfgen', '--seed', 3, 'php', 3, 2, '-T', 'xor', 2, '-T', 'xorcomp', 7, 2, '-T', 'flip'],
    ['cnfgen', 'php', 3, 2, '-T', 'xorcomp', 4, 2],
    ['cnfgen', '-q', '--seed', 9, 'and', 0, 0, '-T', 'xorcomp', 4, 2],
    ['cnfgen', '-of', 'opb', '--seed', 9, 'op', 3, '-T', 'majcomp', 5],
]
for cmd in CMDS:
    for mode in ('string', 'formula', 'output'):
        random.seed(555)
        stdout = io.StringIO()
        stderr = io.StringIO()
        try:
            with contextlib.redirect_stdout(stdout), contextlib.redirect_stderr(stderr):
                res = cnfgen_cli(list(cmd), mode=mode)
            if mode == 'formula':
                res = fsnap(res)
            record('cli', cmd, mode, res, stdout.getvalue(), stderr.getvalue())
        except SystemExit as e:
            record('cli exit', cmd, mode, e.code, stdout.getvalue(), stderr.getvalue())
        except BaseException as e:
            record('cli exc', cmd, mode, type(e).__name__, str(e), stdout.getvalue())
        record('random stream', random.random())

# kthlist2pebbling shares the same helpers
KTH = "3\n1 : 0\n2 : 1 0\n3 : 1 2 0\n"
for tail in (['xorcomp', 4, 2], ['majcomp', 5], ['majcomp', 'glrd', 3, 4, 2],
             ['xorcomp'], ['xorcomp', 0], []):
    random.seed(808)
    stdout = io.StringIO()
    cmd = ['kthlist2pebbling', '-i', '-'] + tail
    old_stdin = sys.stdin
    sys.stdin = io.StringIO(KTH)
    try:
        with contextlib.redirect_stdout(stdout), contextlib.redirect_stderr(io.StringIO()):
            res = kth_cli(cmd, mode='string')
        record('kth', cmd, res, stdout.getvalue())
    except SystemExit as e:
        record('kth exit', cmd, e.code)
    except BaseException as e:
        record('kth exc', cmd, type(e).__name__, str(e))
    finally:
        sys.stdin = old_stdin
    record('random stream', random.random())

print(hashlib.sha256("\n".join(out).encode('utf-8')).hexdigest())
