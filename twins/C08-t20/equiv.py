#!/usr/bin/env python
"""Equivalence harness for the command line set up of pbgen
(cnfgen/clitools/pbgen.py): the parser and the formula subcommands,
help and error messages, and the formulas built by pbgen against the
ones built by cnfgen (variables, names, OPB text).
"""
import sys, os, io, hashlib, contextlib, tempfile
sys.path.insert(0, os.getcwd())

from cnfgen.clitools import pbgen as pbgen_module
from cnfgen.clitools.cnfgen import cli as cnfgen_cli
from cnfgen.clitools.pbgen import cli as pbgen_cli
from cnfgen.clitools.cmdline import get_formula_helpers

H = hashlib.sha256()
VERBOSE = os.environ.get('EQUIV_VERBOSE')

_scratch = tempfile.TemporaryDirectory()
os.chdir(_scratch.name)


def rec(*items):
    for it in items:
        if VERBOSE:
            print('REC', repr(it)[:400], file=sys.__stderr__)
        H.update(repr(it).encode('utf-8'))
        H.update(b'\x00')


def attempt(tag, fn):
    out, err = io.StringIO(), io.StringIO()
    try:
        with contextlib.redirect_stdout(out), contextlib.redirect_stderr(err):
            res = fn()
        rec(tag, 'ok', res)
    except BaseException as e:
        rec(tag, 'exc', type(e).__name__, str(e), getattr(e, 'code', None))
    rec(out.getvalue(), err.getvalue())


# ----------------------------------------------------------- the parser
helpers = get_formula_helpers()
rec([h.name for h in helpers])
parser = pbgen_module.setup_command_line_parsers('pbgen', helpers)
rec(type(parser).__name__, parser.prog, parser.format_usage(), parser.format_help())
for h in helpers:
    sp = h.subparser
    rec(h.name, type(sp).__name__, sp.prog, sp.get_default('generator') is h,
        sp.format_usage(), sp.format_help())
subactions = [a for a in parser._actions if a.__class__.__name__ == '_SubParsersAction']
rec(len(subactions))
for a in subactions:
    rec(a.metavar, a.dest, a.required, list(a.choices), a.option_strings,
        [type(p).__name__ for p in a.choices.values()],
        [p.prog for p in a.choices.values()])
rec([(a.option_strings, a.dest, a.nargs, repr(a.default), a.metavar, a.choices
      if not hasattr(a.choices, 'keys') else sorted(a.choices))
     for a in parser._actions])
# an empty list of helpers and a different program name
attempt('nohelpers', lambda: pbgen_module.setup_command_line_parsers('xx', []).format_help())
p2 = pbgen_module.setup_command_line_parsers('other', helpers[:3])
rec([h.subparser.prog for h in helpers[:3]])
attempt('p2', lambda: vars(p2.parse_args(['-q', 'and', '1', '1'])).keys())
attempt('p2bad', lambda: p2.parse_args(['php', '1', '1']))
# restore the subparsers of the full parser
parser = pbgen_module.setup_command_line_parsers('pbgen', helpers)

for argv in (['x'], ['x', '-q'], ['x', '-T'], ['x', 'php', '3', '2'], ['x', 'php', '-T', 'xor'],
             ['x', '-S', '3', '--varnames', 'op', '3'], ['x', 'nosuch'], ['x', 'php'],
             ['x', '-of', 'dimacs', 'php', '2', '1'], ['x', '-l', '-of', 'opb', 'php', 1, 1], []):
    def parse():
        ns = pbgen_module.parse_command_line([str(a) for a in argv], parser)
        d = dict(vars(ns))
        d.pop('output', None)
        if 'generator' in d:
            d['generator'] = d['generator'].name
        return sorted(d.items(), key=lambda kv: kv[0])
    attempt('parse:%r' % (argv,), parse)

# --------------------------------------------------- help and error paths
BAD = [
    ['-h'], ['--help'], ['--tutorial'], ['--help-graph'], ['--help-bipartite'], ['--help-dag'],
    ['-V'], [], ['-q'], ['nosuch'], ['php'], ['php', '-h'], ['php', 'a', 'b'], ['php', -1, 2],
    ['-T', 'xor', 2], ['php', 3, 2, '-T', 'xor', 2], ['-of', 'dimacs', 'php', 2, 1],
    ['-of', 'nosuch', 'php', 2, 1], ['-o', 'x.cnf', 'php', 2, 1], ['-o', 'x.tex', 'php', 2, 1],
    ['-q', '-v', 'php', 2, 1], ['-l', '-of', 'opb', 'php', 2, 1], ['-S', 'a', 'php', 2, 1],
    ['kcolor', 3], ['kcolor', 3, 'nosuchgraph'], ['tseitin', 'first', 'complete', 3],
    ['ec', 'complete', 4], ['op', 'x'], ['peb', 'tree'], ['dimacs', 'nosuchfile.cnf'],
    ['randkcnf', 3, 2, 1], ['randkcnf', 5, 2, 1], ['vdw', 3], ['ram', 1], ['cpls', 1, 1, 1],
]
for tail in BAD:
    for tool, cli in (('pbgen', pbgen_cli), ('cnfgen', cnfgen_cli)):
        for mode in ('string', 'output'):
            argv = [tool] + tail
            attempt('%s:%s:%r' % (tool, mode, tail), lambda: cli(argv, mode=mode))
        for name in ('x.cnf', 'x.tex'):
            if os.path.exists(name):
                with open(name, 'rb') as fh:
                    rec(name, fh.read())
                os.unlink(name)

# ------------------------------------------------------- the families
GOOD = [
    ['php', 4, 3], ['php', 3, 3, '--functional', '--onto'], ['php', 0, 0], ['php', 1, 0],
    ['php', 3, 2, 'complete', 3, 2] if False else ['php', 3, 'bcomplete', 3, 2],
    ['bphp', 3, 2], ['bphp', 3, 3], ['rphp', 2, 3, 2], ['op', 4], ['op', 3, '--total'],
    ['op', 3, '--smart'], ['op', 3, '--knuth2'], ['op', 'complete', 3],
    ['and', 2, 1], ['and', 0, 0], ['or', 0, 0], ['or', 1, 2], ['true'], ['false'],
    ['parity', 3], ['count', 4, 2], ['matching', 'complete', 4],
    ['tseitin', 'first', 'grid', 2, 3], ['tseitin', 5, 2], ['tseitin', 'random', 'gnd', 6, 3],
    ['peb', 'pyramid', 2], ['peb', 'tree', 2], ['peb', 'path', 3],
    ['stone', 2, 'pyramid', 1], ['stone', '--sparse', 2, 'pyramid', 1] if False else ['stone', 3, 'path', 2],
    ['kcolor', 3, 'complete', 3], ['kcolor', 2, 'gnp', 5, 0.5],
    ['ec', 'complete', 3], ['domset', 2, 'grid', 2, 2], ['domset', 1, 'gnm', 5, 4],
    ['tiling', 'grid', 2, 2], ['kclique', 2, 'complete', 3], ['kclique', 3, 'gnp', 5, 0.7],
    ['kcliquebin', 2, 'complete', 3], ['ram', 2, 2, 3], ['ram', 3, 3, 4], ['ptn', 5],
    ['vdw', 4, 2, 2], ['vdw', 5, 2, 2, 2], ['subsetcard', 'complete', 3, 3],
    ['subsetcard', 'regular', 4, 4, 2], ['subsetcard', 4],
    ['cliquecoloring', 3, 2, 2], ['cpls', 2, 2, 2], ['cpls', 2, 4, 2],
    ['randkcnf', 3, 6, 7], ['randkcnf', 0, 3, 2], ['iso', 'complete', 2],
    ['iso', 'gnp', 3, 0.5, '-e', 'gnp', 3, 0.5] if False else ['iso', 'grid', 2, 2],
    ['ramlb', 2, 2, 'gnp', 4, 0.5], ['ramlb', 3, 2, 'complete', 3],
    ['subgraph', '-G', 'complete', 4, '-H', 'complete', 2],
    ['subgraph', '-G', 'gnp', 4, 0.5, '-H', 'grid', 1, 2],
    ['pitfall', 4, 2, 2, 1, 2],
]
for cmd in GOOD:
    for opts in ([], ['-q'], ['--varnames'], ['-l']):
        argv = ['pbgen', '-S', 5] + opts + cmd
        attempt('pbgen:%r' % argv, lambda: pbgen_cli(argv, mode='string'))
    def pair():
        P = pbgen_cli(['pbgen', '-S', 5] + cmd, mode='formula')
        C = cnfgen_cli(['cnfgen', '-S', 5] + cmd, mode='formula')
        return (P.number_of_variables(), C.number_of_variables(), len(P), len(C),
                list(P.all_variable_labels()), list(C.all_variable_labels()),
                list(P.header.items()), C.to_opb(), C.to_dimacs())
    attempt('pair:%r' % cmd, pair)
    for tool, cli in (('pbgen', pbgen_cli), ('cnfgen', cnfgen_cli)):
        for name in ('out.opb', 'out.tex'):
            argv = [tool, '-S', 5, '--varnames', '-o', name] + cmd
            attempt('%s:file:%s:%r' % (tool, name, cmd), lambda: cli(argv, mode='output'))
            if os.path.exists(name):
                with open(name, 'rb') as fh:
                    rec(fh.read())
                os.unlink(name)
    # to standard output
    attempt('pbgen:stdout:%r' % cmd, lambda: pbgen_cli(['pbgen', '-S', 5] + cmd))

os.chdir('/')
_scratch.cleanup()
print(H.hexdigest())
