#!/usr/bin/env python
"""Equivalence script for the refactoring of the handling of the
`charges` argument in cnfgen.families.tseitin.TseitinFormula"""
import contextlib
import copy
import hashlib
import io
import random
import sys
import warnings
from fractions import Fraction

warnings.simplefilter('ignore')
sys.path.insert(0, '.')

import networkx as nx
from cnfgen import CNF, Graph, TseitinFormula
from cnfgen import Shuffle, XorSubstitution, FlipPolarity
from cnfgen.clitools.cnfgen import cli

OUT = []


def rec(*items):
    OUT.append(repr(items))


def snapshot(F):
    buf = io.StringIO()
    F.to_file(buf, fileformat='dimacs', export_header=True)
    return (type(F).__name__, list(F.header.items()), F.number_of_variables(),
            F.number_of_clauses(), list(F.all_variable_labels()),
            [tuple(c) for c in F.clauses()], buf.getvalue())


def gsnap(G):
    if isinstance(G, Graph):
        return ('cnfgen', G.order(), G.number_of_edges(), list(G.edges()),
                G.name, [list(G.neighbors(v)) for v in G.vertices()])
    return ('nx', sorted(G.nodes(data=True), key=repr),
            sorted(G.edges(data=True), key=repr), sorted(G.graph.items()))


def graphs():
    yield 'null', Graph(0)
    yield 'single', Graph(1)
    yield 'two isolated', Graph(2)
    G = Graph(2, name='one edge')
    G.add_edge(1, 2)
    yield 'edge', G
    yield 'K4', Graph.complete_graph(4)
    yield 'star5', Graph.star_graph(4)
    G = Graph(5, name='C5')
    for i in range(1, 6):
        G.add_edge(i, i % 5 + 1)
    yield 'C5', G
    G = Graph(6)
    for u, v in [(1, 2), (2, 3), (1, 3), (4, 5)]:
        G.add_edge(u, v)
    yield 'disconnected', G
    yield 'nx path', nx.path_graph(4)
    H = nx.cycle_graph(5)
    H.name = 'an nx cycle'
    yield 'nx cycle', H
    yield 'nx grid', nx.grid_2d_graph(2, 3)
    yield 'nx empty', nx.Graph()
    random.seed(31)
    yield 'nx gnp', nx.gnp_random_graph(6, .5, seed=4)
    yield 'nx petersen', nx.petersen_graph()
    yield 'nx digraph (bad)', nx.DiGraph([(0, 1), (1, 2)])
    yield 'not a graph', 'K4'
    yield 'none', None


class Weird:
    def __init__(self, v):
        self.v = v

    def __bool__(self):
        return bool(self.v)

    def __radd__(self, other):
        return other + self.v

    def __add__(self, other):
        return self.v + other

    def __repr__(self):
        return 'Weird({})'.format(self.v)


def charges_for(n):
    yield 'None', None
    yield 'empty list', []
    yield 'empty tuple', ()
    yield 'all false', [False] * n
    yield 'all true', [True] * n
    yield 'first', [True] + [False] * (n - 1)
    yield 'last', [False] * (n - 1) + [True]
    yield 'alternate', [i % 2 == 0 for i in range(n)]
    yield 'ints', [i % 3 for i in range(n)]
    yield 'neg ints', [-(i % 4) for i in range(n)]
    yield 'short', [True, True, True][:max(n - 1, 0)]
    yield 'short one', [1]
    yield 'long', [True, False] * (n + 1)
    yield 'long odd', [1] * (2 * n + 3)
    yield 'tuple', tuple(i % 2 for i in range(n))
    yield 'range', range(n)
    yield 'floats', [0.5 * i for i in range(n)]
    yield 'float odd', [1.0, 2.0, 0.0]
    yield 'fractions', [Fraction(i, 2) for i in range(n)]
    yield 'weird', [Weird(i) for i in range(n)]
    yield 'generator', (i % 2 for i in range(n))
    yield 'iterator', iter([1, 0, 1])
    yield 'set', {0, 1}
    yield 'dict', {1: 'a', 2: 'b'}
    yield 'strings', ['a', '']
    yield 'nones', [None] * n
    yield 'nested', [[1], []]
    yield 'string', '101'
    yield 'bytes', b'\x01\x00\x01'
    yield 'int', 3
    yield 'True', True
    yield 'big', [10 ** 20 + 1, 0]


def stable(x):
    """A comparable picture of a charges argument"""
    if isinstance(x, (list, tuple)):
        return (type(x).__name__, [repr(e) for e in x])
    if isinstance(x, (set, dict, range, str, bytes, int, type(None))):
        return (type(x).__name__, repr(x))
    return (type(x).__name__,)


for glabel, G in graphs():
    try:
        n = G.order() if isinstance(G, Graph) else G.order()
    except Exception:
        n = 3
    for clabel, charges in charges_for(n):
        for fclass in (CNF,):
            rec('CASE', glabel, clabel)
            gbefore = gsnap(G) if isinstance(G, (Graph, nx.Graph)) else None
            cbefore = stable(charges)
            ccopy = copy.copy(charges) if isinstance(charges, (list, tuple, set, dict)) else None
            try:
                F = TseitinFormula(G, charges, formula_class=fclass)
                rec('formula', snapshot(F))
            except BaseException as e:
                rec('EXC', type(e).__name__, str(e))
                F = None
            if gbefore is not None:
                rec('graph untouched', gsnap(G) == gbefore)
            rec('charges untouched', stable(charges) == cbefore,
                (ccopy is None) or (len(ccopy) == len(charges)))
            if hasattr(charges, '__next__'):
                rec('leftover', [repr(x) for x in charges])
            # provenance of transformations applied on top
            if F is not None and F.number_of_variables() <= 6 and clabel in ('None', 'alternate', 'long'):
                before = snapshot(F)
                random.seed(5)
                H = Shuffle(FlipPolarity(XorSubstitution(F, 2)))
                rec('chain', snapshot(H))
                rec('input untouched', snapshot(F) == before)

# positional / keyword call styles and default formula class
K = Graph.complete_graph(3)
rec('default', snapshot(TseitinFormula(K)))
rec('kw', snapshot(TseitinFormula(G=K, charges=[0, 1, 1])))
rec('kw2', snapshot(TseitinFormula(K, charges=None, formula_class=CNF)))
try:
    TseitinFormula(K, [1, 0, 0], formula_class=dict)
except BaseException as e:
    rec('EXC', type(e).__name__, str(e))


# Through the command line
def run_cli(argv):
    rec('ARGV', argv)
    random.seed(99)
    err = io.StringIO()
    out = io.StringIO()
    try:
        with contextlib.redirect_stderr(err), contextlib.redirect_stdout(out):
            res = cli(list(argv), mode='formula')
        rec('formula', snapshot(res))
    except SystemExit as e:
        rec('SystemExit', e.code)
    except BaseException as e:
        rec('EXC', type(e).__name__, str(e))
    rec('stdout', out.getvalue())
    rec('stderr', err.getvalue())


for charge in [[], ['first'], ['random'], ['randomodd'], ['randomeven'],
               ['zero'], ['one'], ['nonsense']]:
    for graph in [['complete', '4'], ['gnd', '6', '3'], ['grid', '2', '3'],
                  ['gnp', '5', '0.5'], ['complete', '1'], ['torus', '3', '3']]:
        for tail in [[], ['-T', 'xor', '2', '-T', 'shuffle']]:
            run_cli(['cnfgen', '-S', '8', 'tseitin'] + charge + graph + tail)
run_cli(['cnfgen', 'tseitin', '5', '3'])
run_cli(['cnfgen', '-S', '3', 'tseitin', '6', '3'])
run_cli(['cnfgen', '-S', '3', 'tseitin', '6'])

digest = hashlib.sha256('\n'.join(OUT).encode('utf-8')).hexdigest()
print(digest)
