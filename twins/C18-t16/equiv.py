#!/usr/bin/env python
"""Equivalence harness for the refactoring of the message shielding in
cnfgen.clitools.msg (`error_msg`, `interactive_msg`, prefix handling).

Run as:  cd <checkout> && /venv/bin/python equiv.py
Prints one SHA256 digest of everything observed.
"""
import sys
import os
import io
import hashlib
import importlib
import random
import tempfile
import warnings

warnings.simplefilter('ignore')
sys.path.insert(0, os.getcwd())

from cnfgen.info import info
# the version string comes from `git describe`: pin it
info['version'] = 'equiv'

msg_module = importlib.import_module('cnfgen.clitools.msg')
from cnfgen.clitools.msg import error_msg, interactive_msg, msg_prefix
from cnfgen.clitools.msg import InternalBug
from cnfgen.clitools.cmdline import CLIError

tools = {
    name: importlib.import_module('cnfgen.clitools.' + name)
    for name in ['cnfgen', 'pbgen', 'cnfshuffle', 'kthlist2pebbling']
}

H = hashlib.sha256()
COUNT = 0


def record(*items):
    global COUNT
    COUNT += 1
    for it in items:
        H.update(repr(it).encode('utf-8'))
        H.update(b'\x00')
    H.update(b'\x01')


class Sink(io.StringIO):
    """StringIO that survives the `sys.stderr.close()` of the launchers"""
    def close(self):
        pass


class FakeStdin(io.StringIO):
    def __init__(self, text='', tty=False):
        super().__init__(text)
        self._tty = tty

    def isatty(self):
        return self._tty

    def close(self):
        pass


def captured(fn, *args, tty=False, stdin_text='', **kwargs):
    """Call fn, give back (result or exception, stdout, stderr, prefix after)"""
    old = sys.stdout, sys.stderr, sys.stdin
    out, err = Sink(), Sink()
    sys.stdout, sys.stderr = out, err
    sys.stdin = FakeStdin(stdin_text, tty)
    try:
        try:
            res = ('ok', fn(*args, **kwargs))
        except SystemExit as e:
            res = ('exit', e.code)
        except BaseException as e:
            res = ('exc', type(e).__name__, str(e))
    finally:
        sys.stdout, sys.stderr, sys.stdin = old
    return res, out.getvalue(), err.getvalue(), msg_module._prefix


def run_main(toolname, argv, stdin_text='', tty=False):
    """Run the real entry point `main()` in process, capture everything"""
    # a fresh process starts with no message prefix (the prefix is not
    # restored when an error escapes a `msg_prefix` block)
    msg_module._prefix = ''
    # command lines without '--seed' would use the clock
    random.seed(20241003)
    oldargv = sys.argv
    sys.argv = list(argv)
    try:
        return captured(tools[toolname].main, tty=tty, stdin_text=stdin_text)
    finally:
        sys.argv = oldargv


# ---------------------------------------------------------------
# 1. the message functions, directly
# ---------------------------------------------------------------
class Odd:
    def __repr__(self):
        return "Odd()"

    def __str__(self):
        return "  odd object\n    with two lines"


long_line = ' '.join('word%d' % i for i in range(60))
messages = [
    '', '\n', '\n\n', ' ', '   \n   ', 'one line', 'one line\n',
    'two\nlines', 'two\nlines\n', 'blank\n\nin the middle',
    '\nleading newline', 'trailing spaces   \n  \n',
    '    indented\n    block\n      deeper', '\tTabbed\n\tblock',
    '  mixed\n\tindent', 'carriage\r\nreturn\r\n', 'old mac\rline',
    'form\x0cfeed', 'unit\x1cseparators\x1d \x1ehere', 'next\x85line',
    'line separator paragraph', 'vertical\x0btab',
    'unicode è 中文 \U0001f600',
    long_line, long_line + '\n' + long_line, '  ' + long_line + '\n\n  tail',
    'a-very-long-token-' * 12, 'x' * 200 + ' y',
    "ERROR: `bogus` is not valid\nERROR: \nERROR: Choose from\nERROR:    'a'\n\nusage:\n prog [-h]\n",
    """
    The formula generation process you asked for needs a graph in
    input. Graph format was not specified on the command line.""",
]
objects = [ValueError('a value error\nsecond line'), CLIError('cli\n\nerr'),
           OSError(2, 'No such file', 'name'), KeyError('k'), 42, 3.5, None,
           Odd(), b'bytes', ['list', 'of'], InternalBug('inner\nbug')]
filltexts = [None, 0, -1, -70, 1, 2, 5, 10, 29, 30, 31, 32, 33, 34, 35, 36,
             37, 38, 39, 40, 60, 70, 80, 1000, True, False]
prefixes = ['', 'c ', '% ', '* ', 'c INPUT: ', 'c' * 40, ' ', '\t', 'p\nq',
            'c GRAPH INPUT: ']

for prefix in prefixes:
    for m in messages:
        for ft in filltexts:
            msg_module._prefix = ''
            with msg_prefix(prefix):
                record('err', prefix, m, ft, captured(error_msg, m, ft))
                record('int-notty', prefix, m, ft,
                       captured(interactive_msg, m, ft, tty=False))
                record('int-tty', prefix, m, ft,
                       captured(interactive_msg, m, ft, tty=True))
            record('after', msg_module._prefix)
    for ob in objects:
        for ft in (None, 0, 20, 70):
            msg_module._prefix = ''
            with msg_prefix(prefix):
                record('err-obj', prefix, repr(ob), ft,
                       captured(error_msg, ob, ft))
                record('err-obj-kw', prefix, repr(ob), ft,
                       captured(error_msg, ob, filltext=ft))
                record('int-obj', prefix, repr(ob), ft,
                       captured(interactive_msg, ob, ft, tty=True))

# odd fill widths (float, str) end in errors
for ft in (2.5, 70.0, '70', [70]):
    msg_module._prefix = ''
    with msg_prefix('c '):
        record('err-ft', ft, captured(error_msg, long_line, ft))
        record('int-ft', ft, captured(interactive_msg, long_line, ft, tty=True))

# default arguments
msg_module._prefix = ''
record('default', captured(error_msg, long_line))
record('default', captured(interactive_msg, long_line, tty=True))
record('default', captured(error_msg))
record('default', captured(interactive_msg, tty=True))

# nesting of prefixes, and what is left behind after an error
msg_module._prefix = ''
with msg_prefix('c '):
    record('nest1', captured(error_msg, 'lvl1\nlvl1'))
    with msg_prefix('INPUT: '):
        record('nest2', captured(error_msg, 'lvl2\n\nlvl2', 40))
        with msg_prefix():
            record('nest3', captured(interactive_msg, 'lvl3', 70, tty=True))
        record('nest2b', captured(error_msg, 'lvl2'))
    record('nest1b', captured(error_msg, 'lvl1'))
record('nest0', msg_module._prefix, captured(error_msg, 'lvl0\n'))


def failing():
    with msg_prefix('% '):
        with msg_prefix('deep '):
            raise ValueError('boom')


record('fail', captured(failing))
record('fail-after', msg_module._prefix, captured(error_msg, 'after\nboom'))
record('fail2', captured(failing))
record('fail2-after', msg_module._prefix, captured(error_msg, 'after\nboom'))
msg_module._prefix = ''

# randomly assembled messages (seeded)
rng = random.Random(1618)
pieces = ['word', ' ', '  ', '\n', '\n\n', '\t', 'x' * 35, '\r\n', '\x0c',
          '-', 'ERROR:', "'q'", ' ', 'long-hyphenated-compound-word']
for i in range(1500):
    m = ''.join(rng.choice(pieces) for _ in range(rng.randint(0, 40)))
    ft = rng.choice(filltexts)
    prefix = rng.choice(prefixes)
    msg_module._prefix = ''
    with msg_prefix(prefix):
        record('rnd-err', captured(error_msg, m, ft))
        record('rnd-int', captured(interactive_msg, m, ft, tty=True))

# ---------------------------------------------------------------
# 2. whole command lines through the real entry points
# ---------------------------------------------------------------
tmp = tempfile.mkdtemp(prefix='equiv_c18_t16_')
cwd = os.getcwd()
os.chdir(tmp)
try:
    with open('good.cnf', 'w') as f:
        f.write('c a comment\np cnf 3 2\n1 -2 0\n2 3 0\n')
    with open('bad.cnf', 'w') as f:
        f.write('p cnf 3 2\n1 -2 0\n2 7 0\n')
    with open('trunc.cnf', 'w') as f:
        f.write('p cnf 3 3\n1 -2 0\n2 3')
    with open('good.kthlist', 'w') as f:
        f.write('3\n1 : 0\n2 : 0\n3 : 1 2 0\n')
    with open('bad.kthlist', 'w') as f:
        f.write('3\n1 : 0\n2 : 3 0\n3 : 1 2 0\n')
    with open('junk.gml', 'w') as f:
        f.write('this is not gml\n')
    os.mkdir('adir')

    dimacs_in = 'p cnf 2 2\n1 2 0\n-1 0\n'
    kth_in = '2\n1 : 0\n2 : 1 0\n'
    runs = [
        ('cnfgen', 'cnfgen', '', False),
        ('cnfgen', 'cnfgen -q', '', False),
        ('cnfgen', 'cnfgen nosuchformula 3', '', False),
        ('cnfgen', 'cnfgen --nosuchoption', '', False),
        ('cnfgen', 'cnfgen php', '', False),
        ('cnfgen', 'cnfgen php 3', '', False),
        ('cnfgen', 'cnfgen php 3 2 1', '', False),
        ('cnfgen', 'cnfgen php -1 2', '', False),
        ('cnfgen', 'cnfgen php 0 0', '', False),
        ('cnfgen', 'cnfgen php three 2', '', False),
        ('cnfgen', 'cnfgen -of latex php three 2', '', False),
        ('cnfgen', 'cnfgen -of opb php three 2', '', False),
        ('cnfgen', 'cnfgen -of opb -q php 2 1', '', False),
        ('cnfgen', 'cnfgen -of latex -q php 2 1', '', False),
        ('cnfgen', 'cnfgen -of xml php 3 2', '', False),
        ('cnfgen', 'cnfgen -o adir php 3 2', '', False),
        ('cnfgen', 'cnfgen -o adir/x/y.cnf php 3 2', '', False),
        ('cnfgen', 'cnfgen -o out.tex -q php 2 1 -T', '', False),
        ('cnfgen', 'cnfgen -o out.opb -q php 2 1 -T xor', '', False),
        ('cnfgen', 'cnfgen -o out.opb -q php 2 1 -T xor 0', '', False),
        ('cnfgen', 'cnfgen -o out2.opb -q php 2 1 -T xor 2', '', False),
        ('cnfgen', 'cnfgen -q php 2 1 -T bogus 2', '', False),
        ('cnfgen', 'cnfgen -q randkcnf 3 2 1', '', False),
        ('cnfgen', 'cnfgen -S 7 -q randkcnf 3 5 40', '', False),
        ('cnfgen', 'cnfgen -S 7 -q randkcnf 3 5 4', '', False),
        ('cnfgen', 'cnfgen -of latex -S 7 -q randkcnf 9 5 4', '', False),
        ('cnfgen', 'cnfgen -of opb -S 7 -q kcolor 2 gnd 5 3', '', False),
        ('cnfgen', 'cnfgen -l kcolor 2 junk.gml', '', False),
        ('cnfgen', 'cnfgen kcolor 2 nofile.gml', '', False),
        ('cnfgen', 'cnfgen kcolor 2 good.cnf', '', False),
        ('cnfgen', 'cnfgen kcolor 2 gml -', 'graph [ node [ id 0 ] ]', False),
        ('cnfgen', 'cnfgen -q kcolor 2 gml -', 'graph [ node [ id 0 ] ]', True),
        ('cnfgen', 'cnfgen -of opb kcolor 2 gml -', 'not gml', True),
        ('cnfgen', 'cnfgen -q dimacs', dimacs_in, False),
        ('cnfgen', 'cnfgen -q dimacs', dimacs_in, True),
        ('cnfgen', 'cnfgen -q -of latex dimacs', dimacs_in, True),
        ('cnfgen', 'cnfgen -q -of opb dimacs', 'p cnf 1 1\n5 0\n', True),
        ('cnfgen', 'cnfgen -q dimacs bad.cnf', '', False),
        ('cnfgen', 'cnfgen -q dimacs trunc.cnf', '', False),
        ('cnfgen', 'cnfgen -q dimacs good.cnf', '', False),
        ('cnfgen', 'cnfgen -q dimacs nofile.cnf', '', False),
        ('cnfgen', 'cnfgen -h', '', False),
        ('cnfgen', 'cnfgen php -h', '', False),
        ('cnfgen', 'cnfgen --help-dag', '', False),
        ('pbgen', 'pbgen', '', False),
        ('pbgen', 'pbgen php 3', '', False),
        ('pbgen', 'pbgen -q php 3 2', '', False),
        ('pbgen', 'pbgen -q php 3 2 -T xor 2', '', False),
        ('pbgen', 'pbgen -l php three 2', '', False),
        ('pbgen', 'pbgen -of dimacs php 3 2', '', False),
        ('pbgen', 'pbgen -o out.cnf php 3 2', '', False),
        ('pbgen', 'pbgen -o adir php 3 2', '', False),
        ('pbgen', 'pbgen kcolor 2 gnp 3 7', '', False),
        ('pbgen', 'pbgen -l kcolor 2 gml -', 'junk', True),
        ('cnfshuffle', 'cnfshuffle -S 1', dimacs_in, False),
        ('cnfshuffle', 'cnfshuffle -S 1', dimacs_in, True),
        ('cnfshuffle', 'cnfshuffle -S 1 -q -p -v -c', dimacs_in, True),
        ('cnfshuffle', 'cnfshuffle -S 1', 'p cnf 1 1\n4 0\n', True),
        ('cnfshuffle', 'cnfshuffle -S 1', 'garbage\n', False),
        ('cnfshuffle', 'cnfshuffle -S 1', '', False),
        ('cnfshuffle', 'cnfshuffle -S 1 -i good.cnf', '', False),
        ('cnfshuffle', 'cnfshuffle -S 1 -i bad.cnf', '', False),
        ('cnfshuffle', 'cnfshuffle -S 1 -i trunc.cnf', '', True),
        ('cnfshuffle', 'cnfshuffle -S 1 -i nofile.cnf', '', False),
        ('cnfshuffle', 'cnfshuffle -S 1 -i good.cnf -o adir', '', False),
        ('cnfshuffle', 'cnfshuffle -S 1 -i good.cnf -o sh.cnf extra', '', False),
        ('cnfshuffle', 'cnfshuffle --bogus', '', False),
        ('cnfshuffle', 'cnfshuffle -S', '', False),
        ('cnfshuffle', 'cnfshuffle -h', '', False),
        ('kthlist2pebbling', 'kthlist2pebbling', kth_in, False),
        ('kthlist2pebbling', 'kthlist2pebbling', kth_in, True),
        ('kthlist2pebbling', 'kthlist2pebbling -q xor 2', kth_in, True),
        ('kthlist2pebbling', 'kthlist2pebbling -q xor', kth_in, True),
        ('kthlist2pebbling', 'kthlist2pebbling -q bogus', kth_in, False),
        ('kthlist2pebbling', 'kthlist2pebbling', 'junk\n', True),
        ('kthlist2pebbling', 'kthlist2pebbling', '', False),
        ('kthlist2pebbling', 'kthlist2pebbling -i good.kthlist', '', False),
        ('kthlist2pebbling', 'kthlist2pebbling -i bad.kthlist', '', False),
        ('kthlist2pebbling', 'kthlist2pebbling -i nofile', '', False),
        ('kthlist2pebbling', 'kthlist2pebbling -i good.kthlist -o adir', '', False),
        ('kthlist2pebbling', 'kthlist2pebbling -h', '', False),
    ]
    for toolname, line, stdin_text, tty in runs:
        record('main', line, stdin_text, tty,
               run_main(toolname, line.split(), stdin_text, tty))
    for name in sorted(os.listdir('.')):
        if os.path.isfile(name):
            with open(name) as f:
                record('file', name, f.read())
finally:
    os.chdir(cwd)
    for root, dirs, files in os.walk(tmp, topdown=False):
        for name in files:
            os.unlink(os.path.join(root, name))
        for name in dirs:
            os.rmdir(os.path.join(root, name))
    os.rmdir(tmp)

record('count', COUNT)
print(H.hexdigest())
