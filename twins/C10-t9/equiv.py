"""Equivalence script for the refactoring of cnfgen.utils.parsedimacs.parse_dimacs

Exercises the DIMACS parser (generator level, from_dimacs_file, CNF.from_file,
cnfshuffle command line) on valid, boundary and malformed inputs and prints
one SHA256 digest of everything observed.
"""
import hashlib
import io
import os
import random
import sys
import tempfile

sys.path.insert(0, os.getcwd())

from cnfgen import CNF
from cnfgen.utils.parsedimacs import parse_dimacs, from_dimacs_file, to_dimacs_file
from cnfgen.formula.basecnf import BaseCNF
from cnfgen.clitools.cnfshuffle import cli as shufflecli

H = hashlib.sha256()


def emit(*items):
    for x in items:
        H.update(repr(x).encode('utf-8'))
        H.update(b'\x00')


def run_generator(text):
    """Consume the generator step by step: record every item and the error"""
    emit('GEN', text)
    gen = parse_dimacs(io.StringIO(text))
    while True:
        try:
            item = next(gen)
        except StopIteration:
            emit('stop')
            break
        except Exception as e:  # noqa
            emit('exc', type(e).__name__, str(e),
                 type(e.__cause__).__name__, type(e.__context__).__name__)
            break
        emit('item', type(item).__name__, item)


def run_reader(text):
    for cls in (BaseCNF, CNF):
        emit('READ', cls.__name__)
        try:
            F = from_dimacs_file(cls, io.StringIO(text))
        except Exception as e:  # noqa
            emit('exc', type(e).__name__, str(e))
            continue
        emit(F.number_of_variables(), F.number_of_clauses(), list(F),
             F.header.get('description'))
        lits = [l for c in F for l in c]
        emit(all(isinstance(l, int) and 1 <= abs(l) <= F.number_of_variables()
                 for l in lits))
        out = io.StringIO()
        to_dimacs_file(F, out, export_header=False)
        emit(out.getvalue())


FIXED = [
    "",
    "\n\n",
    "c only a comment\n",
    "p cnf 0 0\n",
    "p cnf 0 1\n0\n",
    "p cnf 0 1\n1 0\n",
    "p cnf 3 2\n1 -2 0\n3 0\n",
    "p cnf 3 2\n1 -2 0 3 0\n",
    "p cnf 3 2\n1 -2\n 0 3\n 0\n",
    "p cnf 3 2\n1 -2 0\n3\n",
    "p cnf 3 2\n1 -2 0\n",
    "p cnf 3 1\n1 -2 0\n3 0\n",
    "p cnf 3 2\n1 -4 0\n3 0\n",
    "p cnf 3 2\n1 4 0\n3 0\n",
    "p cnf 3 2\n1 -3 0\n-3 3 0\n",
    "p cnf 3 2\n1 x 0\n3 0\n",
    "p cnf 3 2\n1 2 0 x\n3 0\n",
    "p cnf 3 2\n1 2 0 7\n3 0\n",
    "p cnf 3 2\n1 2 0 -7 0\n",
    "p cnf 3 3\n1 2 0 0 3 0\n",
    "p cnf 3 2\n1.0 2 0\n3 0\n",
    "p cnf 3 2\n+1 -2 0\n 3 0\n",
    "p cnf 3 2\n1 -2 0\np cnf 3 2\n3 0\n",
    "1 2 0\np cnf 3 2\n",
    "c hello\n\n  c indented comment\np cnf 2 1\nc middle\n-1 -2 0\nc end\n",
    "p cnf -1 2\n",
    "p cnf 1 -2\n",
    "p cnf a b\n",
    "p cnf 3\n",
    "p cnf 3 2 1\n",
    "p  cnf\t3   2\n1\t2  0\n\n-3 0\n",
    "p cnf 5 3\n1 2 3 4 5 0 -1 -2 -3 -4 -5 0 0\n",
    "p cnf 5 1\n5 -5 5 -5 0\n",
    "p cnf 2 1\n1 2 0 \n   \n",
    "p cnf 2 1\n0x1 2 0\n",
    "p cnf 2 1\n1_0 2 0\n",
    "p cnf 10 1\n1_0 2 0\n",
    "p cnf 2 1\n١ 2 0\n",
    "p cnf 1 1\n1 0\n%\n0\n",
    "p cnf 1 1\n% 1 0\n",
    "p cnf 1000000 1\n1000000 -999999 0\n",
    "p cnf 1000000 1\n1000001 0\n",
    "p cnf 2 2\n1 0 3 0\n",
    "p cnf 2 2\n1 0 2 3\n",
    "p cnf 2 2\n1 0 2\n3 0\n",
]

for text in FIXED:
    run_generator(text)
    run_reader(text)

# Randomly generated files, valid and corrupted
rng = random.Random(20240610)
for trial in range(300):
    n = rng.choice([0, 1, 2, 3, 7, 50, 400])
    m = rng.randint(0, 12)
    lines = []
    if rng.random() < 0.3:
        lines.append("c random comment {}".format(trial))
    declared_m = m if rng.random() < 0.8 else m + rng.choice([-1, 1, 2])
    lines.append("p cnf {} {}".format(n, declared_m))
    tokens = []
    for _ in range(m):
        w = rng.randint(0, 6)
        for _ in range(w):
            hi = n if rng.random() < 0.93 else n + rng.randint(1, 3)
            v = rng.randint(1, max(hi, 1))
            tokens.append(str(v if rng.random() < 0.5 else -v))
        tokens.append("0")
    if rng.random() < 0.1 and tokens:
        tokens[rng.randrange(len(tokens))] = rng.choice(["a", "1.5", "--2", "", "0"])
    if rng.random() < 0.1 and tokens:
        tokens.pop()
    # split the tokens over lines at random places
    cur = []
    for t in tokens:
        cur.append(t)
        if rng.random() < 0.3:
            lines.append(" ".join(cur))
            cur = []
            if rng.random() < 0.1:
                lines.append("")
            if rng.random() < 0.1:
                lines.append("c interleaved")
    if cur:
        lines.append(" ".join(cur))
    text = "\n".join(lines) + ("\n" if rng.random() < 0.8 else "")
    run_generator(text)
    run_reader(text)

# Round trip of realistic formulas through files and through cnfshuffle
tmpdir = tempfile.mkdtemp()
try:
    from cnfgen import PigeonholePrinciple, RandomKCNF, OrderingPrinciple
    random.seed(77)
    formulas = [PigeonholePrinciple(9, 7), OrderingPrinciple(8),
                RandomKCNF(4, 60, 200, seed=5), CNF([[1, -2], [], [3]])]
    for idx, F in enumerate(formulas):
        fname = os.path.join(tmpdir, "f{}.cnf".format(idx))
        F.to_file(fname)
        G = CNF.from_file(fname)
        emit('RT', G.number_of_variables(), G.number_of_clauses(), list(G) == list(F))
        emit(G.header.get('description').replace(tmpdir, '<tmp>'))
        with open(fname) as f:
            H2 = from_dimacs_file(BaseCNF, f)
        emit(list(H2) == list(F), H2.number_of_variables())
        for opts in ([], ['-p'], ['-v', '-c'], ['-q']):
            s = shufflecli(['cnfshuffle', '-S', '13', '-i', fname] + opts, mode='string')
            emit(s.replace(tmpdir, '<tmp>'))
    # malformed file through the command line tool
    bad = os.path.join(tmpdir, "bad.cnf")
    with open(bad, 'w') as f:
        f.write("p cnf 3 2\n1 -2 0\n4 0\n")
    try:
        shufflecli(['cnfshuffle', '-S', '13', '-i', bad], mode='string')
        emit('no error')
    except Exception as e:  # noqa
        emit('exc', type(e).__name__, str(e))
finally:
    import shutil
    shutil.rmtree(tmpdir)

print(H.hexdigest())
