#!/usr/bin/env python
"""Equivalence script for C14/t17: cnfgen/clitools/graph_fileinput.py
(open_input and read_graph_from_input, the command line helpers that load
a graph file named in a graph specification).

Run as:  cd <checkout> && /venv/bin/python equiv.py
Prints one SHA256 digest of everything observed."""
import os
import sys
sys.path.insert(0, os.getcwd())
import builtins
import hashlib
import io
import random
import shutil
import tempfile

LOG = []
# pydot prints parse errors on stdout and the command line tools write on
# stderr: capture both (they are part of what is observed) so that only
# the digest gets printed.
REAL_STDOUT, REAL_STDERR, REAL_STDIN = sys.stdout, sys.stderr, sys.stdin
sys.stdout = CAP_OUT = io.StringIO()
sys.stderr = CAP_ERR = io.StringIO()

import cnfgen.clitools.graph_fileinput as gfi
from cnfgen.clitools.graph_fileinput import read_graph_from_input, open_input
from cnfgen.clitools import make_graph_from_spec
from cnfgen.clitools import cnfgen as cnfgen_cli
from cnfgen.graphs import BipartiteGraph, Graph, DirectedGraph, writeGraph

TMP = tempfile.mkdtemp(prefix='c14t17')


def clean(s):
    return s.replace(TMP, '<TMP>')


def log(*items):
    LOG.append(clean(repr(items)))


def dump(G):
    if isinstance(G, BipartiteGraph):
        return ('B', G.left_order(), G.right_order(), G.number_of_vertices(),
                G.number_of_edges(), list(G.edges()), getattr(G, 'name', None))
    return (type(G).__name__, G.number_of_vertices(), G.number_of_edges(),
            list(G.edges()), G.is_dag(), getattr(G, 'name', None))


# keep track of the files opened by the helper module
OPENED = []


def tracking_open(*args, **kwargs):
    fh = builtins.open(*args, **kwargs)
    OPENED.append((args, tuple(sorted(kwargs.items())), fh))
    return fh


gfi.open = tracking_open


def opened_report():
    rep = [(a, k, fh.mode, fh.encoding is not None, fh.closed) for a, k, fh in OPENED]
    del OPENED[:]
    return rep


class FakeTTY(io.StringIO):
    def isatty(self):
        return True


def attempt(tag, f, *args, stdin=None, **kwargs):
    if stdin is not None:
        sys.stdin = stdin
    mark_out, mark_err = len(CAP_OUT.getvalue()), len(CAP_ERR.getvalue())
    try:
        res = f(*args, **kwargs)
        if hasattr(res, 'number_of_vertices'):
            res = dump(res)
        log(tag, 'OK', res)
        ok = True
    except BaseException as e:  # SystemExit from argparse included
        log(tag, 'EXC', type(e).__name__, str(e))
        ok = False
    log(tag, 'opened', opened_report())
    log(tag, 'out', CAP_OUT.getvalue()[mark_out:], 'err', CAP_ERR.getvalue()[mark_err:])
    if stdin is not None:
        log(tag, 'stdin closed', stdin.closed, 'rest', None if stdin.closed else stdin.read())
        sys.stdin = REAL_STDIN
    return ok


rnd = random.Random(1417)


def sample(gt, n):
    if gt == 'bipartite':
        G = BipartiteGraph(n, n + 1, name='sample b {}'.format(n))
        for u in range(1, n + 1):
            for v in range(1, n + 2):
                if rnd.random() < 0.4:
                    G.add_edge(u, v)
        return G
    if gt == 'simple':
        G = Graph(n, name='sample s {}'.format(n))
    else:
        G = DirectedGraph(n, name='sample d {}'.format(n))
    for u in range(1, n + 1):
        for v in range(u + 1, n + 1):
            if rnd.random() < 0.4:
                G.add_edge(u, v)
            if gt == 'digraph' and rnd.random() < 0.2:
                G.add_edge(v, u)
    return G


def damage(text, how):
    if how == 'truncate':
        return text[:max(0, len(text) * 2 // 3)]
    if how == 'empty':
        return ''
    if how == 'garbage':
        return text.replace('1', 'x', 2)
    if how == 'blank':
        return '\n' + text.replace('\n', '\n\n', 2) + '\n'
    return text


GOOD_TYPES = ['dag', 'digraph', 'simple', 'bipartite']
EXTS = ['kthlist', 'gml', 'dot', 'dimacs', 'matrix', 'txt', '', 'GML']
FORMATS = ['autodetect', 'kthlist', 'gml', 'dot', 'dimacs', 'matrix', 'png']

# ---- open_input on its own
plain = os.path.join(TMP, 'plain.txt')
with open(plain, 'w') as f:
    f.write('hello\nworld\n')


def use_open_input(filename, fail=False):
    with open_input(filename) as fh:
        is_stdin = fh is sys.stdin
        data = fh.readline()
        if fail:
            raise KeyError('inside the with block')
    return (is_stdin, data, fh.closed)


attempt(('open_input', 'file'), use_open_input, plain)
attempt(('open_input', 'file-fail'), use_open_input, plain, True)
attempt(('open_input', 'missing'), use_open_input, os.path.join(TMP, 'missing.txt'))
attempt(('open_input', 'dir'), use_open_input, TMP)
attempt(('open_input', 'stdin'), use_open_input, '-', stdin=io.StringIO('from stdin\nmore\n'))
attempt(('open_input', 'stdin-fail'), use_open_input, '-', True,
        stdin=io.StringIO('from stdin\nmore\n'))
attempt(('open_input', 'none'), use_open_input, None)
attempt(('open_input', 'int'), use_open_input, 987654)

# ---- read_graph_from_input
for gt in GOOD_TYPES:
    for n in [0, 1, 4, 11]:
        G = sample(gt, n)
        texts = {}
        for ff in ['kthlist', 'gml', 'dot', 'dimacs', 'matrix']:
            buf = io.StringIO()
            try:
                writeGraph(G, buf, gt, ff)
                texts[ff] = buf.getvalue()
            except ValueError as e:
                log('no text', gt, n, ff, str(e))
        for ff, text in sorted(texts.items()):
            log('text', gt, n, ff, text)
            for ext in EXTS:
                fname = os.path.join(TMP, '{}{}_{}'.format(gt, n, ff) + ('.' + ext if ext else ''))
                with open(fname, 'w') as f:
                    f.write(text)
                for fmt in FORMATS:
                    if fmt not in ('autodetect', ff, 'png') and n != 4:
                        continue
                    attempt(('rgfi', gt, n, ff, ext, fmt), read_graph_from_input, gt, fname, fmt)
            # from standard input, interactive or not
            for fmt in ['autodetect', ff]:
                attempt(('rgfi-stdin', gt, n, ff, fmt), read_graph_from_input, gt, '-', fmt,
                        stdin=io.StringIO(text + 'TRAILER\n' if ff == 'zz' else text))
                attempt(('rgfi-tty', gt, n, ff, fmt), read_graph_from_input, gt, '-', fmt,
                        stdin=FakeTTY(text))
            # damaged files
            if n in (4, 11):
                for how in ['truncate', 'empty', 'garbage', 'blank']:
                    fname = os.path.join(TMP, 'bad_{}{}_{}.{}'.format(gt, n, how, ff))
                    with open(fname, 'w') as f:
                        f.write(damage(text, how))
                    attempt(('rgfi-damaged', gt, n, ff, how, 'auto'),
                            read_graph_from_input, gt, fname, 'autodetect')
                    attempt(('rgfi-damaged', gt, n, ff, how, 'explicit'),
                            read_graph_from_input, gt, fname, ff)
                    attempt(('rgfi-damaged-stdin', gt, n, ff, how),
                            read_graph_from_input, gt, '-', ff,
                            stdin=io.StringIO(damage(text, how)))
    attempt(('rgfi-missing', gt), read_graph_from_input, gt, os.path.join(TMP, 'nothere.gml'), 'gml')
    attempt(('rgfi-missing-auto', gt), read_graph_from_input, gt, os.path.join(TMP, 'nothere.gml'), 'autodetect')
    attempt(('rgfi-missing-noext', gt), read_graph_from_input, gt, os.path.join(TMP, 'nothere'), 'autodetect')
    attempt(('rgfi-none', gt), read_graph_from_input, gt, None, 'autodetect')
    attempt(('rgfi-none-fmt', gt), read_graph_from_input, gt, None, 'gml')
    attempt(('rgfi-int', gt), read_graph_from_input, gt, 987654, 'gml')
    attempt(('rgfi-dir', gt), read_graph_from_input, gt, TMP, 'gml')
attempt(('rgfi-badtype',), read_graph_from_input, 'directed', plain, 'gml')
attempt(('rgfi-badtype-none',), read_graph_from_input, None, plain, 'autodetect')

# a dag file with a backward edge, a non bipartite file
back = os.path.join(TMP, 'backward.kthlist')
with open(back, 'w') as f:
    f.write('c backward\n3\n1 : 2 0\n2 : 0\n3 : 1 0\n')
for gt in GOOD_TYPES:
    attempt(('rgfi-backward', gt), read_graph_from_input, gt, back, 'autodetect')
    attempt(('rgfi-backward-stdin', gt), read_graph_from_input, gt, '-', 'kthlist',
            stdin=io.StringIO('3\n1 : 2 0\n2 : 0\n3 : 1 0\n'))

# ---- through the graph specification parser and the command line
for gt in GOOD_TYPES:
    G = sample(gt, 5)
    for ff in ['kthlist', 'gml', 'dot', 'dimacs', 'matrix']:
        src = os.path.join(TMP, 'spec_{}.{}'.format(gt, ff))
        try:
            writeGraph(G, src, gt, ff)
        except ValueError as e:
            log('spec no file', gt, ff, str(e))
            continue
        dst = os.path.join(TMP, 'saved_{}_{}.{}'.format(gt, ff, ff))
        attempt(('spec-auto', gt, ff), make_graph_from_spec, gt, [src])
        attempt(('spec-fmt', gt, ff), make_graph_from_spec, gt, [ff, src])
        attempt(('spec-save', gt, ff), make_graph_from_spec, gt, [ff, src, 'save', dst])
        if os.path.exists(dst):
            with open(dst) as f:
                log('saved', gt, ff, f.read())
        attempt(('spec-stdin', gt, ff), make_graph_from_spec, gt, [ff, '-'],
                stdin=io.StringIO(open(src).read()))
        attempt(('spec-missing', gt, ff), make_graph_from_spec, gt, [ff, src + '.nothere'])
        attempt(('spec-wrongfmt', gt, ff), make_graph_from_spec, gt, ['kthlist' if ff != 'kthlist' else 'gml', src])

s_gml = os.path.join(TMP, 'spec_simple.gml')
d_kth = os.path.join(TMP, 'spec_dag.kthlist')
b_mat = os.path.join(TMP, 'spec_bipartite.matrix')
for argv in [
        ['cnfgen', '-q', 'kclique', 3, s_gml],
        ['cnfgen', '-q', 'kclique', 3, 'gml', s_gml],
        ['cnfgen', '-q', 'kclique', 3, 'dot', s_gml],
        ['cnfgen', '-q', 'kclique', 3, os.path.join(TMP, 'plain.txt')],
        ['cnfgen', '-q', 'kclique', 3, os.path.join(TMP, 'nothere.gml')],
        ['cnfgen', '-q', 'tseitin', 'first', s_gml],
        ['cnfgen', '-q', 'peb', d_kth],
        ['cnfgen', '-q', 'peb', 'kthlist', d_kth],
        ['cnfgen', '-q', 'peb', back],
        ['cnfgen', '-q', 'peb', s_gml],
        ['cnfgen', '-q', 'php', b_mat],
        ['cnfgen', '-q', 'php', 'matrix', b_mat],
        ['cnfgen', '-q', 'php', 'dimacs', b_mat],
]:
    attempt(('cli',) + tuple(str(a) for a in argv), cnfgen_cli, argv, mode='string')
attempt(('cli-stdin', 'peb'), cnfgen_cli, ['cnfgen', '-q', 'peb', 'kthlist', '-'], mode='string',
        stdin=io.StringIO(open(d_kth).read()))
attempt(('cli-stdin', 'kclique'), cnfgen_cli, ['cnfgen', '-q', 'kclique', 2, 'gml', '-'], mode='string',
        stdin=io.StringIO(open(s_gml).read()))
attempt(('cli-stdin', 'auto'), cnfgen_cli, ['cnfgen', '-q', 'kclique', 2, '-'], mode='string',
        stdin=io.StringIO(open(s_gml).read()))

shutil.rmtree(TMP, ignore_errors=True)
sys.stdout, sys.stderr = REAL_STDOUT, REAL_STDERR
log('stdout', CAP_OUT.getvalue())
log('stderr', CAP_ERR.getvalue())
print(hashlib.sha256("\n".join(LOG).encode('utf-8')).hexdigest())
