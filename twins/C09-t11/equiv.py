#!/usr/bin/env python
"""Equivalence check for cnfgen.clitools.msg (interactive_msg / error_msg /
msg_prefix), the message layer used by cnfshuffle and cnfgen error paths."""
import sys, os, io, hashlib, random, contextlib, subprocess, tempfile
sys.path.insert(0, os.getcwd())

from cnfgen.clitools import msg as M
from cnfgen.clitools.msg import interactive_msg, error_msg, msg_prefix, InternalBug
from cnfgen.clitools.cnfshuffle import cli as shuffle_cli
from cnfgen.clitools.cnfgen import cli as cnfgen_cli

H = hashlib.sha256()
def rec(*items):
    for it in items:
        H.update(repr(it).encode('utf-8'))
        H.update(b'\x00')

class FakeIn(io.StringIO):
    def __init__(self, text='', tty=True):
        super().__init__(text)
        self._tty = tty
    def isatty(self):
        return self._tty

@contextlib.contextmanager
def stdin_as(stream):
    old = sys.stdin
    sys.stdin = stream
    try:
        yield
    finally:
        sys.stdin = old

def call(f, *args, tty=True, **kw):
    out, err = io.StringIO(), io.StringIO()
    try:
        with stdin_as(FakeIn('', tty)), contextlib.redirect_stdout(out), contextlib.redirect_stderr(err):
            r = f(*args, **kw)
        res = ('ok', r)
    except BaseException as e:
        res = ('exc', type(e).__name__, str(e))
    return res, out.getvalue(), err.getvalue(), M._prefix

class Obj:
    def __str__(self):
        return "object\n   with two lines"
    def __repr__(self):
        return "Obj()"

messages = [
    "",
    "short",
    "   leading spaces",
    "\n",
    "line one\nline two\n",
    """Waiting for a DIMACS formula on <stdin>.
             Alternatively you can feed a formula to <stdin>
             with piping or using '-i' command line argument.""",
    """
    indented block
      with deeper line
    and back
    """,
    "word " * 60,
    "averyveryverylongwordwithoutanyspaceinsideit" * 4,
    "tab\tseparated\twords and   multiple   spaces",
    "DIMACS ERROR: Invalid literal at line 3",
    "trailing newline\n\n\n",
    "unicode è ∀x ∃y",
    12345,
    None,
    Obj(),
    ValueError("an exception\nas message"),
    ["a", "list"],
]
fills = [None, 0, -5, 1, 5, 10, 29, 30, 31, 32, 33, 36, 37, 38, 40, 41, 45, 46, 70, 71, 200, 70.5, True, False,
         "70", [70]]
prefixes = ['', 'c ', 'c INPUT: ', '% ', '* ', 'c ' * 8, 'x' * 40]

for pre in prefixes:
    for m in messages:
        for ft in fills:
            with msg_prefix(pre):
                rec('imsg', pre, repr(m), ft, call(interactive_msg, m, filltext=ft))
                rec('imsg-notty', pre, repr(m), ft, call(interactive_msg, m, filltext=ft, tty=False))
                rec('emsg', pre, repr(m), ft, call(error_msg, m, filltext=ft))
            rec('after', M._prefix)

# default arguments and positional filltext
for m in messages:
    rec('default', repr(m), call(interactive_msg, m), call(error_msg, m),
        call(interactive_msg, m, 50), call(error_msg, m, 50))

# nested prefixes
for a in prefixes[:5]:
    for b in prefixes[:5]:
        with msg_prefix(a):
            with msg_prefix(b):
                rec('nested', a, b, call(interactive_msg, messages[5], filltext=70),
                    call(error_msg, messages[7], filltext=60), call(error_msg, messages[4]))
            rec('nested-out', a, call(interactive_msg, messages[5], filltext=70))
rec('final-prefix', M._prefix)
rec('bug', str(InternalBug("some\nproblem")), str(InternalBug(ValueError(3))))

# --- cnfshuffle with an interactive (tty) stdin: the INPUT message goes to stderr
dimacs = ["p cnf 4 3\n1 -2 0\n2 3 -4 0\n-1 4 0\n", "p cnf 0 0\n", "c x\np cnf 2 1\n1 2 0\n",
          "p cnf 3 2\n1 -2 0\n2 4 0\n", "", "p cnf 3 2\n1 -2 0\n"]
switch_sets = [[], ['-p'], ['-v'], ['-c'], ['-p', '-v'], ['-p', '-c'], ['-v', '-c'], ['-p', '-v', '-c']]
for text in dimacs:
    for sw in switch_sets:
        for seed in (0, 7):
            for tty in (True, False):
                out, err = io.StringIO(), io.StringIO()
                try:
                    with stdin_as(FakeIn(text, tty)), contextlib.redirect_stdout(out), contextlib.redirect_stderr(err):
                        r = shuffle_cli(['cnfshuffle', '-S', seed] + sw, mode='string')
                    res = ('ok', r)
                except BaseException as e:
                    res = ('exc', type(e).__name__, str(e))
                rec('cnfshuffle', text, sw, seed, tty, res, out.getvalue(), err.getvalue(), M._prefix, random.random())

# --- cnfgen -T shuffle, message prefix handling on success and on errors
for argv in (['cnfgen', '-q', '-S', '4', 'php', '4', '3', '-T', 'shuffle'],
             ['cnfgen', 'php', '4', '3', '-T', 'shuffle', '-z'],
             ['cnfgen', 'php', '4', '3', '-T'],
             ['cnfgen', '-of', 'latex', 'php', '3', '2', '-T', 'shuffle', '-c'],
             ['cnfgen', '-of', 'opb', 'php', '3', '2', '-T', 'shuffle', '-p', '-v']):
    random.seed(11)
    rec('cnfgen', argv, call(cnfgen_cli, argv, mode='string'))

# --- the real programs: exit codes and messages on stderr
tmpdir = tempfile.mkdtemp()
shuf = "import sys; sys.argv=['cnfshuffle']+sys.argv[1:]; from cnfgen.clitools.cnfshuffle import main; main()"
gen = "import sys; sys.argv=['cnfgen']+sys.argv[1:]; from cnfgen.clitools.cnfgen import main; main()"
def sub(code, args, text):
    p = subprocess.run([sys.executable, '-W', 'ignore', '-c', code] + args, input=text,
                       stdout=subprocess.PIPE, stderr=subprocess.PIPE, text=True, cwd=os.getcwd())
    return p.returncode, p.stdout.replace(tmpdir, 'TMP'), p.stderr.replace(tmpdir, 'TMP')
for text in dimacs:
    rec('main', text, sub(shuf, ['-S', '2'], text), sub(shuf, ['-S', '2', '-p', '-v', '-c', '-q'], text))
rec('main-badopt', sub(shuf, ['--nonsense'], dimacs[0]))
rec('main-nofile', sub(shuf, ['-i', os.path.join(tmpdir, 'missing.cnf')], ''))
rec('main-baddir', sub(shuf, ['-o', os.path.join(tmpdir, 'no', 'such', 'dir.cnf')], dimacs[0]))
rec('gen-ok', sub(gen, ['-S', '1', 'op', '3', '-T', 'shuffle'], ''))
rec('gen-bad', sub(gen, ['op', '3', '-T', 'shuffle', '--bad'], ''))
rec('gen-bad2', sub(gen, ['op', '3', '-T'], ''))
rec('gen-bad3', sub(gen, ['op', 'x', '-T', 'shuffle'], ''))
os.rmdir(tmpdir)

print(H.hexdigest())
