"""Equivalence witness for refactoring t22 (shared parity clause helper).

Run as:  cd <checkout> && /venv/bin/python equiv.py
Prints one SHA256 digest of everything observable.
"""
import sys, os, io, hashlib, contextlib, warnings
warnings.simplefilter('ignore')
sys.path.insert(0, os.getcwd())

from cnfgen.formula.basecnf import BaseCNF
from cnfgen.formula.linear import CNFLinear
from cnfgen.formula.cnfio import CNFio
from cnfgen.formula.cnf import CNF
from cnfgen.formula.baseopb import BaseOPB
from cnfgen.formula.opbio import OPBio
from cnfgen.formula.opb import OPB
from cnfgen.clitools.pbgen import cli as pbcli
from cnfgen.clitools.cnfgen import cli as cnfcli

H = hashlib.sha256()


def emit(*items):
    H.update((" ".join(repr(x) for x in items) + "\n").encode('utf-8'))


def attempt(label, thunk):
    try:
        res = thunk()
        emit(label, 'ok', res)
    except BaseException as e:  # noqa
        cause = e.__cause__
        emit(label, 'exc', type(e).__name__, str(e),
             type(cause).__name__ if cause is not None else None,
             str(cause) if cause is not None else None)


def snapshot(F):
    return (F.number_of_variables(), len(F), [list(c) for c in F],
            list(F.all_variable_labels()), str(F))


class Sized:
    """Iterable with a length which is not a list"""
    def __init__(self, data):
        self.data = data

    def __len__(self):
        return len(self.data)

    def __iter__(self):
        return iter(self.data)


class Liar:
    """Iterable whose length disagrees with its content"""
    def __len__(self):
        return 2

    def __iter__(self):
        return iter([1, 2, 3])


LITS = [
    ('empty', lambda: []), ('one', lambda: [1]), ('neg', lambda: [-4]),
    ('two', lambda: [-1, 2]), ('three', lambda: [1, 2, 3]),
    ('mixed', lambda: [5, -2, 9, -7]), ('five', lambda: [1, -2, 3, -4, 5]),
    ('eight', lambda: list(range(1, 9))),
    ('tuple', lambda: (3, -1, 2)), ('range', lambda: range(1, 4)),
    ('rep', lambda: [2, 2, -2]), ('sized', lambda: Sized([1, -3])),
    ('liar', lambda: Liar()),
    ('gen', lambda: (x for x in [1, -2, 3])),
    ('gen0', lambda: (x for x in [])),
    ('iter', lambda: iter([4, 5])), ('map', lambda: map(abs, [-1, -2])),
    ('zero', lambda: [0, 1]), ('bool', lambda: [True, 2]),
    ('float', lambda: [1.5, 2]), ('str', lambda: ['a', 'b']),
    ('strlit', lambda: 'ab'), ('none', lambda: None), ('int', lambda: 5),
    ('nonelit', lambda: [None, 1]), ('nested', lambda: [[1], [2]]),
    ('set', lambda: {3}), ('dict', lambda: {1: 2, 3: 4}),
]
CONSTANTS = [0, 1, 2, 3, -1, True, False, 1.0, '1', None]

for cls in (CNFLinear, CNF, BaseOPB, OPBio, OPB):
    for check in (True, False):
        for name, mk in LITS:
            for const in CONSTANTS:
                F = cls()
                F.update_variable_number(1)
                attempt((cls.__name__, 'add_parity', name, const, check),
                        lambda: F.add_parity(mk(), const, check=check))
                attempt('snap', lambda: snapshot(F))
    # parity constraints accumulate, keyword arguments
    F = cls()
    F.add_parity([1, 2, 3], 1)
    F.add_parity(lits=[-3, 4], constant=0)
    F.add_parity((x for x in [4, 5, 6, 7]), 1, False)
    F.add_parity([], 0)
    F.add_parity([], 1)
    emit(cls.__name__, snapshot(F), F.debug())
    attempt('opb', lambda: F.to_opb())
    attempt('latex', lambda: F.to_latex())

# The two renderings of a parity constraint have the same models
import itertools
for n in range(0, 6):
    for const in (0, 1):
        lits = [(-1) ** i * (i + 1) for i in range(n)]
        C = CNF()
        P = OPB()
        C.add_parity(lits, const)
        P.add_parity(lits, const)
        models_c = []
        models_p = []
        for bits in itertools.product([False, True], repeat=n):
            val = lambda l: bits[abs(l) - 1] == (l > 0)
            models_c.append(all(any(val(l) for l in cl) for cl in C))
            models_p.append(all(sum(c for c, l in con[:-2] if val(l)) >= con[-1]
                                for con in P))
        emit(n, const, models_c, models_p, models_c == models_p,
             [list(c) for c in C], [list(c) for c in P])

CMDS = """tseitin 6
tseitin 8 3
tseitin first grid 3 3
tseitin random gnd 6 3
tseitin randomodd gnd 6 3
tseitin randomeven gnm 5 6
tseitin first complete 4
tseitin first empty 3
parity 5
parity 4
ec gnd 6 4
ec complete 5
count 6 2
randkcnf 3 6 8
php 4 3
op 4
true
false
cpls 2 2 2
iso gnp 4 .5
nosuchformula 3
tseitin first
tseitin banana gnd 6 3
tseitin first gnd 5 3"""


def run_cli(cli, argv, mode):
    err = io.StringIO()
    out = io.StringIO()
    with contextlib.redirect_stderr(err), contextlib.redirect_stdout(out):
        res = cli(argv, mode=mode)
    if mode == 'formula':
        res = snapshot(res) + (sorted(res.header.items()),)
    return res, out.getvalue(), err.getvalue()


for line in CMDS.splitlines():
    for seed in ('7', '42'):
        argv = ['pbgen', '-S', seed] + line.split()
        attempt(argv, lambda: run_cli(pbcli, argv, 'string'))
        attempt(argv, lambda: run_cli(pbcli, argv, 'formula'))
        argv2 = ['pbgen', '-S', seed, '--latex', '-q'] + line.split()
        attempt(argv2, lambda: run_cli(pbcli, argv2, 'string'))
        for fmt in ('opb', 'dimacs'):
            argv3 = ['cnfgen', '-of', fmt, '-S', seed] + line.split()
            attempt(argv3, lambda: run_cli(cnfcli, argv3, 'string'))
        argv4 = ['cnfgen', '-S', seed] + line.split()
        attempt(argv4, lambda: run_cli(cnfcli, argv4, 'formula'))
        argv5 = ['cnfgen', '-q', '-S', seed] + line.split() + ['-T', 'xor', '2']
        attempt(argv5, lambda: run_cli(cnfcli, argv5, 'string'))

# public names that other code may import from the two modules
import cnfgen.formula.linear as L
import cnfgen.formula.baseopb as B
emit(sorted(n for n in ('CNFLinear', 'BaseCNF') if hasattr(L, n)),
     sorted(n for n in ('BaseOPB', 'ConstraintsView', 'normalize_opb')
            if hasattr(B, n)))

print(H.hexdigest())
