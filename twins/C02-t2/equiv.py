import sys, os, hashlib, random, itertools, warnings
warnings.simplefilter("ignore")
sys.path.insert(0, os.getcwd())
import networkx as nx
from cnfgen.graphs import Graph

_H = hashlib.sha256()


def emit(*items):
    for it in items:
        _H.update(repr(it).encode("utf-8"))
        _H.update(b"\x00")


def dump(tag, fn, *args, **kwargs):
    """Call fn and record everything observable about the outcome."""
    emit("CALL", tag)
    try:
        F = fn(*args, **kwargs)
    except Exception as exc:  # record the exception type and message
        emit("EXC", type(exc).__name__, str(exc))
        return None
    emit("HEADER", sorted((str(k), str(v)) for k, v in F.header.items()))
    emit("NVARS", F.number_of_variables(), "NCLS", F.number_of_clauses())
    emit("LABELS", list(F.all_variable_labels()))
    emit("CLAUSES", [list(c) for c in F.clauses()])
    emit("DIMACS", F.to_dimacs())
    return F


def mkgraph(n, edges, name=None):
    G = Graph(n, name=name) if name is not None else Graph(n)
    for u, v in edges:
        G.add_edge(u, v)
    return G


def all_graphs(maxn):
    """Every labelled simple graph with at most maxn vertices."""
    for n in range(0, maxn + 1):
        pairs = list(itertools.combinations(range(1, n + 1), 2))
        for mask in range(1 << len(pairs)):
            yield n, [p for i, p in enumerate(pairs) if (mask >> i) & 1]


def random_graphs(rng, count, nmin, nmax):
    for _ in range(count):
        n = rng.randint(nmin, nmax)
        p = rng.choice([0.0, 0.2, 0.5, 0.8, 1.0])
        pairs = itertools.combinations(range(1, n + 1), 2)
        yield n, [e for e in pairs if rng.random() < p]


def cli(argv, seed=4242):
    """Run the cnfgen command line tool in-process and record its outcome."""
    import io, contextlib
    from cnfgen.clitools import cnfgen as cnfgen_cli
    random.seed(seed)
    out, err = io.StringIO(), io.StringIO()
    code = None
    try:
        with contextlib.redirect_stdout(out), contextlib.redirect_stderr(err):
            cnfgen_cli(argv)
    except SystemExit as exc:
        code = exc.code
    except Exception as exc:
        emit("CLI-EXC", type(exc).__name__, str(exc))
    emit("CLI", argv, code, out.getvalue(), err.getvalue())


def finish():
    print(_H.hexdigest())

# ---- T2: DominatingSet (both encodings) and Tiling ----
from cnfgen import DominatingSet, Tiling

rng = random.Random(777)

for n, edges in all_graphs(4):
    G = mkgraph(n, edges)
    for alt in (False, True):
        for d in range(1, n + 3):
            dump(("domset", n, edges, d, alt), DominatingSet, G, d, alternative=alt)
    dump(("domset-positional", n, edges), DominatingSet, G, 2, True)
    dump(("tiling", n, edges), Tiling, G)

for n, edges in random_graphs(rng, 40, 5, 8):
    G = mkgraph(n, edges, name="random graph on %d vertices" % n)
    for alt in (False, True):
        for d in (1, 2, rng.randint(1, n), n, n + 1):
            dump(("domset-rnd", n, edges, d, alt), DominatingSet, G, d, alternative=alt)
    dump(("tiling-rnd", n, edges), Tiling, G)

# bad parameters: error messages must be identical
G = mkgraph(3, [(1, 2), (2, 3)])
for alt in (False, True):
    for bad in (0, -1, 1.5, "2", None, True):
        dump(("domset-bad-d", bad, alt), DominatingSet, G, bad, alternative=alt)
    dump(("domset-bad-G", alt), DominatingSet, "graph", 2, alternative=alt)
    dump(("domset-digraph", alt), DominatingSet, nx.DiGraph([(1, 2)]), 2, alternative=alt)
    for H in (nx.path_graph(5), nx.cycle_graph(5), nx.petersen_graph(),
              nx.null_graph(), nx.empty_graph(4), nx.complete_graph(5)):
        for d in (1, 3):
            dump(("domset-nx", sorted(H.edges()), d, alt), DominatingSet, H, d, alternative=alt)

# satisfiability agrees with the graph property on small graphs (brute force)
def brute_sat(F):
    nv = F.number_of_variables()
    cls = [list(c) for c in F.clauses()]
    for bits in itertools.product([False, True], repeat=nv):
        if all(any(bits[abs(l) - 1] == (l > 0) for l in c) for c in cls):
            return True
    return False

for n, edges in all_graphs(3):
    G = mkgraph(n, edges)
    for alt in (False, True):
        for d in (1, 2):
            emit("SAT", n, edges, d, alt, brute_sat(DominatingSet(G, d, alternative=alt)))

# command line front end
cli(["cnfgen", "-q", "domset", "2", "grid", "3", "3"])
cli(["cnfgen", "-q", "domset", "--alternative", "2", "grid", "3", "3"])
cli(["cnfgen", "-q", "domset", "-a", "3", "gnp", "7", "0.4"])
cli(["cnfgen", "-q", "domset", "1", "complete", "5"])
cli(["cnfgen", "-q", "domset", "0", "complete", "5"])
cli(["cnfgen", "-q", "-of", "latex", "domset", "--alternative", "2", "complete", "3"])
cli(["cnfgen", "-q", "tiling", "torus", "3", "3"])
cli(["cnfgen", "-q", "tiling", "gnd", "6", "3"])

finish()
