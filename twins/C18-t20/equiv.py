#!/usr/bin/env python
"""Equivalence check for the reporting of errors by the command line
entry points (cnfgen, pbgen, cnfshuffle, kthlist2pebbling) through the
error message printer of cnfgen/clitools/msg.py.

Run as:  cd <checkout> && /venv/bin/python equiv.py
Prints one SHA256 digest of everything observable.
"""
import os
import sys
import io
import random
import shutil
import hashlib
import tempfile
import importlib

ROOT = os.getcwd()
sys.path.insert(0, ROOT)

import cnfgen  # noqa: E402
from cnfgen.clitools import msg as msg_module  # noqa: E402

cnfgen_cli = importlib.import_module('cnfgen.clitools.cnfgen')
pbgen_cli = importlib.import_module('cnfgen.clitools.pbgen')
shuffle_cli = importlib.import_module('cnfgen.clitools.cnfshuffle')
kth_cli = importlib.import_module('cnfgen.clitools.kthlist2pebbling')

LOG = []


def record(*items):
    LOG.append(repr(items))


class KeepOpen(io.StringIO):
    def close(self):
        pass


def run_main(module, argv, stdin_text=''):
    """Run the command line entry point in process, like the shell would"""
    out, err = KeepOpen(), KeepOpen()
    old = sys.argv, sys.stdin, sys.stdout, sys.stderr
    sys.argv = list(argv)
    sys.stdin = io.StringIO(stdin_text)
    sys.stdout, sys.stderr = out, err
    code = 0
    # every command line starts in a fresh process: no leftover prefix
    msg_module._prefix = ''
    try:
        try:
            module.main()
        except SystemExit as e:
            code = e.code
        except BaseException as e:  # unhandled internal exception
            code = ('UNHANDLED', type(e).__name__, str(e))
    finally:
        sys.argv, sys.stdin, sys.stdout, sys.stderr = old
    return code, out.getvalue(), err.getvalue()


def try_call(f, *args):
    try:
        res = f(*args)
        if isinstance(res, dict):
            res = sorted(res.items(), key=lambda kv: kv[0])
        return ('OK', repr(res))
    except BaseException as e:
        return ('EXC', type(e).__name__, str(e))


GEN_TAILS = [
    [],
    ['-h'],
    ['--help'],
    ['--bogus'],
    ['-V', 'extra'],
    ['bogus'],
    ['php'],
    ['php', '-h'],
    ['php', '3', '2'],
    ['php', '0', '2'],
    ['php', '-1', '2'],
    ['php', '3', '2', '1', '7'],
    ['php', 'three'],
    ['php', '3', '2', '--bogus'],
    ['op', '3'],
    ['op', '0'],
    ['op', '3', '4'],
    ['-q', 'op', '2'],
    ['-of', 'latex', 'op', '2'],
    ['-of', 'opb', 'op', '2'],
    ['-of', 'latex', 'op', '-2'],
    ['-of', 'opb', 'op', '-2'],
    ['-of', 'latex', 'kcolor', '2', 'glrp', '2', '2', '1'],
    ['-of', 'opb', 'kcolor', '2', 'glrp', '2', '2', '1'],
    ['-of', 'wrong', 'op', '2'],
    ['-o', 'nodir/x.cnf', 'op', '2'],
    ['-o', 'x.tex', 'op', '-2'],
    ['-o', 'x.opb', 'op', '-2'],
    ['-o', 'good.cnf', 'op', '2'],
    ['-o', '.', 'op', '2'],
    ['-o'],
    ['-S'],
    ['randkcnf', '3', '4', '5'],
    ['randkcnf', '3', '4', '50'],
    ['randkcnf', '5', '4', '1'],
    ['randkcnf', '3', '4'],
    ['kcolor', '2', 'gnd', '5', '3'],
    ['kcolor', '2', 'gnd', '6', '3'],
    ['kcolor', '0', 'gnd', '6', '3'],
    ['kcolor', '2', 'nofile.gml'],
    ['kcolor', '2', 'noext'],
    ['kcolor', '2', 'bad.gml'],
    ['kcolor', '2', 'adir.gml'],
    ['kclique', '3', 'complete', '4', 'save', 'nodir/g.gml'],
    ['peb', 'bad.kthlist'],
    ['peb', 'kthlist', 'nofile'],
    ['peb', 'tree', '2', '-T'],
    ['peb', 'tree', '2', '-T', 'xor'],
    ['peb', 'tree', '2', '-T', 'xor', '0'],
    ['peb', 'tree', '2', '-T', 'bogus'],
    ['dimacs', 'nofile.cnf'],
    ['dimacs', 'bad.cnf'],
    ['dimacs', 'ok.cnf'],
    ['dimacs', 'adir.gml'],
    ['dimacs'],
    ['tseitin', 'first', 'gnd', '5', '2'],
    ['tseitin', 'bogus', 'gnd', '5', '2'],
    ['stone', '2', 'pyramid', '1'],
    ['stone', '0', 'pyramid', '1'],
    ['cliquecoloring', '4', '3', '2'],
    ['cliquecoloring', '4', '3'],
    ['ram', '3', '3', '5'],
    ['ram', '3', '3', '-5'],
    ['vdw', '5', '2', '2'],
    ['vdw', '5'],
    ['ptn', '6'],
    ['ptn', 'x'],
    ['count', '5', '2'],
    ['count', '5', '0'],
    ['parity', '3'],
    ['parity', '-3'],
    ['matching', 'gnd', '4', '2'],
    ['subsetcard', '3'],
    ['subsetcard', '0'],
    ['pitfall', '4', '2', '2', '2', '2'],
    ['pitfall', '4', '2'],
    ['cpls', '2', '2', '2'],
    ['cpls', '3', '2', '2'],
    ['tiling', 'grid', '2', '2'],
    ['iso', 'complete', '3'],
    ['iso', 'complete', '3', '-e', 'gnp', '4', '1'],
    ['domset', '2', 'grid', '2', '2'],
    ['domset', '-2', 'grid', '2', '2'],
    ['ec', 'torus', '3', '3'],
    ['ec', 'gnd', '4', '3'],
    ['rphp', '3', '2', '2'],
    ['rphp', '3'],
    ['bphp', '4'],
    ['bphp', '4', '3'],
    ['and', '2', '1'],
    ['or', '-1', '1'],
    ['ramlb', '3', '3', 'complete', '3'],
    ['subgraph', '-G', 'complete', '4', '-H', 'complete', '3'],
    ['subgraph', '-G', 'complete', '4'],
    ['kcliquebin', '2', 'complete', '3'],
]

OK_CNF = "c comment\np cnf 3 2\n1 -2 0\n2 3 0\n"

SHUFFLE_RUNS = [
    ([], OK_CNF),
    (['-S', '4'], OK_CNF),
    (['-S', '4', '-q'], OK_CNF),
    (['-S', '4', '-p', '-v', '-c'], OK_CNF),
    (['-S', '4'], ''),
    (['-S', '4'], 'p cnf 3 2\n1 -2 0\n'),
    (['-S', '4'], 'p cnf 3 1\n1 -2 0\n2 3 0\n'),
    (['-S', '4'], 'p cnf 2 2\n1 -2 0\n2 3 0\n'),
    (['-S', '4'], 'p cnf x 2\n1 -2 0\n'),
    (['-S', '4'], '1 -2 0\n'),
    (['-S', '4'], 'p cnf 3 2\n1 -2\n2 3 0\n'),
    (['-S', '4'], 'p cnf 3 2\n1 a 0\n2 3 0\n'),
    (['-S', '4'], 'p cnf 3 2\np cnf 3 2\n1 2 0\n2 3 0\n'),
    (['-i', 'ok.cnf', '-S', '1'], ''),
    (['-i', 'bad.cnf', '-S', '1'], ''),
    (['-i', 'nofile.cnf'], ''),
    (['-i', 'adir.gml'], ''),
    (['-o', 'nodir/out.cnf'], OK_CNF),
    (['-o', 'shuffled.cnf', '-S', '2'], OK_CNF),
    (['--bogus'], OK_CNF),
    (['extra'], OK_CNF),
    (['-h'], OK_CNF),
    (['-S'], OK_CNF),
]

OK_KTH = "c a dag\n3\n1 : 0\n2 : 0\n3 : 1 2 0\n"

KTH_RUNS = [
    ([], OK_KTH),
    (['-q'], OK_KTH),
    (['xor', '2'], OK_KTH),
    (['-q', 'or', '2'], OK_KTH),
    (['xor'], OK_KTH),
    (['xor', '0'], OK_KTH),
    (['bogus'], OK_KTH),
    (['--bogus'], OK_KTH),
    (['-h'], OK_KTH),
    (['xor', '-h'], OK_KTH),
    ([], ''),
    ([], '3\n1 : 0\n2 : 1\n3 : 1 2 0\n'),
    ([], '3\n1 : 0\n2 : x 0\n3 : 1 2 0\n'),
    ([], '3\n1 : 0\n2 : 3 0\n3 : 1 2 0\n'),
    ([], '2\n1 : 0\n2 : 0\n3 : 1 2 0\n'),
    ([], 'three\n'),
    ([], '3\n1 0\n'),
    (['-i', 'good.kthlist'], ''),
    (['-i', 'bad.kthlist'], ''),
    (['-i', 'nofile.kthlist'], ''),
    (['-i', 'adir.gml'], ''),
    (['-o', 'nodir/out.cnf'], OK_KTH),
    (['-o', 'peb.cnf'], OK_KTH),
    (['-i'], OK_KTH),
]


def error_printer():
    """The function of the msg module that prints error messages"""
    known = ('interactive_msg', 'msg_prefix', 'contextmanager')
    found = [
        f for name, f in sorted(vars(msg_module).items())
        if callable(f) and not isinstance(f, type) and name not in known
        and getattr(f, '__module__', None) == msg_module.__name__
    ]
    assert len(found) == 1, found
    return found[0]


def exercise_printer():
    printer = error_printer()
    texts = [
        '', 'short', 'two\nlines', '   indented\n     more\n   less',
        'word ' * 40, ValueError('an exception'), OSError(2, 'No such file'),
        12, None, 'trailing newline\n', '\n\nleading', 'tab\tseparated',
        u'unicode ✓'
    ]
    for prefix in ['', 'c ', '* ', '% ', 'c INPUT: ']:
        for text in texts:
            for fill in [None, 0, -3, 1, 20, 70]:
                err = io.StringIO()
                old = sys.stderr
                sys.stderr = err
                msg_module._prefix = ''
                try:
                    with msg_module.msg_prefix(prefix):
                        outcome = try_call(printer, text, fill)
                    if fill is None:
                        with msg_module.msg_prefix(prefix):
                            outcome2 = try_call(printer, text)
                    else:
                        outcome2 = None
                finally:
                    sys.stderr = old
                    msg_module._prefix = ''
                record('printer', prefix, repr(text), fill, outcome, outcome2,
                       err.getvalue())
    record('doc', printer.__doc__)


def exercise_cli():
    for tail in GEN_TAILS:
        random.seed(7)
        record('cnfgen', tail,
               run_main(cnfgen_cli, ['cnfgen', '-S', '5'] + tail))
        random.seed(7)
        record('pbgen', tail,
               run_main(pbgen_cli, ['pbgen', '-S', '5'] + tail))
    for tail, text in SHUFFLE_RUNS:
        random.seed(7)
        record('cnfshuffle', tail, text,
               run_main(shuffle_cli, ['cnfshuffle'] + tail, text))
    for tail, text in KTH_RUNS:
        random.seed(7)
        record('kthlist2pebbling', tail, text,
               run_main(kth_cli, ['kthlist2pebbling'] + tail, text))
    for name in sorted(os.listdir('.')):
        if os.path.isdir(name):
            record('dir', name, sorted(os.listdir(name)))
            continue
        with open(name) as f:
            record('file', name, f.read())


def main():
    workdir = tempfile.mkdtemp(prefix='c18t20')
    os.chdir(workdir)
    try:
        os.mkdir('adir.gml')
        with open('bad.gml', 'w') as f:
            f.write("graph [ node [ id 1 ] edge [ source 1 ")
        with open('good.kthlist', 'w') as f:
            f.write(OK_KTH)
        with open('bad.kthlist', 'w') as f:
            f.write("3\n1 : 2 0\n2 : x 0\n")
        with open('ok.cnf', 'w') as f:
            f.write(OK_CNF)
        with open('bad.cnf', 'w') as f:
            f.write("p cnf 3 2\n1 -2 0\n2 7 0\n")
        exercise_printer()
        exercise_cli()
    finally:
        os.chdir(ROOT)
        shutil.rmtree(workdir, ignore_errors=True)

    if '--dump' in sys.argv:
        print("\n".join(LOG))
    print(hashlib.sha256("\n".join(LOG).encode('utf-8')).hexdigest())


if __name__ == '__main__':
    main()
