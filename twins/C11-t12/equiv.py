#!/usr/bin/env python
"""Equivalence check for BinaryMappingVariables.to_index (property C11).

Builds many binary mapping groups (empty domains, ranges of size 0,1,2,
powers of two and neighbours), interleaved with other groups, clauses
and raises of the variable count.  Records, for every literal around and
inside the group, the index / exception produced, the round trip
index -> id -> index, labels, patterns with wildcards and the names
reported by the formula.  Prints a single SHA256 digest.
"""
import sys
import hashlib
import random
import warnings

warnings.simplefilter('ignore')
sys.path.insert(0, '.')

from cnfgen import CNF
from cnfgen.formula.basecnf import BaseCNF
from cnfgen.formula.variables import BinaryMappingVariables
from cnfgen.graphs import BipartiteGraph

H = hashlib.sha256()


def out(*args):
    H.update((' '.join(repr(a) for a in args) + '\n').encode('utf8'))


def attempt(tag, fn, *args):
    try:
        res = fn(*args)
        if hasattr(res, '__next__') or hasattr(res, '__iter__') and not isinstance(res, (list, tuple, str)):
            res = list(res)
        out(tag, args, 'OK', res, type(res).__name__)
        return res
    except Exception as e:
        out(tag, args, 'EXC', type(e).__name__, str(e))
        return None


def dump_group(F, f):
    out('len', len(f), 'ids', list(f), 'bits', f.bits(),
        'dom', list(f.domain()), 'rng', list(f.range()))
    first = f[0] if len(f) else F.number_of_variables() + 1
    last = f[-1] if len(f) else first - 1
    idx = attempt('indices', f.indices)
    ids = attempt('call', f)
    attempt('label', f.label)
    attempt('dict', lambda: sorted(f.to_dict().items()))
    # index -> id -> index
    for t, v in zip(idx or [], ids or []):
        out('rt', t, v, f(*t), f.to_index(v), f.to_index(-v), f.label(*t))
        assert f.to_index(v) == t
    # literals around and inside the range
    for lit in range(first - 3, last + 4):
        attempt('to_index', f.to_index, lit)
        attempt('to_index', f.to_index, -lit)
        out('in', lit, lit in f, -lit in f)
    for lit in (0, 10 ** 9, -10 ** 9, True):
        attempt('to_index', f.to_index, lit)
    for bad in ('3', None, 2.0, 2.5, (1, 2)):
        attempt('to_index_bad', f.to_index, bad)
    # patterns
    n, b = f.domain_size, f.bits()
    for i in [None, 0, 1, n, n + 1, -1]:
        for j in [None, -1, 0, 1, b - 1, b]:
            attempt('pat-idx', f.indices, i, j)
            attempt('pat-call', f, i, j)
            attempt('pat-label', f.label, i, j)
    attempt('pat-1', f.indices, 1)
    attempt('pat-3', f.indices, 1, 0, 0)
    for i in [0, 1, n, n + 1]:
        for j in [0, 1, f.range_size - 1, f.range_size, 2 ** b - 1, 2 ** b]:
            attempt('forbid', f.forbid, i, j)


# Stand alone groups on BaseCNF with various offsets
for offset in [0, 1, 7]:
    for n in [0, 1, 2, 3, 5]:
        for m in [0, 1, 2, 3, 4, 5, 7, 8, 9, 16, 17]:
            F = BaseCNF()
            F.update_variable_number(offset)
            f = BinaryMappingVariables(F, n, m, labelfmt='b[{}|{}]')
            out('standalone', offset, n, m)
            dump_group(F, f)
for n, m in [(-1, 3), (3, -1), (-1, -1)]:
    attempt('ctor', lambda a, b: len(BinaryMappingVariables(BaseCNF(), a, b)), n, m)

# Inside a formula, interleaved with everything else
rng = random.Random(20211103)
for trial in range(40):
    F = CNF()
    groups = []
    for step in range(rng.randint(1, 8)):
        what = rng.choice(['bin', 'bin', 'bin', 'var', 'block', 'clause',
                           'raise', 'map', 'comb', 'edges'])
        if what == 'bin':
            n = rng.choice([0, 1, 2, 3, 4, 6])
            m = rng.choice([0, 1, 2, 3, 4, 5, 8, 9, 13, 16, 33])
            kw = {}
            if rng.random() < 0.5:
                kw['label'] = 'w_{{{0},{1}}}'
            groups.append(F.new_binary_mapping(n, m, **kw))
        elif what == 'var':
            F.new_variable(label=rng.choice([None, 'Z', 'y{}']))
        elif what == 'block':
            F.new_block(rng.randint(0, 3), rng.randint(0, 3))
        elif what == 'clause':
            k = rng.randint(0, 4)
            top = F.number_of_variables() + 3
            F.add_clause([rng.choice([-1, 1]) * rng.randint(1, top)
                          for _ in range(k)])
        elif what == 'raise':
            F.update_variable_number(F.number_of_variables() + rng.randint(0, 4))
        elif what == 'map':
            F.new_mapping(rng.randint(0, 3), rng.randint(0, 3))
        elif what == 'comb':
            F.new_combinations(rng.randint(0, 4), rng.randint(0, 3))
        elif what == 'edges':
            B = BipartiteGraph(3, 3)
            for _ in range(rng.randint(0, 6)):
                B.add_edge(rng.randint(1, 3), rng.randint(1, 3))
            F.new_bipartite_edges(B)
        out('step', trial, step, what, F.number_of_variables())
    for g in groups:
        dump_group(F, g)
        attempt('functional', lambda: (F.force_functional_mapping(g), len(F))[1])
        attempt('injective', lambda: (F.force_injective_mapping(g), len(F))[1])
        attempt('nondecr', lambda: (F.force_nondecreasing_mapping(g), len(F))[1])
    names = list(F.all_variable_labels())
    out('names', names)
    assert len(names) == F.number_of_variables()
    out('dimacs', F.to_dimacs())
    out('clauses', list(F))

print(H.hexdigest())
