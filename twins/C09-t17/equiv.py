#!/usr/bin/env python
"""Equivalence script for t17: argument validation in
cnfgen.transformations.shuffle.Shuffle (explicit flips / permutations).

Calls Shuffle with valid and invalid explicit polarity flips, variable
permutations and clause permutations of many types, mixed with the
'fixed' / 'shuffle' switches and several seeds; records formulas, the
exceptions with their messages and the state of the random stream.
Prints one SHA256 digest.
"""
import hashlib
import itertools
import os
import random
import sys
from fractions import Fraction

sys.path.insert(0, os.getcwd())

from cnfgen.formula.cnf import CNF
from cnfgen.transformations.shuffle import Shuffle

LOG = []


def log(*items):
    LOG.append(repr(items))


def describe(F):
    return (F.number_of_variables(), F.number_of_clauses(),
            [list(c) for c in F], sorted((k, str(v)) for k, v in F.header.items()))


def attempt(tag, F, pf, vp, cp, seed=31):
    random.seed(seed)
    before = describe(F)
    try:
        G = Shuffle(F, pf, vp, cp)
        log(tag, 'ok', describe(G))
    except BaseException as e:  # noqa
        log(tag, 'exc', type(e).__name__, str(e))
    log(tag, 'rnd', random.random(), describe(F) == before)


def formula(n, clauses, header=None):
    F = CNF(clauses)
    F.update_variable_number(n)
    if header is not None:
        F.header = header
    return F


class Sized:
    """Has a len but is neither sortable nor indexable"""
    def __init__(self, n):
        self.n = n

    def __len__(self):
        return self.n


FORMULAS = [
    formula(0, []),
    formula(0, [[]]),
    formula(1, [[1], [-1]]),
    formula(3, []),
    formula(3, [[1, -2], [], [3, 3, -1], [2]]),
    formula(4, [[1, 2, 3, 4], [-4, -3], [2, -2]], {'description': 'test', 'transformation 1': 'x'}),
    formula(5, [[5], [-1, 2]], {}),
]

rnd = random.Random(424242)
for _ in range(6):
    n = rnd.randint(1, 7)
    m = rnd.randint(0, 8)
    cls = [[rnd.choice([-1, 1]) * rnd.randint(1, n) for _ in range(rnd.randint(0, 4))]
           for _ in range(m)]
    FORMULAS.append(formula(n, cls))


def flips_candidates(N, r):
    good = [r.choice([-1, 1]) for _ in range(N)]
    yield 'fixed'
    yield 'shuffle'
    yield good
    yield tuple(good)
    yield [float(x) for x in good]
    yield [Fraction(x) for x in good]
    yield [-1] * N
    # invalid
    yield good + [1]
    yield good[:-1]
    yield [0] * N
    yield [2] + good[1:]
    yield good[:-1] + [-3]
    yield ['1'] * N
    yield [None] * N
    yield 'x' * N
    yield 'other'
    yield None
    yield 7
    yield Sized(N)
    yield {i: 1 for i in range(N)}
    yield {i + 1: 1 for i in range(N)}
    yield (x for x in good)


def varperm_candidates(N, r):
    good = list(range(1, N + 1))
    r.shuffle(good)
    yield 'fixed'
    yield 'shuffle'
    yield good
    yield tuple(good)
    yield list(range(1, N + 1))
    yield list(reversed(range(1, N + 1)))
    yield [float(x) for x in good]
    yield range(1, N + 1)
    # invalid
    yield list(range(N))
    yield good + [N + 1]
    yield good[:-1]
    yield [1] * N
    yield good[:-1] + [N + 1]
    yield good[:-1] + [0]
    yield [-x for x in good]
    yield [str(x) for x in good]
    yield good[:-1] + ['a']
    yield [None] * N
    yield 'y' * N
    yield 'whatever'
    yield None
    yield 3
    yield Sized(N)
    yield set(good)
    yield {x: x for x in good}
    yield (x for x in good)


def clsperm_candidates(M, r):
    good = list(range(M))
    r.shuffle(good)
    yield 'fixed'
    yield 'shuffle'
    yield good
    yield tuple(good)
    yield list(range(M))
    yield list(reversed(range(M)))
    yield [float(x) for x in good]
    yield range(M)
    # invalid
    yield list(range(1, M + 1))
    yield good + [M]
    yield good[:-1]
    yield [0] * M
    yield good[:-1] + [M]
    yield good[:-1] + [-1]
    yield [str(x) for x in good]
    yield good[:-1] + ['b']
    yield [None] * M
    yield 'z' * M
    yield 'something'
    yield None
    yield 2
    yield Sized(M)
    yield set(good)
    yield {x: x for x in good}
    yield (x for x in good)


for fidx, F in enumerate(FORMULAS):
    N = F.number_of_variables()
    M = F.number_of_clauses()
    r = random.Random(1000 + fidx)
    P = list(flips_candidates(N, r))
    V = list(varperm_candidates(N, r))
    C = list(clsperm_candidates(M, r))
    # generators are consumed at most once: rebuild them each time
    for pi in range(len(P)):
        pf = list(flips_candidates(N, random.Random(1000 + fidx)))[pi]
        attempt(('P', fidx, pi), F, pf, 'shuffle', 'shuffle')
        pf = list(flips_candidates(N, random.Random(1000 + fidx)))[pi]
        attempt(('Pf', fidx, pi), F, pf, 'fixed', 'fixed')
    for vi in range(len(V)):
        r2 = random.Random(2000 + fidx)
        vp = list(varperm_candidates(N, r2))[vi]
        attempt(('V', fidx, vi), F, 'shuffle', vp, 'shuffle')
        r2 = random.Random(2000 + fidx)
        vp = list(varperm_candidates(N, r2))[vi]
        attempt(('Vf', fidx, vi), F, 'fixed', vp, 'fixed')
    for ci in range(len(C)):
        r2 = random.Random(3000 + fidx)
        cp = list(clsperm_candidates(M, r2))[ci]
        attempt(('C', fidx, ci), F, 'shuffle', 'shuffle', cp)
        r2 = random.Random(3000 + fidx)
        cp = list(clsperm_candidates(M, r2))[ci]
        attempt(('Cf', fidx, ci), F, 'fixed', 'fixed', cp)
    # which error comes first when several arguments are wrong, and mixes
    picks = [0, 1, 2, 5, 8, 9, 10, 12, 14, 16, 20]
    for pi, vi, ci in itertools.product(picks, repeat=3):
        if (pi * 7 + vi * 3 + ci + fidx) % 4:
            continue
        r2 = random.Random(4000 + fidx)
        pf = list(flips_candidates(N, r2))[pi]
        vp = list(varperm_candidates(N, r2))[vi]
        cp = list(clsperm_candidates(M, r2))[ci]
        for seed in (0, 'seed'):
            attempt(('PVC', fidx, pi, vi, ci, seed), F, pf, vp, cp, seed=seed)

# all permutations of a small formula: the result is a signed renaming
F = formula(3, [[1, -2], [2, 3], [-3], [1, 2, 3]])
for vp in itertools.permutations([1, 2, 3]):
    for cp in itertools.permutations(range(4)):
        for pf in itertools.product([-1, 1], repeat=3):
            attempt(('all', vp, cp, pf), F, list(pf), list(vp), list(cp))

# keyword arguments and defaults
for seed in range(10):
    random.seed(seed)
    log('default', seed, describe(Shuffle(FORMULAS[4])), random.random())
    random.seed(seed)
    log('kw', seed, describe(Shuffle(FORMULAS[5], clauses_permutation=[2, 0, 1],
                                     polarity_flips=[1, -1, 1, -1])), random.random())

print(hashlib.sha256("\n".join(LOG).encode('utf-8')).hexdigest())
