#!/usr/bin/env python
"""Equivalence check for the splitting of the cnfgen command line around
the '-T' options (cnfgen/clitools/cnfgen.py, parse_command_line).

Run as:  cd <checkout> && /venv/bin/python equiv.py
Prints one SHA256 digest of everything observable.
"""
import os
import sys
import io
import random
import shutil
import hashlib
import tempfile
import importlib

ROOT = os.getcwd()
sys.path.insert(0, ROOT)

import cnfgen  # noqa: E402
from cnfgen.clitools import msg as msg_module  # noqa: E402

cnfgen_cli = importlib.import_module('cnfgen.clitools.cnfgen')
pbgen_cli = importlib.import_module('cnfgen.clitools.pbgen')

LOG = []


def record(*items):
    LOG.append(repr(items))


class KeepOpen(io.StringIO):
    def close(self):
        pass


def run_main(module, argv, stdin_text=''):
    """Run the command line entry point in process, like the shell would"""
    out, err = KeepOpen(), KeepOpen()
    old = sys.argv, sys.stdin, sys.stdout, sys.stderr
    sys.argv = list(argv)
    sys.stdin = io.StringIO(stdin_text)
    sys.stdout, sys.stderr = out, err
    code = 0
    # every command line starts in a fresh process: no leftover prefix
    msg_module._prefix = ''
    try:
        try:
            module.main()
        except SystemExit as e:
            code = e.code
        except BaseException as e:  # unhandled internal exception
            code = ('UNHANDLED', type(e).__name__, str(e))
    finally:
        sys.argv, sys.stdin, sys.stdout, sys.stderr = old
    return code, out.getvalue(), err.getvalue()


def try_call(f, *args):
    try:
        res = f(*args)
        if isinstance(res, dict):
            res = sorted(res.items(), key=lambda kv: kv[0])
        return ('OK', repr(res))
    except BaseException as e:
        return ('EXC', type(e).__name__, str(e))


def namespace_view(ns):
    view = []
    for k, v in sorted(vars(ns).items()):
        if isinstance(v, (str, int, float, bool, type(None), list, tuple)):
            view.append((k, repr(v)))
        elif isinstance(v, type):
            view.append((k, v.__name__))
        else:
            view.append((k, type(v).__name__,
                         getattr(v, 'name', None)))
    return view


# tails of the command line, after the program name
TAILS = [
    [],
    ['-T'],
    ['-T', '-T'],
    ['-T', 'xor', '2'],
    ['php', '3', '2'],
    ['php', '3', '2', '-T'],
    ['php', '3', '2', '-T', '-T'],
    ['php', '3', '2', '-T', 'xor', '2'],
    ['php', '3', '2', '-T', 'xor', '2', '-T'],
    ['php', '3', '2', '-T', '-T', 'xor', '2'],
    ['php', '3', '2', '-T', 'xor', '2', '-T', 'or', '2'],
    ['php', '3', '2', '-T', 'xor', '2', '-T', 'or', '2', '-T', 'flip'],
    ['php', '3', '2', '-T', 'shuffle', '-T', 'none', '-T', 'lift', '2'],
    ['php', '3', '2', '-T', 'xor'],
    ['php', '3', '2', '-T', 'xor', '0'],
    ['php', '3', '2', '-T', 'xor', '-1'],
    ['php', '3', '2', '-T', 'xor', 'two'],
    ['php', '3', '2', '-T', 'xor', '2', '3'],
    ['php', '3', '2', '-T', 'bogus', '2'],
    ['php', '3', '2', '-T', 'xor', '2', '-T', 'bogus'],
    ['php', '3', '2', '-T', 'xor', '2', '-T', 'atleast', '3', '5'],
    ['php', '3', '2', '-T', 'exact', '3', '1'],
    ['php', '3', '2', '-T', 'majcomp', '3', '2'],
    ['php', '3', '2', '-T', 'xorcomp', '9', '2'],
    ['php', '3', '2', '-T', 'ite'],
    ['php', '3', '2', '-T', 'eq', '2', '-T', 'neq', '2'],
    ['php', '3', '2', '-T', 'one', '2', '-T', 'maj', '3'],
    ['php', '3', '2', '-T', 'anybut', '3', '1', '-T', 'atmost', '2', '1'],
    ['php', '3', '2', '-T', 'xor', '2', '-h'],
    ['php', '3', '2', '-T', '-h'],
    ['php', '3', '2', '-T', '--help'],
    ['-q', 'php', '3', '2', '-T', 'xor', '2'],
    ['php', '3', '2', '-q', '-T', 'xor', '2'],
    ['php', '3', '2', '-T', '-q', 'xor', '2'],
    ['php', '3', '2', '-T', 'xor', '2', '-q'],
    ['-T', 'php', '3', '2'],
    ['-T', 'xor', '2', 'php', '3', '2'],
    ['-of', 'latex', 'op', '3', '-T', 'or', '2'],
    ['-of', 'opb', 'op', '3', '-T', 'or', '2', '-T'],
    ['-of', 'bogus', 'op', '3', '-T', 'or', '2'],
    ['--varnames', 'op', '3', '-T', 'flip', '-T', 'flip'],
    ['-o', 'out.cnf', 'op', '3', '-T', 'shuffle'],
    ['-o', 'nodir/out.cnf', 'op', '3', '-T', 'shuffle'],
    ['-o', 'out.tex', 'op', '2', '-T', 'xor', '2'],
    ['-o', '-T', 'op', '2'],
    ['-S', '-T', 'op', '2'],
    ['op', '-T'],
    ['op', '3', '-T', 'lift'],
    ['op', '3', '-T', 'lift', '3', '-T', 'lift', '2'],
    ['op', '0', '-T', 'xor', '2'],
    ['op', '-3', '-T', 'xor', '2'],
    ['randkcnf', '3', '5', '7', '-T', 'shuffle', '-T', 'xor', '2'],
    ['randkcnf', '3', '5', '700', '-T', 'shuffle'],
    ['kcolor', '2', 'gnp', '4', '.5', '-T', 'or', '2'],
    ['kcolor', '2', 'gnp', '4', '.5', 'addedges', '1', '-T', 'or', '2', '-T'],
    ['peb', 'pyramid', '2', '-T', 'xor', '2', '-T', 'shuffle'],
    ['peb', '-T', 'pyramid', '2'],
    ['and', '2', '2', '-T'],
    ['or', '2', '2', '-T', 'or', '2'],
    ['true', '-T', 'xor', '3'],
    ['false', '-T', 'xor', '3'],
    ['-T-T'],
    ['php', '3', '2', '-Txor', '2'],
    ['php', '3', '2', '-t', 'xor', '2'],
    ['php', '3', '2', '--T', 'xor', '2'],
    ['php', '3', '2', ' -T', 'xor', '2'],
    ['--help'],
    ['-T', '--help'],
    ['--version', '-T'],
    ['--tutorial', '-T', 'xor'],
    ['--help-dag', '-T'],
]


def exercise_splitter():
    fhelpers = cnfgen_cli.get_formula_helpers()
    thelpers = cnfgen_cli.get_transformation_helpers()
    for tail in TAILS + [[3, 2], ['php', 3, 2, '-T', 'xor', 2]]:
        for argv in (['cnfgen'] + tail, tail):
            if any(x in argv for x in ('-o', '--help', '-h', '--version',
                                       '--tutorial', '--help-dag')):
                continue
            random.seed(3)
            msg_module._prefix = ''
            parser, t_parser = cnfgen_cli.setup_command_line_parsers(
                'cnfgen', fhelpers, thelpers)

            def split():
                args, t_args = cnfgen_cli.parse_command_line(
                    [str(x) for x in argv], parser, t_parser)
                return (namespace_view(args),
                        [namespace_view(t) for t in t_args])

            record('split', argv, try_call(split))


def exercise_cli():
    for tail in TAILS:
        random.seed(7)
        record('main', tail,
               run_main(cnfgen_cli, ['cnfgen', '-S', '5'] + tail))
        record('main noseed', tail, run_main(cnfgen_cli, ['cnfgen'] + tail))
    record('main empty argv', run_main(cnfgen_cli, []))
    for tail in TAILS:
        for mode in ('string', 'formula'):
            random.seed(9)
            msg_module._prefix = ''

            def call():
                res = cnfgen_cli.cli(['cnfgen', '-S', '5'] + tail, mode=mode)
                if mode == 'formula':
                    return (res.number_of_variables(), list(res.clauses()),
                            sorted(res.header.items()))
                return res

            if any(x in tail for x in ('-o', '--help', '-h', '--version',
                                       '--tutorial', '--help-dag')):
                continue
            record('cli', mode, tail, try_call(call))
    for name in sorted(os.listdir('.')):
        with open(name) as f:
            record('file', name, f.read())


def main():
    workdir = tempfile.mkdtemp(prefix='c18t19')
    os.chdir(workdir)
    try:
        exercise_splitter()
        exercise_cli()
    finally:
        os.chdir(ROOT)
        shutil.rmtree(workdir, ignore_errors=True)

    if '--dump' in sys.argv:
        print("\n".join(LOG))
    print(hashlib.sha256("\n".join(LOG).encode('utf-8')).hexdigest())


if __name__ == '__main__':
    main()
