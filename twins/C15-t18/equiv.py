"""Equivalence script for refactoring t18 (argparse graph actions).

Runs the cnfgen command line in-process on many graph specifications
(simple, bipartite, dag; good and bad ones) and hashes everything observable.
"""
import hashlib
import io
import os
import sys
import tempfile
import argparse
import contextlib

sys.path.insert(0, os.getcwd())
os.environ["COLUMNS"] = "80"

from cnfgen.clitools.cnfgen import cli
from cnfgen.clitools.cmdline import CLIParser, CLIError, CLIHelpFormatter
from cnfgen.clitools import graph_args
from cnfgen.clitools.graph_args import ObtainGraphAction
from cnfgen.clitools.graph_args import ObtainSimpleGraph
from cnfgen.clitools.graph_args import ObtainBipartiteGraph
from cnfgen.clitools.graph_args import ObtainDirectedAcyclicGraph

H = hashlib.sha256()


def record(*items):
    for x in items:
        H.update(repr(x).encode('utf-8'))
        H.update(b'\x00')


def run_cli(argv):
    out = io.StringIO()
    err = io.StringIO()
    try:
        with contextlib.redirect_stdout(out), contextlib.redirect_stderr(err):
            res = cli(['cnfgen', '-q', '--seed', '42'] + argv, mode='string')
        record('OK', argv, res)
    except SystemExit as e:
        record('EXIT', argv, e.code)
    except BaseException as e:  # CLIError and anything else
        record('EXC', argv, type(e).__name__, str(e))
    record(out.getvalue(), err.getvalue())


def graph_repr(G):
    if G.is_bipartite():
        L, R = G.parts()
        extra = (len(L), len(R))
    else:
        extra = ()
    return (type(G).__name__, G.name, G.number_of_vertices(),
            G.number_of_edges(), sorted(G.edges()), extra)


tmpdir = tempfile.mkdtemp()
cwd = os.getcwd()
os.chdir(tmpdir)
try:
    # a few graph files to read back
    with open('g.kthlist', 'w') as f:
        f.write("c test\n4\n1 : 2 3 0\n2 : 3 0\n3 : 4 0\n4 : 0\n")
    with open('d.kthlist', 'w') as f:
        f.write("c test\n4\n1 : 0\n2 : 1 0\n3 : 1 2 0\n4 : 3 0\n")
    with open('b.matrix', 'w') as f:
        f.write("3 4\n1 1 0 0\n0 1 1 0\n0 0 1 1\n")
    with open('noext', 'w') as f:
        f.write("c test\n2\n1 : 2 0\n2 : 0\n")

    simple_specs = [
        'gnm 6 7', 'gnm 6 15', 'gnm 6 16', 'gnm 0 0', 'gnm 5 -1', 'gnm 5',
        'gnd 6 3', 'gnd 7 3', 'gnd 3 3', 'gnd 4 0', 'gnd a b',
        'gnp 6 0.5', 'gnp 6 0.5 2', 'gnp 6 1.5', 'gnp 0 .5',
        'grid 3 2', 'grid 3 0', 'grid 2 2 2', 'torus 3 3', 'torus 3 -1', 'grid',
        'complete 5', 'complete 3 2', 'complete 0', 'complete 1 2 3', 'complete',
        'empty 4', 'empty 0', 'empty 1 2',
        'gnm 6 7 plantclique 3', 'gnm 6 7 plantclique 7', 'gnm 6 7 plantclique',
        'gnm 6 7 plantclique -1', 'gnm 6 7 plantclique 1 2',
        'gnm 6 7 addedges 3', 'gnm 6 7 addedges 8', 'gnm 6 7 addedges 9',
        'gnm 6 7 addedges -1', 'gnm 6 7 addedges',
        'gnm 6 7 splitedges 2', 'gnm 6 7 splitedges 7', 'gnm 6 7 splitedges 8',
        'gnm 6 7 splitedges -2',
        'gnm 6 7 plantclique 3 addedges 2 splitedges 2 save saved.kthlist',
        'gnm 6 7 save dimacs saved2.txt', 'gnm 6 7 save', 'gnm 6 7 save gml',
        'gnm 6 7 save saved.unknown', 'gnm 6 7 save matrix x.matrix',
        'gnm 6 7 addedges 1 addedges 2', 'gnm 6 7 gnm 3 3', 'gnm 6 7 simple',
        'gnm 6 7 plantbiclique 1 1', 'gnm 6 7 --foo', 'gnm 6 7 foo',
        'glrm 3 3 4', 'tree 3', 'matrix b.matrix', 'b.matrix',
        'g.kthlist', 'kthlist g.kthlist', 'kthlist', 'dimacs g.kthlist',
        'nonexistent.kthlist', 'noext', 'kthlist noext', 'g.kthlist addedges 2',
        'kthlist /nonexistent/dir/file', 'complete 4 save /nonexistent/dir/x.gml',
    ]
    for spec in simple_specs:
        run_cli(['kclique', '3'] + spec.split())
    for spec in simple_specs[:30]:
        run_cli(['tseitin', 'first'] + spec.split())
        run_cli(['kcolor', '3'] + spec.split())
    for name in ['saved.kthlist', 'saved2.txt', 'x.matrix']:
        if os.path.exists(name):
            with open(name) as f:
                record(name, f.read())
        else:
            record(name, None)

    bipartite_specs = [
        'glrm 3 4 0', 'glrm 3 4 5', 'glrm 3 4 12', 'glrm 3 4 13', 'glrm 0 4 1',
        'glrm 3 4', 'glrm 3 4 -1',
        'glrd 4 5 2', 'glrd 4 5 5', 'glrd 4 5 6', 'glrd 4 0 0', 'glrd 4 5 0',
        'regular 6 4 2', 'regular 6 4 3', 'regular 4 4 4', 'regular 4 4 5',
        'regular 4 4 0', 'regular 0 4 1', 'regular x y z',
        'glrp 3 4 0.5', 'glrp 3 4 0', 'glrp 3 4 1', 'glrp 3 4 2',
        'shift 4 5 0 1 2', 'shift 4 5', 'shift 4', 'shift 4 5 1 1', 'shift 4 5 6',
        'shift 4 5 5', 'shift 0 5 1',
        'complete 3 4', 'complete 3', 'complete 0 4', 'empty 3 4', 'empty 3',
        'glrm 3 4 5 plantbiclique 2 2', 'glrm 3 4 5 plantbiclique 4 2',
        'glrm 3 4 5 plantbiclique 3 4', 'glrm 3 4 5 plantbiclique 2',
        'glrm 3 4 5 plantbiclique -1 2', 'glrm 3 4 5 plantbiclique 0 0',
        'glrm 3 4 5 addedges 7', 'glrm 3 4 5 addedges 8', 'glrm 3 4 5 addedges 0',
        'glrm 3 4 5 splitedges 1', 'glrm 3 4 5 plantclique 2',
        'glrm 3 4 5 plantbiclique 2 2 addedges 2 save bsaved.matrix',
        'glrm 3 4 5 save kthlist bsaved.txt', 'glrm 3 4 5 save dimacs bsaved2.txt',
        'glrm 3 4 5 save',
        'gnm 5 5', 'tree 2', 'b.matrix', 'matrix b.matrix', 'kthlist b.matrix',
        'dimacs b.matrix', 'g.kthlist', 'nonexistent.matrix', 'noext',
    ]
    for spec in bipartite_specs:
        run_cli(['php'] + spec.split())
        run_cli(['subsetcard'] + spec.split())
    for spec in bipartite_specs[:20]:
        run_cli(['php', '5', '-T', 'xorcomp'] + spec.split())
    for name in ['bsaved.matrix', 'bsaved.txt', 'bsaved2.txt']:
        if os.path.exists(name):
            with open(name) as f:
                record(name, f.read())
        else:
            record(name, None)

    dag_specs = [
        'tree 0', 'tree 2', 'tree -1', 'tree', 'tree 1 2', 'tree x',
        'pyramid 0', 'pyramid 3', 'pyramid -1', 'pyramid', 'pyramid 1 1',
        'path 0', 'path 4', 'path -1', 'path', 'path 1.5',
        'pyramid 3 save dsaved.kthlist', 'path 3 save dimacs dsaved.txt',
        'path 3 save matrix dsaved.matrix', 'pyramid 2 addedges 1',
        'pyramid 2 plantclique 1', 'pyramid 2 save',
        'gnm 4 4', 'glrd 3 3 1', 'd.kthlist', 'kthlist d.kthlist', 'gml d.kthlist',
        'g.kthlist', 'nonexistent.kthlist', 'noext', 'matrix b.matrix',
    ]
    for spec in dag_specs:
        run_cli(['peb'] + spec.split())
        run_cli(['stone', '2'] + spec.split())
    for name in ['dsaved.kthlist', 'dsaved.txt', 'dsaved.matrix']:
        if os.path.exists(name):
            with open(name) as f:
                record(name, f.read())
        else:
            record(name, None)

    # Direct use of the action classes with argparse
    import random
    for cls, specs in [(ObtainSimpleGraph, simple_specs),
                       (ObtainBipartiteGraph, bipartite_specs),
                       (ObtainDirectedAcyclicGraph, dag_specs)]:
        record(cls.__name__, [c.__name__ for c in cls.__mro__],
               issubclass(cls, ObtainGraphAction))
        # nargs is refused
        for nargs in [1, '+', '*', '?', 0]:
            try:
                cls(['--g'], 'g', nargs=nargs)
                record('nargs accepted', nargs)
            except BaseException as e:
                record('nargs', nargs, type(e).__name__, str(e))
        act = cls([], 'THEGRAPH', help='some help', metavar='<g>')
        record(act.nargs, act.dest, act.help, act.metavar, act.option_strings,
               act.required, act.default, act.const, act.type, act.choices)
        for parsercls in [CLIParser, argparse.ArgumentParser]:
            for spec in specs:
                p = parsercls(prog='prog')
                p.add_argument('G', action=cls)
                p.add_argument('--other', action=cls, dest='H')
                random.seed(7)
                out = io.StringIO()
                err = io.StringIO()
                try:
                    with contextlib.redirect_stdout(out), contextlib.redirect_stderr(err):
                        ns = p.parse_args(spec.split())
                    record('OK', spec, graph_repr(ns.G), ns.H)
                except SystemExit as e:
                    record('EXIT', spec, e.code)
                except BaseException as e:
                    record('EXC', spec, type(e).__name__, str(e))
                record(out.getvalue(), err.getvalue())
            out = io.StringIO()
            p = parsercls(prog='prog', formatter_class=CLIHelpFormatter)
            p.add_argument('G', action=cls)
            p.add_argument('--other', action=cls, dest='H')
            p.print_help(out)
            p.print_usage(out)
            record(out.getvalue())
        # optional argument form
        p = CLIParser(prog='prog')
        p.add_argument('--other', action=cls, dest='H')
        for spec in specs[:12]:
            random.seed(11)
            try:
                ns = p.parse_args(['--other'] + spec.split())
                record('OK', spec, graph_repr(ns.H))
            except BaseException as e:
                record('EXC', spec, type(e).__name__, str(e))
finally:
    os.chdir(cwd)
    import shutil
    shutil.rmtree(tmpdir, ignore_errors=True)

print(H.hexdigest())
