#!/usr/bin/env python
"""Equivalence check for cnfgen.utils.opb.to_opb_file (OPB text rendering of CNF and OPB formulas)."""
import sys, os, io, hashlib, random, warnings, tempfile, contextlib
sys.path.insert(0, os.getcwd())
warnings.simplefilter("ignore")

from cnfgen.utils.opb import to_opb_file
from cnfgen.formula.basecnf import BaseCNF
from cnfgen.formula.baseopb import BaseOPB
from cnfgen.formula.cnf import CNF
from cnfgen.formula.opb import OPB
from cnfgen.clitools.pbgen import cli as pbcli
from cnfgen.clitools.cnfgen import cli as cnfcli

random.seed(20260101)   # nothing below may depend on an unseeded generator
H = hashlib.sha256()
def rec(*items):
    for it in items:
        H.update(repr(it).encode('utf-8'))
        H.update(b'\x00')

def attempt(tag, fn, *args, **kw):
    try:
        res = fn(*args, **kw)
        rec(tag, 'ok', res)
        return res
    except SystemExit as e:
        rec(tag, 'exit', e.code)
    except BaseException as e:
        rec(tag, 'exc', type(e).__name__, str(e))

class Sink:
    """File-like object that records every single write call."""
    def __init__(self):
        self.calls = []
    def write(self, text):
        self.calls.append(text)

def render_all(tag, F):
    for hdr in (True, False):
        for vn in (True, False):
            s = Sink()
            attempt((tag, hdr, vn, 'sink'), to_opb_file, F, s, export_header=hdr, export_varnames=vn)
            rec(s.calls)                      # partial output is recorded also on failure
            b = io.StringIO()
            attempt((tag, hdr, vn, 'sio'), to_opb_file, F, b, export_header=hdr, export_varnames=vn)
            rec(b.getvalue())
    out = io.StringIO()
    with contextlib.redirect_stdout(out):
        attempt((tag, 'stdout'), to_opb_file, F)
    rec(out.getvalue())
    if hasattr(F, 'to_opb'):
        attempt((tag, 'to_opb'), F.to_opb)

formulas = []

# hand made OPB formulas
F = OPB(); formulas.append(('opb-empty', F))
F = OPB(); F.update_variable_number(3); formulas.append(('opb-novars-constraints', F))
F = OPB(); F.add_constraint(['>=', 0]); F.add_constraint(['==', 3]); F.add_constraint(['<', 0])
formulas.append(('opb-emptyconstraints', F))
F = OPB()
F.add_constraint([(1, 3), (-2, 2), (1, 4), '>', 3]); F.add_constraint([(2, -3), '<', 1])
F.add_constraint([(1, 3), (2, 1), (-3, -2), '==', 3]); F.add_constraint([(10**25, 7), (-10**25, -8), '<=', -10**26])
F.add_constraint([(0, 1), (0, -2), '>=', 0]); F.add_clause([1, -2, 9]); F.add_clause([])
F.cardinality_eq([1, -5, 6], 2); F.cardinality_neq([1, 2, 3], 1); F.add_parity([4, -5, 6], 1)
F.header['weird'] = 'naïve ≥ text\nsecond line\n\nfourth'
F.header['empty'] = ''
formulas.append(('opb-mixed', F))
F = BaseOPB()
F.add_constraint([(1, 0), (2, -0), (-1, 0), '>=', 1], check=False)   # literal 0 slips through unchecked
F.add_constraint([(1.5, 2), (-2.5, -3), '<=', 0.25], check=False)
F.add_constraint([(True, True), (2, False), '==', True], check=False)
formulas.append(('baseopb-unchecked', F))
F = BaseOPB(); F._constraints.append([(1, 1), (1, 'a'), '>=', 1]); formulas.append(('baseopb-strlit', F))
F = BaseOPB(); F._constraints.append([(1, 1), (1, None), '>=', 1]); formulas.append(('baseopb-nonelit', F))
F = BaseOPB(); F._constraints.append([(1, 1), ('c', -2), (1, 3), '==', 1]); formulas.append(('baseopb-strcoeff', F))
F = BaseOPB(); F._constraints.append([(1, 1), (None, -2), (1, 3), '==', 1]); formulas.append(('baseopb-nonecoeff', F))
F = BaseOPB(); F._constraints.append([(1, 1), (1, -2), '<=', 1]); F._constraints.append([(1, 1), 'foo', 1])
formulas.append(('baseopb-rawops', F))

# OPB with named variables
F = OPB(description='mapping formula')
f = F.new_mapping(3, 2, label='p_{{{},{}}}'); x = F.new_variable('lonely\nvar'); b = F.new_block(2, 2, label='z({},{})')
F.force_complete_mapping(f); F.force_injective_mapping(f); F.force_functional_mapping(f)
F.add_constraint([(3, x), (-2, b(1, 2)), (5, -b(2, 1)), '<', 4])
formulas.append(('opb-named', F))

# CNF formulas (other branch of the writer)
F = CNF(); formulas.append(('cnf-empty', F))
F = CNF([[1, -2, 3], [], [-3], [2, 2, -2]], description='tiny cnf'); formulas.append(('cnf-small', F))
F = BaseCNF(); F.add_clauses_from([[1, 0, -2], [-0]], check=False); formulas.append(('cnf-zero', F))
F = CNF(); g = F.new_mapping(2, 3); F.force_complete_mapping(g); F.force_functional_mapping(g); F.cardinality_eq([1, 2, 3, 4], 2)
formulas.append(('cnf-named', F))

# random OPB / CNF formulas
rng = random.Random(8086)
for t in range(40):
    F = OPB(description='random %d' % t)
    for _ in range(rng.randint(0, 12)):
        k = rng.randint(0, 7)
        comb = [(rng.choice([-1, 1]) * rng.choice([0, 1, 1, 2, 3, 17, 10**12]), rng.choice([-1, 1]) * rng.randint(1, 15))
                for _ in range(k)]
        F.add_constraint(comb + [rng.choice(['<', '<=', '>', '>=', '==']), rng.randint(-20, 20)])
    formulas.append(('rnd-opb-%d' % t, F))
    G = CNF(description='random cnf %d' % t)
    for _ in range(rng.randint(0, 12)):
        G.add_clause([rng.choice([-1, 1]) * rng.randint(1, 15) for _ in range(rng.randint(0, 5))])
    formulas.append(('rnd-cnf-%d' % t, G))

# objects that are neither CNF nor OPB
class Other:
    header = {}
    def number_of_variables(self): return 2
    def __len__(self): return 1
    def __iter__(self): return iter([[1, 2]])
    def all_variable_labels(self): return ['a', 'b']
formulas.append(('other', Other()))

for tag, F in formulas:
    render_all(tag, F)

# real files
origdir = os.getcwd()
with tempfile.TemporaryDirectory() as tmpd:
    os.chdir(tmpd)        # relative names only, so that messages do not depend on the temp dir
    d = '.'
    for i, (tag, F) in enumerate(formulas[:12]):
        name = os.path.join(d, 'f%d.opb' % i)
        attempt((tag, 'file'), to_opb_file, F, name, export_header=True, export_varnames=True)
        rec(open(name, encoding='utf-8').read() if os.path.exists(name) else None)
        if hasattr(F, 'to_file'):
            name2 = os.path.join(d, 'g%d.opb' % i)
            attempt((tag, 'to_file'), F.to_file, name2)
            rec(open(name2, encoding='utf-8').read() if os.path.exists(name2) else None)
    attempt('nodir', to_opb_file, formulas[3][1], os.path.join(d, 'missing', 'x.opb'))
    out = os.path.join(d, 'cli.opb')
    attempt('pbgen-file', pbcli, ['pbgen', '-o', out, '--varnames', 'php', '3', '2'], mode='output')
    rec(open(out).read())
    attempt('cnfgen-file', cnfcli, ['cnfgen', '-o', out, '--varnames', 'php', '3', '2'], mode='output')
    rec(open(out).read())
    os.chdir(origdir)

# command line tools
cmds = [
    ['php', '5', '4'], ['php', '3', '3', '--functional', '--onto'], ['php', '0', '0'],
    ['-S', '7', 'subsetcard', 'glrd', '4', '5', '3'], ['-S', '3', 'subsetcard', '-e', 'glrp', '4', '5', '.5'],
    ['ec', 'complete', '5'], ['domset', '2', 'complete', '4'], ['count', '5', '2'], ['parity', '4'],
    ['vdw', '6', '3', '3'], ['rphp', '4', '3', '2'], ['tseitin', 'first', 'complete', '4'],
    ['op', '4'], ['bphp', '5', '4'], ['kclique', '3', 'complete', '4'], ['peb', 'pyramid', '2'],
    ['and', '2', '3'], ['or', '0', '0'], ['true'], ['false'], ['-S', '4', 'randkcnf', '3', '6', '9'],
    ['cliquecoloring', '4', '3', '2'], ['stone', '3', 'pyramid', '1'], ['php', '-1', '2'],
]
for cmd in cmds:
    for extra in (['-q'], ['--varnames'], []):
        attempt(('pbgen', extra, cmd), pbcli, ['pbgen'] + extra + cmd, mode='string')
        attempt(('cnfgen-opb', extra, cmd), cnfcli, ['cnfgen', '-of', 'opb'] + extra + cmd, mode='string')
        out = io.StringIO()
        with contextlib.redirect_stdout(out):
            attempt(('pbgen-out', extra, cmd), pbcli, ['pbgen'] + extra + cmd, mode='output')
            attempt(('cnfgen-out', extra, cmd), cnfcli, ['cnfgen', '-of', 'opb'] + extra + cmd, mode='output')
        rec(out.getvalue())

print(H.hexdigest())
