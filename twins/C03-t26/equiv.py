import hashlib, random, sys, os, subprocess
sys.path.insert(0, os.getcwd())
import networkx
from cnfgen.families.pitfall import PitfallFormula

out = []
def rec(*a):
    out.append(repr(a))

def attempt(tag, fn):
    try:
        rec(tag, fn())
    except Exception as e:
        rec(tag, 'EXC', type(e).__name__, str(e))

def dump(F):
    return (F.header.get('description'), F.number_of_variables(),
            list(F.all_variable_labels()), list(F.clauses()), F.to_dimacs())

params = []
for v, d in ((2, 1), (4, 2), (4, 3), (6, 3), (5, 2), (5, 4), (8, 3)):
    for ny in (1, 2, 3, 4, 5):
        for nz in (1, 2, 3):
            for k in (2, 4):
                params.append((v, d, ny, nz, k))
params += [(6, 3, 6, 4, 6), (10, 4, 3, 2, 2)]
for seed, pr in enumerate(params):
    random.seed(1000 + seed)
    attempt(('pit', pr), lambda: dump(PitfallFormula(*pr)))
    rec('rng-after', random.random())

bad = [(3, 3, 2, 2, 2), (3, 1, 2, 2, 2), (5, 3, 2, 2, 2), (4, 2, 2, 2, 3), (4, 2, 2, 2, 1),
       (0, 2, 2, 2, 2), (4, 0, 2, 2, 2), (4, 2, 0, 2, 2), (4, 2, 2, 0, 2), (4, 2, 2, 2, 0),
       (4, 2, 2, 2, -2), (4.0, 2, 2, 2, 2), (4, 2, '2', 2, 2), (4, 2, 2, None, 2), (4, 2, 2, 2, 2.0)]
for pr in bad:
    random.seed(5)
    attempt(('bad', pr), lambda: dump(PitfallFormula(*pr)))
    rec('rng-after', random.random())

for args in (['pitfall', '4', '2', '2', '2', '2'], ['pitfall', '6', '3', '3', '2', '4'],
             ['pitfall', '6', '3', '1', '1', '2'], ['pitfall', '4', '2', '2', '2', '3'],
             ['pitfall', '3', '3', '2', '2', '2']):
    for fmt in ([], ['-of', 'latex']):
        p = subprocess.run([sys.executable, '-W', 'ignore', '-c',
                            'import sys; from cnfgen.clitools.cnfgen import main; main()',
                            '-q', '--seed', '31'] + fmt + args, capture_output=True, text=True)
        rec('cli', args, fmt, p.returncode, p.stdout, p.stderr)

print(hashlib.sha256("\n".join(out).encode()).hexdigest())
