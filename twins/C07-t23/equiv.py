#!/usr/bin/env python
"""Equivalence script for refactoring t23 (property C07).

Exercises cnfgen.graphs.bipartite_random_regular (the `regular L R d`
bipartite construction of the command line) on many parameters and
seeds, including the rare paths where random sampling of an edge gives
up and an exhaustive search for a free pair is made (forced through
biased replacements of random.randint), and through graph
specifications and cnfgen / pbgen command lines.
Prints one SHA256 digest of everything observed.
"""
import os
import sys
import io
import random
import hashlib
import warnings

sys.path.insert(0, os.getcwd())
warnings.simplefilter('ignore')

from contextlib import redirect_stdout, redirect_stderr

import cnfgen.info
cnfgen.info.info['version'] = 'equiv'

import cnfgen
from cnfgen.graphs import bipartite_random_regular
from cnfgen.clitools.graph_args import make_graph_from_spec
from cnfgen.clitools.cnfgen import cli as cnfgen_cli
from cnfgen.clitools.pbgen import cli as pbgen_cli

H = hashlib.sha256()


def emit(*items):
    for x in items:
        H.update(repr(x).encode('utf-8'))
        H.update(b'\x00')


def observe(label, fn):
    out, err = io.StringIO(), io.StringIO()
    try:
        with redirect_stdout(out), redirect_stderr(err):
            res = fn()
        emit(label, 'ok', res, out.getvalue(), err.getvalue())
    except SystemExit as e:
        emit(label, 'exit', e.code, out.getvalue(), err.getvalue())
    except BaseException as e:
        emit(label, 'exc', type(e).__name__, str(e), out.getvalue(),
             err.getvalue())


def describe(G):
    return [type(G).__name__, G.name, G.left_order(), G.right_order(),
            G.number_of_edges(), list(G.edges()),
            [G.right_neighbors(u) for u in range(1, G.left_order() + 1)],
            [G.left_neighbors(v) for v in range(1, G.right_order() + 1)]]


# 1. plain calls with a seed argument, and with the global stream seeded
PARAMS = [(1, 1, 0), (1, 1, 1), (2, 2, 1), (2, 2, 2), (3, 3, 2), (3, 3, 3),
          (4, 4, 3), (4, 4, 4), (4, 2, 1), (4, 2, 2), (6, 3, 2), (6, 4, 2),
          (2, 4, 2), (3, 6, 4), (5, 5, 4), (6, 6, 5), (5, 5, 1), (8, 4, 3),
          (0, 3, 0), (0, 1, 5), (7, 7, 0), (9, 3, 1), (3, 9, 3), (10, 10, 3)]
SEEDS = list(range(12)) + [-1, 2 ** 70, 'text', 0.25]
for l, r, d in PARAMS:
    for seed in SEEDS:
        def seeded():
            random.seed('noise')
            G = bipartite_random_regular(l, r, d, seed=seed)
            return describe(G), random.random()
        observe(('seed arg', l, r, d, seed), seeded)
        if seed in (0, 5, 'text'):
            observe(('seed arg again', l, r, d, seed), seeded)

        def global_stream():
            random.seed(seed)
            G = bipartite_random_regular(l, r, d)
            G2 = bipartite_random_regular(l, r, d, None)
            return describe(G), describe(G2), random.random()
        observe(('global', l, r, d, seed), global_stream)

# 2. wrong parameters
BAD = [(-1, 2, 1), (2, -1, 1), (2, 2, -1), (3, 2, 1), (2, 3, 2), (5, 4, 2),
       (2, 0, 1), (0, 0, 0), (2, 2, 3), (1, 1, 2), (2, 1, 2), ('2', 2, 1),
       (2, 2, 1.0), (2.0, 2, 1), (None, 1, 1)]
for l, r, d in BAD:
    def bad():
        random.seed(1)
        try:
            return describe(bipartite_random_regular(l, r, d))
        finally:
            emit(random.random())
    observe(('bad', l, r, d), bad)
    observe(('bad seeded', l, r, d),
            lambda: describe(bipartite_random_regular(l, r, d, seed=2)))


# 3. biased sampling: random.randint is replaced so that the sampling
#    of an edge often gives up and the exhaustive search is used
def biased_randint(kind, bias_seed, real):
    coin = random.Random(bias_seed)

    def low(a, b):
        return a

    def high(a, b):
        return b

    def mostly_low(a, b):
        return a if coin.random() < 0.93 else real(a, b)

    def mostly_high(a, b):
        return b if coin.random() < 0.93 else real(a, b)

    def ends(a, b):
        x = coin.random()
        if x < 0.45:
            return a
        if x < 0.9:
            return b
        return real(a, b)

    def first_calls_low(a, b):
        first_calls_low.calls += 1
        return a if first_calls_low.calls < 40 else real(a, b)
    first_calls_low.calls = 0

    return {'low': low, 'high': high, 'mostly_low': mostly_low,
            'mostly_high': mostly_high, 'ends': ends,
            'first_calls_low': first_calls_low}[kind]


BIASED = [(2, 2, 1), (2, 2, 2), (3, 3, 2), (3, 3, 3), (4, 4, 2), (4, 4, 3),
          (4, 2, 1), (4, 2, 2), (6, 3, 2), (6, 4, 2), (3, 6, 2), (3, 6, 4),
          (5, 5, 2), (5, 5, 3), (6, 6, 2), (8, 4, 2)]
for kind in ('low', 'high'):
    # these never terminate when a restart is needed: bound the recursion
    for l, r, d in BIASED:
        def forced():
            real = random.randint
            limit = sys.getrecursionlimit()
            random.randint = biased_randint(kind, 0, real)
            sys.setrecursionlimit(120)
            try:
                random.seed(3)
                G = bipartite_random_regular(l, r, d)
                return describe(G), random.random()
            finally:
                random.randint = real
                sys.setrecursionlimit(limit)

        def forced_outcome():
            try:
                return forced()
            except RecursionError:
                return 'RecursionError'
        observe(('forced', kind, l, r, d), forced_outcome)

for kind in ('mostly_low', 'mostly_high', 'ends', 'first_calls_low'):
    for l, r, d in BIASED:
        for seed in range(6):
            def biased():
                real = random.randint
                random.randint = biased_randint(kind, seed + 100, real)
                try:
                    G = bipartite_random_regular(l, r, d, seed=seed)
                    return describe(G), random.random()
                finally:
                    random.randint = real
            observe(('biased', kind, l, r, d, seed), biased)

# 4. graph specifications and command lines
SPECS = ['regular 4 4 3', 'regular 6 3 2', 'regular 5 5 4',
         'regular 4 4 2 plantbiclique 2 2', 'regular 6 4 2 addedges 3',
         'regular 3 3 3', 'regular 4 3 2', 'regular 4 4 5', 'regular 4 4',
         'regular 3 3 1 plantbiclique 1 2 addedges 2']
for spec in SPECS:
    for seed in range(8):
        def fromspec():
            random.seed(seed)
            G = make_graph_from_spec('bipartite', spec)
            return describe(G), random.random()
        observe(('spec', spec, seed), fromspec)
        if seed < 2:
            observe(('spec again', spec, seed), fromspec)

CMDLINES = [
    ['php', 'regular', '6', '4', '2'],
    ['php', 'regular', '4', '4', '3', '--functional'],
    ['php', 'regular', '5', '5', '4', 'plantbiclique', '2', '2'],
    ['subsetcard', 'regular', '4', '4', '3'],
    ['subsetcard', 'regular', '6', '3', '2', 'addedges', '2'],
    ['cliquecoloring', '5', '3', '2'],
    ['php', 'regular', '6', '4', '2', '-T', 'shuffle'],
    ['php', 'regular', '5', '4', '2'],
    ['php', 'regular', '4', '4'],
]
for cmd in CMDLINES:
    for seed in ('0', '1', '2', '31337'):
        for prog, cli in (('cnfgen', cnfgen_cli), ('pbgen', pbgen_cli)):
            for rep in range(2):
                observe((prog, cmd, seed, rep),
                        lambda: cli([prog, '--seed', seed] + cmd,
                                    mode='output'))

print(H.hexdigest())
