"""Equivalence script for refactoring t20 (edge enumeration in the random samplers:
bipartite_random_m_edges, bipartite_random_regular, add_random_missing_edges)."""
import hashlib
import os
import sys
import random

sys.path.insert(0, os.getcwd())
os.environ["COLUMNS"] = "80"

from cnfgen.graphs import Graph, BipartiteGraph, CompleteBipartiteGraph
from cnfgen.graphs import bipartite_random_m_edges, bipartite_random_regular
from cnfgen.graphs import bipartite_random_left_regular, bipartite_random
from cnfgen.graphs import add_random_missing_edges
from cnfgen.clitools.graph_args import parse_graph_argument, obtain_graph

H = hashlib.sha256()


def record(*items):
    for x in items:
        H.update(repr(x).encode('utf-8'))
        H.update(b'\x00')


def describe(G):
    if G is None:
        return None
    extra = ()
    if G.is_bipartite():
        L, R = G.parts()
        extra = (len(L), len(R),
                 [len(G.right_neighbors(u)) for u in L],
                 [len(G.left_neighbors(v)) for v in R])
    return (type(G).__name__, G.name, G.number_of_vertices(),
            G.number_of_edges(), list(G.edges()), extra)


def attempt(label, f, *args, **kwargs):
    # graphs have no stable repr: describe them (as they are before the call)
    shown = [describe(a) if hasattr(a, 'edges') else a for a in args]
    try:
        res = f(*args, **kwargs)
        record(label, shown, sorted(kwargs.items()), 'OK',
               describe(res) if hasattr(res, 'edges') else res)
        out = res
    except BaseException as e:
        record(label, shown, sorted(kwargs.items()), 'EXC', type(e).__name__, str(e))
        out = None
    # the state of the random stream is observable too
    record(random.random())
    return out


# ---- bipartite_random_m_edges: every m inside and just outside 0..L*R
for L in range(0, 6):
    for R in range(0, 6):
        for m in range(-1, L * R + 2):
            for seed in (0, 1):
                G = attempt('glrm', bipartite_random_m_edges, L, R, m, seed=seed)
                if G is not None:
                    record(G.number_of_edges() == m)
random.seed(1234)
for _ in range(60):
    L = random.randint(1, 9)
    R = random.randint(1, 9)
    m = random.randint(0, L * R)
    attempt('glrm noseed', bipartite_random_m_edges, L, R, m)
for bad in [(2.5, 2, 1), (2, 2, 1.5), ('2', 2, 1), (2, None, 1)]:
    attempt('glrm bad', bipartite_random_m_edges, *bad, seed=3)

# ---- bipartite_random_regular: dense cases force the exhaustive search
for l in range(0, 7):
    for r in range(0, 7):
        for d in range(-1, r + 2):
            if d > r and l > 0 and r > 0:
                # no such graph exists and the sampler retries forever: the
                # command line refuses these (see the specs at the end)
                continue
            for seed in (0, 1, 2):
                G = attempt('regular', bipartite_random_regular, l, r, d, seed=seed)
                if G is not None:
                    Lp, Rp = G.parts()
                    record(all(len(G.right_neighbors(u)) == d for u in Lp),
                           len(set(len(G.left_neighbors(v)) for v in Rp)) <= 1)
random.seed(4321)
for _ in range(40):
    r = random.randint(1, 8)
    d = random.randint(0, r)
    l = r * random.randint(1, 3) if random.random() < .5 else random.randint(1, 8)
    attempt('regular noseed', bipartite_random_regular, l, r, d)
for l, r, d in [(8, 8, 8), (8, 8, 7), (9, 6, 6), (9, 6, 4), (10, 5, 5), (12, 8, 6)]:
    for seed in range(6):
        attempt('regular dense', bipartite_random_regular, l, r, d, seed=seed)

# With honest random numbers the sampler practically never runs out of retries
# while a free pair of stubs still exists.  A biased source of "random" numbers
# (mostly the lower end of the interval, so that the same pair of stubs is drawn
# over and over) reaches that branch, deterministically.
true_randint = random.randint
for bias in (0.9, 0.75, 0.5):
    for l, r, d in [(2, 2, 2), (3, 3, 2), (3, 3, 3), (4, 4, 2), (4, 4, 3), (6, 3, 2),
                    (3, 6, 2), (6, 4, 2), (5, 5, 4), (4, 6, 3), (1, 1, 1), (2, 1, 1)]:
        for seed in (0, 1):
            rng = random.Random(1000 * seed + l * 100 + r * 10 + d)

            def biased_randint(a, b, rng=rng, bias=bias):
                if rng.random() < bias:
                    return a
                return rng.randint(a, b)

            random.randint = biased_randint
            try:
                attempt('regular biased', bipartite_random_regular, l, r, d, seed=seed)
            finally:
                random.randint = true_randint

# ---- add_random_missing_edges
def simple_graph(n, p, seed):
    random.seed(seed)
    G = Graph(n, name='G({},{})'.format(n, p))
    for u in range(1, n):
        for v in range(u + 1, n + 1):
            if random.random() < p:
                G.add_edge(u, v)
    return G


def add_edges(G, m, seed=None):
    before = G.number_of_edges()
    old = set(G.edges())
    add_random_missing_edges(G, m, seed=seed)
    return (describe(G), G.number_of_edges() - before, old <= set(G.edges()))


for n in range(0, 8):
    for p in (0.0, 0.3, 0.8, 1.0):
        G0 = simple_graph(n, p, seed=n)
        missing = n * (n - 1) // 2 - G0.number_of_edges()
        for m in sorted(set([-1, 0, 1, 2, missing // 2, missing - 1, missing,
                             missing + 1, missing + 5])):
            for seed in (0, 1, 2):
                G = simple_graph(n, p, seed=n)
                attempt('addedges simple', add_edges, G, m, seed=seed)

for L in range(0, 5):
    for R in range(0, 5):
        for dens in (0.0, 0.4, 0.9):
            random.seed(L * 10 + R)
            edges = [(u, v) for u in range(1, L + 1) for v in range(1, R + 1)
                     if random.random() < dens]
            missing = L * R - len(edges)
            for m in sorted(set([-1, 0, 1, missing // 2, missing - 1, missing,
                                 missing + 1])):
                for seed in (0, 1, 2):
                    B = BipartiteGraph(L, R, name='B')
                    for e in edges:
                        B.add_edge(*e)
                    attempt('addedges bipartite', add_edges, B, m, seed=seed)
for seed in range(3):
    attempt('addedges complete bipartite', add_edges, CompleteBipartiteGraph(3, 3), 0, seed=seed)
    attempt('addedges complete bipartite', add_edges, CompleteBipartiteGraph(3, 3), 1, seed=seed)
# without seeding
random.seed(77)
for _ in range(30):
    n = random.randint(2, 9)
    G = Graph.complete_graph(n)
    removed = random.sample(list(G.edges()), random.randint(0, n * (n - 1) // 2))
    for u, v in removed:
        G.remove_edge(u, v)
    m = random.randint(0, len(removed))
    attempt('addedges noseed', add_edges, G, m)
for bad in [1.5, '2', None]:
    attempt('addedges bad', add_edges, Graph.complete_graph(3), bad, seed=1)
    attempt('addedges bad', add_edges, simple_graph(5, 0.5, 1), bad, seed=1)

# ---- through the command line graph specifications
specs = []
for L, R in [(1, 1), (2, 3), (3, 3), (4, 2)]:
    for m in range(-1, L * R + 2):
        specs.append(('bipartite', 'glrm {} {} {}'.format(L, R, m)))
for L, R, d in [(4, 4, 4), (4, 4, 3), (6, 4, 2), (6, 4, 3), (3, 3, 0), (3, 3, 4),
                (0, 3, 1), (6, 3, 3), (5, 5, 5)]:
    specs.append(('bipartite', 'regular {} {} {}'.format(L, R, d)))
for m in range(-1, 9):
    specs.append(('simple', 'gnm 5 3 addedges {}'.format(m)))
    specs.append(('simple', 'complete 4 addedges {}'.format(m)))
    specs.append(('simple', 'grid 2 3 plantclique 3 addedges {}'.format(m)))
    specs.append(('bipartite', 'glrm 3 3 3 addedges {}'.format(m)))
    specs.append(('bipartite', 'glrd 3 4 3 plantbiclique 2 2 addedges {}'.format(m)))
    specs.append(('bipartite', 'complete 2 2 addedges {}'.format(m)))
    specs.append(('bipartite', 'empty 2 4 addedges {}'.format(m)))
    specs.append(('dag', 'pyramid 2 addedges {}'.format(m)))
for gtype, spec in specs:
    for seed in (5, 6):
        random.seed(seed)
        attempt('spec', lambda t, s: obtain_graph(parse_graph_argument(t, s)),
                gtype, spec)

print(H.hexdigest())
