"""Equivalence harness for literal validation / variable counting in the
clause, linear, parity and pseudo-Boolean constraint builders."""
import hashlib
import itertools
import random
import sys
import os

sys.path.insert(0, os.getcwd())

from cnfgen.formula.basecnf import BaseCNF
from cnfgen.formula.linear import CNFLinear
from cnfgen.formula.cnf import CNF
from cnfgen.formula.baseopb import BaseOPB
from cnfgen.formula.opb import OPB
from cnfgen.graphs import BipartiteGraph

OUT = []


def rec(*items):
    OUT.append(repr(items))


def chain(e):
    res = []
    while e is not None:
        res.append((type(e).__name__, str(e)))
        e = e.__cause__
    return res


def attempt(tag, fn):
    try:
        res = fn()
        rec(tag, 'ok', res)
    except Exception as e:  # noqa
        rec(tag, 'exc', chain(e))


def state(F):
    try:
        return (F.number_of_variables(), [list(c) for c in F], str(F))
    except Exception as e:
        return ('state-exc', chain(e))


def gen(seq):
    return (x for x in seq)


GOOD = [[], [1], [-1], [3, -7], [1, 2, 3], [-2, 5, -9, 4], [12, -12], [6, 6, 6],
        [1, 2, 3, 4, 5, 6, 7]]
BAD = [[0], [1, 0], [0, 0, 0], ['a'], ['a', 'b'], [1, 'b'], [None], [1, None], [1.5], [2.0, -3.0],
       [True, False], [True, 2], [[1], [2]], [(1, 2)], [1, (2,)], [10**30, -10**31], [b'x']]
WRAP = [('list', list), ('tuple', tuple), ('gen', gen), ('iter', iter),
        ('set', lambda s: set(s) if all(type(x) is int for x in s) else list(s)), ('dictkeys', lambda s: dict.fromkeys(
            [x if not isinstance(x, list) else tuple(x) for x in s]))]
NONSEQ = [None, 5, 2.5, 'ab', '', b'ab', object]

CNFCLS = [BaseCNF, CNFLinear, CNF]
OPBCLS = [BaseOPB, OPB]
OPS = ['<=', '>=', '<', '>', '==', '!=', '=', 'x', None]


def fresh(cls, base):
    F = cls()
    F.update_variable_number(base)
    return F


for cls in CNFCLS + OPBCLS:
    for base in (0, 4):
        for kind, pool in (('good', GOOD), ('bad', BAD)):
            for lits in pool:
                for wname, w in WRAP:
                    def mk():
                        try:
                            return w(lits)
                        except Exception:
                            return list(lits)
                    for check in (True, False):
                        # clauses
                        F = fresh(cls, base)
                        attempt((cls.__name__, base, kind, lits, wname, check, 'add_clause'),
                                lambda: F.add_clause(mk(), check=check))
                        rec(state(F))
                        F = fresh(cls, base)
                        attempt((cls.__name__, base, kind, lits, wname, check, 'add_clauses_from'),
                                lambda: F.add_clauses_from([[1, -2], mk(), [3]], check=check))
                        rec(state(F))
                        if cls is BaseCNF:
                            continue
                        # parity
                        for const in (0, 1):
                            F = fresh(cls, base)
                            attempt((cls.__name__, base, kind, lits, wname, check, 'parity', const),
                                    lambda: F.add_parity(mk(), const, check=check))
                            rec(state(F))
                        # cardinalities
                        for name in ('cardinality_geq', 'cardinality_leq', 'cardinality_eq', 'cardinality_neq'):
                            for k in (-1, 0, 1, 2, len(lits), len(lits) + 1):
                                F = fresh(cls, base)
                                attempt((cls.__name__, base, kind, lits, wname, check, name, k),
                                        lambda: getattr(F, name)(mk(), k, check=check))
                                rec(state(F))
                        for name in ('add_loose_majority', 'add_loose_minority',
                                     'add_strict_majority', 'add_strict_minority'):
                            F = fresh(cls, base)
                            attempt((cls.__name__, base, kind, lits, wname, check, name),
                                    lambda: getattr(F, name)(mk(), check=check))
                            rec(state(F))
                        if cls in CNFCLS and wname in ('list', 'gen', 'tuple'):
                            for op in OPS:
                                for k in (-1, 0, 1, 2, 3, len(lits) + 2):
                                    F = fresh(cls, base)
                                    attempt((cls.__name__, base, kind, lits, wname, check, 'add_linear', op, k),
                                            lambda: F.add_linear(mk(), op, k, check=check))
                                    rec(state(F))
    # non sequences
    for j, ns in enumerate(NONSEQ):
        for check in (True, False):
            F = cls()
            attempt((cls.__name__, 'nonseq', j, check, 'add_clause'), lambda: F.add_clause(ns, check=check))
            rec(state(F))
            if cls is BaseCNF:
                continue
            F = cls()
            attempt((cls.__name__, 'nonseq', j, check, 'parity'), lambda: F.add_parity(ns, 1, check=check))
            rec(state(F))
            F = cls()
            attempt((cls.__name__, 'nonseq', j, check, 'geq'), lambda: F.cardinality_geq(ns, 1, check=check))
            rec(state(F))
            F = cls()
            attempt((cls.__name__, 'nonseq', j, check, 'neq'), lambda: F.cardinality_neq(ns, 1, check=check))
            rec(state(F))
            F = cls()
            attempt((cls.__name__, 'nonseq', j, check, 'majority'), lambda: F.add_strict_majority(ns, check=check))
            rec(state(F))
    # ranges
    for r in (range(0), range(1, 4), range(0, 3), range(-3, 0), range(-2, 3), range(5, 30, 7)):
        for check in (True, False):
            F = cls()
            attempt((cls.__name__, 'range', repr(r), check, 'clause'), lambda: F.add_clause(r, check=check))
            rec(state(F))
            if cls is BaseCNF:
                continue
            F = cls()
            attempt((cls.__name__, 'range', repr(r), check, 'parity'), lambda: F.add_parity(r, 0, check=check))
            rec(state(F))
            for k in (0, 1, 2, 5):
                for name in ('cardinality_geq', 'cardinality_leq', 'cardinality_eq', 'cardinality_neq'):
                    F = cls()
                    attempt((cls.__name__, 'range', repr(r), check, name, k),
                            lambda: getattr(F, name)(r, k, check=check))
                    rec(state(F))
    # constructor with initial data
    for data in ([], [[1, 2], [-3]], [[1, 0]], [['a']], [[]], [[1, 2], []], 5, None, [5]):
        attempt((cls.__name__, 'init', repr(data)), lambda: state(cls(data)))

# OPB constraints: validation of coefficients / operators
CONS = [
    [], ['>=', 1], [(1, 1), '>=', 1], [(1, 0), '>=', 1], [(-1, 2), '>=', 1], [(0, 2), '>=', 0],
    [(1, 2), (3, -4), '<=', 2], [(1, 2), (3, -4), '<', 2], [(1, 2), (3, -4), '>', 2], [(1, 2), (3, -4), '==', 2],
    [(1, 2), (3, -4), '!=', 2], [(1, 2), (3, -4), '=', 2], [(1, 2), (3, -4), None, 2],
    [(1, 'a'), '>=', 1], [('a', 1), '>=', 1], [(1, None), '>=', 1], [(None, 1), '>=', 1],
    [(1, 2.5), '>=', 1], [(1.5, 2), '>=', 1], [(1, 2, 3), '>=', 1], [(1,), '>=', 1], [7, '>=', 1],
    [(1, 2), '>=', 'v'], [(1, 2), '>=', None], [(1, 40), (2, -50), '>=', 1], [[1, 2], [3, 4], '==', 3],
    [(1, [2]), '>=', 1], [(-1, 0), '<=', 1],
]
for cls in OPBCLS:
    for c in CONS:
        for check in (True, False):
            for base in (0, 45):
                F = fresh(cls, base)
                attempt((cls.__name__, 'cons', repr(c), check, base), lambda: F.add_constraint(list(c), check=check))
                rec(state(F))
                F = fresh(cls, base)
                attempt((cls.__name__, 'consfrom', repr(c), check, base),
                        lambda: F.add_constraints_from([[(1, 1), '>=', 1], list(c), [(2, 3), '<', 1]], check=check))
                rec(state(F))
        attempt((cls.__name__, 'init-cons', repr(c)), lambda: state(cls([list(c)])))

# random incremental sessions
for cls in (CNF, OPB):
    for seed in range(12):
        rnd = random.Random(1000 + seed)
        F = cls()
        for step in range(25):
            n = rnd.randint(0, 5)
            lits = [rnd.choice([-1, 1]) * rnd.randint(1, 12) for _ in range(n)]
            if rnd.random() < 0.1 and lits:
                lits[rnd.randrange(len(lits))] = rnd.choice([0, 'q', None, 1.5])
            action = rnd.choice(['clause', 'parity', 'geq', 'leq', 'eq', 'neq', 'maj', 'min', 'smaj', 'smin'])
            check = rnd.random() < 0.8
            k = rnd.randint(-1, 6)
            w = rnd.choice([list, tuple, gen])
            fn = {
                'clause': lambda: F.add_clause(w(lits), check=check),
                'parity': lambda: F.add_parity(w(lits), k % 2, check=check),
                'geq': lambda: F.cardinality_geq(w(lits), k, check=check),
                'leq': lambda: F.cardinality_leq(w(lits), k, check=check),
                'eq': lambda: F.cardinality_eq(w(lits), k, check=check),
                'neq': lambda: F.cardinality_neq(w(lits), k, check=check),
                'maj': lambda: F.add_loose_majority(w(lits), check=check),
                'min': lambda: F.add_loose_minority(w(lits), check=check),
                'smaj': lambda: F.add_strict_majority(w(lits), check=check),
                'smin': lambda: F.add_strict_minority(w(lits), check=check),
            }[action]
            attempt((cls.__name__, seed, step, action, lits, k, check, w.__name__), fn)
            rec(F.number_of_variables(), len(F))
        rec(state(F))
        try:
            rec(F.to_dimacs() if cls is CNF else F.to_opb())
        except Exception as e:
            rec('out-exc', chain(e))

# mappings, CNF and OPB, after some plain variables
for cls in (CNF, OPB):
    for n, m in [(0, 0), (1, 1), (2, 3), (3, 2), (3, 5)]:
        F = cls()
        F.add_clause([2, -3])
        x = F.new_variable('x')
        f = F.new_mapping(n, m)
        g = F.new_binary_mapping(n, m)
        B = BipartiteGraph(n, m)
        for i in range(1, n + 1):
            for j in range(1, m + 1):
                if (i + j) % 2 == 0:
                    B.add_edge(i, j)
        h = F.new_sparse_mapping(B)
        for mp in (f, g, h):
            for name in ('force_complete_mapping', 'force_functional_mapping', 'force_surjective_mapping',
                         'force_injective_mapping', 'force_nondecreasing_mapping'):
                attempt((cls.__name__, n, m, type(mp).__name__, name), lambda: getattr(F, name)(mp))
        rec(state(F), list(F.all_variable_labels()))
        other = cls()
        attempt('foreign', lambda: other.force_complete_mapping(f))
        attempt('notmapping', lambda: F.force_injective_mapping(x))
        F.add_parity([1, F.number_of_variables() + 2], 1)
        rec(F.number_of_variables())

# command line tools
import io
import contextlib
from cnfgen.clitools.cnfgen import cli as cnfgen_cli
from cnfgen.clitools.pbgen import cli as pbgen_cli
for tool, argv in [(cnfgen_cli, ['cnfgen', '-q', 'php', '4', '3']),
                   (cnfgen_cli, ['cnfgen', '-q', 'subsetcard', 'complete', '3', '4']),
                   (cnfgen_cli, ['cnfgen', '-q', '--seed', '8', 'tseitin', 'random', 'gnd', '6', '3']),
                   (cnfgen_cli, ['cnfgen', '-q', 'count', '5', '2']),
                   (cnfgen_cli, ['cnfgen', '-q', 'bphp', '5', '4']),
                   (pbgen_cli, ['pbgen', '-q', 'php', '4', '3']),
                   (pbgen_cli, ['pbgen', '-q', 'subsetcard', 'complete', '3', '4']),
                   (pbgen_cli, ['pbgen', '-q', 'count', '5', '2'])]:
    buf = io.StringIO()
    err = io.StringIO()
    try:
        with contextlib.redirect_stdout(buf), contextlib.redirect_stderr(err):
            tool(argv)
        rec('cli', argv, buf.getvalue())
    except SystemExit as e:
        rec('cli-exit', argv, e.code, buf.getvalue(), err.getvalue()[-300:])
    except Exception as e:
        rec('cli-exc', argv, chain(e))

h = hashlib.sha256()
for line in OUT:
    h.update(line.encode('utf-8'))
    h.update(b'\n')
print(h.hexdigest())
if os.environ.get('EQUIV_DEBUG'):
    print(len(OUT))
    import collections
    print(collections.Counter(('exc' if "'exc'" in l[:400] else 'ok') for l in OUT))
    for l in OUT:
        if l.startswith("('cli") or l.startswith("('foreign") or l.startswith("('notmapping"):
            print(l[:200])
