"""Equivalence script for t22: error messages with suggestions produced by
parse_graph_argument / make_graph_from_spec (cnfgen.clitools.graph_args)
and the helpers of cnfgen.clitools.msg.  Prints one SHA256 digest."""
import sys, os, io, hashlib, tempfile, shutil, warnings, contextlib, random
warnings.simplefilter('ignore')
sys.path.insert(0, os.getcwd())

from cnfgen.clitools.cnfgen import cli as cnfgen_cli
from cnfgen.clitools.pbgen import cli as pbgen_cli
from cnfgen.clitools import graph_args, msg
from cnfgen.clitools.graph_args import parse_graph_argument, make_graph_from_spec, obtain_graph

H = hashlib.sha256()
NOBS = 0


def obs(*items):
    global NOBS
    NOBS += 1
    H.update(repr(items).encode('utf-8'))
    H.update(b'\n')


tmp = tempfile.mkdtemp(prefix='c15t22_')


def clean(text):
    return str(text).replace(tmp, '<TMP>')


def chain(e):
    res = []
    while e is not None:
        res.append((type(e).__name__, clean(e)))
        e = e.__cause__
    return res


def graphdata(g):
    return (type(g).__name__, g.name, g.number_of_vertices(), g.number_of_edges(),
            list(g.edges()))


heads = ['gnp 5 .5', 'gnm 5 4', 'gnd 6 3', 'grid 2 3', 'torus 3 3', 'complete 3', 'empty 2',
         'path 3', 'tree 2', 'pyramid 2', 'glrp 3 3 .5', 'glrm 3 3 4', 'glrd 3 3 2',
         'regular 4 4 2', 'shift 3 3 0 1', 'complete 2 3', 'empty 2 3',
         'kthlist', 'gml', 'dot', 'dimacs', 'matrix', 'kthlist f.kthlist', 'gml f.gml',
         'dot f.dot', 'dimacs f.dimacs', 'matrix f.matrix', 'nofile', 'nofile.gml', 'nofile.kthlist',
         'nofile.matrix', 'nofile.xyz', 'gmn 5 4', 'Gnm 5 4', 'simple', 'dag', 'bipartite',
         'digraph', '-', '--', '-x', '5', '5 4', '', 'save', 'addedges 3', 'plantclique 2']
tails = ['', 'addedges 1', 'addedges', 'addedges 1 2', 'plantclique 2', 'plantbiclique 1 1',
         'splitedges 1', 'save', 'save out.gml', 'save gml', 'save gml out', 'save matrix out',
         'save kthlist out.gml addedges 1', 'addedges 1 addedges 2', 'save a.gml save b.gml',
         'foo', 'foo 3', '-v', '--seed 4', 'gnm 3 2', 'simple', 'dag', 'bipartite', 'digraph',
         'addedges 1 foo', 'addedges 1 -q', 'plantclique 2 gml', 'kthlist', 'tree 3', 'glrd 2 2 1']
graphtypes = ['simple', 'bipartite', 'dag', 'digraph']

os.chdir(tmp)  # relative file names (missing files, files to be saved) live here
try:
    # 1. parsing only: all combinations
    for gt in graphtypes:
        for h in heads:
            for t in tails:
                spec = (h + ' ' + t).strip()
                for arg in (spec, spec.split()):
                    try:
                        obs('PARSE', gt, arg, sorted(parse_graph_argument(gt, arg).items(),
                                                     key=lambda kv: kv[0]))
                    except Exception as e:
                        obs('PARSEEXC', gt, arg, chain(e))
    for gt in ['foo', None]:
        try:
            obs('PARSE', gt, parse_graph_argument(gt, 'gnm 3 2'))
        except Exception as e:
            obs('PARSEEXC', gt, type(e).__name__, str(e))

    # 2. full construction: heads with a few tails
    seed = 0
    for gt in graphtypes:
        for h in heads:
            for t in ['', 'addedges 1', 'foo', 'save', 'save out.{}'.format(gt[:1]),
                      'save kthlist out.k', 'save dimacs out.d', 'plantclique 2 splitedges 1',
                      'plantbiclique 1 2']:
                spec = (h + ' ' + t).strip()
                seed += 1
                random.seed(seed)
                try:
                    g = make_graph_from_spec(gt, spec)
                    obs('GRAPH', gt, spec, graphdata(g), random.random())
                except Exception as e:
                    obs('GRAPHEXC', gt, spec, chain(e), random.random())
                for fn in sorted(os.listdir('.')):
                    with open(fn) as f:
                        obs('FILE', fn, f.read())
                    os.unlink(fn)

    # 3. missing files / unreadable files through obtain_graph and make_graph_from_spec
    os.mkdir('adir.gml')
    with open('ok.gml', 'w') as f:
        f.write('graph [\n node [ id 1 ]\n node [ id 2 ]\n edge [ source 1 target 2 ]\n]\n')
    with open('ok.kthlist', 'w') as f:
        f.write('3\n1 : 0\n2 : 1 0\n3 : 1 2 0\n')
    with open('bad.kthlist', 'w') as f:
        f.write('2\n1 : 7 0\n')
    for gt in graphtypes:
        for spec in ['adir.gml', 'gml adir.gml', 'ok.gml', 'gml ok.gml', 'ok.kthlist',
                     'kthlist ok.kthlist', 'bad.kthlist', 'ok.gml addedges 0', 'ok.gml foo',
                     'missing/dir/file.gml', 'gml missing.gml', 'ok.gml save nodir/x.gml',
                     'ok.kthlist save kthlist nodir/x', 'None', 'none.gml save x.gml']:
            random.seed(11)
            try:
                g = make_graph_from_spec(gt, spec)
                obs('FGRAPH', gt, spec, graphdata(g))
            except Exception as e:
                obs('FGRAPHEXC', gt, spec, chain(e))
            try:
                g = obtain_graph(parse_graph_argument(gt, spec))
                obs('OGRAPH', gt, spec, graphdata(g))
            except Exception as e:
                obs('OGRAPHEXC', gt, spec, chain(e))
    for fn in sorted(os.listdir('.')):
        if os.path.isfile(fn):
            with open(fn) as f:
                obs('FILE', fn, f.read())

    # 4. through the real command lines
    def run(tool, argv):
        out, err = io.StringIO(), io.StringIO()
        try:
            with contextlib.redirect_stdout(out), contextlib.redirect_stderr(err):
                res = tool(argv, mode='string')
            obs('OK', argv, clean(res), clean(out.getvalue()), clean(err.getvalue()))
        except SystemExit as e:
            obs('EXIT', argv, e.code, clean(out.getvalue()), clean(err.getvalue()))
        except BaseException as e:
            obs('EXC', argv, chain(e), clean(out.getvalue()), clean(err.getvalue()))

    for spec in ['nofile.gml', 'nofile', 'gnm 4 3 foo', 'ok.gml foo', 'gmn 4 3', 'glrm 3 3 2',
                 'matrix f.matrix', 'gnm 4 3', 'ok.gml', 'kthlist nofile', 'gnm 4 3 -v']:
        run(cnfgen_cli, ['cnfgen', '-q', '--seed', '1', 'kcolor', '3'] + spec.split())
        run(cnfgen_cli, ['cnfgen', '-q', '--seed', '1', 'php'] + spec.split())
        run(cnfgen_cli, ['cnfgen', '-q', '--seed', '1', 'peb'] + spec.split())
        run(pbgen_cli, ['pbgen', '-q', '--seed', '1', 'vertexcover'] + spec.split())

    # 5. pre-existing helpers of the msg module
    for name in ['msg_prefix', 'interactive_msg', 'error_msg', 'InternalBug']:
        obs('MSGAPI', name, hasattr(msg, name))
    obs('PREFIX', msg._prefix)  # msg_prefix is not exception safe: state leaks
    msg._prefix = ''
    err = io.StringIO()
    with contextlib.redirect_stderr(err):
        with msg.msg_prefix('c '):
            msg.error_msg("one\n  two\nthree")
            with msg.msg_prefix('INPUT: '):
                msg.error_msg("a rather long message " * 6, filltext=50)
        msg.error_msg(ValueError('boom'))
    obs('MSG', err.getvalue(), str(msg.InternalBug('x')))
finally:
    os.chdir('/')
    shutil.rmtree(tmp, ignore_errors=True)

obs('COUNT', NOBS)
print(H.hexdigest())
