"""Equivalence script for the refactoring of cnfgen.clitools.graph_build.multipartite_tnp"""
import hashlib
import io
import os
import random
import sys
from contextlib import redirect_stderr

sys.path.insert(0, os.getcwd())

from cnfgen.clitools.graph_build import multipartite_tnp, obtain_gnp
from cnfgen.clitools.cnfgen import cli as cnfgencli
from cnfgen.clitools.pbgen import cli as pbgencli

H = hashlib.sha256()


def emit(*items):
    for x in items:
        H.update(repr(x).encode('utf8'))
        H.update(b'\n')


def dump(G):
    return (type(G).__name__, G.number_of_vertices(), G.number_of_edges(),
            list(G.edges()), G.name)


def observe(tag, fn):
    try:
        res = fn()
    except SystemExit as e:
        emit(tag, 'EXIT', e.code)
    except Exception as e:
        emit(tag, 'EXC', type(e).__name__, str(e))
    else:
        if hasattr(res, 'number_of_edges'):
            res = dump(res)
        emit(tag, 'VAL', res)
    emit(tag, 'RND', random.random())


# direct calls
for seed in [0, 1, -4, 2718]:
    for t in [0, 1, 2, 3, 5]:
        for n in [0, 1, 2, 4, 7]:
            for p in [0, 0.0, 0.25, 0.5, 0.99, 1, 1.0, 1.5, -0.5]:
                for sb in [False, True]:
                    random.seed(seed)
                    observe(('tnp', seed, t, n, p, sb),
                            lambda: multipartite_tnp(t, n, p, shuffleblocks=sb))
for args in [(-1, 3, 0.5), (3, -1, 0.5), (2, 3, None), (2, 3, '0.5'), (2.0, 3, 0.5), (2, 3.0, 0.5)]:
    for sb in [False, True]:
        random.seed(5)
        observe(('tnp-bad', args, sb), lambda: multipartite_tnp(*args, shuffleblocks=sb))

# two graphs from the same stream
random.seed(12)
observe('stream1', lambda: multipartite_tnp(3, 3, 0.5))
observe('stream2', lambda: multipartite_tnp(3, 3, 0.5, shuffleblocks=True))
observe('stream3', lambda: multipartite_tnp(2, 5, 0.3))

# through the graph argument parser helper
for seed in [0, 6]:
    for a in [['5', '0.5'], ['5', '0.5', '1'], ['5', '0.5', '2'], ['3', '1', '4'], ['3', '0', '4'],
              ['3', '0.7', '0'], ['0', '0.7', '2'], ['3', '1.7', '2'], ['3', '0.5', '2', '1'], ['3'],
              ['x', '0.5', '2'], ['3', '0.5', '2.5'], [4, 0.5, 3]]:
        random.seed(seed)
        observe(('obtain_gnp', seed, tuple(a)), lambda: obtain_gnp({'args': a}))


# command line
def runcli(cli, argv):
    err = io.StringIO()
    with redirect_stderr(err):
        res = cli(argv, mode='string')
    return (res, err.getvalue())

for seed in [0, 1, 1000]:
    for cmd in [['kclique', 3, 'gnp', 3, 0.5, 3],
                ['kclique', 2, 'gnp', 4, 0.8, 2],
                ['kcolor', 3, 'gnp', 2, 0.6, 4],
                ['kcolor', 3, 'gnp', 2, 0.6, 4, 'plantclique', 3],
                ['kcolor', 3, 'gnp', 2, 0.6, 4, 'addedges', 2, 'splitedges', 1],
                ['tseitin', 'random', 'gnp', 3, 1, 3],
                ['domset', 2, 'gnp', 3, 0.4, 2],
                ['kclique', 3, 'gnp', 3, 0.5, 0],
                ['kclique', 3, 'gnp', 3, 2, 3],
                ['kclique', 3, 'gnp', 6, 0.5]]:
        observe(('cnfgen', seed, tuple(cmd)),
                lambda: runcli(cnfgencli, ['cnfgen', '--seed', seed] + cmd))
    for cmd in [['kclique', 3, 'gnp', 3, 0.5, 3], ['tseitin', 'random', 'gnp', 2, 1, 3]]:
        observe(('pbgen', seed, tuple(cmd)),
                lambda: runcli(pbgencli, ['pbgen', '--seed', seed] + cmd))

print(H.hexdigest())
