#!/usr/bin/env python
"""Equivalence digest for compose_two_parsers (cnfgen/clitools/cmdline.py) and the
sub-commands built on it: tseitin, subsetcard, op, -T xorcomp, -T majcomp."""
import os, sys, hashlib, random, argparse
sys.path.insert(0, os.getcwd())

from cnfgen.clitools.cmdline import compose_two_parsers, CLIParser, CLIError, positive_int
from cnfgen.clitools.cnfgen import cli as cnfgen_cli

out = []
def rec(*a):
    out.append(repr(a))

def nsdescr(ns):
    return sorted((k, repr(v)) for k, v in vars(ns).items())

# ---- direct use of compose_two_parsers
def build(test=None, use_default=True):
    p1 = CLIParser()
    p1.add_argument('N', type=positive_int)
    p1.add_argument('d', nargs='?', type=positive_int, default=4)
    p2 = CLIParser()
    p2.add_argument('word', choices=['alpha', 'beta'])
    p2.add_argument('rest', nargs='*')
    if use_default:
        action = compose_two_parsers(p1, p2)
    else:
        action = compose_two_parsers(p1, p2, test)
    main = CLIParser(prog='prog sub')
    main.usage = 'usage: prog sub N [d] | prog sub <word> ...'
    main.description = 'A description.'
    main.add_argument('--flag', action='store_true')
    main.add_argument('args', action=action, nargs='*', help=argparse.SUPPRESS)
    return main, p1, p2

calls = []
def first_is_alpha(values):
    calls.append(tuple(values))
    return values[0] != 'alpha'
def always_true(values):
    return True
def always_false(values):
    return 0
def raising(values):
    raise ValueError('test function says no: %r' % (values,))

argvs = [
    [], ['--flag'], ['5'], ['5', '3'], ['5', '3', '1'], ['0'], ['-3'], ['5', '0'], ['5', 'x'],
    ['x'], ['alpha'], ['alpha', 'a', 'b'], ['beta', '7'], ['gamma'], ['1e3'], ['.5'], ['nan'],
    ['inf', '2'], ['0x10'], ['--flag', '7', '2'], ['7', '--flag'], ['alpha', '--flag'],
    ['--nope'], ['5', '--nope'], ['-5'], ['+5'], [' 5'], ['5 '], ['1_0'], ['٣'], ['alpha', '5'],
    ['', '5'], ['5', ''],
]
variants = [('default', None, True), ('none', None, False), ('alpha', first_is_alpha, False),
            ('true', always_true, False), ('false', always_false, False),
            ('raising', raising, False), ('notcallable', 0, False)]
for vname, test, use_default in variants:
    main, p1, p2 = build(test, use_default)
    # the same parser/action objects are reused for all command lines (state kept in closures)
    for rounds in range(2):
        for argv in argvs:
            lab = ('direct', vname, rounds, tuple(argv))
            try:
                ns = main.parse_args(argv)
                rec(lab, 'OK', nsdescr(ns))
            except SystemExit as e:
                rec(lab, 'EXIT', e.code)
            except BaseException as e:
                rec(lab, 'EXC', type(e).__name__, str(e))
            rec(lab, 'state', p1.prog, p2.prog, p1.usage, p2.usage, p1.description, p2.description)
    # change the outer parser's attributes and parse again
    main.prog = 'other'
    main.usage = None
    main.description = 'New description'
    for argv in [['5'], ['alpha'], ['x'], [], ['5', 'y']]:
        lab = ('direct2', vname, tuple(argv))
        try:
            ns = main.parse_args(argv)
            rec(lab, 'OK', nsdescr(ns))
        except SystemExit as e:
            rec(lab, 'EXIT', e.code)
        except BaseException as e:
            rec(lab, 'EXC', type(e).__name__, str(e))
        rec(lab, 'state', p1.prog, p2.prog, p1.usage, p2.usage, p1.description, p2.description)
        rec(lab, 'help', p1.format_help(), p2.format_help()) if main.usage is not None else None
rec('calls', calls)

# two independent composed actions must not share state
mA, a1, a2 = build(first_is_alpha, False)
mB, b1, b2 = build()
for argv in [['alpha'], ['5'], ['beta'], ['alpha']]:
    for nm, m in (('A', mA), ('B', mB), ('A', mA)):
        try:
            rec('indep', nm, tuple(argv), nsdescr(m.parse_args(argv)))
        except BaseException as e:
            rec('indep', nm, tuple(argv), type(e).__name__, str(e))

# ---- command lines
def cli(argv, seed=1):
    lab = ('cli', tuple(argv))
    random.seed(seed)
    try:
        F = cnfgen_cli(['cnfgen'] + argv, mode='formula')
        rec(lab, 'OK', F.number_of_variables(), list(F.all_variable_labels()),
            [tuple(c) for c in F.clauses()],
            sorted((str(k), str(v)) for k, v in dict(F.header).items()))
    except SystemExit as e:
        rec(lab, 'EXIT', e.code)
    except BaseException as e:
        rec(lab, 'EXC', type(e).__name__, str(e))

cmds = [
    ['tseitin'], ['tseitin', '6'], ['tseitin', '6', '3'], ['tseitin', '5', '3'], ['tseitin', '4', '4'],
    ['tseitin', '6', '3', '1'], ['tseitin', '0'], ['tseitin', '-2'], ['tseitin', 'x'],
    ['tseitin', 'first'], ['tseitin', 'first', 'gnd', '6', '3'], ['tseitin', 'random', 'gnp', '5', '.6'],
    ['tseitin', 'randomodd', 'complete', '4'], ['tseitin', 'randomeven', 'grid', '2', '3'],
    ['tseitin', 'zero', 'torus', '3'], ['tseitin', 'one', 'complete', '4'], ['tseitin', 'two', 'complete', '4'],
    ['tseitin', 'first', 'gnd', '5', '3'], ['tseitin', 'first', 'empty', '0'],
    ['-S', '12', 'tseitin', '8', '3'], ['-q', 'tseitin', '1e1'], ['tseitin', '.5'],
    ['subsetcard'], ['subsetcard', '5'], ['subsetcard', '6', '3'], ['subsetcard', '--equal', '5'],
    ['subsetcard', '-e', 'glrd', '5', '5', '3'], ['subsetcard', 'complete', '3', '3'],
    ['subsetcard', 'gnp', '5', '.5'], ['subsetcard', '5', '9'], ['subsetcard', '5', '2', '2'],
    ['subsetcard', '0'], ['subsetcard', 'nofile.matrix'],
    ['op'], ['op', '5'], ['op', '6', '3'], ['op', '5', '3'], ['op', '--total', '4'], ['op', '-s', '4'],
    ['op', '--plant', '4'], ['op', '--knuth2', '4'], ['op', '--knuth3', '4'], ['op', '-t', '-s', '4'],
    ['op', 'complete', '4'], ['op', '-p', 'gnd', '6', '3'], ['op', 'x.gml'], ['op', '0'], ['op', '-1'],
    ['op', '4', 'x'], ['op', '4', '2', '1'], ['op', '--total', 'grid', '2', '2'],
    ['and', '2', '2', '-T', 'xorcomp'], ['and', '2', '2', '-T', 'xorcomp', '3'],
    ['and', '3', '2', '-T', 'xorcomp', '4', '2'], ['and', '3', '2', '-T', 'xorcomp', '2', '3'],
    ['and', '3', '2', '-T', 'xorcomp', 'glrd', '5', '4', '2'],
    ['and', '3', '2', '-T', 'xorcomp', 'complete', '5', '2'],
    ['and', '3', '2', '-T', 'xorcomp', 'complete', '4', '2'],
    ['and', '3', '2', '-T', 'majcomp'], ['and', '3', '2', '-T', 'majcomp', '4'],
    ['and', '3', '2', '-T', 'majcomp', '4', '3'], ['and', '3', '2', '-T', 'majcomp', 'shift', '5', '4', '0', '1', '2'],
    ['and', '3', '2', '-T', 'majcomp', 'x'], ['and', '3', '2', '-T', 'majcomp', '0'],
    ['op', '4', '-T', 'xorcomp', '8', '2', '-T', 'majcomp', '9', '3', '-T', 'flip'],
    ['tseitin', '6', '3', '-T', 'xorcomp', '5', '2'],
]
for seed in (1, 2):
    for c in cmds:
        cli(c, seed)

h = hashlib.sha256()
for line in out:
    h.update(line.encode('utf-8', 'backslashreplace'))
    h.update(b'\n')
if os.environ.get('EQUIV_DEBUG'):
    sys.stderr.write('\n'.join(out) + '\n')
print(h.hexdigest())
