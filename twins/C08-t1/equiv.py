#!/usr/bin/env python
"""Equivalence check for cnfgen.formula.baseopb.normalize_opb (and its callers)."""
import sys, os, hashlib, random, copy, warnings
sys.path.insert(0, os.getcwd())
warnings.simplefilter("ignore")

from fractions import Fraction
from cnfgen.formula.baseopb import normalize_opb, BaseOPB
from cnfgen.formula.opb import OPB
from cnfgen.clitools.pbgen import cli as pbcli
from cnfgen.clitools.cnfgen import cli as cnfcli

random.seed(20260101)   # nothing below may depend on an unseeded generator
H = hashlib.sha256()
def rec(*items):
    for it in items:
        H.update(repr(it).encode('utf-8'))
        H.update(b'\x00')

def attempt(tag, fn, *args, **kw):
    try:
        res = fn(*args, **kw)
        rec(tag, 'ok', res)
        return res
    except SystemExit as e:
        rec(tag, 'exit', e.code)
    except BaseException as e:
        rec(tag, 'exc', type(e).__name__, str(e))

OPS = ['<', '<=', '>', '>=', '==']

# 1. direct calls, hand-picked and boundary cases
fixed = [
    [(1, 3), (-2, 2), (1, 4), '>', 3],
    [(1, 3), (2, 1), (3, -2), '>=', 3],
    [(1, 3), (2, 1), (-3, -2), '==', 3],
    [(2, -3), '<', 1],
    ['>=', 0], ['<=', 0], ['<', 0], ['>', 0], ['==', 0],
    [(0, 1), '<=', 0], [(0, -1), '>=', 0], [(-1, 1), '==', -1],
    [(-5, 1), (-5, -1), '<', -7],
    [(10**30, 2), (-10**30, -2), '<=', 10**31],
    [(1.5, 2), (-2.5, 3), '<', 0.5],
    [(Fraction(-1, 2), 2), (Fraction(3, 2), -3), '<=', Fraction(1, 3)],
    [(True, 2), (False, 3), '>=', True],
    [(-1, 1), '!=', 2], [(-1, 1), 'foo', 2], [(-1, 1), None, 2],
    [[-1, 1], [2, -2], '<=', 2],
]
for op in OPS:
    for val in (-3, -1, 0, 1, 2, 7):
        fixed.append([(-2, 1), (3, -2), (0, 3), (-1, -4), op, val])
for c in fixed:
    before = copy.deepcopy(c)
    out = attempt(('fixed', before), normalize_opb, c)
    rec('input-after', c, c == before)
    if out is not None:
        rec('types', [type(x).__name__ for x in out], out is c)

# 2. malformed inputs
bad = [
    [], [1], ['>='], [3, '>='], [(1,), '>=', 1], [(1, 2, 3), '<=', 1], [5, '>=', 1],
    [('a', 1), '>=', 1], [(1, 'a'), '<=', 1], [(-1, 'a'), '>=', 1], [(None, 1), '<', 1],
    [(1, 1), '<', 'x'], [(1, 1), '>', None], [(1, 1), '<=', 'x'], [(-1, 1), '>=', 'x'],
    [(-1, None), '>=', 2], [(-1, None), '>=', 'x'], [(-1, 'a'), '<', None], None, 7, 'ab', '>=3',
    ((1, 2), '>=', 1), ((-1, 2), '>=', 1), ((1, 2), '<=', 1),
]
for c in bad:
    attempt(('bad', repr(c)), normalize_opb, c)

# 3. random constraints
rng = random.Random(20240808)
for trial in range(3000):
    k = rng.choice([0, 0, 1, 1, 2, 3, 4, 5, 8, 13])
    comb = []
    for _ in range(k):
        coeff = rng.choice([rng.randint(-6, 6), 0, rng.randint(-1000, 1000), -1, 1])
        lit = rng.choice([-1, 1]) * rng.randint(1, 9)
        comb.append((coeff, lit))
    c = comb + [rng.choice(OPS), rng.randint(-12, 12)]
    before = copy.deepcopy(c)
    out = attempt(('rnd', trial), normalize_opb, c)
    rec(c == before)

# 4. through the formula classes
for cls in (BaseOPB, OPB):
    F = cls()
    rng = random.Random(77)
    for trial in range(300):
        k = rng.randint(0, 6)
        comb = [(rng.randint(-4, 4), rng.choice([-1, 1]) * rng.randint(1, 12)) for _ in range(k)]
        attempt(('add', cls.__name__, trial), F.add_constraint,
                comb + [rng.choice(OPS), rng.randint(-5, 9)], check=rng.random() < .8)
    lits = [1, -4, 2, -3, 6, 5]
    for n in range(0, 7):
        for v in range(-1, 8):
            for name in ('cardinality_geq', 'cardinality_leq', 'cardinality_eq', 'cardinality_neq'):
                attempt((name, n, v), getattr(F, name), lits[:n], v)
        for name in ('add_loose_majority', 'add_loose_minority', 'add_strict_majority', 'add_strict_minority'):
            attempt((name, n), getattr(F, name), lits[:n])
            attempt((name, n, 'gen'), getattr(F, name), (x for x in lits[:n]))
    rec(cls.__name__, F.number_of_variables(), len(F), list(F), F.debug(True, True))
    attempt('ctor', lambda: list(cls(constraints=[[(-1, 2), '<', 0], [(2, -3), (-1, 1), '>', -1]])))
    attempt('ctor-bad', lambda: list(cls(constraints=[[(-1, 0), '<', 0]])))
    attempt('ctor-bad2', lambda: list(cls(constraints=[[(1, 1), '!=', 0]])))
    if cls is OPB:
        rec(F.to_opb())
        rec(F.to_latex())

# 5. command line tools (pbgen, and cnfgen for the same families)
cmds = [
    ['php', '5', '4'], ['php', '3', '3', '--functional', '--onto'], ['php', '0', '0'],
    ['-S', '11', 'php', '6', '4', '3'],
    ['-S', '7', 'subsetcard', 'glrd', '4', '5', '3'], ['-S', '3', 'subsetcard', '-e', 'glrp', '4', '5', '.5'],
    ['ec', 'complete', '5'], ['ec', 'grid', '2', '3'], ['domset', '2', 'complete', '4'],
    ['-S', '5', 'domset', '-a', '2', 'gnp', '6', '.5'],
    ['count', '5', '2'], ['count', '6', '3'], ['parity', '4'], ['matching', 'complete', '4'],
    ['vdw', '6', '3', '3'], ['rphp', '4', '3', '2'], ['tseitin', 'first', 'complete', '4'],
    ['-S', '9', 'tseitin', 'random', 'gnd', '6', '3'], ['op', '4'], ['op', '3', '--total'],
    ['bphp', '5', '4'], ['kclique', '3', 'complete', '4'], ['ram', '3', '3', '5'],
    ['peb', 'pyramid', '2'], ['tiling', 'grid', '2', '2'], ['and', '2', '3'], ['or', '0', '0'],
    ['true'], ['false'], ['-S', '4', 'randkcnf', '3', '6', '9'],
    ['cliquecoloring', '4', '3', '2'], ['kcolor', '3', 'cycle', '5'], ['kcolor', '3', 'complete', '4'], ['ec', 'torus', '3', '3'],
    ['php', '-1', '2'], ['subsetcard', 'glrd', '4', '5', '9'], ['nosuchformula'],
]
for cmd in cmds:
    attempt(('pbgen', cmd), pbcli, ['pbgen', '-q'] + cmd, mode='string')
    attempt(('pbgen-v', cmd), pbcli, ['pbgen', '--varnames'] + cmd, mode='string')
    attempt(('cnfgen', cmd), cnfcli, ['cnfgen', '-q'] + cmd, mode='string')
    attempt(('cnfgen-opb', cmd), cnfcli, ['cnfgen', '-q', '-of', 'opb'] + cmd, mode='string')

print(H.hexdigest())
