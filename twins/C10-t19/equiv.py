#!/usr/bin/env python
"""Equivalence script for the refactoring of cnfgen.utils.parsedimacs.parse_dimacs

Run as:  cd <checkout> && /venv/bin/python equiv.py
Prints one SHA256 digest of everything observable.
"""
import sys
import os
import io
import random
import hashlib
import tempfile
import shutil

sys.path.insert(0, os.getcwd())

# the version string comes from `git describe`: pin it
from cnfgen.info import info
info['version'] = 'equiv'

from cnfgen import CNF, PigeonholePrinciple, RandomKCNF, XorSubstitution
from cnfgen.formula.opb import OPB
from cnfgen.utils.parsedimacs import parse_dimacs, from_dimacs_file
from cnfgen.clitools.cnfgen import cli as cnfgen_cli
from cnfgen.clitools.pbgen import cli as pbgen_cli
from cnfgen.clitools.cnfshuffle import cli as cnfshuffle_cli

H = hashlib.sha256()


def emit(*things):
    H.update((" ".join(repr(t) for t in things) + "\n").encode('utf-8'))


def chain(e):
    """Exception with its explicit/implicit chain"""
    out = []
    while e is not None:
        out.append((type(e).__name__, str(e)))
        e = e.__cause__ or e.__context__
    return out


random.seed(2024)
big = RandomKCNF(4, 60, 300)
texts = {
    'ok-simple': "p cnf 3 2\n1 -2 0\n2 3 -1 0\n",
    'ok-comments': "c hello\nc p cnf 9 9\n\n   \np cnf 3 2\nc mid\n1 -2 0\n\n2 3 -1 0\nc end\n",
    'ok-multiline-clause': "p cnf 4 2\n1 -2\n 3 0 4\n -1 0\n",
    'ok-many-per-line': "p cnf 4 3\n1 0 2 0 -3 -4 0\n",
    'ok-empty-clause': "p cnf 2 3\n0\n1 2 0\n0\n",
    'ok-zero-zero': "p cnf 0 0\n",
    'ok-zero-vars-emptyclauses': "p cnf 0 2\n0 0\n",
    'ok-unused-vars': "p cnf 10 1\n1 0\n",
    'ok-indent': "   p cnf 2 1   \n\t1 -2 0\t\n",
    'ok-tabs': "p\tcnf\t2\t1\n1\t-2\t0\n",
    'ok-notcnf-word': "p dnf 2 1\n1 -2 0\n",
    'ok-plus': "p cnf +2 +1\n+1 -2 0\n",
    'ok-crlf': "p cnf 2 1\r\n1 -2 0\r\n",
    'ok-php': PigeonholePrinciple(7, 5).to_dimacs(),
    'ok-big': big.to_dimacs(),
    'ok-xor': XorSubstitution(PigeonholePrinciple(4, 3), 3).to_dimacs(),
    'ok-percent-style': "p cnf 2 1\n1 2 0\nc %\nc 0\n",
    'bad-empty-file': "",
    'bad-only-comments': "c nothing\nc here\n\n",
    'bad-no-spec': "1 2 0\n",
    'bad-no-spec-after-comments': "c a\nc b\n-1 0\np cnf 1 1\n",
    'bad-two-specs': "p cnf 2 1\n1 0\np cnf 2 1\n",
    'bad-two-specs-immediately': "c x\np cnf 2 1\np cnf 3 3\n1 0\n",
    'bad-spec-short': "p cnf 3\n1 0\n",
    'bad-spec-long': "p cnf 3 2 1\n1 0\n",
    'bad-spec-only-p': "p\n",
    'bad-spec-glued': "pcnf 3 2\n1 0\n",
    'ok-spec-glued4': "pq cnf 3 1\n1 0\n",
    'bad-spec-nonint': "p cnf three 2\n1 0\n",
    'bad-spec-nonint-m': "p cnf 3 x\n1 0\n",
    'bad-spec-float': "p cnf 3.0 2\n1 0\n",
    'bad-spec-neg-n': "p cnf -3 2\n1 0\n",
    'bad-spec-neg-m': "p cnf 3 -2\n1 0\n",
    'bad-spec-neg-both': "c\nc\np cnf -1 -1\n",
    'bad-lit-too-big': "p cnf 3 1\n1 4 0\n",
    'bad-lit-too-small': "p cnf 3 1\n1 -4 0\n",
    'bad-lit-nonint': "p cnf 3 2\n1 2 0\n1 x 0\n",
    'bad-lit-float': "p cnf 3 1\n1 2.5 0\n",
    'bad-lit-line5': "c\nc\np cnf 3 3\n1 0\n2 0 3 0 7 0\n",
    'bad-lit-in-zero-vars': "p cnf 0 1\n1 0\n",
    'bad-incomplete': "p cnf 3 2\n1 2 0\n-1 3\n",
    'bad-incomplete-and-count': "p cnf 3 5\n1 2 0\n-1 3\n",
    'bad-too-few': "p cnf 3 3\n1 2 0\n-1 3 0\n",
    'bad-too-many': "p cnf 3 1\n1 2 0\n-1 3 0\n",
    'bad-zero-clauses-expected': "p cnf 3 0\n1 0\n",
    'bad-uppercase-comment': "C comment\np cnf 1 1\n1 0\n",
    'bad-percent': "p cnf 2 1\n1 2 0\n%\n0\n",
    'bad-spec-after-partial': "p cnf 3 2\n1 2\np cnf 3 2\n",
}

workdir = tempfile.mkdtemp()
origdir = os.getcwd()
os.chdir(workdir)
try:
    for name in sorted(texts):
        text = texts[name]
        # 1. the raw generator, consumed item by item
        items = []
        gen = parse_dimacs(io.StringIO(text))
        try:
            for item in gen:
                items.append(item)
        except Exception as e:
            emit(name, 'gen', 'EXC', chain(e), 'after', items)
        else:
            emit(name, 'gen', items)
        # generator is exhausted afterwards
        emit(name, 'gen-after', list(gen))

        # 2. lazy behaviour: nothing is parsed before the first next()
        gen = parse_dimacs(io.StringIO(text))
        try:
            first = next(gen)
            emit(name, 'first', first)
            gen.close()
        except StopIteration:
            emit(name, 'first', 'STOP')
        except Exception as e:
            emit(name, 'first', 'EXC', chain(e))

        # 3. through the formula classes: file object, named file, file name
        fname = name + '.cnf'
        with open(fname, 'w', encoding='utf-8') as f:
            f.write(text)
        for cls in (CNF, OPB):
            for how in ('stringio', 'fileobj', 'filename', 'from_file'):
                try:
                    if how == 'stringio':
                        F = from_dimacs_file(cls, io.StringIO(text))
                    elif how == 'fileobj':
                        with open(fname, 'r', encoding='utf-8') as f:
                            F = from_dimacs_file(cls, f)
                    elif how == 'filename':
                        F = from_dimacs_file(cls, fname)
                    else:
                        F = cls.from_file(io.StringIO(text))
                except Exception as e:
                    emit(name, cls.__name__, how, 'EXC', chain(e))
                    continue
                n = F.number_of_variables()
                emit(name, cls.__name__, how, n, len(F), list(F.header.items()))
                emit(name, cls.__name__, how, list(F))
                if cls is CNF:
                    ok = all(isinstance(l, int) and l != 0 and 1 <= abs(l) <= n
                             for c in F for l in c)
                    emit(name, 'c10', ok)
                    emit(name, 'dimacs', F.to_dimacs())
                    emit(name, 'labels', list(F.all_variable_labels()))

        # 4. stdin (fileorname=None) and the command line tools
        for tool, argv in (('lib', None),
                           ('cnfgen', ['cnfgen', '-q', 'dimacs']),
                           ('cnfgen-file', ['cnfgen', 'dimacs', fname]),
                           ('cnfgen-T', ['cnfgen', '-q', 'dimacs', fname, '-T', 'or', 2]),
                           ('pbgen', ['pbgen', '-q', 'dimacs', fname]),
                           ('cnfshuffle', ['cnfshuffle', '-q', '--seed', 5]),
                           ('cnfshuffle-i', ['cnfshuffle', '--seed', 5, '-i', fname, '-p'])):
            oldstdin = sys.stdin
            sys.stdin = io.StringIO(text)
            try:
                if tool == 'lib':
                    F = from_dimacs_file(CNF)
                    out = (list(F.header.items()), list(F))
                elif tool.startswith('cnfgen'):
                    out = cnfgen_cli(argv, mode='string')
                elif tool == 'pbgen':
                    out = pbgen_cli(argv, mode='string')
                else:
                    out = cnfshuffle_cli(argv, mode='string')
                emit(name, tool, out)
            except BaseException as e:
                emit(name, tool, 'EXC', chain(e))
            finally:
                sys.stdin = oldstdin

    # missing file
    try:
        from_dimacs_file(CNF, 'does-not-exist.cnf')
    except Exception as e:
        emit('missing', type(e).__name__, e.errno)

    # an object with no readlines
    try:
        list(parse_dimacs(object()))
    except Exception as e:
        emit('noreadlines', chain(e))

    # a plain object with readlines (lines without trailing newline)
    class Lines:
        name = 'LINES'

        def __init__(self, lines):
            self.lines = lines

        def readlines(self):
            return list(self.lines)

    emit('lines', list(parse_dimacs(Lines(['p cnf 2 2', '1 2 0', '-1 0']))))
    F = from_dimacs_file(CNF, Lines(['c x', 'p cnf 2 2', '1 2 0', '-1 0']))
    emit('lines', list(F.header.items()), list(F))
finally:
    os.chdir(origdir)
    shutil.rmtree(workdir)

print(H.hexdigest())
