#!/usr/bin/env python
"""Equivalence digest for cnfgen.clitools.cmdline.compose_two_parsers.

The xor / majority variable compression transformations (and a few formula
families) parse their arguments through the action built by
compose_two_parsers.  This script drives it both directly (custom tests,
number-like and non number-like first tokens, no tokens, repeated calls on
the same action class) and through the `cnfgen` command line (compression
given as N, N d, or a bipartite graph spec/file; wrong arguments), recording
outputs, exception types and messages.  Prints one SHA256 digest.
"""
import sys
import os
import io
import argparse
import hashlib
import random
import tempfile

sys.path.insert(0, os.getcwd())

from cnfgen.clitools import cnfgen as cli, CLIError, CLIParser
from cnfgen.clitools import compose_two_parsers, positive_int
from cnfgen.clitools.cmdline import compose_two_parsers as c2p_direct

H = hashlib.sha256()
tmpdir = tempfile.mkdtemp()
CWD = os.getcwd()


def emit(*items):
    for it in items:
        # the temporary directory has a random name: hide it
        text = repr(it).replace(tmpdir, '<TMP>').replace(CWD, '<CWD>')
        H.update(text.encode('utf-8'))
        H.update(b'\x00')


def attempt(tag, fn):
    try:
        res = fn()
        emit(tag, 'ok', res)
    except BaseException as e:
        emit(tag, 'exc', type(e).__name__, str(e))
        if os.environ.get('EQUIV_DEBUG'):
            print(tag, type(e).__name__, str(e)[:100].replace('\n', '|'), file=sys.stderr)


emit(compose_two_parsers is c2p_direct)

# ----------------------------------------------------------------- direct use


def make_setup(test=None, passtest=False):
    p1 = CLIParser()
    p1.add_argument('N', type=positive_int, action='store')
    p1.add_argument('d', nargs='?', type=positive_int, action='store', default=3)
    p2 = CLIParser()
    p2.add_argument('word')
    p2.add_argument('rest', nargs='*')
    if passtest:
        action = compose_two_parsers(p1, p2, test)
    else:
        action = compose_two_parsers(p1, p2)
    top = CLIParser(prog='top prog', usage='usage:\n top N [d] | word ...',
                    description='top level description')
    top.add_argument('--flag', action='store_true')
    top.add_argument('args', action=action, nargs='*', help=argparse.SUPPRESS)
    return top, p1, p2, action


def ns_dump(ns):
    return sorted(vars(ns).items())


TOKENS = [
    [], ['5'], ['5', '2'], ['5', '2', '7'], ['0'], ['-3'], ['3.5'], ['1e3'],
    ['nan'], ['inf'], ['  7  '], ['0x10'], ['1_0'], [''], [' '], ['abc'],
    ['abc', '1', '2'], ['5', 'abc'], ['abc', 'def', 'ghi'], ['--flag', '4'],
    ['4', '--flag'], ['--flag'], ['x', '--flag'], ['٣'], ['+2', '2'], ['.5'],
    ['1,2'], ['--', '-3'], ['--', 'w', '-3'],
]

for tokens in TOKENS:
    def run(tokens=tokens):
        top, p1, p2, action = make_setup()
        ns = top.parse_args(tokens)
        return (ns_dump(ns), p1.prog, p2.prog, p1.usage, p2.usage,
                p1.description, p2.description)
    attempt('direct:' + repr(tokens), run)

# the same action reused for several parses (the default test is chosen lazily)
top, p1, p2, action = make_setup()
for tokens in TOKENS:
    attempt('reuse:' + repr(tokens), lambda: ns_dump(top.parse_args(tokens)))
    emit(p1.prog, p2.prog, p1.usage, p2.usage, p1.description, p2.description)

# explicit None passed, and custom tests
CALLS = []


def always_first(values):
    CALLS.append(('first', list(values)))
    return True


def always_second(values):
    CALLS.append(('second', list(values)))
    return False


def long_goes_first(values):
    CALLS.append(('long', list(values)))
    return len(values) > 1


def broken(values):
    raise KeyError('broken test {}'.format(values))


def truthy(values):
    return values[0]        # non boolean answers


for name, tst in [('none', None), ('first', always_first), ('second', always_second),
                  ('long', long_goes_first), ('broken', broken), ('truthy', truthy)]:
    top, p1, p2, action = make_setup(tst, passtest=True)
    for tokens in [[], ['5'], ['abc'], ['5', '6'], ['abc', '6'], ['0', '1'], ['']]:
        attempt('custom:' + name + repr(tokens), lambda: ns_dump(top.parse_args(tokens)))
    emit(name, CALLS)

# calling the action by hand, outside argparse
top, p1, p2, action = make_setup()
act = action(option_strings=[], dest='args', nargs='*')
for values in [['7'], ['w'], [], [None], [7], [[1]], ('8', '9'), 'text', '12', [b'3'], [3.5]]:
    def byhand(values=values):
        ns = argparse.Namespace()
        r = act(top, ns, values)
        return r, ns_dump(ns)
    attempt('byhand:' + repr(values), byhand)

# a plain argparse parser as the outer parser (error -> SystemExit)
plain = argparse.ArgumentParser(prog='plain')
plain.add_argument('args', action=action, nargs='*')
for tokens in [['3'], ['w', 'x'], []]:
    def runplain(tokens=tokens):
        err = io.StringIO()
        old = sys.stderr
        sys.stderr = err
        try:
            try:
                ns = plain.parse_args(tokens)
                return ns_dump(ns), err.getvalue()
            except SystemExit as e:
                return 'exit', e.code, err.getvalue()
        finally:
            sys.stderr = old
    attempt('plain:' + repr(tokens), runplain)

# ------------------------------------------------------------ command line
kth = os.path.join(tmpdir, 'b.kthlist')
with open(kth, 'w') as f:
    f.write("c test graph\n6\n1 : 4 5 0\n2 : 5 6 0\n3 : 4 6 0\n")
mat = os.path.join(tmpdir, 'b.matrix')
with open(mat, 'w') as f:
    f.write("3 4\n1 1 0 0\n0 1 1 0\n0 0 1 1\n")
data = os.path.join(os.getcwd(), 'tests', 'data')

BASES = [
    ['cnfgen', '--seed', 11, 'php', 2, 1],
    ['cnfgen', '--seed', 12, '--varnames', 'randkcnf', 2, 3, 4],
    ['cnfgen', '-q', 'and', 2, 1],
]
TAILS = [
    ['-T', 'xorcomp', 4], ['-T', 'xorcomp', 5, 2], ['-T', 'majcomp', 4], ['-T', 'majcomp', 5, 2],
    ['-T', 'xorcomp'], ['-T', 'majcomp'], ['-T', 'xorcomp', 0], ['-T', 'majcomp', -1],
    ['-T', 'xorcomp', 3, 0], ['-T', 'xorcomp', 3, 9], ['-T', 'xorcomp', 2, 2, 2],
    ['-T', 'xorcomp', 2.5], ['-T', 'majcomp', '1e1'], ['-T', 'xorcomp', 'nan'],
    ['-T', 'xorcomp', 'glrd', 3, 4, 2], ['-T', 'majcomp', 'glrd', 3, 5, 3],
    ['-T', 'xorcomp', 'glrd', 2, 4, 2], ['-T', 'xorcomp', 'complete', 3, 2],
    ['-T', 'majcomp', 'complete', 2, 3], ['-T', 'xorcomp', 'regular', 3, 3, 2],
    ['-T', 'xorcomp', 'glrp', 3, 3, 0.5], ['-T', 'majcomp', 'glrm', 3, 3, 4],
    ['-T', 'xorcomp', 'spam', 3], ['-T', 'xorcomp', 'glrd'], ['-T', 'majcomp', 'glrd', 3],
    ['-T', 'xorcomp', kth], ['-T', 'majcomp', mat], ['-T', 'xorcomp', 'kthlist', kth],
    ['-T', 'majcomp', 'matrix', mat], ['-T', 'xorcomp', os.path.join(tmpdir, 'missing.kthlist')],
    ['-T', 'xorcomp', os.path.join(data, 'bipartite_good.kthlist')],
    ['-T', 'xorcomp', 3, '-T', 'majcomp', 4, 2], ['-T', 'xorcomp', 3, 2, '-T', 'flip'],
    ['-T', 'or', 2, '-T', 'xorcomp', 5, 2], ['-T', 'xorcomp', 'glrd', 3, 4, 2, '-T', 'lift', 2],
    ['-T', 'xorcomp', '-h'], ['-T', 'majcomp', '--help'],
]


def run_cli(argv):
    out = io.StringIO()
    err = io.StringIO()
    old = sys.stdout, sys.stderr
    sys.stdout, sys.stderr = out, err
    try:
        random.seed(4242)
        try:
            res = cli(argv, mode='string')
            return 'ok', res, out.getvalue(), err.getvalue()
        except SystemExit as e:
            return 'exit', e.code, out.getvalue(), err.getvalue()
    finally:
        sys.stdout, sys.stderr = old


for base in BASES:
    for tail in TAILS:
        argv = base + tail
        def go(argv=argv):
            r = run_cli(argv)
            # temp dir name is random: hide it
            return tuple(x.replace(tmpdir, '<TMP>').replace(os.getcwd(), '<CWD>')
                         if isinstance(x, str) else x for x in r)
        attempt('cli:' + ' '.join(map(str, argv)).replace(tmpdir, '<TMP>').replace(os.getcwd(), '<CWD>'), go)

# other users of the same helper
OTHERS = [
    ['cnfgen', 'subsetcard', 4], ['cnfgen', '--seed', 3, 'subsetcard', 5, 3],
    ['cnfgen', 'subsetcard'], ['cnfgen', 'subsetcard', 'complete', 3, 3],
    ['cnfgen', 'subsetcard', -2], ['cnfgen', 'subsetcard', kth],
    ['cnfgen', 'op', 3], ['cnfgen', '--seed', 3, 'op', 4, 3], ['cnfgen', 'op'],
    ['cnfgen', 'op', 'complete', 3], ['cnfgen', 'op', 3, 3], ['cnfgen', 'op', 'x'],
    ['cnfgen', 'tseitin', 4], ['cnfgen', '--seed', 3, 'tseitin', 6, 3], ['cnfgen', 'tseitin'],
    ['cnfgen', 'tseitin', 'first', 'complete', 3], ['cnfgen', 'tseitin', 'bogus', 'complete', 3],
]
for argv in OTHERS:
    def go(argv=argv):
        r = run_cli(argv)
        return tuple(x.replace(tmpdir, '<TMP>') if isinstance(x, str) else x for x in r)
    attempt('cli:' + ' '.join(map(str, argv)).replace(tmpdir, '<TMP>'), go)

for fn in (kth, mat):
    os.unlink(fn)
os.rmdir(tmpdir)

print(H.hexdigest())
