import hashlib, io, os, sys, random, contextlib, warnings
sys.path.insert(0, os.getcwd())
warnings.simplefilter("ignore")
H = hashlib.sha256()
def rec(*xs):
    for x in xs:
        H.update(repr(x).encode()); H.update(b"\n")
def attempt(label, f):
    try:
        r = f()
        rec(label, "ok", r)
    except SystemExit as e:
        rec(label, "exit", e.code)
    except BaseException as e:
        rec(label, "exc", type(e).__name__, str(e))

from cnfgen.formula.basecnf import BaseCNF
from cnfgen.formula.baseopb import BaseOPB
from cnfgen.formula.linear import CNFLinear
from cnfgen.formula.cnfio import CNFio
from cnfgen.formula.opbio import OPBio
from cnfgen.formula.cnf import CNF
from cnfgen.formula.opb import OPB

for cls in [BaseCNF, BaseOPB, CNFLinear, CNFio, OPBio, CNF, OPB]:
    F = cls()
    rec(cls.__name__, F.number_of_variables(), list(F.variables()), list(F.all_variable_labels()))
    for nv in [0, 1, 5, 3, 12, -1, 2.5, "7", None, True]:
        attempt(("upd", cls.__name__, nv), lambda: F.update_variable_number(nv))
        rec(F.number_of_variables(), F.variables(), list(F.variables()),
            list(F.all_variable_labels()), list(F.all_variable_labels('y_{}')),
            list(F.all_variable_labels(default_label_format='<{0}{0}>')))
    F.add_clause([1, -20, 3])
    rec(F.number_of_variables(), list(F.variables())[-3:], list(F.all_variable_labels())[-3:], str(F), len(F))
    F.add_clause([40, -41], check=False)
    rec(F.number_of_variables(), len(list(F.all_variable_labels())), str(F))
    attempt(("badfmt", cls.__name__), lambda: list(F.all_variable_labels('{}{}')))
    g = F.all_variable_labels()
    rec(type(g).__name__, next(g), next(g))
    # laziness: generator sees later updates
    g = F.all_variable_labels()
    next(g)
    F.update_variable_number(F.number_of_variables() + 2)
    rec(len(list(g)))

for cls in [CNF, OPB]:
    F = cls()
    a = F.new_variable('a')
    F.update_variable_number(3)
    b = F.new_block(2, 3, label='b_{{{},{}}}')
    m = F.new_mapping(2, 3)
    F.update_variable_number(F.number_of_variables() + 2)
    F.force_complete_mapping(m)
    F.force_injective_mapping(m)
    F.cardinality_leq(list(b()), 2)
    rec(cls.__name__, F.number_of_variables(), list(F.variables()), list(F.all_variable_labels()),
        list(F.all_variable_labels('z{}')), list(F))
    rec(F.to_opb(), F.to_latex())
    out = io.StringIO()
    F.to_file(out, fileformat='opb', export_header=False, export_varnames=True)
    rec(out.getvalue())

from cnfgen.clitools.cnfgen import cli as cnfcli
from cnfgen.clitools.pbgen import cli as pbcli
CMDS = [
    ["php", 4, 3], ["php", 3, 3, "--functional", "--onto"], ["php", 0, 0], ["php", 1, 0],
    ["bphp", 5, 4], ["rphp", 3, 4, 3], ["op", 4], ["op", 3, "--total"], ["ptn", 5],
    ["parity", 5], ["matching", "complete", 4], ["count", 5, 3], ["kcolor", 3, "gnp", 5, 0.6],
    ["domset", 2, "grid", 2, 3], ["tseitin", "first", "grid", 2, 3], ["tseitin", "random", "gnd", 6, 3],
    ["subsetcard", "glrd", 4, 4, 3], ["ec", "complete", 4], ["ec", "complete", 5], ["kclique", 3, "gnp", 5, 0.7],
    ["ram", 3, 3, 5], ["vdw", 5, 3, 3], ["cliquecoloring", 4, 3, 2], ["tiling", "grid", 2, 2],
    ["randkcnf", 3, 6, 9], ["randkxor", 3, 6, 4], ["peb", "pyramid", 2], ["stone", 3, "pyramid", 2],
    ["and", 2, 3], ["or", 0, 0], ["true"], ["false"], ["pitfall", 4, 2, 4, 1, 2],
    ["cpls", 2, 2, 2], ["iso", "gnd", 4, 2],
]
for cmd in CMDS:
    for tool, cli in (("cnfgen", cnfcli), ("pbgen", pbcli)):
        for pre in (["-q", "-of", "opb"], ["-q", "-of", "opb", "--varnames"], ["-q", "-of", "latex"]):
            argv = [tool, "--seed", 42] + pre + cmd
            def run():
                err = io.StringIO(); out = io.StringIO()
                with contextlib.redirect_stderr(err), contextlib.redirect_stdout(out):
                    try:
                        cli(argv, mode='output')
                    finally:
                        rec(out.getvalue(), err.getvalue())
                return None
            attempt(argv, run)
    for tool, cli, fc in (("cnfgen", cnfcli, None), ("pbgen", pbcli, None)):
        def form():
            with contextlib.redirect_stderr(io.StringIO()):
                F = cli([tool, "--seed", 7, "-q"] + (["-of", "opb"] if tool == "pbgen" else []) + cmd, mode='formula')
            return (F.number_of_variables(), list(F.variables()), list(F.all_variable_labels()), len(F))
        attempt((tool, cmd), form)
print(H.hexdigest())
