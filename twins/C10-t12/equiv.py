#!/usr/bin/env python
"""Equivalence script for refactoring of BinaryMappingVariables
(cnfgen/formula/variables.py: __init__ flips table, indices pattern handling).
Prints one SHA256 digest of everything observable."""
import sys, os, hashlib, random
sys.path.insert(0, os.getcwd())

from cnfgen.formula.cnf import CNF
from cnfgen.formula.opb import OPB
from cnfgen.formula.basecnf import BaseCNF
from cnfgen.formula.variables import BinaryMappingVariables, VariablesManager
import cnfgen

H = hashlib.sha256()
def emit(*xs):
    H.update((" ".join(repr(x) for x in xs) + "\n").encode('utf-8'))

def attempt(tag, fn):
    try:
        r = fn()
        emit(tag, 'OK', r)
    except Exception as e:
        emit(tag, 'EXC', type(e).__name__, str(e))

def dump_formula(tag, F):
    emit(tag, 'nvars', F.number_of_variables(), 'len', len(F))
    mx = 0
    for c in F:
        emit(tag, list(c) if not isinstance(c, list) else c)
    emit(tag, 'labels', list(F.all_variable_labels()))
    attempt(tag + ' debug', lambda: F.debug(allow_opposite=True, allow_repetition=True))

# 1. direct exercise of the group, with different offsets and sizes
for offset in [0, 1, 7, 100]:
    for n in [0, 1, 2, 3, 5, 11]:
        for m in [0, 1, 2, 3, 4, 5, 8, 9, 16, 17, 33]:
            tag = 'grp o{} n{} m{}'.format(offset, n, m)
            F = BaseCNF()
            F.update_variable_number(offset)
            g = BinaryMappingVariables(F, n, m, labelfmt='g[{},{}]')
            emit(tag, len(g), g.bits(), g.bitlength, g.id_offset, g.domain_size,
                 g.range_size, list(g.ids), type(g.flips).__name__, g.flips,
                 [type(f).__name__ for f in g.flips])
            emit(tag, 'domain', list(g.domain()), 'range', list(g.range()))
            attempt(tag + ' indices()', lambda: list(g.indices()))
            attempt(tag + ' indices(None,None)', lambda: list(g.indices(None, None)))
            attempt(tag + ' call()', lambda: list(g()))
            attempt(tag + ' label()', lambda: list(g.label()))
            attempt(tag + ' to_dict', lambda: sorted(g.to_dict().items()))
            for i in [None, -1, 0, 1, 2, n, n + 1]:
                for b in [None, -1, 0, 1, g.bitlength - 1, g.bitlength, g.bitlength + 1]:
                    attempt(tag + ' indices({},{})'.format(i, b),
                            lambda: list(g.indices(i, b)))
                    def call():
                        r = g(i, b)
                        return r if isinstance(r, int) else list(r)
                    attempt(tag + ' call({},{})'.format(i, b), call)
                    def lab():
                        r = g.label(i, b)
                        return r if isinstance(r, str) else list(r)
                    attempt(tag + ' label({},{})'.format(i, b), lab)
            # wrong arities and types of patterns
            attempt(tag + ' indices(1)', lambda: list(g.indices(1)))
            attempt(tag + ' indices(1,0,0)', lambda: list(g.indices(1, 0, 0)))
            attempt(tag + ' indices(None)', lambda: list(g.indices(None)))
            attempt(tag + ' call(1)', lambda: g(1))
            attempt(tag + ' indices(str)', lambda: list(g.indices('a', 0)))
            attempt(tag + ' indices(.,str)', lambda: list(g.indices(1, 'b')))
            attempt(tag + ' indices(float)', lambda: list(g.indices(1.0, 0.0)))
            attempt(tag + ' indices(list)', lambda: list(g.indices(*[1, 0])))
            for i in [0, 1, n, n + 1]:
                for j in [-1, 0, 1, m - 1, m, 2 ** g.bitlength - 1, 2 ** g.bitlength]:
                    attempt(tag + ' forbid({},{})'.format(i, j), lambda: g.forbid(i, j))
            for lit in [0, 1, -1, offset, offset + 1, -(offset + 1), offset + len(g),
                        offset + len(g) + 1, -(offset + len(g))]:
                attempt(tag + ' to_index({})'.format(lit), lambda: g.to_index(lit))

# constructor error paths
for (n, m) in [(-1, 3), (3, -1), (-2, -2), ('a', 3), (3, 'b'), (2.0, 4), (2, 4.0), (None, 1)]:
    def mk():
        F = BaseCNF()
        g = BinaryMappingVariables(F, n, m)
        return (len(g), g.bitlength, g.flips)
    attempt('ctor {!r} {!r}'.format(n, m), mk)
    def mk2():
        F = CNF()
        g = F.new_binary_mapping(n, m)
        return (len(g), F.number_of_variables())
    attempt('new_binary_mapping {!r} {!r}'.format(n, m), mk2)

# 2. interleaving of group creation and clause insertion, both formula classes
for cls in [CNF, OPB]:
    rnd = random.Random(20240611)
    for trial in range(12):
        F = cls()
        groups = []
        for step in range(8):
            kind = rnd.randrange(4)
            tag = '{} t{} s{}'.format(cls.__name__, trial, step)
            if kind == 0:
                n, m = rnd.randrange(0, 6), rnd.randrange(0, 20)
                def mk():
                    g = F.new_binary_mapping(n, m, label='f%d({},{})' % step)
                    groups.append(g)
                    return (list(g.ids), g.bitlength)
                attempt(tag + ' newbin {} {}'.format(n, m), mk)
            elif kind == 1:
                v = F.number_of_variables() + rnd.randrange(0, 4)
                if v > 0:
                    attempt(tag + ' addcl', lambda: F.add_clause([v, -max(1, v - 1)]))
            elif kind == 2 and groups:
                g = rnd.choice(groups)
                if g.domain_size > 0:
                    i = rnd.randrange(1, g.domain_size + 1)
                    j = rnd.randrange(0, max(1, g.range_size))
                    attempt(tag + ' forbid', lambda: F.add_clause(g.forbid(i, j)))
            else:
                attempt(tag + ' newvar', lambda: F.new_variable('z{}'.format(step)))
            emit(tag, 'nv', F.number_of_variables())
        for g in groups:
            for name in ['force_complete_mapping', 'force_functional_mapping',
                         'force_injective_mapping', 'force_surjective_mapping',
                         'force_nondecreasing_mapping']:
                attempt('{} t{} {}'.format(cls.__name__, trial, name),
                        lambda: getattr(F, name)(g))
        dump_formula('{} t{}'.format(cls.__name__, trial), F)

# 3. families which use binary mappings, at realistic sizes
for (p, h) in [(0, 0), (1, 1), (2, 1), (3, 2), (5, 4), (9, 8), (10, 7), (17, 16), (20, 33)]:
    def mk():
        F = cnfgen.BinaryPigeonholePrinciple(p, h)
        dump_formula('binphp {} {}'.format(p, h), F)
        return F.number_of_variables()
    attempt('binphp {} {}'.format(p, h), mk)

import networkx as nx
from cnfgen.graphs import Graph
for (n, k, seed) in [(4, 2, 1), (6, 3, 2), (9, 3, 3), (12, 4, 4)]:
    def mk():
        G = Graph.from_networkx(nx.gnp_random_graph(n, 0.5, seed=seed))
        F = cnfgen.BinaryCliqueFormula(G, k)
        dump_formula('bincliq {} {}'.format(n, k), F)
        return F.number_of_variables()
    attempt('bincliq {} {}'.format(n, k), mk)

for (a, b, c) in [(2, 2, 2), (2, 4, 2), (4, 4, 4), (4, 8, 2), (8, 4, 4)]:
    def mk():
        F = cnfgen.CPLSFormula(a, b, c)
        dump_formula('cpls {} {} {}'.format(a, b, c), F)
        return F.number_of_variables()
    attempt('cpls {} {} {}'.format(a, b, c), mk)

# 4. command line
from cnfgen.clitools.cnfgen import cli as cnfgen_cli
for argv in [['cnfgen', '-q', 'bphp', 6, 5],
             ['cnfgen', 'bphp', 9, 4, '-T', 'xor', 2],
             ['cnfgen', '-q', '-of', 'latex', 'bphp', 3, 2],
             ['cnfgen', '-q', '-of', 'opb', 'bphp', 5, 3],
             ['cnfgen', '-q', 'cpls', 4, 4, 4]]:
    attempt('cli ' + ' '.join(map(str, argv)), lambda: cnfgen_cli(argv, mode='string'))

print(H.hexdigest())
