#!/usr/bin/env python
"""Equivalence check for the 'xorcomp' / 'majcomp' command line helpers

Exercises XorCompressionCmd.transform_cnf and MajCompressionCmd.transform_cnf
(cnfgen/clihelpers/transformation_helpers.py), directly and through the
`cnfgen` command line, and prints a digest of everything observable.
"""
import sys
import io
import os
import random
import hashlib
import argparse
import warnings
import contextlib

warnings.simplefilter('ignore')
sys.path.insert(0, os.getcwd())

import cnfgen
from cnfgen import CNF, PigeonholePrinciple, OrderingPrinciple, RandomKCNF
from cnfgen.graphs import BipartiteGraph
from cnfgen.clitools.cnfgen import cli
from cnfgen.clihelpers.transformation_helpers import XorCompressionCmd
from cnfgen.clihelpers.transformation_helpers import MajCompressionCmd

OUT = []


def rec(*items):
    OUT.append(" | ".join(repr(x) for x in items))


def snapshot(F):
    return (F.number_of_variables(), F.number_of_clauses(),
            [list(c) for c in F], list(F.all_variable_labels()),
            sorted(F.header.items()))


def attempt(tag, fn):
    err = io.StringIO()
    out = io.StringIO()
    try:
        with contextlib.redirect_stderr(err), contextlib.redirect_stdout(out):
            res = fn()
        rec(tag, 'OK', res, out.getvalue(), err.getvalue())
    except SystemExit as e:
        rec(tag, 'EXIT', e.code, out.getvalue(), err.getvalue())
    except BaseException as e:
        rec(tag, 'EXC', type(e).__name__, str(e), out.getvalue(),
            err.getvalue())
    rec(tag, 'rnd', random.random())


def formulas():
    F = CNF([[1, -2], [2, 3, -1], [-3]], description='tiny')
    yield 'tiny', F
    yield 'empty', CNF()
    E = CNF(description='novars but one empty clause')
    E.add_clause([])
    yield 'emptyclause', E
    yield 'php', PigeonholePrinciple(4, 3)
    yield 'op', OrderingPrinciple(3)
    random.seed(77)
    yield 'rand', RandomKCNF(3, 6, 9)
    G = CNF([[1, 2], [-1, -2]])
    G.header['transformation 1'] = 'pre-existing entry'
    G.header['transformation 3'] = 'gap entry'
    yield 'withheader', G


def direct():
    for fname, F in formulas():
        V = F.number_of_variables()
        for Cmd in [XorCompressionCmd, MajCompressionCmd]:
            for N, d in [(1, 1), (3, 1), (4, 2), (5, 3), (3, 3), (2, 3),
                         (6, 4)]:
                before = snapshot(F)
                args = argparse.Namespace(N=N, d=d)

                def run():
                    random.seed((fname, Cmd.name, N, d).__repr__())
                    return snapshot(Cmd.transform_cnf(F, args))
                attempt(('direct', fname, Cmd.name, N, d), run)
                rec('untouched', before == snapshot(F))
                rec('args', sorted(vars(args).items()))
            # explicit bipartite graphs
            for R in [1, 2, 4]:
                B = BipartiteGraph(V, R)
                for u in range(1, V + 1):
                    B.add_edge(u, (u - 1) % R + 1)
                    if R > 1:
                        B.add_edge(u, u % R + 1)
                edges_before = sorted(B.edges())
                before = snapshot(F)
                args = argparse.Namespace(B=B)

                def run():
                    return snapshot(Cmd.transform_cnf(F, args))
                attempt(('graph', fname, Cmd.name, R), run)
                rec('untouched', before == snapshot(F),
                    edges_before == sorted(B.edges()), B.left_order(),
                    B.right_order())
            # wrong size of the graph
            B = BipartiteGraph(V + 1, 2)
            B.add_edge(1, 1)
            args = argparse.Namespace(B=B)
            attempt(('badgraph', fname, Cmd.name),
                    lambda: snapshot(Cmd.transform_cnf(F, args)))
            # both N and B: N wins
            args = argparse.Namespace(N=3, d=2, B=B)

            def run():
                random.seed(5)
                return snapshot(Cmd.transform_cnf(F, args))
            attempt(('both', fname, Cmd.name), run)
            # neither N nor B
            args = argparse.Namespace()
            attempt(('neither', fname, Cmd.name),
                    lambda: snapshot(Cmd.transform_cnf(F, args)))
            # N but no d
            args = argparse.Namespace(N=3)
            attempt(('nod', fname, Cmd.name),
                    lambda: snapshot(Cmd.transform_cnf(F, args)))


def cmdline():
    cmds = [
        ['php', 3, 2, '-T', 'xorcomp', 4, 2],
        ['php', 3, 2, '-T', 'majcomp', 4, 3],
        ['php', 3, 2, '-T', 'xorcomp', 4],
        ['php', 3, 2, '-T', 'majcomp', 5],
        ['php', 3, 2, '-T', 'xorcomp', 2, 4],
        ['php', 3, 2, '-T', 'majcomp', 2],
        ['php', 3, 2, '-T', 'xorcomp', 0],
        ['php', 3, 2, '-T', 'xorcomp', 3, 0],
        ['php', 3, 2, '-T', 'xorcomp'],
        ['php', 3, 2, '-T', 'xorcomp', 'glrd', 6, 4, 2],
        ['php', 3, 2, '-T', 'majcomp', 'glrd', 6, 4, 3],
        ['php', 3, 2, '-T', 'majcomp', 'glrd', 5, 4, 3],
        ['php', 3, 2, '-T', 'xorcomp', 'complete', 6, 2],
        ['op', 3, '-T', 'xorcomp', 4, 2, '-T', 'majcomp', 5, 3, '-T',
         'shuffle'],
        ['op', 3, '-T', 'shuffle', '-T', 'xorcomp', 4, 2, '-T', 'flip', '-T',
         'majcomp', 3, 3],
        ['randkcnf', 3, 5, 7, '-T', 'majcomp', 4, 3, '-T', 'xor', 2],
        ['and', 0, 0, '-T', 'xorcomp', 3, 2],
        ['and', 2, 1, '-T', 'majcomp', 1, 1],
    ]
    for cmd in cmds:
        for seed in [1, 42]:
            argv = ['cnfgen', '--seed', seed] + cmd

            def run():
                F = cli(list(argv), mode='formula')
                return snapshot(F), F.to_dimacs()
            attempt(('cli', argv), run)
            for fmt in ['dimacs', 'opb', 'latex']:
                argv2 = ['cnfgen', '-of', fmt, '--seed', seed] + cmd
                attempt(('clistr', argv2),
                        lambda: cli(list(argv2), mode='string'))


direct()
cmdline()
text = "\n".join(OUT)
from cnfgen.info import info
text = text.replace(str(info['version']), '<VERSION>')
if os.environ.get('EQUIV_DUMP'):
    sys.stderr.write(text + '\n')
print(hashlib.sha256(text.encode('utf-8')).hexdigest())
