#!/usr/bin/env python
"""Equivalence script for the refactoring of cnfgen.graphs._label_sort_key and
cnfgen.graphs.normalize_networkx_labels (vertex renumbering of graphs that
come from networkx: gml and dot readers, from_networkx, normalize).

Run as:  cd <checkout> && /venv/bin/python equiv.py
Prints a single SHA256 digest of everything observed.
"""
import os
import sys
import io
import hashlib
import random

sys.path.insert(0, os.getcwd())

import networkx
import cnfgen
from cnfgen.graphs import (Graph, DirectedGraph, BipartiteGraph, readGraph,
                           writeGraph, supported_graph_formats,
                           normalize_networkx_labels, _label_sort_key)

LOG = []


def log(*items):
    LOG.append(repr(items))


def describe(G):
    if G.is_bipartite():
        shape = ('bip', G.left_order(), G.right_order())
    else:
        shape = (type(G).__name__, G.number_of_vertices(), G.is_dag())
    return (shape, G.number_of_edges(), list(G.edges()), G.name)


def describe_nx(G):
    return (type(G).__name__, list(G.nodes(data=True)), list(G.edges(data=True)),
            sorted(G.graph.items(), key=repr))


def attempt(label, func, *args, **kwargs):
    try:
        res = func(*args, **kwargs)
        log(label, 'OK', res)
    except BaseException as e:  # noqa
        log(label, 'EXC', type(e).__name__, str(e))


class Odd(object):
    """Hashable label which is neither int nor str"""
    def __init__(self, x):
        self.x = x

    def __repr__(self):
        return 'Odd({})'.format(self.x)

    def __hash__(self):
        return hash(self.x)

    def __eq__(self, other):
        return isinstance(other, Odd) and self.x == other.x


class MyStr(str):
    pass


class MyInt(int):
    pass


LABELS = [0, 1, -1, 2, 10, 9, 100, True, False, MyInt(7),
          '0', '1', '2', '10', '9', '010', '-3', '--3', '-', '', ' 1', '1 ',
          '1.5', 'a', 'b', 'a10', 'a2', 'B', MyStr('12'), MyStr('x'),
          '²', '٣', '①', '1_0', '+4', '4-',
          1.0, 2.5, None, (1, 2), ('a',), frozenset([1]), Odd(3), b'5', b'x']


def main():
    # pydot prints its parse errors on stdout: capture them as observable output
    captured = io.StringIO()
    real_stdout = sys.stdout
    sys.stdout = captured
    try:
        run()
    finally:
        sys.stdout = real_stdout
    log('stdout', captured.getvalue())
    data = "\n".join(LOG).encode('utf-8')
    if os.environ.get('EQUIV_DUMP'):
        sys.stderr.write(data.decode('utf-8', 'replace') + "\n")
    print(hashlib.sha256(data).hexdigest())


def run():
    rnd = random.Random(14100)

    # ---- 1. the sort key on individual labels
    for lab in LABELS:
        def key_info():
            k = _label_sort_key(lab)
            return (k, type(k).__name__, [type(x).__name__ for x in k])
        attempt(('key', repr(lab)), key_info)

    # ---- 2. renumbering of networkx graphs with many kind of labels
    label_sets = [
        [],
        [5],
        ['5'],
        [3, 1, 2],
        list(range(12, 0, -1)),
        [str(i) for i in range(1, 13)],
        [str(i) for i in range(12, 0, -1)],
        ['10', '9', '8', '11', '1', '2'],
        ['10', 9, '8', 11, '1', 2],
        ['-1', '-10', '2', '0', -5],
        ['b', 'a', 'c10', 'c9'],
        ['b', 'a', 3, '2', 10, '1'],
        ['a', (1, 2), 'b'],
        [(2, 1), (1, 2), (1, 1)],
        [(2, 1), (1, 2), 'x'],
        [2.5, 1.5, 0.5],
        [2.5, 'a', 1],
        [None, 'a'],
        [None, 3, 1],
        [Odd(2), Odd(1)],
        [Odd(2), 'a', 1],
        ['--3', '1'],
        ['²', '1'],
        ['٣', '1', '5'],
        [True, 2, 0],
        [MyStr('12'), '3', MyInt(7)],
        ['010', '9', '11'],
        [b'5', b'1'],
        [b'5', '1'],
        ['', 'a', '1'],
        ['1_0', '2'],
        ['+4', '2'],
    ]
    for shuffle_round in range(3):
        for li, labels in enumerate(label_sets):
            labels = list(labels)
            if shuffle_round:
                rnd.shuffle(labels)
            for nxclass in [networkx.Graph, networkx.DiGraph]:
                N = nxclass()
                N.name = 'nx{}'.format(li)
                try:
                    N.add_nodes_from(labels)
                    for _ in range(2 * len(labels)):
                        u = rnd.choice(labels)
                        v = rnd.choice(labels)
                        if u != v:
                            N.add_edge(u, v)
                except Exception as e:
                    log(('build', shuffle_round, li, nxclass.__name__), type(e).__name__, str(e))
                    continue
                tag = (shuffle_round, li, nxclass.__name__)
                attempt(('relabel',) + tag, lambda: describe_nx(normalize_networkx_labels(N)))
                cls = Graph if nxclass is networkx.Graph else DirectedGraph
                attempt(('from_nx',) + tag, lambda: describe(cls.from_networkx(N)))
                attempt(('normalize',) + tag, lambda: describe(cls.normalize(N, 'X')))
                attempt(('normalize-wrong',) + tag,
                        lambda: describe((DirectedGraph if cls is Graph else Graph).normalize(N, 'X')))
                # the input must not be modified
                log(('input-after',) + tag, describe_nx(N))

    # ---- 3. standard networkx graphs
    std = [networkx.path_graph(11), networkx.complete_graph(4), networkx.empty_graph(12),
           networkx.grid_2d_graph(3, 4), networkx.star_graph(10),
           networkx.path_graph(11, create_using=networkx.DiGraph),
           networkx.relabel_nodes(networkx.path_graph(12), {i: str(12 - i) for i in range(12)}),
           networkx.relabel_nodes(networkx.path_graph(12, create_using=networkx.DiGraph),
                                  {i: str(12 - i) for i in range(12)}),
           networkx.MultiGraph([(1, 2), (1, 2), (3, 1)]),
           networkx.MultiDiGraph([(1, 2), (1, 2), (3, 1)])]
    for si, N in enumerate(std):
        attempt(('std-relabel', si), lambda: describe_nx(normalize_networkx_labels(N)))
        attempt(('std-simple', si), lambda: describe(Graph.from_networkx(N)))
        attempt(('std-directed', si), lambda: describe(DirectedGraph.from_networkx(N)))
        attempt(('std-norm-simple', si), lambda: describe(Graph.normalize(N)))
        attempt(('std-norm-directed', si), lambda: describe(DirectedGraph.normalize(N)))
    for bad in [None, 3, 'graph', [1, 2]]:
        attempt(('bad-relabel', repr(bad)), lambda: describe_nx(normalize_networkx_labels(bad)))
        attempt(('bad-simple', repr(bad)), lambda: describe(Graph.from_networkx(bad)))
        attempt(('bad-norm', repr(bad)), lambda: describe(Graph.normalize(bad)))

    # ---- 4. round trips through gml and dot (these readers renumber vertices)
    formats = supported_graph_formats()
    log('formats', sorted(formats.items()))
    graphs = []
    for n in [0, 1, 2, 9, 10, 11, 23]:
        for p in [0.0, 0.25, 1.0]:
            G = Graph(n, 'g{}'.format(n))
            D = DirectedGraph(n, 'd{}'.format(n))
            A = DirectedGraph(n, 'a{}'.format(n))
            for u in range(1, n + 1):
                for v in range(1, n + 1):
                    if u < v and rnd.random() < p:
                        G.add_edge(u, v)
                    if u < v and rnd.random() < p:
                        A.add_edge(u, v)
                    if u != v and rnd.random() < p:
                        D.add_edge(u, v)
            graphs.append(('simple', G))
            graphs.append(('digraph', D))
            graphs.append(('dag', A))
    for L, R in [(0, 0), (1, 0), (0, 2), (3, 4), (10, 12), (11, 2)]:
        for p in [0.0, 0.4, 1.0]:
            B = BipartiteGraph(L, R, 'b{}_{}'.format(L, R))
            for u in range(1, L + 1):
                for v in range(1, R + 1):
                    if rnd.random() < p:
                        B.add_edge(u, v)
            graphs.append(('bipartite', B))
    texts = []
    for gi, (gtype, G) in enumerate(graphs):
        for fmt in formats[gtype]:
            def roundtrip():
                buf = io.StringIO()
                writeGraph(G, buf, gtype, fmt)
                text = buf.getvalue()
                texts.append((gtype, fmt, text))
                H = readGraph(io.StringIO(text), gtype, fmt)
                same = (list(H.edges()) == list(G.edges()) and
                        H.number_of_vertices() == G.number_of_vertices())
                return (text, describe(H), same)
            attempt(('rt', gi, gtype, fmt), roundtrip)
            if gtype == 'digraph':
                attempt(('rt-as-dag', gi, fmt),
                        lambda: describe(readGraph(io.StringIO(texts[-1][2]), 'dag', fmt)))

    # ---- 5. hand written gml / dot inputs with unusual vertex ids
    gml_template = 'graph [\n{directed}{nodes}{edges}]\n'

    def gml(ids, edges, directed=False, labels=True):
        nodes = ''.join('  node [\n    id {}\n{}  ]\n'.format(
            i, '    label "{}"\n'.format('v%s' % i) if labels else '') for i in ids)
        es = ''.join('  edge [\n    source {}\n    target {}\n  ]\n'.format(u, v) for u, v in edges)
        return gml_template.format(directed='  directed 1\n' if directed else '', nodes=nodes, edges=es)

    gml_cases = [
        ([1, 2, 3], [(1, 2), (2, 3)]),
        ([3, 2, 1], [(1, 2), (2, 3)]),
        ([10, 9, 11, 2, 1], [(10, 9), (11, 2), (1, 10)]),
        ([0, 5, 100], [(0, 100)]),
        ([-1, -10, 4], [(-1, 4), (-10, -1)]),
        (list(range(15, 0, -1)), [(i, i + 1) for i in range(1, 15)]),
        ([1, 2], [(1, 3)]),
        ([1, 1], []),
        ([1, 2], [(1, 1)]),
        ([], []),
    ]
    for ci, (ids, edges) in enumerate(gml_cases):
        for directed in [False, True]:
            for labels in [True, False]:
                text = gml(ids, edges, directed, labels)
                for gtype in ['simple', 'digraph', 'dag']:
                    attempt(('gml', ci, directed, labels, gtype),
                            lambda: describe(readGraph(io.StringIO(text), gtype, 'gml')))

    if 'dot' in formats['simple']:
        dot_cases = [
            'graph G { 1 -- 2; 2 -- 3; }',
            'graph G { 3; 2; 1; 1 -- 2; 2 -- 3; }',
            'graph G { 10 -- 9; 9 -- 2; 2 -- 11; 1; }',
            'graph G { b -- a; a -- c; }',
            'graph G { b -- 2; 10 -- a; 2 -- 10; }',
            'graph G { "10" -- "9"; "9" -- "2"; }',
            'graph G { -1 -- 3; 3 -- -10; }',
            'digraph G { 1 -> 2; 2 -> 3; }',
            'digraph G { 3 -> 2; 2 -> 1; }',
            'digraph G { 10 -> 11; 9 -> 10; 2 -> 9; 1 -> 2; }',
            'digraph G { b -> a; a -> c; }',
            'digraph G { ' + ' '.join('{} -> {};'.format(i, i + 1) for i in range(14, 0, -1)) + ' }',
            'graph G { }',
            'digraph G { }',
            'graph G { 1 -- 2',
            'not a dot file',
            '',
        ]
        for ci, text in enumerate(dot_cases):
            for gtype in ['simple', 'digraph', 'dag', 'bipartite']:
                attempt(('dot', ci, gtype),
                        lambda: describe(readGraph(io.StringIO(text), gtype, 'dot')))

    # ---- 6. corrupted versions of gml / dot outputs
    chosen = [t for t in texts if t[1] in ('gml', 'dot') and len(t[2]) > 40]
    rnd.shuffle(chosen)
    for ci, (gtype, fmt, text) in enumerate(chosen[:40]):
        variants = [text[:len(text) // 2], text[:-3], '\n\n' + text + '\n\n']
        for _ in range(4):
            chars = list(text)
            for _k in range(2):
                pos = rnd.randrange(len(chars))
                chars[pos] = rnd.choice('0123456789 []{};-\n"')
            variants.append(''.join(chars))
        for vi, vtext in enumerate(variants):
            attempt(('corrupt', ci, gtype, fmt, vi),
                    lambda: describe(readGraph(io.StringIO(vtext), gtype, fmt)))


if __name__ == '__main__':
    main()
