#!/usr/bin/env python
"""Equivalence script for C16/t22: relabelling of networkx vertices in
Graph.from_networkx / DirectedGraph.from_networkx / normalize / readGraph
(vertex label sort key), and round trips cnfgen -> networkx -> cnfgen."""
import os
import sys
import io
import random
import hashlib

sys.path.insert(0, os.getcwd())

import networkx  # noqa: E402
import cnfgen.graphs as cg  # noqa: E402
from cnfgen.graphs import Graph, DirectedGraph, BipartiteGraph, readGraph  # noqa: E402
from cnfgen.graphs import normalize_networkx_labels  # noqa: E402

OUT = []


def emit(*args):
    OUT.append(repr(args))


def attempt(label, fn, *args):
    try:
        emit(label, 'ok', fn(*args))
    except Exception as e:  # noqa
        emit(label, 'exc', type(e).__name__, str(e))


def describe(G):
    if G.is_bipartite():
        return ('B', G.left_order(), G.right_order(), G.number_of_edges(),
                list(G.edges()), G.name)
    if G.is_directed():
        return ('D', G.number_of_vertices(), G.number_of_edges(), G.is_dag(),
                list(G.edges()), list(G.edges_ordered_by_successors()),
                [list(G.predecessors(v)) for v in G.vertices()],
                [list(G.successors(v)) for v in G.vertices()], G.name)
    return ('G', G.number_of_vertices(), G.number_of_edges(), list(G.edges()),
            [list(G.neighbors(v)) for v in G.vertices()],
            [G.degree(v) for v in G.vertices()], G.name)


LABEL_SETS = [
    [],
    [1],
    [3, 1, 2],
    [10, 2, 33, 4, 5],
    ['10', '2', '33', '4', '5'],
    ['10', 2, '-3', 4, '05', 0],
    ['b', 'a', 'c'],
    ['b', '2', 'a', '10', 1],
    ['-', '--1', '-1', '1-', ''],
    ['x1', 'x10', 'x2'],
    [2.5, 1.5, 0.5],
    [2.5, 'a', 1],
    [(1, 2), (0, 5), (1, 0)],
    [(1, 2), 'a', 3],
    [True, 0, 2],
    [b'z', 'n', 1],
    ['٣', '²', '7'],
    [-5, -1, 7, 0],
    [frozenset([1]), frozenset([2]), 3],
]


def build_nx(labels, rng, directed):
    G = networkx.DiGraph() if directed else networkx.Graph()
    G.add_nodes_from(labels)
    k = len(labels)
    for _ in range(rng.randint(0, 2 * k)):
        if k < 2:
            break
        a, b = rng.sample(range(k), 2)
        G.add_edge(labels[a], labels[b])
    if rng.random() < 0.5:
        G.name = 'named {}'.format(k)
    return G


rng = random.Random(16022)
for rep in range(6):
    for labels in LABEL_SETS:
        labels = list(labels)
        rng.shuffle(labels)
        for directed in (False, True):
            N = build_nx(labels, rng, directed)
            emit('input', repr(list(N.nodes())), repr(list(N.edges())))
            cls = DirectedGraph if directed else Graph
            other = Graph if directed else DirectedGraph
            attempt('from_networkx', lambda: describe(cls.from_networkx(N)))
            attempt('normalize', lambda: describe(cls.normalize(N, 'V')))
            attempt('wrong class', lambda: describe(other.from_networkx(N)))
            attempt('wrong normalize', lambda: describe(other.normalize(N, 'W')))

            def relabel():
                H = normalize_networkx_labels(N)
                return (repr(list(H.nodes())), repr(list(H.edges())))
            attempt('relabel', relabel)

# the key function itself, through the graphs module namespace
for lab in [0, 1, -1, 10**20, '0', '12', '-12', '--12', '-', '', ' 1', '1 ', 'a',
            '٣', '²', 1.0, True, None, (1,), b'1']:
    attempt('key', cg._label_sort_key, lab)

# round trips under random updates
WEIRD = [0, -1, 2.5, None, 'a', 10**6]


def rand_arg(n):
    r = rng.random()
    if r < 0.8:
        return rng.randint(1, max(n, 1))
    if r < 0.93:
        return rng.randint(-1, n + 2)
    return rng.choice(WEIRD)


for seed in range(60):
    n = rng.choice([0, 1, 2, 4, 7, 11])
    G = Graph(n)
    D = DirectedGraph(n)
    forward = rng.random() < 0.4
    for _ in range(rng.randint(0, 30)):
        u, v = rand_arg(n), rand_arg(n)
        op = rng.random()
        if op < 0.6:
            attempt('G.add', G.add_edge, u, v)
        elif op < 0.8:
            attempt('G.rem', G.remove_edge, u, v)
        elif op < 0.9:
            attempt('G.upd', G.update_vertex_number, rng.choice([n, n + 2, n - 1, -1]))
            n = G.number_of_vertices()
        else:
            attempt('G.adds', G.add_edges_from, [(u, v), (v, u), (rand_arg(n), rand_arg(n))])
        nd = D.number_of_vertices()
        a, b = rand_arg(nd), rand_arg(nd)
        if forward and isinstance(a, int) and isinstance(b, int) and a > b:
            a, b = b, a
        attempt('D.add', D.add_edge, a, b)
    for X, cls in ((G, Graph), (D, DirectedGraph)):
        emit('before', describe(X))
        N = X.to_networkx()
        emit('nx', sorted(N.nodes()), sorted(N.edges()))
        attempt('back', lambda: describe(cls.from_networkx(N)))
        # shuffled insertion order and string labels
        M = networkx.DiGraph() if X.is_directed() else networkx.Graph()
        nodes = list(N.nodes())
        rng.shuffle(nodes)
        M.add_nodes_from(str(v) for v in nodes)
        edges = list(N.edges())
        rng.shuffle(edges)
        M.add_edges_from((str(a), str(b)) for a, b in edges)
        attempt('back-str', lambda: describe(cls.from_networkx(M)))

# bipartite conversion
for seed in range(20):
    L, R = rng.choice([0, 1, 3, 5]), rng.choice([0, 2, 4])
    B = BipartiteGraph(L, R)
    for _ in range(rng.randint(0, 20)):
        attempt('B.add', B.add_edge, rand_arg(L), rand_arg(R))
    emit('B', describe(B))
    attempt('B.back', lambda: describe(BipartiteGraph.from_networkx(B.to_networkx())))

# graph files with textual labels
GML = """graph [
  directed %d
  node [ id 10 label "a" ]
  node [ id 2 label "b" ]
  node [ id 33 label "c" ]
  node [ id 4 label "d" ]
  edge [ source 10 target 2 ]
  edge [ source 2 target 33 ]
  edge [ source 4 target 33 ]
  edge [ source 4 target 10 ]
]
"""
DOT_G = 'graph G { 10 -- 2; 2 -- 33; 4 -- 33; b -- 10; a -- b; }\n'
DOT_D = 'digraph G { 10 -> 2; 2 -> 33; 4 -> 33; 1 -> 2; 33 -> 100; }\n'
DOT_DAG = 'digraph G { 2 -> 10; 10 -> 33; 4 -> 33; 1 -> 2; 33 -> 100; }\n'
if cg.has_dot_library():
    attempt('dot dag ok', lambda: describe(readGraph(io.StringIO(DOT_DAG), 'dag', 'dot')))
attempt('gml simple', lambda: describe(readGraph(io.StringIO(GML % 0), 'simple', 'gml')))
attempt('gml digraph', lambda: describe(readGraph(io.StringIO(GML % 1), 'digraph', 'gml')))
attempt('gml dag', lambda: describe(readGraph(io.StringIO(GML % 1), 'dag', 'gml')))
attempt('gml mismatch', lambda: describe(readGraph(io.StringIO(GML % 0), 'digraph', 'gml')))
if cg.has_dot_library():
    attempt('dot simple', lambda: describe(readGraph(io.StringIO(DOT_G), 'simple', 'dot')))
    attempt('dot digraph', lambda: describe(readGraph(io.StringIO(DOT_D), 'digraph', 'dot')))
    attempt('dot dag', lambda: describe(readGraph(io.StringIO(DOT_D), 'dag', 'dot')))

print(hashlib.sha256('\n'.join(OUT).encode('utf-8')).hexdigest())
