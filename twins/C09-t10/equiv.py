#!/usr/bin/env python
"""Equivalence check for cnfgen.utils.parsedimacs.parse_dimacs (the DIMACS
reader behind cnfshuffle), including error messages with line numbers."""
import sys, os, io, hashlib, random, contextlib, subprocess, tempfile
sys.path.insert(0, os.getcwd())

from cnfgen.utils.parsedimacs import parse_dimacs, from_dimacs_file
from cnfgen.formula.cnf import CNF
from cnfgen.clitools.cnfshuffle import cli as shuffle_cli
from cnfgen.clitools.cmdline import redirect_stdin

H = hashlib.sha256()
def rec(*items):
    for it in items:
        H.update(repr(it).encode('utf-8'))
        H.update(b'\x00')

texts = [
    "",
    "\n",
    "\n\n\n",
    "c only a comment\n",
    "c comment\n\nc another\n",
    "p cnf 0 0\n",
    "p cnf 0 0",
    "p cnf 0 1\n0\n",
    "p cnf 0 2\n0 0\n",
    "p cnf 3 0\n",
    "p cnf 3 2\n1 -2 0\n2 3 0\n",
    "c head\nc head2\np cnf 3 2\n1 -2 0\nc mid comment\n2 3 0\n",
    "\n\n  \nc x\n   p cnf 3 2\n\n  1 -2 0\n\n\t2 3 0   \n\n",
    "p cnf 3 2\n1 -2 0 2 3 0\n",
    "p cnf 3 2\n1\n-2\n0\n2\n3\n0\n",
    "p cnf 3 2\n1 -2\n0 2\n3 0",
    "p cnf 3 2\r\n1 -2 0\r\n2 3 0\r\n",
    "p cnf 3 1\n1 -2 0\n2 3 0\n",
    "p cnf 3 3\n1 -2 0\n2 3 0\n",
    "p cnf 3 2\n1 -2 0\n2 3\n",
    "p cnf 3 2\n1 -2 0\n2 4 0\n",
    "p cnf 3 2\n1 -2 0\n\n\nc c\n2 -4 0\n",
    "p cnf 3 2\n1 -2 0\n2 x 0\n",
    "p cnf 3 2\n1 -2 0\n1 0 2 1.5 0\n",
    "p cnf 3 2\n1 -2 0\n1 0 2 7 0\n",
    "1 2 0\np cnf 3 1\n",
    "c a\n\n1 2 0\n",
    "c a\nc b\n\n\nfoo\n",
    "p cnf 3 2\np cnf 3 2\n1 0\n2 0\n",
    "p cnf 3 2\n1 0\nc z\n\np cnf 3 2\n2 0\n",
    "p cnf 3\n",
    "p cnf 3 2 1\n",
    "p cnf -1 2\n",
    "p cnf 2 -1\n",
    "p cnf a b\n",
    "c\nc\nc\np cnf three two\n",
    "p\n",
    "p dnf 2 1\n1 2 0\n",
    "pcnf 2 1\n1 2 0\n",
    "p cnf 2 1\n1 2 0\npercent\n",
    "p cnf 2 1\n1 2 0\n%\n0\n",
    "p cnf 2 1\ncnf 1 2 0\n1 2 0\n",
    "p cnf 5 4\n1 2 3 4 5 0\n-1 -2 -3 -4 -5 0\n0\n3 3 -3 0\n",
    "p cnf 1 1\n+1 0\n",
    "p cnf 1 1\n 1 00\n",
    "p cnf 1 1\n1 -0\n",
    "p cnf 10 3\n" + " ".join(str(i) for i in range(1, 11)) + " 0\n" + "-10 0\n" + "5 -5 0\n",
]
# a larger formula, deterministic
rnd = random.Random(7)
lines = ["c big", "p cnf 30 60"]
for j in range(60):
    w = rnd.randint(0, 6)
    lits = [rnd.choice([-1, 1]) * rnd.randint(1, 30) for _ in range(w)]
    lines.append(" ".join(map(str, lits + [0])))
    if j % 7 == 0:
        lines.append("c interleaved %d" % j)
    if j % 11 == 0:
        lines.append("")
texts.append("\n".join(lines) + "\n")
bad = list(lines); bad[40] = bad[40] + " 31 0"
texts.append("\n".join(bad) + "\n")

# --- parse_dimacs, item by item
for t in texts:
    items = []
    try:
        for x in parse_dimacs(io.StringIO(t)):
            items.append(x)
        items.append('END')
    except BaseException as e:
        items.append(('exc', type(e).__name__, str(e), type(e.__cause__).__name__,
                      type(e.__context__).__name__))
    rec('parse', t, items)

# --- CNF.from_file
for t in texts:
    try:
        F = CNF.from_file(io.StringIO(t))
        res = ('ok', F.number_of_variables(), F.number_of_clauses(), [list(c) for c in F],
               list(F.header.items()), F.to_dimacs())
    except BaseException as e:
        res = ('exc', type(e).__name__, str(e))
    rec('from_file', t, res)

# --- file given by name
tmpdir = tempfile.mkdtemp()
paths = []
for i, t in enumerate(texts):
    path = os.path.join(tmpdir, 'f%d.cnf' % i)
    with open(path, 'w', encoding='utf-8', newline='') as f:
        f.write(t)
    paths.append(path)
    try:
        F = from_dimacs_file(CNF, path)
        res = ('ok', F.number_of_variables(), [list(c) for c in F], F.header['description'].replace(tmpdir, 'TMP'))
    except BaseException as e:
        res = ('exc', type(e).__name__, str(e))
    rec('by_name', i, res)

# --- cnfshuffle cli (string mode), all switches and several seeds
switch_sets = [[], ['-p'], ['-v'], ['-c'], ['-p', '-v'], ['-p', '-c'], ['-v', '-c'], ['-p', '-v', '-c']]
for i, path in enumerate(paths):
    for sw in switch_sets:
        for seed in (0, 1, 42):
            argv = ['cnfshuffle', '-S', str(seed), '-i', path] + sw
            err = io.StringIO()
            try:
                with contextlib.redirect_stderr(err):
                    out = shuffle_cli(argv, mode='string')
                res = ('ok', out)
            except BaseException as e:
                res = ('exc', type(e).__name__, str(e))
            rec('cnfshuffle', i, sw, seed, res, err.getvalue(), random.random())

# --- stdin
for t in texts[:20]:
    random.seed(5)
    try:
        with redirect_stdin(io.StringIO(t)):
            out = shuffle_cli(['cnfshuffle', '-q'], mode='string')
        res = ('ok', out)
    except BaseException as e:
        res = ('exc', type(e).__name__, str(e))
    rec('stdin', t, res)

# --- the real program: exit codes and error messages
code = "import sys; sys.argv=['cnfshuffle']+sys.argv[1:]; from cnfgen.clitools.cnfshuffle import main; main()"
for i in (0, 3, 5, 10, 17, 19, 20, 21, 22, 25, 27, 28, 30, 36, len(texts) - 1):
    p = subprocess.run([sys.executable, '-W', 'ignore', '-c', code, '-S', '3', '-i', paths[i]],
                       stdin=subprocess.DEVNULL, stdout=subprocess.PIPE, stderr=subprocess.PIPE,
                       text=True, cwd=os.getcwd())
    rec('main', i, p.returncode, p.stdout.replace(tmpdir, 'TMP'), p.stderr.replace(tmpdir, 'TMP'))
    p = subprocess.run([sys.executable, '-W', 'ignore', '-c', code, '-S', '3', '-p'],
                       input=texts[i], stdout=subprocess.PIPE, stderr=subprocess.PIPE,
                       text=True, cwd=os.getcwd())
    rec('main-stdin', i, p.returncode, p.stdout, p.stderr)

for path in paths:
    os.unlink(path)
os.rmdir(tmpdir)
print(H.hexdigest())
