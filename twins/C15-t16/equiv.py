#!/usr/bin/env python
"""Equivalence harness for the in-house graph writers (the ones behind
the 'save' option of a graph specification), with focus on the
bipartite 'matrix' format.

Writes many bipartite graphs (built from command line specifications
and by hand) in every supported format, to text streams and to files,
reads them back, and records file contents, graphs, formulas and error
messages.  Prints one SHA256 digest.
"""
import hashlib
import io
import os
import random
import sys
import tempfile

sys.path.insert(0, os.getcwd())

from cnfgen.graphs import (Graph, DirectedGraph, BipartiteGraph,
                           CompleteBipartiteGraph, readGraph, writeGraph,
                           bipartite_random, bipartite_random_m_edges,
                           bipartite_shift)
from cnfgen.graphs import _write_graph_matrix_format
from cnfgen.clitools.graph_args import make_graph_from_spec
from cnfgen.clitools.cnfgen import cli

LOG = []


def log(*items):
    LOG.append(" | ".join(str(x) for x in items))


def describe(G):
    return (type(G).__name__, G.name, G.number_of_vertices(),
            G.number_of_edges(), sorted(G.edges()))


def scrub(text, tmp):
    return str(text).replace(tmp, '<TMP>')


def handmade():
    graphs = []
    for L in range(0, 5):
        for R in range(0, 5):
            try:
                graphs.append(BipartiteGraph(L, R))
            except Exception as e:
                log('MAKE-ERR', L, R, type(e).__name__, e)
            try:
                graphs.append(CompleteBipartiteGraph(L, R))
            except Exception as e:
                log('MAKE-ERR-C', L, R, type(e).__name__, e)
    for seed in range(25):
        L = 1 + seed % 6
        R = 1 + (seed * 7) % 5
        graphs.append(bipartite_random(L, R, (seed % 5) / 4, seed=seed))
        graphs.append(bipartite_random_m_edges(L, R, (seed * 3) % (L * R + 1),
                                               seed=seed))
        graphs.append(bipartite_shift(L, R, [x for x in range(R) if (seed >> x) & 1]))
    B = BipartiteGraph(3, 4, name='hand made')
    for e in [(3, 4), (1, 1), (3, 1), (2, 2), (1, 4), (3, 4)]:
        B.add_edge(*e)
    graphs.append(B)
    return graphs


def direct_writes():
    for G in handmade():
        buf = io.StringIO()
        try:
            _write_graph_matrix_format(G, buf)
            log('MATRIX', describe(G), repr(buf.getvalue()))
        except Exception as e:
            log('MATRIX-ERR', describe(G), type(e).__name__, e)
        for fmt in ['matrix', 'kthlist', 'gml', 'dot', 'dimacs', 'nonsense']:
            buf = io.StringIO()
            try:
                writeGraph(G, buf, 'bipartite', fmt)
                text = buf.getvalue()
                log('WRITE', fmt, describe(G), repr(text))
            except Exception as e:
                log('WRITE-ERR', fmt, describe(G), type(e).__name__, e)
                continue
            try:
                H = readGraph(io.StringIO(text), 'bipartite', fmt)
                log('READ', fmt, describe(H))
            except Exception as e:
                log('READ-ERR', fmt, type(e).__name__, e)
    # wrong kind of graph for the matrix format
    for G in [Graph(3), Graph.complete_graph(4), DirectedGraph(3), None, 7]:
        buf = io.StringIO()
        try:
            _write_graph_matrix_format(G, buf)
            log('MATRIX-WRONG', repr(buf.getvalue()))
        except Exception as e:
            log('MATRIX-WRONG-ERR', type(G).__name__, type(e).__name__, e,
                repr(buf.getvalue()))
        for gtype in ['simple', 'digraph', 'dag', 'bipartite']:
            buf = io.StringIO()
            try:
                writeGraph(G, buf, gtype, 'matrix')
                log('WRITE-WRONG', gtype, repr(buf.getvalue()))
            except Exception as e:
                log('WRITE-WRONG-ERR', type(G).__name__, gtype,
                    type(e).__name__, e, repr(buf.getvalue()))


SPECS = [
    'glrp 3 4 .5', 'glrp 1 1 0', 'glrp 1 1 1', 'glrp 5 2 .3',
    'glrm 3 3 0', 'glrm 3 3 9', 'glrm 3 3 4', 'glrm 1 5 3', 'glrm 4 4 6',
    'glrd 4 3 0', 'glrd 4 3 3', 'glrd 4 3 2', 'glrd 1 1 1',
    'regular 4 2 1', 'regular 6 4 2', 'regular 3 3 3', 'regular 3 3 0',
    'shift 4 4 0 1', 'shift 3 5', 'shift 5 3 0 1 2', 'shift 2 2 2',
    'complete 2 3', 'complete 1 1', 'empty 2 2', 'empty 1 4',
    'glrp 4 4 .2 plantbiclique 2 3', 'glrm 4 4 3 plantbiclique 0 0',
    'glrd 4 4 1 plantbiclique 4 4', 'empty 3 3 addedges 4',
    'empty 3 3 addedges 9', 'empty 3 3 plantbiclique 1 2 addedges 2',
    'glrd 5 5 2 addedges 0', 'complete 2 2 addedges 1',
    'empty 3 3 addedges 10', 'glrp 3 3 .5 plantbiclique 4 1',
]


def spec_saves(tmp):
    for n, spec in enumerate(SPECS):
        for fmt in ['matrix', 'kthlist', 'gml', 'dot']:
            for explicit in (True, False):
                fname = os.path.join(tmp, 's{}_{}.{}'.format(n, int(explicit), fmt))
                full = spec.split() + ['save']
                if explicit:
                    full.append(fmt)
                full.append(fname)
                random.seed(1000 + n)
                try:
                    G = make_graph_from_spec('bipartite', full)
                    log('SPEC', scrub(full, tmp), scrub(describe(G), tmp), random.random())
                except Exception as e:
                    log('SPEC-ERR', scrub(full, tmp), type(e).__name__,
                        scrub(e, tmp))
                if not os.path.exists(fname):
                    log('NOFILE', scrub(fname, tmp))
                    continue
                with open(fname, encoding='utf-8') as f:
                    log('SPEC-FILE', repr(f.read()))
                try:
                    H = make_graph_from_spec('bipartite', [fmt, fname])
                    log('SPEC-BACK', scrub(describe(H), tmp))
                    H = make_graph_from_spec('bipartite', [fname])
                    log('SPEC-BACK-AUTO', scrub(describe(H), tmp))
                except Exception as e:
                    log('SPEC-BACK-ERR', type(e).__name__, scrub(e, tmp))


def command_lines(tmp):
    cmds = []
    for n, spec in enumerate(SPECS):
        fname = os.path.join(tmp, 'c{}.matrix'.format(n))
        cmds.append(['php'] + spec.split() + ['save', fname])
        cmds.append(['subsetcard'] + spec.split() + ['save', 'matrix', fname + '.x'])
    for n, cmd in enumerate(cmds):
        argv = ['cnfgen', '-q', '--seed', str(300 + n)] + cmd
        try:
            out = cli(argv, mode='string')
            log('CLI', scrub(argv, tmp), scrub(out, tmp))
        except SystemExit as e:
            log('CLI-EXIT', scrub(argv, tmp), e.code)
        except Exception as e:
            log('CLI-ERR', scrub(argv, tmp), type(e).__name__, scrub(e, tmp))
    for name in sorted(os.listdir(tmp)):
        if name.startswith('c'):
            with open(os.path.join(tmp, name), encoding='utf-8') as f:
                log('CLI-FILE', name, repr(f.read()))


def main():
    direct_writes()
    with tempfile.TemporaryDirectory() as tmp:
        spec_saves(tmp)
        devnull = open(os.devnull, 'w')
        olderr = sys.stderr
        sys.stderr = devnull
        try:
            command_lines(tmp)
        finally:
            sys.stderr = olderr
            devnull.close()
    data = "\n".join(LOG).encode('utf-8')
    print(hashlib.sha256(data).hexdigest())


if __name__ == '__main__':
    main()
