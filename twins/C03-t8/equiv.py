"""Equivalence check for localtypes.positive_int_seq (cnfgen/localtypes.py),
the argument validator for the extra progression lengths of VanDerWaerden.
Prints one SHA256 digest of everything observed."""
import sys, os, hashlib, numbers, fractions, io, contextlib
sys.path.insert(0, os.getcwd())

from cnfgen.localtypes import positive_int_seq, non_negative_int_seq, positive_int
from cnfgen.families.ramsey import VanDerWaerden
from cnfgen.clitools import cnfgen, CLIError

H = hashlib.sha256()


def rec(*items):
    for it in items:
        H.update(repr(it).encode('utf-8'))
        H.update(b'\x00')


def attempt(tag, fn):
    try:
        rec(tag, 'OK', fn())
    except Exception as e:
        c = e.__cause__
        rec(tag, 'EXC', type(e).__name__, str(e), e.args,
            None if c is None else (type(c).__name__, str(c)),
            None if e.__context__ is None else type(e.__context__).__name__,
            e.__suppress_context__)


LOG = []


class Spy:
    """Iterable recording how it is traversed."""
    def __init__(self, items, name):
        self.items = items
        self.name = name

    def __iter__(self):
        LOG.append((self.name, 'iter'))
        for i, x in enumerate(self.items):
            LOG.append((self.name, 'yield', i))
            yield x
        LOG.append((self.name, 'end'))


class MyInt(int):
    """Integral whose comparisons are recorded."""
    def __lt__(self, other):
        LOG.append(('lt', int(self), other))
        return int.__lt__(self, other)


class Weird(numbers.Integral):
    """Registered as Integral by inheritance, comparison explodes."""
    def __init__(self, v): self.v = v
    def __lt__(self, o): raise RuntimeError('cannot compare {}'.format(self.v))
    def __le__(self, o): raise RuntimeError('cannot compare {}'.format(self.v))
    def __int__(self): return self.v
    def __repr__(self): return 'Weird({})'.format(self.v)
    # abstract methods, never used
    def _n(self, *a): raise NotImplementedError
    __abs__ = __add__ = __and__ = __ceil__ = __eq__ = __floor__ = __floordiv__ = _n
    __invert__ = __lshift__ = __mod__ = __mul__ = __neg__ = __or__ = __pos__ = _n
    __pow__ = __radd__ = __rand__ = __rfloordiv__ = __rlshift__ = __rmod__ = _n
    __rmul__ = __ror__ = __round__ = __rpow__ = __rrshift__ = __rshift__ = _n
    __rtruediv__ = __rxor__ = __truediv__ = __trunc__ = __xor__ = _n
    __hash__ = None


class BadIter:
    def __iter__(self):
        raise TypeError('iteration refused')


class BadIter2:
    def __iter__(self):
        raise KeyError('iteration exploded')


def gen(items):
    for x in items:
        yield x


values = [
    (), [], (1,), [1, 2, 3], (3, 1, 2), [0], [1, 0, 2], [-1], [1, -5, 0], (10 ** 30,),
    [True], [False], [True, False], [1, 2.0], [2.0], [1.5], ['a'], ['1'], [None],
    [0, 'a'], ['a', 0], [1, 'a', 0], [0, 1, 'a'], [[1]], [(1, 2)],
    [fractions.Fraction(2, 1)], [1j],
    'abc', '', '12', b'\x01\x02', b'\x00', bytearray(b'\x03'),
    None, 5, 0, 2.5, object, len,
    {1: 'a', 2: 'b'}, {0: 'z'}, {'k': 1}, {3, 4}, {0}, frozenset(), range(1, 4), range(0, 3),
    range(0), [MyInt(3), MyInt(0), MyInt(5)], [MyInt(2)], [Weird(1)], [Weird(1), 'a'],
    ['a', Weird(1)], [0, Weird(2)], [Weird(2), 0],
]

for fn in [positive_int_seq, non_negative_int_seq]:
    for idx, v in enumerate(values):
        del LOG[:]
        attempt((fn.__name__, idx, repr(v)), lambda: fn(v, 'seq{}'.format(idx)))
        rec(list(LOG))
    # traversal pattern and generators (a generator is exhausted by the first pass)
    for idx, items in enumerate([[], [1, 2], [1, 0], [0, 1], [1, 'a', 0], ['a'], [0, 0, 'a'],
                                 [3, 2, 1, 0, -1]]):
        del LOG[:]
        attempt((fn.__name__, 'spy', idx), lambda: fn(Spy(items, 's'), '*ks'))
        rec(list(LOG))
        g = gen(items)
        attempt((fn.__name__, 'gen', idx), lambda: fn(g, '*ks'))
        rec(list(g))
        it = iter(items)
        attempt((fn.__name__, 'iter', idx), lambda: fn(it, 'it'))
        rec(list(it))
    attempt((fn.__name__, 'baditer'), lambda: fn(BadIter(), 'b'))
    attempt((fn.__name__, 'baditer2'), lambda: fn(BadIter2(), 'b'))
    attempt((fn.__name__, 'name'), lambda: fn([0], '{}'))
    attempt((fn.__name__, 'name2'), lambda: fn(['x'], None))
    attempt((fn.__name__, 'noname'), lambda: fn([1]))
    attempt((fn.__name__, 'kw'), lambda: fn(value=[1, 0], name='kw'))

# The formula using the validator
def vdw(*args):
    F = VanDerWaerden(*args)
    return (F.header['description'], F.number_of_variables(), list(F.clauses()),
            list(F.all_variable_labels()))


for N in [0, 1, 2, 5, 9]:
    for ks in [(1, 1), (1, 2), (2, 2), (3, 3), (3, 4), (2, 10), (1, 1, 1), (2, 2, 2), (3, 2, 1),
               (3, 3, 3), (2, 3, 4, 1), (2, 2, 2, 2, 2)]:
        attempt(('vdw', N, ks), lambda: vdw(N, *ks))

for args in [(5, 3, 3, 0), (5, 3, 3, -1), (5, 3, 3, 2, 0), (5, 3, 3, 'a'), (5, 3, 3, 2.0),
             (5, 3, 3, None), (5, 3, 3, 0, 'a'), (5, 3, 3, 'a', 0), (5, 3, 3, [2]),
             (5, 0, 3, 0), (5, 3, 0, 'a'), (-1, 3, 3, 0), (5, 3, 3, True), (5, 3), (5,),
             ('5', 3, 3, 3), (5, 3, 3, MyInt(2)), (5, 3, 3, Weird(2))]:
    attempt(('vdwbad', repr(args)), lambda: vdw(*args))

# Command line
def run_cli(argv):
    out, err = io.StringIO(), io.StringIO()
    try:
        with contextlib.redirect_stdout(out), contextlib.redirect_stderr(err):
            res = cnfgen(argv, mode='string')
        rec('cli', argv, res, out.getvalue(), err.getvalue())
    except CLIError as e:
        rec('cli', argv, 'CLIError', str(e), out.getvalue(), err.getvalue())
    except SystemExit as e:
        rec('cli', argv, 'SystemExit', e.code, out.getvalue(), err.getvalue())
    except Exception as e:
        rec('cli', argv, type(e).__name__, str(e))


for tail in [[6, 3, 3], [6, 3, 3, 2], [6, 2, 2, 2, 2], [6, 3, 3, 0], [6, 3, 3, -2], [6, 3, 3, 'x'],
             [6, 3, 3, 1, 1, 1], [0, 1, 1, 1], [6, 3], [6, 3, 3, 2.5]]:
    run_cli(['cnfgen', '-q', 'vdw'] + tail)
    run_cli(['cnfgen', 'vdw'] + tail)

print(H.hexdigest())
