"""Equivalence harness for property C16 (graph objects stay consistent).

Exercises Graph / DirectedGraph / BipartiteGraph under random and boundary
sequences of add_edge, remove_edge, update_vertex_number, add_edges_from,
plus networkx round trips and label normalisation, and prints one SHA256
digest of everything observed (views, return values, exceptions).
Run as: cd <checkout> && /venv/bin/python equiv.py
"""
import hashlib
import random
import sys

sys.path.insert(0, '.')

import networkx
from cnfgen.graphs import (Graph, DirectedGraph, BipartiteGraph,
                           CompleteBipartiteGraph, normalize_networkx_labels,
                           _label_sort_key, split_random_edges)

H = hashlib.sha256()


def out(*args):
    H.update((' '.join(repr(a) for a in args) + '\n').encode('utf-8'))


def call(tag, f, *args, **kwargs):
    try:
        res = f(*args, **kwargs)
        if res is not None and not isinstance(res, (int, str, bool, list, tuple)):
            try:
                res = list(res)
            except TypeError:
                res = type(res).__name__
        out(tag, 'ok', res)
        return res
    except Exception as e:
        out(tag, 'EXC', type(e).__name__, str(e))
        return None


def view_simple(G):
    out('n', G.number_of_vertices(), G.order(), len(G), 'm', G.number_of_edges())
    out('name', G.name)
    out('lenadj', len(G.adjlist), sorted(G.edgeset))
    out('vertices', list(G.vertices()))
    E = G.edges()
    out('edges', len(E), list(E))
    n = G.number_of_vertices()
    for u in range(-1, n + 3):
        call('nbr', lambda: list(G.neighbors(u)))
        call('deg', G.degree, u)
        for v in range(0, n + 2):
            out('has', u, v, G.has_edge(u, v), (u, v) in E)
    X = G.to_networkx()
    out('nx', sorted(X.nodes()), sorted(tuple(sorted(e)) for e in X.edges()))
    G2 = call('rt', Graph.from_networkx, X)


def view_directed(D):
    out('n', D.number_of_vertices(), D.order(), len(D), 'm', D.number_of_edges())
    out('name', D.name, 'dag', D.is_dag(), D.is_directed())
    out('edgeset', sorted(D.edgeset), len(D.pred), len(D.succ))
    E = D.edges()
    out('edges', len(E), list(E), list(D.edges_ordered_by_successors()))
    n = D.number_of_vertices()
    for u in range(-1, n + 3):
        call('pred', lambda: list(D.predecessors(u)))
        call('succ', lambda: list(D.successors(u)))
        call('indeg', D.in_degree, u)
        call('outdeg', D.out_degree, u)
        for v in range(0, n + 2):
            out('has', u, v, D.has_edge(u, v), (u, v) in E)
    X = D.to_networkx()
    out('nx', sorted(X.nodes()), sorted(X.edges()))
    D2 = call('rt', DirectedGraph.from_networkx, X)
    D2 = DirectedGraph.from_networkx(X)
    out('rt2', D2.n, D2.m, list(D2.edges()), D2.is_dag(), D2.name)


def view_bipartite(B):
    out('n', B.number_of_vertices(), B.left_order(), B.right_order(),
        'm', B.number_of_edges(), B.name, B.is_bipartite())
    E = B.edges()
    out('edges', len(E), list(E), [list(p) for p in B.parts()])
    L, R = B.left_order(), B.right_order()
    for u in range(-1, L + 3):
        call('rn', lambda: list(B.right_neighbors(u)))
        call('rd', B.right_degree, u)
        for v in range(0, R + 2):
            out('has', u, v, B.has_edge(u, v), (u, v) in E)
    for v in range(-1, R + 3):
        call('ln', lambda: list(B.left_neighbors(v)))
        call('ld', B.left_degree, v)
    X = B.to_networkx()
    out('nx', sorted(X.nodes(data=True)), sorted(X.edges()), X.name)
    B2 = BipartiteGraph.from_networkx(X)
    out('rt', B2.left_order(), B2.right_order(), list(B2.edges()), B2.name)


def rnd_arg(rng, n):
    r = rng.random()
    if r < 0.8:
        return rng.randint(1, max(1, n))
    if r < 0.9:
        return rng.randint(-2, 0)
    return n + rng.randint(1, 3)


def simple_sequences(rng):
    for n0 in [0, 1, 2, 3, 5, 8]:
        for rep in range(6):
            G = Graph(n0) if rep % 2 else Graph(n0, name='G{}_{}'.format(n0, rep))
            out('START simple', n0, rep)
            for step in range(30):
                n = G.number_of_vertices()
                op = rng.choice(['add', 'add', 'add', 'rem', 'upd', 'many', 'dup'])
                if op == 'add':
                    call('add', G.add_edge, rnd_arg(rng, n), rnd_arg(rng, n))
                elif op == 'dup' and G.number_of_edges():
                    u, v = rng.choice(list(G.edges()))
                    call('dup', G.add_edge, v, u)
                    call('dup', G.add_edge, u, v)
                elif op == 'rem':
                    call('rem', G.remove_edge, rnd_arg(rng, n), rnd_arg(rng, n))
                    if G.number_of_edges() and rng.random() < 0.7:
                        u, v = rng.choice(list(G.edges()))
                        if rng.random() < 0.5:
                            u, v = v, u
                        call('rem', G.remove_edge, u, v)
                elif op == 'upd':
                    nv = rng.choice([0, n - 1, n, n + 1, n + 2, n + 4, -1, -3,
                                     1.5, float(n + 1), 'x', None, True, False])
                    call('upd', G.update_vertex_number, nv)
                elif op == 'many':
                    es = [(rnd_arg(rng, n), rnd_arg(rng, n))
                          for _ in range(rng.randint(0, 4))]
                    call('many', G.add_edges_from, es)
                if step % 6 == 5:
                    view_simple(G)
            view_simple(G)


def directed_sequences(rng):
    for n0 in [0, 1, 2, 3, 5, 8]:
        for rep in range(6):
            forward_only = rep in (0, 1)
            D = DirectedGraph(n0) if rep % 2 else DirectedGraph(n0, name=None)
            out('START directed', n0, rep)
            for step in range(25):
                n = D.number_of_vertices()
                u, v = rnd_arg(rng, n), rnd_arg(rng, n)
                if forward_only and u >= v:
                    u, v = v, u + 1
                if rng.random() < 0.2:
                    es = [(u, v), (rnd_arg(rng, n), rnd_arg(rng, n))]
                    if forward_only:
                        es = [(min(a, b), max(a, b) + 1) for a, b in es]
                    call('many', D.add_edges_from, es)
                else:
                    call('add', D.add_edge, u, v)
                    if rng.random() < 0.3:
                        call('dup', D.add_edge, u, v)
                if step % 8 == 7:
                    view_directed(D)
            view_directed(D)


def bipartite_sequences(rng):
    for L0, R0 in [(0, 0), (0, 3), (2, 0), (1, 1), (3, 4), (5, 2)]:
        for rep in range(4):
            B = BipartiteGraph(L0, R0) if rep % 2 else BipartiteGraph(L0, R0, name='B{}'.format(rep))
            out('START bipartite', L0, R0, rep)
            for step in range(20):
                u, v = rnd_arg(rng, L0), rnd_arg(rng, R0)
                if rng.random() < 0.2:
                    call('many', B.add_edges_from,
                         [(u, v), (rnd_arg(rng, L0), rnd_arg(rng, R0))])
                else:
                    call('add', B.add_edge, u, v)
                    if rng.random() < 0.3:
                        call('dup', B.add_edge, u, v)
                if step % 7 == 6:
                    view_bipartite(B)
            view_bipartite(B)
    C = CompleteBipartiteGraph(2, 3)
    C.add_edge(1, 1)
    view_bipartite(C)


def focus_update_vertex_number():
    for n0 in range(0, 5):
        for nv in [0, 1, 2, 3, 4, 5, 9, -1, True, False, 2.0, '3', None, [1]]:
            G = Graph(n0)
            if n0 >= 2:
                G.add_edge(1, n0)
            call('upd', G.update_vertex_number, nv)
            out(G.n, type(G.n).__name__, len(G.adjlist), G.adjlist, G.m,
                list(G.edges()), list(G.vertices()))
            if isinstance(nv, int) and nv > n0 >= 1:
                call('add-new', G.add_edge, 1, nv)
                call('add-out', G.add_edge, 1, nv + 1)
                out(G.adjlist, list(G.edges()))
            # every adjacency list is a distinct object
            out(len({id(x) for x in G.adjlist}) == len(G.adjlist))
    rng = random.Random(99)
    for n, m, k in [(4, 3, 1), (6, 7, 3), (5, 10, 10), (3, 0, 0), (6, 5, 9)]:
        G = Graph(n)
        while G.number_of_edges() < m:
            u, v = rng.sample(range(1, n + 1), 2)
            G.add_edge(u, v)
        S = call('split', split_random_edges, G, k, seed=7)
        if S is not None:
            pass
        try:
            S = split_random_edges(G, k, seed=7)
            view_simple(S)
        except Exception as e:
            out('split EXC', type(e).__name__, str(e))


def focus_labels():
    labels = [0, 1, -1, 10, 2, '2', '10', '-3', '--3', '-', '', 'a', 'B', 'a1',
              '1a', ' 4', '٣', '²', True, False, 2.5, None, (1, 2), ('a',),
              '007', 7, 1.0, 'ß']
    for lab in labels:
        call('key', _label_sort_key, lab)
    rng = random.Random(5)
    nodesets = [
        [], [5], [3, 1, 2], ['10', '2', '1'], ['b', 'a', 'c'],
        [10, '2', 'x', 1, 'a'], ['-1', 0, '3', 2], [(1, 2), (0, 5), (0, 1)],
        [1.5, 0.5, 3], [(1, 2), 'a', 3], [1j, 1], [2j, 'a', 'b'],
        ['2', 2], [True, 0, 5], ['٣', '1', 'z'], ['007', '7', 7],
        [(1, 'a'), (1, 2)], [2.5, 'a'], [frozenset([1]), frozenset([2])],
    ]
    for nodes in nodesets:
        for directed in (False, True):
            for trial in range(3):
                X = networkx.DiGraph() if directed else networkx.Graph()
                order = nodes[:]
                rng.shuffle(order)
                for x in order:
                    X.add_node(x)
                X.name = 'X{}'.format(trial)
                for _ in range(len(nodes)):
                    if len(nodes) >= 2:
                        a, b = rng.sample(range(len(nodes)), 2)
                        X.add_edge(nodes[a], nodes[b])
                try:
                    Y = normalize_networkx_labels(X)
                    out('norm', list(Y.nodes()), list(Y.edges()), Y.name,
                        Y.is_directed())
                except Exception as e:
                    out('norm EXC', type(e).__name__, str(e))
                cls = DirectedGraph if directed else Graph
                try:
                    C = cls.from_networkx(X)
                    out('from', C.n, C.m, list(C.edges()), C.name)
                    if directed:
                        out('dag', C.is_dag())
                except Exception as e:
                    out('from EXC', type(e).__name__, str(e))
                try:
                    C = cls.normalize(X, 'V')
                    out('normalize', C.n, C.m, list(C.edges()), C.name)
                except Exception as e:
                    out('normalize EXC', type(e).__name__, str(e))


class NoName(networkx.Graph):
    @property
    def name(self):
        raise AttributeError('no name here')

    @name.setter
    def name(self, s):
        pass


class BadName(networkx.Graph):
    @property
    def name(self):
        raise KeyError('bad name')

    @name.setter
    def name(self, s):
        pass


def focus_bipartite_from_networkx():
    rng = random.Random(11)

    def report(tag, X):
        for f in (BipartiteGraph.from_networkx,
                  lambda g: BipartiteGraph.normalize(g, 'W')):
            try:
                B = f(X)
                out(tag, B.left_order(), B.right_order(), B.number_of_edges(),
                    list(B.edges()), B.name, B.ladj, B.radj,
                    sorted(B.edgeset))
            except Exception as e:
                out(tag, 'EXC', type(e).__name__, str(e))

    report('notgraph', 'hello')
    report('notgraph', 5)
    report('digraph', networkx.DiGraph())
    report('empty', networkx.Graph())
    for cls in (networkx.Graph, NoName, BadName, networkx.DiGraph,
                networkx.MultiGraph):
        for L, R in [(0, 0), (1, 0), (0, 2), (1, 1), (2, 3), (4, 4)]:
            for colors in [(0, 1), ('0', '1'), (0, '1')]:
                for trial in range(3):
                    X = cls()
                    left = ['l{}'.format(i) for i in range(L)]
                    right = [100 + i for i in range(R)]
                    allnodes = [(x, colors[0]) for x in left] + \
                               [(x, colors[1]) for x in right]
                    rng.shuffle(allnodes)
                    for x, c in allnodes:
                        X.add_node(x, bipartite=c)
                    X.name = 'bip {} {}'.format(L, R)
                    for _ in range(L * R):
                        a, b = rng.choice(left), rng.choice(right)
                        if rng.random() < 0.5:
                            X.add_edge(a, b)
                        else:
                            X.add_edge(b, a)
                    report('good', X)
                    if trial == 1 and L >= 2:
                        X.add_edge(left[0], left[1])
                        report('across-left', X)
                    if trial == 2 and R >= 2:
                        X.add_edge(right[1], right[0])
                        report('across-right', X)
                    if trial == 2 and L >= 1:
                        X.add_edge(left[0], left[0])
                        report('loop', X)
    # bad colourings
    for bad in [None, 2, '2', -1, 'left', 0.0, 1.0, True, False, [0], 'x']:
        X = networkx.Graph()
        X.add_node(1, bipartite=0)
        X.add_node(2, bipartite=bad)
        X.add_edge(1, 2)
        report('badcolor', X)
    X = networkx.Graph()
    X.add_node(1, bipartite=0)
    X.add_node(2)
    report('nocolor', X)
    X = networkx.complete_bipartite_graph(3, 4)
    report('kbip', X)
    X.add_edge(0, 99)
    report('kbip-extra', X)


def main():
    rng = random.Random(20231016)
    simple_sequences(rng)
    directed_sequences(rng)
    bipartite_sequences(rng)
    focus_update_vertex_number()
    focus_labels()
    focus_bipartite_from_networkx()
    # constructor error paths
    for cls in (Graph, DirectedGraph):
        for n in [-1, 1.0, 'a', None, True]:
            call('ctor', lambda: cls(n).n)
    for a in [(-1, 1), (1, -1), (1.0, 1), (1, 'a')]:
        call('ctor', lambda: BipartiteGraph(*a).name)
    print(H.hexdigest())


if __name__ == '__main__':
    main()
