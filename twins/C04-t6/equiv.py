#!/usr/bin/env python
"""Equivalence script for t6: BaseOPB._check_and_update (validation / error path)."""
import sys, os, hashlib, random
from itertools import product
sys.path.insert(0, os.getcwd())

from cnfgen.formula.baseopb import BaseOPB
from cnfgen.formula.opb import OPB

H = hashlib.sha256()


def emit(*args):
    H.update((" ".join(repr(a) for a in args) + "\n").encode())


def describe(e):
    chain = []
    while e is not None and len(chain) < 5:
        chain.append((type(e).__name__, str(e)))
        e = e.__cause__
    return chain


def attempt(tag, F, fn):
    try:
        res = fn()
        emit(tag, 'OK', res)
    except Exception as e:  # noqa
        emit(tag, 'EXC', describe(e))
    emit(tag, 'state', F.number_of_variables(), repr(F._numvar),
         len(F), list(F))


class Weird:
    def __abs__(self):
        return 7

    def __eq__(self, other):
        return False

    def __hash__(self):
        return 1

    def __repr__(self):
        return 'Weird()'


RAW = [
    [], (), '', 'ab', 'abc', [1], ['>='], ['>=', 1], ['==', 0], ['<=', 1], [None, None],
    [(1, 1), '>=', 1], [(1, -1), '==', 1], [(1, 5), (2, -9), '>=', 3],
    ((1, 5), (2, -9), '>=', 3),
    [(1, 0), '>=', 1], [(1, 3), (1, 0), '>=', 1], [(1, 12), (1, 0), '>=', 1],
    [(-1, 3), '>=', 1], [(1, 20), (-1, 3), '>=', 1], [(0, 3), '>=', 1],
    [(-1, 0), '>=', 1], [(1, 30), (1, 2), '<=', 1], [(1, 31), (1, 2), '<', 1],
    [(1, 32), (1, 2), '>', 1], [(1, 33), (1, 2), '!=', 1], [(1, 34), (1, 2), None, 1],
    [(1, 35), (1, 2), 3, 1], [(1, 36), (1, 2), ['>='], 1],
    [(1, 'x'), '>=', 1], [('x', 1), '>=', 1], [(1, None), '>=', 1], [(None, 1), '>=', 1],
    [(1, 2.0), '>=', 1], [(1, 2.5), '>=', 1], [(1.5, 2), '>=', 1], [(1, -40.0), '>=', 1],
    [(1, True), '>=', 1], [(True, 4), '>=', 1], [(1, False), '>=', 1],
    [(1,), '>=', 1], [(1, 2, 3), '>=', 1], [3, '>=', 1], [None, '>=', 1], ['ab', '>=', 1],
    ['a', '>=', 1], [[1, 50], '>=', 1], [(1, 41), 7, '>=', 1], [(1, 42), (1, 'y'), '>=', 1],
    [(1, Weird()), '>=', 1], [(1, 2 ** 70), '>=', 1], [(2 ** 70, -2 ** 71), '==', 1],
    [(1, 1j), '>=', 1], [(1, [1]), '>=', 1], [(1, 60), '>=', None], [(1, 61), '>=', 'v'],
    [(1, 62), '>='], [(1, 63)], [(1, 64), (1, 65)], 5, None, {1: 2}, {(1, 2), '>='},
    range(0), range(3), range(1, 4),
]

# 1. direct calls on fresh and on pre-populated formulas
for start in (0, 10):
    for idx, data in enumerate(RAW):
        F = BaseOPB()
        F.update_variable_number(start)
        attempt(('raw', start, idx), F, lambda: F._check_and_update(data))

# 2. one long-lived formula going through all of them
F = BaseOPB()
for idx, data in enumerate(RAW):
    attempt(('seq', idx), F, lambda: F._check_and_update(data))

# 3. through the public builders (normalisation happens first)
PUB = [c for c in RAW if isinstance(c, list)]
for check in (True, False):
    F = BaseOPB()
    for idx, data in enumerate(PUB):
        attempt(('add_constraint', check, idx), F,
                lambda: F.add_constraint(list(data), check=check))
    attempt(('from', check), F,
            lambda: F.add_constraints_from([[(1, 1), (2, -2), '<', 2], [(1, 0), '>=', 1], [(1, 99), '>=', 1]], check=check))

LITS = [[], [1], [-1], [1, -2, 3], [0], [1, 0, 2], [5, 'a'], [None], [2.0, 3], [1.5], [True, 2],
        (4, -5), range(1, 4), range(0, 3), range(-2, 0), [2 ** 65, -1], [[1]], 'ab', [Weird()]]
OPS = ['cardinality_geq', 'cardinality_leq', 'cardinality_eq', 'cardinality_neq']
for check in (True, False):
    for li, lits in enumerate(LITS):
        for value in (-1, 0, 1, 2, 5):
            for opname in OPS:
                F = OPB()
                attempt((opname, check, li, value), F,
                        lambda: getattr(F, opname)(lits, value, check=check))
        for name in ('add_loose_majority', 'add_loose_minority', 'add_strict_majority',
                     'add_strict_minority', 'add_clause'):
            F = OPB()
            attempt((name, check, li), F, lambda: getattr(F, name)(lits, check=check))
        for const in (0, 1):
            F = OPB()
            attempt(('add_parity', check, li, const), F,
                    lambda: F.add_parity(lits, const, check=check))
        F = OPB()
        attempt(('gen-parity', check, li), F,
                lambda: F.add_parity((x for x in lits), 1, check=check))
        F = OPB()
        attempt(('gen-neq', check, li), F,
                lambda: F.cardinality_neq((x for x in lits), 1, check=check))
        F = OPB()
        attempt(('gen-geq', check, li), F,
                lambda: F.cardinality_geq((x for x in lits), 1, check=check))

attempt(('ctor', 1), BaseOPB(), lambda: list(BaseOPB([[(1, 3), (-2, 2), '>', 1], [(3, -7), '<=', 2]])))
attempt(('ctor', 2), BaseOPB(), lambda: list(BaseOPB([[(1, 3), '>', 1], [(3, 0), '<=', 2]])))
attempt(('ctor', 3), BaseOPB(), lambda: list(BaseOPB([[(1, 3), '!=', 1]])))

# 4. random well formed constraints: variable count and stored constraints
rng = random.Random(20240604)
F = OPB()
for t in range(400):
    k = rng.randint(0, 6)
    terms = [(rng.randint(-4, 4), rng.choice([1, -1]) * rng.randint(1, 25)) for _ in range(k)]
    op = rng.choice(['>=', '<=', '==', '<', '>'])
    val = rng.randint(-8, 8)
    attempt(('rnd', t), F, lambda: F.add_constraint(terms + [op, val], check=rng.random() < 0.8))
emit('opb', F.to_opb())
emit('debug', F.debug(), F.debug(allow_opposite=True, allow_repetition=True))

print(H.hexdigest())
