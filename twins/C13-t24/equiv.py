"""Equivalence script for C13 refactorings (random k-CNF / k-XOR).

Prints one SHA256 digest of everything observable produced."""
import sys, os, io, hashlib, random, contextlib, itertools
sys.path.insert(0, os.getcwd())

import cnfgen
from cnfgen import RandomKCNF, RandomKXOR
from cnfgen.formula.cnf import CNF
from cnfgen.families import randomformulas as RF
from cnfgen.families import randomkxor as RX
from cnfgen.clitools.cnfgen import cli as cnfgen_cli
from cnfgen.clitools.pbgen import cli as pbgen_cli

H = hashlib.sha256()


def emit(*items):
    H.update((repr(items) + "\n").encode())


def attempt(label, fn):
    try:
        res = fn()
        emit(label, 'ok', res)
    except SystemExit as e:
        emit(label, 'exit', e.code)
    except Exception as e:
        emit(label, 'exc', type(e).__name__, str(e))
    emit(label, 'rnd', random.random())


def show(F):
    return (type(F).__name__, F.number_of_variables(), len(F),
            [list(c) for c in F.clauses()], F.header.get('description'),
            F.to_dimacs())


def plants(n, cnt, rng):
    return [[rng.choice([-1, 1]) * v for v in range(1, n + 1)]
            for _ in range(cnt)]


rng = random.Random(1234)

# library level
for gen in (RandomKCNF, RandomKXOR):
    for n in range(0, 6):
        for k in range(0, 7):
            maxm = 2 ** k * len(list(itertools.combinations(range(n), k))) if k <= n else 1
            for m in sorted({0, 1, 2, maxm // 2, maxm - 1, maxm, maxm + 1}):
                if m < 0:
                    continue
                for seed in (None, 0, 'abc', 42):
                    random.seed(repr(('pre', n, k, m)))
                    attempt((gen.__name__, k, n, m, seed),
                            lambda: show(gen(k, n, m, seed=seed)))
                for cnt in (0, 1, 2, 3):
                    pl = plants(n, cnt, rng)
                    random.seed(repr(('pl', n, k, m, cnt)))
                    attempt((gen.__name__, 'planted', k, n, m, cnt, pl),
                            lambda: show(gen(k, n, m, seed=7, planted_assignments=pl)))
                    random.seed(repr(('pl2', n, k, m, cnt)))
                    attempt((gen.__name__, 'planted-tuple', k, n, m, cnt),
                            lambda: show(gen(k, n, m, planted_assignments=tuple(pl))))
    # bad parameters
    for bad in [(-1, 3, 2), (2, -3, 2), (2, 3, -1), (2.0, 3, 1), (2, '3', 1),
                (2, 3, None), (None, 3, 1), (4, 3, 0), (True, 3, 2)]:
        random.seed(5)
        attempt((gen.__name__, 'bad', bad), lambda: show(gen(*bad, seed=3)))
    # partial planted assignments
    random.seed(11)
    attempt((gen.__name__, 'partial'),
            lambda: show(gen(2, 4, 5, planted_assignments=[[1, -2]])))
    attempt((gen.__name__, 'partial2'),
            lambda: show(gen(3, 4, 40, planted_assignments=[[1, -2, 3, 4], [1]])))
    # larger instance, sparse path
    attempt((gen.__name__, 'large'), lambda: show(gen(3, 30, 120, seed=99)))
    attempt((gen.__name__, 'large-planted'),
            lambda: show(gen(3, 20, 80, seed=98,
                             planted_assignments=plants(20, 2, random.Random(3)))))

    class MyCNF(CNF):
        pass
    attempt((gen.__name__, 'class'), lambda: show(gen(2, 5, 6, seed=1, formula_class=MyCNF)))

# module helpers
for n in range(0, 5):
    for k in range(0, 5):
        for cnt in (0, 1, 2):
            pl = plants(n, cnt, rng)
            attempt(('all_clauses', k, n, cnt), lambda: list(RF.all_clauses(k, n, pl)))
            attempt(('all_good_parities', k, n, cnt),
                    lambda: list(RX.all_good_parities(k, n, pl)))
            for m in (0, 1, 3, 100):
                random.seed(repr((n, k, m, cnt)))
                attempt(('sample_clauses', k, n, m, cnt),
                        lambda: RF.sample_clauses(k, n, m, pl))
                random.seed(repr((n, k, m, cnt)))
                attempt(('sample_parities', k, n, m, cnt),
                        lambda: RX.sample_parities(k, n, m, pl))
for cls in ([], [1], [-1], [1, -2], [2, 3], [-3, -1, 2]):
    for asg in ([], [[]], [[1, 2, 3]], [[-1, -2, -3]], [[1, -2, 3], [-1, 2, -3]],
                [[1, 2, 3], []], ((1, -2, -3),), [{-1, 2, 3}]):
        attempt(('clause_satisfied', cls, repr(asg)), lambda: RF.clause_satisfied(cls, asg))
        for b in (0, 1):
            attempt(('parity_satisfied', cls, b, repr(asg)),
                    lambda: RX.parity_satisfied([abs(x) for x in cls], b, asg))


# command line level
def run_cli(cli, argv):
    out, err = io.StringIO(), io.StringIO()
    res = None
    with contextlib.redirect_stdout(out), contextlib.redirect_stderr(err):
        try:
            res = ('ok', cli(argv, mode='string'))
        except SystemExit as e:
            res = ('exit', e.code)
        except Exception as e:
            res = ('exc', type(e).__name__, str(e))
    emit(argv, res, out.getvalue(), err.getvalue(), random.random())


for fam in ('randkcnf', 'randkxor'):
    for extra in ([], ['-p'], ['--plant']):
        for k, n, m in [(1, 1, 0), (1, 1, 1), (1, 1, 2), (1, 1, 3), (2, 3, 4), (2, 3, 12),
                        (2, 3, 13), (3, 3, 8), (3, 3, 9), (3, 3, 4), (3, 3, 5), (3, 5, 10),
                        (4, 3, 1), (3, 8, 20), (2, 2, 2), (2, 2, 3), (0, 3, 1), (2, 0, 1),
                        (2, 3, -1), ('x', 3, 1)]:
            for seed in ('5', 'foo'):
                argv = ['cnfgen', '-q', '--seed', seed, fam] + extra + [str(k), str(n), str(m)]
                run_cli(cnfgen_cli, argv)
            random.seed(77)
            run_cli(cnfgen_cli, ['cnfgen', '-q', fam] + extra + [str(k), str(n), str(m)])
        run_cli(pbgen_cli, ['pbgen', '-q', '--seed', '9', fam] + extra + ['3', '6', '9'])
        run_cli(pbgen_cli, ['pbgen', '-q', '--seed', '9', fam] + extra + ['7', '6', '9'])
    run_cli(cnfgen_cli, ['cnfgen', '-q', fam, '-h'])
    run_cli(cnfgen_cli, ['cnfgen', '-q', fam])
    run_cli(cnfgen_cli, ['cnfgen', '-q', '--seed', '3', '-of', 'latex', fam, '3', '5', '4'])
    run_cli(cnfgen_cli, ['cnfgen', '--seed', '3', fam, '-p', '3', '5', '4'])

# helper classes
from cnfgen.clihelpers import simple_helpers as SH
from cnfgen.clihelpers.formula_helpers import FormulaHelper
from cnfgen.clitools.cmdline import get_formula_helpers
emit([h.__name__ for h in get_formula_helpers()])
for hc in (SH.RandCmdHelper, SH.RandXorHelper):
    emit(hc.__name__, hc.name, hc.description, issubclass(hc, FormulaHelper),
         hc.setup_command_line.__doc__, hc.build_formula.__doc__, hc.__doc__)

    class A:
        pass
    for plant in (False, True):
        for k, n, m in [(2, 4, 5), (3, 3, 4), (3, 3, 5), (5, 3, 1), (1, 2, 5)]:
            a = A()
            a.k, a.n, a.m, a.plant = k, n, m, plant
            random.seed(repr((k, n, m, plant)))
            attempt((hc.__name__, 'build', k, n, m, plant),
                    lambda: show(hc.build_formula(a, CNF)))
            random.seed(repr((k, n, m, plant)))
            attempt((hc.__name__, 'build-inst', k, n, m, plant),
                    lambda: show(hc().build_formula(a, formula_class=CNF)))

print(H.hexdigest())
