#!/usr/bin/env python
"""Equivalence harness for cnfgen.formula.cnfio.guess_output_format and its users.

Run as:  cd <checkout> && /venv/bin/python equiv.py
Prints one SHA256 digest of everything observable.
"""
import sys, os, io, hashlib, contextlib
sys.path.insert(0, os.getcwd())

from cnfgen.formula.cnfio import guess_output_format
from cnfgen.formula.cnf import CNF
from cnfgen.formula.opb import OPB

LOG = []


def rec(*items):
    LOG.append(repr(items))


def attempt(tag, fn, *args, **kwargs):
    try:
        res = fn(*args, **kwargs)
        rec(tag, 'ok', res)
    except BaseException as e:  # noqa
        cause = e.__cause__
        rec(tag, 'exc', type(e).__name__, str(e),
            None if cause is None else (type(cause).__name__, str(cause)))


class Named(io.StringIO):
    """In memory text file with an arbitrary `name` attribute"""
    def __init__(self, name):
        io.StringIO.__init__(self)
        self.name = name


class NameRaises:
    def __init__(self, exc):
        self._exc = exc

    @property
    def name(self):
        raise self._exc

    def write(self, text):
        pass


class WeirdStr(str):
    pass


names = [
    '', 'a', 'a.tex', 'a.opb', 'a.cnf', 'a.TEX', 'a.Opb', 'a.tex.opb', 'a.opb.tex',
    '.tex', '.opb', 'tex', 'opb', 'a.', 'a..tex', 'dir.tex/file', 'dir.opb/file.cnf',
    '/x/y/z.tex', '/x/y.opb/', 'a.tex ', ' a.opb', 'a.latex', 'a.dimacs', 'file.te x',
    'a.tex\n', '<stdout>', '-', 'x.tex.', WeirdStr('q.tex'), WeirdStr('q.opb'), 'a.b.c.d.opb',
    'é.tex', 'a.é',
]
requests = [None, 'latex', 'dimacs', 'opb', 'tex', 'LATEX', 'Opb', '', 'cnf', 0, 1, False, True,
            5.5, [], ['opb'], ('latex',), {}, b'opb', WeirdStr('opb'), WeirdStr('bad')]

# 1. plain strings
for n in names:
    for r in requests:
        attempt(('str', n, repr(r)), guess_output_format, n, r)

# 2. file-like objects
fileobjs = [('stringio', io.StringIO()), ('bytesio', io.BytesIO()), ('none', None), ('int', 7),
            ('list', ['a.tex']), ('tuple', ('a.opb',)), ('bytes', b'a.tex'),
            ('stdout', sys.__stdout__), ('stderr', sys.__stderr__), ('object', object())]
for n in names:
    fileobjs.append(('named:' + n, Named(n)))
for weird in [None, 3, 3.5, b'a.tex', b'a.opb', b'noext', ['a.tex'], ('a', 'tex'), {'a': 1},
              os.path, WeirdStr('w.opb'), bytearray(b'x.tex')]:
    fileobjs.append(('namedweird:' + repr(weird), Named(weird)))
for exc in [AttributeError('no name'), ValueError('closed'), IndexError('idx'),
            KeyError('k'), TypeError('t'), RuntimeError('r'), OSError('o'), LookupError('l'),
            UnicodeError('u')]:
    fileobjs.append(('raises:' + type(exc).__name__, NameRaises(exc)))


class PathLike:
    def __init__(self, p):
        self.p = p

    def __fspath__(self):
        return self.p


fileobjs.append(('pathlike', PathLike('a.tex')))
fileobjs.append(('named-pathlike', Named(PathLike('b.opb'))))

for tag, fo in fileobjs:
    for r in requests:
        attempt(('obj', tag, repr(r)), guess_output_format, fo, r)

# 3. through the formula classes: to_file picks the writer according to the guess


def cnf_formulas():
    yield 'empty', CNF()
    yield 'emptyclause', CNF([[]])
    yield 'small', CNF([[1, -2, 3], [], [-3], [2, 2, -2]], description='small_cnf é')
    F = CNF(description='with names')
    x = F.new_variable('X')
    B = F.new_block(2, 2, label='y_{{{},{}}}')
    F.add_clause([x, -B(1, 2), B(2, 2)])
    F.add_clause([-x])
    F.update_variable_number(7)
    F.header['multi'] = 'line1\nline2\n'
    yield 'named', F
    G = CNF()
    for i in range(1, 80):
        G.add_clause([i, -(i % 7 + 1)])
    yield 'long', G


def opb_formulas():
    yield 'empty', OPB()
    F = OPB(description='pb_formula')
    F.add_constraint([(2, 1), (-3, 2), (1, -3), '<=', 2])
    F.add_constraint([(1, 1), (1, 2), '==', 1])
    F.add_constraint(['>=', 0])
    F.add_constraint([(5, -4), '>', -3])
    F.add_clause([1, -2])
    F.add_clause([])
    yield 'mixed', F
    G = OPB()
    p = G.new_mapping(3, 2)
    G.force_complete_mapping(p)
    G.force_injective_mapping(p)
    yield 'php', G
    H = OPB()
    for i in range(1, 75):
        H.add_constraint([(i, i), (1, -(i % 5 + 1)), '>=', i % 3])
    yield 'long', H


def dump_to(F, fo, **kw):
    F.to_file(fo, **kw)
    return fo.getvalue()


for maker in (cnf_formulas, opb_formulas):
    for fname, F in maker():
        for target in ['out.tex', 'out.opb', 'out.cnf', 'out', '', 'x.tex.opb', None, 12]:
            for fmt in [None, 'latex', 'opb', 'dimacs', 'tex', 'bogus', 3]:
                for hdr in (True, False):
                    for vn in (True, False):
                        attempt(('to_file', maker.__name__, fname, repr(target), repr(fmt), hdr, vn),
                                dump_to, F, Named(target), fileformat=fmt,
                                export_header=hdr, export_varnames=vn, extra_text='EXTRA\n')
        # unnamed in memory file
        for fmt in [None, 'latex', 'opb', 'dimacs', 'nope']:
            attempt(('to_file-stringio', maker.__name__, fname, fmt),
                    dump_to, F, io.StringIO(), fileformat=fmt)
        # stdout
        for fmt in [None, 'latex', 'opb', 'nope']:
            buf = io.StringIO()
            with contextlib.redirect_stdout(buf):
                attempt(('to_file-stdout', maker.__name__, fname, fmt), F.to_file, None, fmt)
            rec('stdout', buf.getvalue())

# 4. command line tools use the guess to decide what to print
from cnfgen.clitools.cnfgen import cli as cnfgen_cli
from cnfgen.clitools.pbgen import cli as pbgen_cli

cmdlines = [
    (cnfgen_cli, ['cnfgen', '-q', 'php', 3, 2]),
    (cnfgen_cli, ['cnfgen', '-q', '-of', 'opb', 'php', 3, 2]),
    (cnfgen_cli, ['cnfgen', '-q', '-of', 'latex', 'php', 3, 2]),
    (cnfgen_cli, ['cnfgen', '-q', '-l', 'op', 3]),
    (cnfgen_cli, ['cnfgen', '-v', '--varnames', '-of', 'opb', 'op', 3]),
    (cnfgen_cli, ['cnfgen', '-of', 'bogus', 'op', 3]),
    (pbgen_cli, ['pbgen', '-q', 'php', 3, 2]),
    (pbgen_cli, ['pbgen', '-q', '-of', 'latex', 'php', 3, 2]),
    (pbgen_cli, ['pbgen', '-v', '--varnames', 'php', 3, 2]),
    (pbgen_cli, ['pbgen', '-q', '-l', 'php', 4, 2]),
    (pbgen_cli, ['pbgen', '-of', 'dimacs', 'php', 3, 2]),
]
for cli, argv in cmdlines:
    for mode in ['string', 'output']:
        out, err = io.StringIO(), io.StringIO()
        with contextlib.redirect_stdout(out), contextlib.redirect_stderr(err):
            attempt(('cli', argv, mode), cli, list(argv), mode=mode)
        rec('cli-out', out.getvalue(), err.getvalue())

blob = "\n".join(LOG).encode('utf-8', errors='backslashreplace')
print(hashlib.sha256(blob).hexdigest())
