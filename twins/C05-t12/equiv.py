#!/usr/bin/env python
"""Equivalence digest for VariablesManager.all_variable_labels.

Exercises the label generator directly (mixed named / unnamed variables,
empty groups, trailing unnamed variables, custom default format, lazy
consumption) and through every substitution / lifting / compression
transformation, which name their new variables from the old labels.
Prints one SHA256 digest.
"""
import sys
import os
import io
import hashlib
import random
from itertools import islice

sys.path.insert(0, os.getcwd())

from cnfgen import CNF
from cnfgen.graphs import BipartiteGraph
from cnfgen.transformations import substitutions as S
from cnfgen.clitools import cnfgen as cli, CLIError

H = hashlib.sha256()


def emit(*items):
    for it in items:
        H.update(repr(it).encode('utf-8'))
        H.update(b'\x00')


def attempt(tag, fn):
    try:
        res = fn()
        emit(tag, 'ok', res)
    except BaseException as e:  # record every observable failure
        emit(tag, 'exc', type(e).__name__, str(e))
        if os.environ.get('EQUIV_DEBUG'):
            print(tag, type(e).__name__, str(e)[:100], file=sys.stderr)


def formula_dump(F):
    buf = io.StringIO()
    F.to_file(buf, fileformat='dimacs', export_header=True, export_varnames=True)
    return (F.number_of_variables(), list(F.all_variable_labels()),
            list(F.clauses()), dict(F.header), buf.getvalue(), F.to_latex())


# ---------------------------------------------------------------- direct use
def build_formulas():
    out = []
    F = CNF()
    out.append(('empty', F))

    F = CNF([[1, -2], [3], []])
    out.append(('anonymous', F))

    F = CNF()
    F.new_variable('a')
    F.new_variable('b{c}')
    F.new_block(2, 3, label='z_{{{},{}}}')
    out.append(('named', F))

    F = CNF()
    F.add_clause([1, -3])          # three unnamed variables first
    F.new_variable('X')
    F.new_block(0, label='e{}')    # empty group
    F.add_clause([-6, 2])          # unnamed 5,6
    F.new_block(2, label='w^{}')
    F.new_block(3, 0, label='q({},{})')
    F.new_variable('U')
    F.update_variable_number(13)   # trailing unnamed
    out.append(('mixed', F))

    F = CNF([[1, -2]])
    F.new_variable()               # variable whose label is None
    F.new_variable('after')
    out.append(('nolabel', F))

    F = CNF()
    F.new_block(0, label='n{}')
    F.new_block(0, label='m{}')
    out.append(('onlyempty', F))

    F = CNF()
    F.new_block(0, label='n{}')
    F.update_variable_number(2)
    F.new_block(1, label='s{}')
    F.add_clause([1, 1, -1, 3, -3], check=True)
    out.append(('gap', F))

    F = CNF()
    F.update_variable_number(4)
    F.new_combinations(4, 2)
    F.update_variable_number(12)
    F.add_clause([-12, 5])
    out.append(('combs', F))

    rnd = random.Random(1234)
    for t in range(6):
        F = CNF()
        for step in range(rnd.randint(1, 6)):
            c = rnd.randint(0, 4)
            if c == 0:
                F.new_variable('v{}'.format(step))
            elif c == 1:
                F.new_block(rnd.randint(0, 3), label='b%d_{}' % step)
            elif c == 2:
                F.update_variable_number(F.number_of_variables() + rnd.randint(0, 3))
            elif c == 3:
                F.new_block(rnd.randint(0, 2), rnd.randint(0, 2), label='c{}{}')
            else:
                F.new_variable('u{{{}}}'.format(step))
        n = F.number_of_variables()
        for j in range(rnd.randint(0, 5)):
            if n == 0:
                F.add_clause([])
            else:
                F.add_clause([rnd.choice([-1, 1]) * rnd.randint(1, n)
                              for _ in range(rnd.randint(0, 4))])
        out.append(('rnd{}'.format(t), F))
    return out


FORMULAS = build_formulas()

for tag, F in FORMULAS:
    attempt(tag + ':labels', lambda: list(F.all_variable_labels()))
    attempt(tag + ':labels-fmt', lambda: list(F.all_variable_labels('y_{{{}}}')))
    attempt(tag + ':labels-const', lambda: list(F.all_variable_labels('k')))
    attempt(tag + ':labels-pos', lambda: list(F.all_variable_labels(default_label_format='<{0}{0}>')))
    attempt(tag + ':labels-bad', lambda: list(F.all_variable_labels('{}{}')))
    attempt(tag + ':labels-none', lambda: list(F.all_variable_labels(None)))
    attempt(tag + ':dump', lambda: formula_dump(F))
    # lazy consumption: take a prefix, then grow the formula, then continue
    def lazy():
        G = CNF(list(F.clauses()))
        G.new_variable('L')
        gen = G.all_variable_labels()
        head = list(islice(gen, 2))
        G.update_variable_number(G.number_of_variables() + 2)
        return head, list(gen)
    attempt(tag + ':lazy', lazy)


# ------------------------------------------------------- via transformations
def graph_for(F, R, seed):
    rnd = random.Random(seed)
    L = F.number_of_variables()
    B = BipartiteGraph(L, R)
    for u in range(1, L + 1):
        for v in range(1, R + 1):
            if rnd.random() < 0.5:
                B.add_edge(u, v)
    return B


def transformations(F):
    yield 'flip', lambda: S.FlipPolarity(F)
    yield 'ite', lambda: S.IfThenElseSubstitution(F)
    for k in (1, 2, 3):
        yield 'xor%d' % k, lambda k=k: S.XorSubstitution(F, k)
        yield 'or%d' % k, lambda k=k: S.OrSubstitution(F, k)
        yield 'maj%d' % k, lambda k=k: S.MajoritySubstitution(F, k)
        yield 'eq%d' % k, lambda k=k: S.AllEqualSubstitution(F, k)
        yield 'neq%d' % k, lambda k=k: S.NotAllEqualSubstitution(F, k)
        yield 'one%d' % k, lambda k=k: S.ExactlyOneSubstitution(F, k)
        yield 'lift%d' % k, lambda k=k: S.FormulaLifting(F, k)
        for c in (0, 1, k):
            yield 'exact%d_%d' % (k, c), lambda k=k, c=c: S.ExactlyKSubstitution(F, k, c)
            yield 'atleast%d_%d' % (k, c), lambda k=k, c=c: S.AtLeastKSubstitution(F, k, c)
            yield 'atmost%d_%d' % (k, c), lambda k=k, c=c: S.AtMostKSubstitution(F, k, c)
            yield 'anybut%d_%d' % (k, c), lambda k=k, c=c: S.AnythingButKSubstitution(F, k, c)
    for R in (0, 1, 3):
        for fn in ('xor', 'maj'):
            yield '%scomp%d' % (fn, R), lambda R=R, fn=fn: S.VariableCompression(
                F, graph_for(F, R, 77 + R), fn)


for tag, F in FORMULAS:
    if F.number_of_variables() > 9:
        Fs = F
        names = ['flip', 'ite', 'xor2', 'or2', 'lift1', 'lift2', 'eq2', 'xorcomp3']
    else:
        Fs = F
        names = None
    for name, fn in transformations(Fs):
        if names is not None and name not in names:
            continue
        attempt(tag + ':' + name, lambda: formula_dump(fn()))
    # a transformation of a transformation (labels with braces get escaped)
    attempt(tag + ':or2-xor2', lambda: formula_dump(S.XorSubstitution(S.OrSubstitution(F, 2), 2))
            if F.number_of_variables() <= 6 else None)
    attempt(tag + ':ite-lift', lambda: formula_dump(S.FormulaLifting(S.IfThenElseSubstitution(F), 2))
            if F.number_of_variables() <= 6 else None)


# ------------------------------------------------------------ command line
CMDS = [
    ['cnfgen', '-q', '--varnames', 'php', 3, 2, '-T', 'xor', 2],
    ['cnfgen', '-v', '--varnames', 'op', 3, '-T', 'lift', 2, '-T', 'flip'],
    ['cnfgen', '--varnames', 'and', 2, 1, '-T', 'ite', '-T', 'or', 2],
    ['cnfgen', '-of', 'latex', 'peb', 'pyramid', 1, '-T', 'maj', 3],
    ['cnfgen', '-of', 'latex', 'or', 2, 1, '-T', 'one', 2],
    ['cnfgen', '--varnames', '--seed', 5, 'randkcnf', 3, 5, 6, '-T', 'xorcomp', 4, 2],
    ['cnfgen', '--varnames', '--seed', 5, 'randkcnf', 3, 5, 6, '-T', 'majcomp', 'glrd', 5, 4, 3],
    ['cnfgen', '--varnames', 'tseitin', 'first', 'complete', 4, '-T', 'neq', 3],
]
for argv in CMDS:
    def run(argv=argv):
        random.seed(99)
        return cli(argv, mode='string')
    attempt('cli:' + ' '.join(map(str, argv)), run)

print(H.hexdigest())
