"""Equivalence check for bipartite_random_regular (cnfgen/graphs.py)."""
import warnings
warnings.simplefilter("ignore")
import hashlib
import io
import random
import sys
import contextlib

sys.path.insert(0, '.')

from cnfgen.graphs import bipartite_random_regular
from cnfgen.clitools.graph_args import make_graph_from_spec
from cnfgen.clitools.cnfgen import cli

H = hashlib.sha256()
DEBUG = False


def emit(*items):
    for x in items:
        H.update(repr(x).encode('utf-8'))
        H.update(b'\n')


def dump(G):
    emit(type(G).__name__, G.name, G.left_order(), G.right_order(), G.number_of_edges())
    emit(sorted(G.edges()))
    emit([G.right_degree(u) for u in range(1, G.left_order() + 1)])
    emit([G.left_degree(v) for v in range(1, G.right_order() + 1)])
    emit([list(G.right_neighbors(u)) for u in range(1, G.left_order() + 1)])


def attempt(label, fn, *args, **kwargs):
    emit('CASE', label)
    try:
        G = fn(*args, **kwargs)
    except BaseException as e:
        emit('EXC', type(e).__name__, str(e))
        if DEBUG:
            print(label, type(e).__name__, str(e)[:60])
    else:
        dump(G)
    # state of the random stream after the call
    emit(random.random())


# library function, all small parameters (legal and illegal), several seeds
for l in range(0, 7):
    for r in range(0, 7):
        for d in range(0, 7):
            for seed in (1, 2, 3):
                if r == 0:
                    # ZeroDivisionError path
                    random.seed(seed)
                    attempt(('lib0', l, r, d, seed), bipartite_random_regular, l, r, d)
                    continue
                if d > r:
                    # no such graph exists: the library function restarts forever
                    continue
                random.seed(1000 + seed)
                attempt(('lib', l, r, d, seed), bipartite_random_regular, l, r, d, seed=seed)

for args in ((-1, 2, 2), (2, -1, 2), (2, 2, -1), (3, 2, 1), (4, 6, 2), (5, 3, 2)):
    random.seed(9)
    attempt(('bad', args), bipartite_random_regular, *args)

# dense cases, where the retry loop is exhausted and the exhaustive
# search (and possibly the restart) is used
for seed in range(60):
    for (l, r, d) in ((4, 4, 4), (5, 5, 5), (6, 3, 3), (3, 6, 6), (6, 6, 5), (2, 2, 2), (1, 1, 1),
                      (8, 4, 4), (7, 7, 6)):
        random.seed(seed)
        attempt(('dense', l, r, d, seed), bipartite_random_regular, l, r, d)

# larger sparse cases
for seed in range(5):
    for (l, r, d) in ((30, 30, 3), (40, 20, 4), (20, 40, 6), (50, 25, 1), (12, 18, 9)):
        attempt(('big', l, r, d, seed), bipartite_random_regular, l, r, d, seed)

# biased random choices: the sampler mostly proposes the first candidate
# pair, so that the retries are exhausted while free pairs still exist
# and the exhaustive search has to supply the edge
real_randint = random.randint
for seed in range(40):
    for (l, r, d) in ((4, 4, 2), (5, 5, 3), (6, 3, 2), (3, 6, 4), (6, 6, 5), (4, 4, 4), (8, 4, 3),
                      (2, 2, 1), (10, 10, 2)):
        private = random.Random(seed)

        def biased_randint(a, b):
            if private.random() < 0.93:
                return a
            return private.randint(a, b)

        random.randint = biased_randint
        try:
            attempt(('biased', l, r, d, seed), bipartite_random_regular, l, r, d)
        finally:
            random.randint = real_randint

# through graph specifications
specs = [
    'regular 5 5 2', 'regular 6 4 2', 'regular 4 6 3', 'regular 4 4 4', 'regular 4 4 0',
    'regular 4 4 5', 'regular 4 6 2', 'regular 0 4 2', 'regular 4 0 2', 'regular 4 4 -1',
    'regular 4 4', 'regular 4 4 2 2', 'regular 4 4 x', 'regular 4 4 1.5',
    'regular 6 6 3 plantbiclique 2 2', 'regular 6 6 3 addedges 4', 'regular 3 3 3 addedges 1',
    'regular 6 3 2 plantbiclique 7 1', 'regular 9 3 1', 'regular 3 9 3',
]
for spec in specs:
    for seed in (11, 12):
        random.seed(seed)
        attempt(('spec', spec, seed), make_graph_from_spec, 'bipartite', spec)

cmdlines = [
    ['cnfgen', '-q', '--seed', '5', 'php', 'regular', '6', '4', '2'],
    ['cnfgen', '-q', '--seed', '6', 'php', 'regular', '5', '5', '5'],
    ['cnfgen', '-q', '--seed', '7', 'matching', 'regular', '5', '5', '3'] ,
    ['cnfgen', '-q', '--seed', '5', 'php', 'regular', '6', '4', '3'],
    ['cnfgen', '-q', '--seed', '5', 'subsetcard', 'regular', '6', '6', '4'],
    ['cnfgen', '-q', '--seed', '5', 'php', 'regular', '6', '4', '5'],
]
for argv in cmdlines:
    out, err = io.StringIO(), io.StringIO()
    emit('CLI', argv)
    try:
        with contextlib.redirect_stdout(out), contextlib.redirect_stderr(err):
            cli(argv)
    except SystemExit as e:
        emit('EXIT', e.code)
    except BaseException as e:
        emit('EXC', type(e).__name__, str(e))
    emit(out.getvalue(), err.getvalue())

print(H.hexdigest())
