"""Equivalence script for the refactoring of VariablesManager.all_variable_labels
(cnfgen/formula/variables.py), used for the 'c varname' comments of DIMACS output."""
import sys, os, io, hashlib, random
sys.path.insert(0, os.getcwd())

import networkx as nx
from cnfgen.formula.cnf import CNF
from cnfgen.graphs import Graph, BipartiteGraph, DirectedGraph
from cnfgen.families.pigeonhole import PigeonholePrinciple, GraphPigeonholePrinciple, BinaryPigeonholePrinciple
from cnfgen.families.ordering import OrderingPrinciple
from cnfgen.families.pebbling import PebblingFormula
from cnfgen.families.tseitin import TseitinFormula
from cnfgen.families.counting import CountingPrinciple
from cnfgen.families.cliquecoloring import CliqueColoring
from cnfgen.transformations.substitutions import XorSubstitution, OrSubstitution
from cnfgen.transformations.shuffle import Shuffle

out = []
def rec(*a):
    out.append(repr(a))

def observe(tag, F):
    # labels, with several default formats
    for fmt in ['x{}', 'y_{{{}}}', 'v', '{}{}'[:2]]:
        try:
            rec(tag, 'labels', fmt, list(F.all_variable_labels(fmt)))
        except BaseException as e:
            rec(tag, 'labels-exc', fmt, type(e).__name__, str(e))
    try:
        rec(tag, 'labels-default', list(F.all_variable_labels()))
    except BaseException as e:
        rec(tag, 'labels-exc', type(e).__name__, str(e))
    # partial consumption of the generator
    g = F.all_variable_labels()
    part = []
    for _ in range(3):
        try:
            part.append(next(g))
        except StopIteration:
            part.append('<stop>')
            break
        except BaseException as e:
            part.append((type(e).__name__, str(e)))
            break
    rec(tag, 'partial', part)
    for hdr in (True, False):
        for vn in (True, False):
            buf = io.StringIO()
            try:
                F.to_file(buf, fileformat='dimacs', export_header=hdr, export_varnames=vn)
                text = buf.getvalue()
                rec(tag, 'dimacs', hdr, vn, text)
                G = CNF.from_file(io.StringIO(text))
                rec(tag, 'rt', G.number_of_variables() == F.number_of_variables(),
                    list(G) == list(F))
            except BaseException as e:
                rec(tag, 'dimacs-exc', hdr, vn, type(e).__name__, str(e))
    for ff in ('opb', 'latex'):
        buf = io.StringIO()
        try:
            F.to_file(buf, fileformat=ff, export_header=False, export_varnames=True)
            rec(tag, ff, buf.getvalue())
        except BaseException as e:
            rec(tag, ff + '-exc', type(e).__name__, str(e))

# hand made formulas ----------------------------------------------------
observe('empty', CNF())
observe('emptyclause', CNF([[]]))
observe('nogroups', CNF([[1, -2], [4]]))

F = CNF()
F.update_variable_number(3)
observe('unused-only', F)

F = CNF()
F.new_variable('a')
observe('single', F)

F = CNF()
F.new_variable()
F.new_variable('weird name\nwith newline')
F.new_variable('ünï©ode')
observe('singles', F)

# gaps before, between and after groups
F = CNF()
F.update_variable_number(2)
a = F.new_variable('A')
F.update_variable_number(5)
b = F.new_block(2, 3, label='b[{},{}]')
F.add_clause([a, -b(2, 3), 1])
F.update_variable_number(14)
c = F.new_combinations(4, 2, label='c{{{}}}')
F.add_clause([20, -21])
observe('gaps', F)

# gap created by clauses mentioning large literals
F = CNF([[7, -9]])
z = F.new_block(3, label='z_{}')
F.add_clause([-z(1), 12])
w = F.new_variable('w')
observe('clausegap', F)

# empty groups
F = CNF()
e0 = F.new_block(0, label='e_{}')
x = F.new_variable('x')
e1 = F.new_block(3, 0, label='q_{},{}')
y = F.new_block(2, label='y_{}')
e2 = F.new_combinations(2, 3, label='k{}')
observe('emptygroups', F)

F = CNF()
F.new_block(0)
observe('only-empty-group', F)

F = CNF()
F.update_variable_number(4)
F.new_block(0)
F.new_combinations(1, 2)
observe('empty-groups-and-plain', F)

# all kinds of groups
F = CNF()
F.new_block(2, 2, 2)
F.new_combinations(4, 2)
F.new_combinations_with_replacement(3, 2)
F.new_permutations(3)
F.new_permutations(4, 2)
F.new_words(2, 3)
B = BipartiteGraph(3, 2)
B.add_edge(1, 1); B.add_edge(2, 2); B.add_edge(3, 1); B.add_edge(3, 2)
F.new_bipartite_edges(B)
G = Graph(4)
G.add_edge(1, 2); G.add_edge(2, 3); G.add_edge(1, 4)
F.new_graph_edges(G)
D = DirectedGraph(3)
D.add_edge(1, 2); D.add_edge(1, 3); D.add_edge(2, 3)
F.new_digraph_edges(D)
F.new_digraph_edges(D, sortby='succ')
F.update_variable_number(F.number_of_variables() + 2)
F.new_mapping(2, 3)
F.new_sparse_mapping(B)
F.new_binary_mapping(3, 4)
F.new_variable('last')
F.update_variable_number(F.number_of_variables() + 1)
observe('allkinds', F)

# corrupted manager: variable number lowered behind the manager's back
F = CNF()
F.new_block(3)
F._numvar = 2
observe('corrupt-low', F)

# families and transformations -------------------------------------------
random.seed(42)
observe('php', PigeonholePrinciple(4, 3))
observe('fphp', PigeonholePrinciple(3, 2, functional=True, onto=True))
observe('bphp', BinaryPigeonholePrinciple(3, 2))
observe('gphp', GraphPigeonholePrinciple(B))
observe('op', OrderingPrinciple(3))
observe('opt', OrderingPrinciple(4, total=True, smart=True))
observe('count', CountingPrinciple(4, 2))
observe('tseitin', TseitinFormula(G))
P = DirectedGraph(3)
P.add_edge(1, 3); P.add_edge(2, 3)
observe('peb', PebblingFormula(P))
observe('cliquecol', CliqueColoring(4, 3, 2))
observe('xor', XorSubstitution(PigeonholePrinciple(3, 2), 2))
observe('or', OrSubstitution(OrderingPrinciple(3), 2))
observe('shuffle', Shuffle(PigeonholePrinciple(3, 2)))

print(hashlib.sha256("\n".join(out).encode('utf-8', 'backslashreplace')).hexdigest())
