#!/usr/bin/env python
"""Equivalence script for the refactoring of cnfgen.formula.cnfio.guess_output_format"""
import hashlib
import io
import os
import sys
import tempfile
import contextlib

sys.path.insert(0, os.getcwd())

import cnfgen.info
# the version is derived from `git describe`: pin it, so that the digest
# does not depend on the commit that is checked out
cnfgen.info.info['version'] = 'VERSION'

from cnfgen.formula.cnfio import guess_output_format
from cnfgen.formula.cnf import CNF
from cnfgen.formula.opb import OPB
from cnfgen.clitools.cnfgen import cli as cnfgen_cli
from cnfgen.clitools.pbgen import cli as pbgen_cli

LOG = []


TMPDIRS = []


def rec(*items):
    text = repr(items)
    for d in TMPDIRS:
        text = text.replace(d, 'TMP')
    LOG.append(text)


def attempt(tag, fn, *args, **kwargs):
    try:
        res = fn(*args, **kwargs)
        rec(tag, 'OK', res)
    except SystemExit as e:
        rec(tag, 'EXIT', e.code)
    except BaseException as e:  # noqa
        rec(tag, 'EXC', type(e).__name__, str(e))


class Named:
    def __init__(self, name):
        self.name = name

    def __repr__(self):
        return 'Named({!r})'.format(self.name)


class Raising:
    def __init__(self, exc):
        self.exc = exc

    @property
    def name(self):
        raise self.exc

    def __repr__(self):
        return 'Raising({})'.format(type(self.exc).__name__)


class StrSub(str):
    pass


names = [
    '', 'a', 'a.tex', 'a.opb', 'a.cnf', 'a.TEX', 'a.OPB', 'a.tex.opb',
    'a.opb.tex', '.tex', '.opb', 'tex', 'opb', 'a.tex ', 'a.', 'a..tex',
    'dir.tex/file', 'dir.opb/file.cnf', 'dir/file.opb', '/x/y.z/w.tex',
    'a.latex', 'a.dimacs', 'a.opb\n', 'ü.tex', 'a b.opb', '-', '-.tex',
    StrSub('q.opb'), StrSub('q.tex'), StrSub('q')
]
objects = [
    None, 0, 3.5, [], (), {}, b'a.tex', b'a.opb', io.StringIO(), io.BytesIO(),
    Named('x.tex'), Named('x.opb'), Named('x.cnf'), Named(''), Named(None),
    Named(7), Named(b'x.tex'), Named(b'x.opb'), Named(['a.tex']),
    Named(('a', 'b.opb')), Named(StrSub('z.tex')), Named(3.2),
    Raising(AttributeError('a')), Raising(ValueError('v')),
    Raising(IndexError('i')), Raising(KeyError('k')),
    Raising(TypeError('t')), Raising(OSError('o')),
    Raising(RuntimeError('r')), sys.stdout, sys.stdin
]
requests = [
    None, 'latex', 'dimacs', 'opb', 'tex', 'LATEX', 'Opb', '', ' ', 'cnf',
    0, 1, False, True, [], ['opb'], ('latex', ), {}, b'opb', 1.5,
    StrSub('opb'), StrSub('latex'), StrSub('nope')
]

for req in requests:
    for pos, fn in enumerate(names + objects):
        attempt(('guess', pos, type(fn).__name__, repr(req)),
                guess_output_format, fn, req)

# Through the formula objects
tmpdir = tempfile.mkdtemp(prefix='c12t15')
TMPDIRS.append(tmpdir)


def formulas():
    F = CNF([[1, -2, 3], [], [-3], [2, 4]], description='a cnf_formula')
    yield 'cnf', F
    F = CNF()
    yield 'cnf-empty', F
    F = CNF(description='named')
    x = F.new_variable(label='X_1')
    ys = F.new_block(2, 2, label='y_{{{},{}}}')
    F.add_clause([x, -ys(1, 2)])
    F.add_clause([-x, ys(2, 1), ys(2, 2)])
    yield 'cnf-named', F
    P = OPB(description='a pb formula')
    P.add_constraint([(3, 1), (-2, 2), (1, -4), '>=', 2])
    P.add_constraint([(1, 1), (1, 3), '==', 1])
    P.add_constraint(['>=', 0])
    P.add_constraint([(2, -3), '<', 1])
    yield 'opb', P
    yield 'opb-empty', OPB()
    P = OPB()
    m = P.new_mapping(2, 3)
    P.force_complete_mapping(m)
    P.force_injective_mapping(m)
    yield 'opb-named', P


fnames = ['f', 'f.tex', 'f.opb', 'f.cnf', 'f.TEX', 'f.opb.tex', 'f.tex.opb',
          '.tex', '.opb', 'f.']
fmts = [None, 'latex', 'opb', 'dimacs', 'tex', '']
count = 0
for tag, F in formulas():
    for fname in fnames:
        for fmt in fmts:
            for hdr, vn in [(True, False), (False, True)]:
                count += 1
                path = os.path.join(tmpdir, "{}_{}".format(count, fname))
                try:
                    F.to_file(path, fileformat=fmt, export_header=hdr,
                              export_varnames=vn, extra_text='EXTRA\n')
                    with open(path, encoding='utf-8') as fh:
                        rec(tag, fname, fmt, hdr, vn, 'OK', fh.read())
                except BaseException as e:  # noqa
                    rec(tag, fname, fmt, hdr, vn, 'EXC',
                        type(e).__name__, str(e), os.path.exists(path))
    # file objects
    for fmt in fmts:
        for obj in [io.StringIO(), None]:
            out = io.StringIO()
            try:
                with contextlib.redirect_stdout(out):
                    F.to_file(obj, fileformat=fmt)
                rec(tag, 'obj', fmt, 'OK', out.getvalue(),
                    obj.getvalue() if obj is not None else None)
            except BaseException as e:  # noqa
                rec(tag, 'obj', fmt, 'EXC', type(e).__name__, str(e))
        for fname in ['g.tex', 'g.opb', 'g.cnf', 'g']:
            path = os.path.join(tmpdir, 'h_' + fname)
            try:
                with open(path, 'w', encoding='utf-8') as fh:
                    F.to_file(fh, fileformat=fmt)
                with open(path, encoding='utf-8') as fh:
                    rec(tag, 'fileobj', fname, fmt, 'OK', fh.read())
            except BaseException as e:  # noqa
                rec(tag, 'fileobj', fname, fmt, 'EXC', type(e).__name__,
                    str(e))


# Through the command line tools
def run_cli(tag, cli, argv, outname):
    out, err = io.StringIO(), io.StringIO()
    path = None
    if outname is not None:
        path = os.path.join(tmpdir, 'cli_' + outname)
        argv = argv[:1] + ['-o', path] + argv[1:]
    try:
        with contextlib.redirect_stdout(out), contextlib.redirect_stderr(err):
            res = cli(argv, mode='output')
        status = ('OK', repr(res))
    except SystemExit as e:
        status = ('EXIT', e.code)
    except BaseException as e:  # noqa
        status = ('EXC', type(e).__name__, str(e))
    content = None
    if path is not None and os.path.exists(path):
        with open(path, encoding='utf-8') as fh:
            content = fh.read()
        os.unlink(path)
    rec(tag, [a.replace(tmpdir, 'TMP') for a in argv], status,
        out.getvalue().replace(tmpdir, 'TMP'),
        err.getvalue().replace(tmpdir, 'TMP'),
        None if content is None else content.replace(tmpdir, 'TMP'))


for outname in [None, 'o.tex', 'o.opb', 'o.cnf', 'o', 'o.TEX']:
    for extra in [[], ['-of', 'latex'], ['-of', 'opb'], ['-of', 'dimacs'],
                  ['-l'], ['-of', 'tex']]:
        for verb in [[], ['-q'], ['--varnames']]:
            run_cli('cnfgen', cnfgen_cli,
                    ['cnfgen'] + extra + verb + ['php', '3', '2'], outname)
            run_cli('pbgen', pbgen_cli,
                    ['pbgen'] + extra + verb + ['php', '3', '2'], outname)

for root, dirs, files in os.walk(tmpdir, topdown=False):
    for f in files:
        os.unlink(os.path.join(root, f))
    os.rmdir(root)

digest = hashlib.sha256("\n".join(LOG).encode('utf-8', 'replace')).hexdigest()
print(digest)
