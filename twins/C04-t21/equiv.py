"""Equivalence harness for the force_*_mapping family of VariablesManager."""
import hashlib
import random
import sys
import os

sys.path.insert(0, os.getcwd())

from cnfgen.formula.cnf import CNF
from cnfgen.formula.opb import OPB
from cnfgen.formula.basecnf import BaseCNF
from cnfgen.formula.linear import CNFLinear
from cnfgen.formula.variables import VariablesManager
from cnfgen.graphs import BipartiteGraph, CompleteBipartiteGraph

OUT = []


def emit(*items):
    OUT.append(repr(items))


def attempt(tag, fn):
    try:
        res = fn()
        emit(tag, 'ok', res)
    except Exception as e:  # record type and message
        chain = []
        while e is not None:
            chain.append((type(e).__name__, str(e)))
            e = e.__cause__
        emit(tag, 'exc', chain)


def dump(F):
    if isinstance(F, OPB):
        return (F.number_of_variables(), [list(c) for c in F])
    return (F.number_of_variables(), [list(c) for c in F])


METHODS = ['force_complete_mapping', 'force_functional_mapping',
           'force_surjective_mapping', 'force_injective_mapping',
           'force_nondecreasing_mapping']


def sparse_graphs():
    rnd = random.Random(20240)
    res = []
    for (L, R) in [(1, 1), (2, 3), (3, 2), (4, 4), (5, 3), (3, 6), (0, 0), (2, 0), (0, 2)]:
        for p in (0.0, 0.4, 0.8, 1.0):
            B = BipartiteGraph(L, R)
            for u in range(1, L + 1):
                for v in range(1, R + 1):
                    if rnd.random() < p:
                        B.add_edge(u, v)
            res.append(((L, R, p), B))
    return res


def new_formulas():
    return [('CNF', CNF), ('OPB', OPB)]


def run_all(tag, mk):
    """mk(F) -> mapping. run each method on a fresh formula and also all in sequence"""
    for fname, cls in new_formulas():
        for meth in METHODS:
            def go():
                F = cls()
                F.update_variable_number(3)
                f = mk(F)
                r = getattr(F, meth)(f)
                return (r, dump(F))
            attempt((tag, fname, meth), go)

        def go_all():
            F = cls()
            f = mk(F)
            rs = []
            for meth in METHODS:
                try:
                    rs.append(getattr(F, meth)(f))
                except ValueError as e:
                    rs.append(('VE', str(e)))
            return (rs, dump(F))
        attempt((tag, fname, 'all'), go_all)


# unary complete mappings
for n in range(0, 5):
    for m in range(0, 5):
        run_all(('unary', n, m), lambda F, n=n, m=m: F.new_mapping(n, m))
run_all(('unary', 7, 3), lambda F: F.new_mapping(7, 3))
run_all(('unary', 3, 7), lambda F: F.new_mapping(3, 7, label='g[{}]->{}'))

# sparse mappings
for key, B in sparse_graphs():
    run_all(('sparse', key), lambda F, B=B: F.new_sparse_mapping(B))
run_all(('sparse', 'K'), lambda F: F.new_sparse_mapping(CompleteBipartiteGraph(3, 4)))

# binary mappings
for n in range(0, 5):
    for m in [0, 1, 2, 3, 4, 5, 6, 7, 8, 9, 13]:
        run_all(('binary', n, m), lambda F, n=n, m=m: F.new_binary_mapping(n, m))

# plain VariablesManager on BaseCNF / CNFLinear
for base in (BaseCNF, CNFLinear):
    for meth in METHODS:
        def go():
            C = base()
            V = VariablesManager(C)
            f = V.new_mapping(3, 4)
            g = V.new_binary_mapping(3, 5)
            B = BipartiteGraph(3, 3)
            for e in [(1, 2), (1, 3), (2, 1), (2, 3), (3, 1), (3, 2), (3, 3)]:
                B.add_edge(*e)
            h = V.new_sparse_mapping(B)
            rs = []
            for x in (f, g, h):
                try:
                    rs.append(getattr(V, meth)(x))
                except Exception as e:
                    rs.append((type(e).__name__, str(e)))
            return rs, C.number_of_variables(), [list(c) for c in C]
        attempt(('manager', base.__name__, meth), go)

# error paths: wrong kind of argument, mapping of another formula
for fname, cls in new_formulas():
    for meth in METHODS:
        bads = {
            'none': lambda F: None,
            'int': lambda F: 3,
            'list': lambda F: [1, 2, 3],
            'str': lambda F: 'f',
            'block': lambda F: F.new_block(2, 3),
            'var': lambda F: F.new_variable(),
            'bipedges': lambda F: F.new_bipartite_edges(CompleteBipartiteGraph(2, 2)),
            'comb': lambda F: F.new_combinations(4, 2),
            'other_unary': lambda F: cls().new_mapping(2, 3),
            'other_binary': lambda F: cls().new_binary_mapping(2, 3),
            'other_sparse': lambda F: cls().new_sparse_mapping(CompleteBipartiteGraph(2, 2)),
            'otherkind_unary': lambda F: (OPB if cls is CNF else CNF)().new_mapping(2, 3),
            'otherkind_binary': lambda F: (OPB if cls is CNF else CNF)().new_binary_mapping(2, 3),
        }
        for bname, mk in bads.items():
            def go():
                F = cls()
                f = mk(F)
                before = dump(F)
                try:
                    r = getattr(F, meth)(f)
                finally:
                    emit(('state', fname, meth, bname), before, dump(F))
                return r, dump(F)
            attempt(('bad', fname, meth, bname), go)

# file level output for some complete examples
for n, m in [(3, 2), (2, 3), (4, 4)]:
    F = CNF()
    f = F.new_mapping(n, m)
    F.force_complete_mapping(f)
    F.force_functional_mapping(f)
    F.force_injective_mapping(f)
    F.force_surjective_mapping(f)
    F.force_nondecreasing_mapping(f)
    emit('dimacs', n, m, F.to_dimacs())
    G = OPB()
    g = G.new_binary_mapping(n, m)
    G.force_complete_mapping(g)
    G.force_injective_mapping(g)
    G.force_nondecreasing_mapping(g)
    G.force_functional_mapping(g)
    emit('opb', n, m, G.to_opb())

print(hashlib.sha256("\n".join(OUT).encode('utf-8')).hexdigest())
