#!/usr/bin/env python
"""Equivalence script for the xorcomp/majcomp command line helpers.

Exercises XorCompressionCmd.transform_cnf / MajCompressionCmd.transform_cnf
both directly (argparse.Namespace) and through the `cnfgen` command line,
and prints one SHA256 digest of everything observed.
"""
import sys
import os
import io
import random
import hashlib
import argparse
from contextlib import redirect_stdout, redirect_stderr

sys.path.insert(0, os.getcwd())

from cnfgen import CNF
from cnfgen.graphs import BipartiteGraph
from cnfgen.clitools import cnfgen, CLIError
from cnfgen.clihelpers.transformation_helpers import XorCompressionCmd
from cnfgen.clihelpers.transformation_helpers import MajCompressionCmd

OUT = []


def rec(*items):
    OUT.append(repr(items))


def describe(F):
    return (F.number_of_variables(), F.number_of_clauses(),
            [list(c) for c in F.clauses()],
            list(F.all_variable_labels()),
            sorted((str(k), str(v)) for k, v in F.header.items()
                   if str(k).lower() not in ('version', 'generator')),
            F.to_dimacs().split('\n', 0)[0][-4000:])


def attempt(tag, fn):
    try:
        res = fn()
        rec(tag, 'ok', describe(res))
    except SystemExit as e:
        rec(tag, 'SystemExit', e.code)
    except BaseException as e:   # noqa
        rec(tag, type(e).__name__, str(e))


FORMULAS = {
    'empty': CNF(),
    'emptyclause': CNF([[]]),
    'unit': CNF([[1]]),
    'small': CNF([[1, -2], [2, 3], [-1, -3], []]),
    'repeated': CNF([[1, 1, -1], [2, -2, 4], [-4, -4]]),
}
unused = CNF([[1, -3]])
unused.update_variable_number(6)
FORMULAS['unused'] = unused


def bip(L, R, edges):
    B = BipartiteGraph(L, R)
    for u, v in edges:
        B.add_edge(u, v)
    return B


# 1. direct calls with (N, d) namespaces
for cmdname, Cmd in [('xor', XorCompressionCmd), ('maj', MajCompressionCmd)]:
    for fname, F in FORMULAS.items():
        V = F.number_of_variables()
        for N in [1, 2, 3, 5, 8]:
            for d in [1, 2, 3, 4, 6]:
                random.seed(1000 * N + d)
                ns = argparse.Namespace(N=N, d=d)
                attempt(('direct-Nd', cmdname, fname, N, d),
                        lambda: Cmd.transform_cnf(F, ns))
                rec('rnd', random.random())
        # namespace with both N/d and B: the N branch wins
        random.seed(7)
        ns = argparse.Namespace(N=4, d=2, B=bip(V, 2, []))
        attempt(('direct-both', cmdname, fname),
                lambda: Cmd.transform_cnf(F, ns))
        rec('rnd', random.random())
        # explicit graphs
        graphs = {
            'noedges': bip(V, 3, []),
            'full': bip(V, 3, [(u, v) for u in range(1, V + 1) for v in range(1, 4)]),
            'diag': bip(V, max(V, 1), [(u, u) for u in range(1, V + 1)]),
            'wrongleft': bip(V + 1, 3, [(1, 1)]),
            'zero-right': bip(V, 0, []),
        }
        for gname, B in graphs.items():
            ns = argparse.Namespace(B=B)
            attempt(('direct-B', cmdname, fname, gname),
                    lambda: Cmd.transform_cnf(F, ns))
        # no recognised attribute at all
        attempt(('direct-none', cmdname, fname),
                lambda: Cmd.transform_cnf(F, argparse.Namespace()))
        attempt(('direct-other', cmdname, fname),
                lambda: Cmd.transform_cnf(F, argparse.Namespace(d=3, K=1)))
        # bad values
        attempt(('direct-badB', cmdname, fname),
                lambda: Cmd.transform_cnf(F, argparse.Namespace(B='nonsense')))
        attempt(('direct-badN', cmdname, fname),
                lambda: Cmd.transform_cnf(F, argparse.Namespace(N=2, d=5)))
        attempt(('direct-noD', cmdname, fname),
                lambda: Cmd.transform_cnf(F, argparse.Namespace(N=2)))


# 2. through the command line
def cli(argv, mode='formula'):
    out, err = io.StringIO(), io.StringIO()
    try:
        with redirect_stdout(out), redirect_stderr(err):
            res = cnfgen(argv, mode=mode)
        if mode == 'formula':
            rec('cli', argv, 'ok', describe(res))
        else:
            text = res if isinstance(res, str) else out.getvalue()
            text = '\n'.join(l for l in text.split('\n')
                             if 'version' not in l.lower() and 'generator' not in l.lower() and 'command line' not in l.lower())
            rec('cli', argv, 'ok', text)
    except SystemExit as e:
        rec('cli', argv, 'SystemExit', e.code, out.getvalue(), err.getvalue())
    except CLIError as e:
        rec('cli', argv, 'CLIError', str(e))
    except BaseException as e:   # noqa
        rec('cli', argv, type(e).__name__, str(e))


for T in ['xorcomp', 'majcomp']:
    for seed in [0, 1, 42]:
        cli(['cnfgen', '-S', seed, 'php', 4, 3, '-T', T, 6])
        cli(['cnfgen', '-S', seed, 'php', 4, 3, '-T', T, 6, 2])
        cli(['cnfgen', '-S', seed, 'php', 4, 3, '-T', T, 12, 1])
        cli(['cnfgen', '-S', seed, 'php', 4, 3, '-T', T, 'glrd', 12, 6, 3])
        cli(['cnfgen', '-S', seed, 'php', 4, 3, '-T', T, 'glrd', 12, 6, 3, '-T', T, 4, 2])
        cli(['cnfgen', '-q', '-S', seed, 'op', 3, '-T', T, 5, 3], mode='string')
    cli(['cnfgen', 'php', 4, 3, '-T', T, 'glrd', 11, 6, 3])
    cli(['cnfgen', 'php', 4, 3, '-T', T, 'complete', 12, 2])
    cli(['cnfgen', 'php', 4, 3, '-T', T, 2, 5])
    cli(['cnfgen', 'php', 4, 3, '-T', T, 0])
    cli(['cnfgen', 'php', 4, 3, '-T', T, -3, 2])
    cli(['cnfgen', 'php', 4, 3, '-T', T])
    cli(['cnfgen', 'php', 4, 3, '-T', T, 'foo'])
    cli(['cnfgen', 'php', 4, 3, '-T', T, 3, 2, 1])
    cli(['cnfgen', 'and', 0, 0, '-T', T, 3, 2])
    cli(['cnfgen', 'php', 4, 3, '-T', T, '-h'])

print(hashlib.sha256('\n'.join(OUT).encode('utf-8')).hexdigest())
