#!/usr/bin/env python
"""Equivalence check for the random multipartite graph construction
(multipartite_tnp / obtain_gnp in cnfgen/clitools/graph_build.py), i.e. the
graph argument 'gnp N p t' of the command line.

Prints one SHA256 digest of everything observable."""
import sys, os, io, hashlib, random, contextlib, tempfile, warnings
sys.path.insert(0, os.getcwd())
warnings.simplefilter('ignore')

from cnfgen.clitools import cnfgen as cnfgen_cli
from cnfgen.clitools.pbgen import cli as pbgen_cli
from cnfgen.clitools import make_graph_from_spec
from cnfgen.clitools.graph_build import multipartite_tnp, obtain_gnp

H = hashlib.sha256()


def record(*items):
    for it in items:
        H.update(repr(it).encode('utf-8'))
        H.update(b'\0')


def graph_summary(G):
    return [type(G).__name__, G.name, G.order(), G.number_of_edges(),
            [tuple(e) for e in G.edges()],
            [list(G.neighbors(v)) for v in G.vertices()]]


def attempt(label, fn, *args, seed=0, **kwargs):
    record('CALL', label, args, sorted(kwargs.items()), seed)
    random.seed(seed)
    out, err = io.StringIO(), io.StringIO()
    try:
        with contextlib.redirect_stdout(out), contextlib.redirect_stderr(err):
            res = fn(*args, **kwargs)
        if hasattr(res, 'edges'):
            res = graph_summary(res)
        record('OK', res)
    except SystemExit as e:
        record('EXIT', e.code)
    except BaseException as e:
        record('EXC', type(e).__name__, str(e))
    record(out.getvalue(), err.getvalue())
    # the random stream must have been consumed in the same way
    record('RND', random.random(), random.getrandbits(64))


workdir = tempfile.mkdtemp()
os.chdir(workdir)

# direct calls
for seed in (0, 1, 17):
    for t in (1, 2, 3, 4, 5):
        for n in (1, 2, 3, 4):
            for p in (0, 0.0, 0.3, 0.5, 0.9, 1, 1.0):
                attempt('tnp', multipartite_tnp, t, n, p, seed=seed)
                attempt('tnp-shuffled', multipartite_tnp, t, n, p, shuffleblocks=True, seed=seed)
                attempt('tnp-kw', multipartite_tnp, t, n, p, False, seed=seed)
for args in [(0, 3, 0.5), (3, 0, 0.5), (0, 0, 0.5), (-1, 2, 0.5), (2, -1, 0.5),
             (2, 2, 2.5), (2, 2, -1), (2.0, 2, 0.5), (2, 2, '0.5'), ('2', 2, 0.5),
             (6, 5, 0.4), (2, 12, 0.25), (12, 1, 0.5), (-1, -2, 0.5), (-2, -2, 0.5),
             (True, 3, 0.5), (3, True, 0.5)]:
    attempt('tnp-odd', multipartite_tnp, *args, seed=3)
    attempt('tnp-odd-shuffled', multipartite_tnp, *args, shuffleblocks=True, seed=3)

# through the parsed graph argument
for argsl in [['5', '0.5'], ['5', '0.5', '1'], ['3', '0.5', '2'], ['2', '0.7', '4'],
              ['4', '1', '3'], ['4', '0', '3'], ['3', '0.5', '0'], ['3', '0.5', '-2'],
              ['3', '1.5', '2'], ['0', '0.5', '2'], ['3', '0.5', '2', '1'], ['3'], [],
              ['3', '0.5', '2.0'], ['3.0', '0.5', '2'], ['x', '0.5', '2'], None]:
    attempt('obtain_gnp', obtain_gnp, {'graphtype': 'simple', 'construction': 'gnp', 'args': argsl}, seed=5)

for spec in [['gnp', 4, 0.5, 3], ['gnp', 3, 0.6, 2, 'plantclique', 3],
             ['gnp', 3, 0.4, 3, 'addedges', 2], ['gnp', 2, 0.9, 4, 'splitedges', 1],
             ['gnp', 3, 0.5, 3, 'save', 'tnp.gml'], ['tnp.gml'],
             ['gnp', 3, 0.5, 3, 'save', 'dot', 'tnp.dot'],
             'gnp 2 0.5 5', 'gnp 4 0.2 2 addedges 3 save edgelist.gml']:
    attempt('spec', make_graph_from_spec, 'simple', spec, seed=8)

# whole command lines
def run_tool(tool, argv, seed=4242):
    attempt('cli', tool, argv, mode='string', seed=seed)

for argv in [
    ['cnfgen', 'kcolor', 3, 'gnp', 3, 0.5, 3],
    ['cnfgen', '-q', 'kcolor', 2, 'gnp', 4, 0.5, 2],
    ['cnfgen', 'kclique', 3, 'gnp', 2, 0.8, 4],
    ['cnfgen', 'kclique', 3, 'gnp', 3, 0.3, 3, 'plantclique', 3],
    ['cnfgen', 'kcliquebin', 3, 'gnp', 2, 0.6, 3],
    ['cnfgen', 'ramlb', 3, 3, 'gnp', 2, 0.5, 3],
    ['cnfgen', 'domset', 2, 'gnp', 2, 0.5, 3],
    ['cnfgen', 'tseitin', 'random', 'gnp', 3, 0.7, 2],
    ['cnfgen', 'op', 'gnp', 2, 0.9, 2],
    ['cnfgen', 'iso', 'gnp', 2, 0.5, 2],
    ['cnfgen', 'iso', 'gnp', 2, 0.5, 2, '-e', 'gnp', 2, 0.5, 2],
    ['cnfgen', 'subgraph', '-G', 'gnp', 2, 0.7, 3, '-H', 'complete', 3],
    ['cnfgen', '-S', 9, 'kcolor', 3, 'gnp', 3, 0.5, 3],
    ['cnfgen', '-S', 9, 'kcolor', 3, 'gnp', 3, 0.5, 3, '-T', 'shuffle'],
    ['cnfgen', 'kcolor', 3, 'gnp', 3, 0.5, 3, 'save', 'k.gml'],
    ['cnfgen', 'kcolor', 3, 'k.gml'],
    ['cnfgen', 'kcolor', 3, 'gnp', 3, 0.5, 0],
    ['cnfgen', 'kcolor', 3, 'gnp', 3, 0.5, 2, 2],
    ['cnfgen', '-of', 'opb', 'kcolor', 3, 'gnp', 2, 0.5, 3],
    ['cnfgen', '-l', 'kcolor', 2, 'gnp', 2, 0.5, 2],
]:
    run_tool(cnfgen_cli, argv)
for argv in [['pbgen', 'kcolor', 3, 'gnp', 3, 0.5, 3],
             ['pbgen', '-S', 2, 'domset', 2, 'gnp', 2, 0.5, 3]]:
    run_tool(pbgen_cli, argv)

for fname in sorted(os.listdir('.')):
    with open(fname) as f:
        record('FILE', fname, f.read())

print(H.hexdigest())
