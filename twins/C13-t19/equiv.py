"""Equivalence script for cnfgen/families/randomformulas.py (random k-CNF)."""
import sys, os, hashlib, random, itertools, warnings
warnings.simplefilter('ignore')
sys.path.insert(0, os.getcwd())

from math import comb
import cnfgen
from cnfgen import RandomKCNF
from cnfgen.formula.cnf import CNF
from cnfgen.formula.opb import OPB
from cnfgen.families import randomformulas as RF

H = hashlib.sha256()
NOUT = [0]


def emit(*items):
    text = ' '.join(str(x) for x in items)
    H.update(text.encode('utf-8'))
    H.update(b'\n')
    NOUT[0] += 1


def describe_exc(e):
    chain = []
    while e is not None and len(chain) < 4:
        chain.append((type(e).__name__, str(e)))
        e = e.__cause__ or e.__context__
    return chain


def rnd_state():
    return (random.random(), random.getrandbits(70))


def planted_sets(n, rng):
    """Various lists of planted assignments over n variables"""
    total = lambda: [rng.choice([-1, 1]) * v for v in range(1, n + 1)]
    res = [None, [], [total()], [total(), total()], [total(), total(), total()],
           [tuple(total())], [set(total())], [frozenset(total())] * 2,
           [list(range(1, n + 1)), [-v for v in range(1, n + 1)]]]
    if n >= 2:
        res.append([[1], [-2]])                    # partial assignments
        res.append([[rng.choice([-1, 1]) * v for v in range(1, n + 1, 2)]])
        res.append([[]])                           # nothing satisfies it
        res.append([total(), []])
    return res


def max_clauses(k, n, planted):
    return sum(1 for _ in RF.all_clauses(k, n, planted or []))


rng = random.Random(20240613)

# 1. RandomKCNF on a grid of parameters, around the maximum too
for n in range(0, 7):
    for k in range(0, n + 3):
        for pi, planted in enumerate(planted_sets(n, rng)):
            top = max_clauses(k, n, planted) if k <= n else 3
            ms = sorted(set([0, 1, 2, top // 20, top // 9, top // 2, top - 1, top,
                             top + 1, top + 5, 11 * top]))
            for m in ms:
                if m < 0:
                    continue
                seed = 7 * n + 3 * k + m + pi
                try:
                    F = RandomKCNF(k, n, m, seed=seed, planted_assignments=planted)
                    cls = list(F.clauses())
                    emit('OK', k, n, m, seed, planted, F.number_of_variables(),
                         len(F), cls, F.header['description'])
                    assert len(set(map(tuple, cls))) == m
                except Exception as e:
                    emit('EXC', k, n, m, seed, planted, describe_exc(e))
                emit(rnd_state())

# 2. bigger instances, keyword / positional, other formula class, seeds
for (k, n, m) in [(3, 20, 80), (3, 12, 600), (4, 9, 1500), (2, 30, 1700),
                  (2, 30, 1740), (2, 30, 1741), (5, 8, 1792), (5, 8, 1793),
                  (3, 100, 420), (7, 50, 200), (1, 40, 80), (1, 40, 81),
                  (1, 40, 75), (6, 6, 64), (6, 6, 63), (6, 6, 65)]:
    for seed in (None, 0, 1, 'hello', 3.5, (1, 2)):
        if seed is None:
            random.seed(99)
        hashseed = seed if not isinstance(seed, tuple) else 12
        for fc in (CNF, OPB):
            try:
                F = RandomKCNF(k, n, m, hashseed, None, fc)
                emit('OK', k, n, m, seed, fc.__name__, type(F).__name__,
                     F.number_of_variables(), len(F),
                     F.to_dimacs() if fc is CNF else F.to_opb())
            except Exception as e:
                emit('EXC', k, n, m, seed, fc.__name__, describe_exc(e))
            emit(rnd_state())
    pl = [[rng.choice([-1, 1]) * v for v in range(1, n + 1)] for _ in range(2)]
    try:
        F = RandomKCNF(k, n, m // 3, seed=5, planted_assignments=pl)
        emit('OK', k, n, m, pl, list(F.clauses()))
        for a in pl:
            assert all(any(l in a for l in c) for c in F.clauses())
    except Exception as e:
        emit('EXC', k, n, m, pl, describe_exc(e))
    emit(rnd_state())

# 3. bad arguments
for args in [(-1, 3, 2), (2, -3, 2), (2, 3, -2), (2.0, 3, 2), (2, '3', 2),
             (2, 3, None), (True, 3, 2), (2, 3, 2.5), (4, 3, 0), (1, 0, 0),
             (4, 3, -1), (None, None, None)]:
    try:
        F = RandomKCNF(*args, seed=1)
        emit('OK', args, list(F.clauses()))
    except Exception as e:
        emit('EXC', args, describe_exc(e))
    emit(rnd_state())

# 4. the module level sampling functions, directly
for n in range(0, 7):
    for k in range(0, n + 2):
        for pi, planted in enumerate(planted_sets(n, rng)):
            if planted is None:
                continue
            try:
                full = list(RF.all_clauses(k, n, planted))
                emit('ALL', k, n, planted, full)
            except Exception as e:
                emit('ALLEXC', k, n, planted, describe_exc(e))
                continue
            top = len(full)
            for m in sorted(set([0, 1, top // 11, top // 3, top - 1, top, top + 1,
                                 2 * top + 3])):
                if m < 0:
                    continue
                random.seed(n * 1000 + k * 100 + m * 10 + pi)
                try:
                    res = RF.sample_clauses(k, n, m, planted)
                    emit('SAMPLE', k, n, m, planted, type(res).__name__, res)
                except Exception as e:
                    emit('SAMPLEEXC', k, n, m, planted, describe_exc(e))
                emit(rnd_state())

# k > n reaches random.sample inside sample_clauses
for (k, n, m) in [(3, 2, 1), (3, 2, 0), (1, 0, 1), (1, 0, 0)]:
    random.seed(4)
    try:
        emit('SAMPLE', k, n, m, RF.sample_clauses(k, n, m, []))
    except Exception as e:
        emit('SAMPLEEXC', k, n, m, describe_exc(e))
    emit(rnd_state())

for cls, assignments in [([], []), ([], [[1]]), ([1, -2], [[1, 2], [-1, -2]]),
                         ([1, -2], [[-1, 2]]), ((3,), [{3}, {-3}]),
                         ([1, 2], [[1], [2], [3]])]:
    emit('SAT', cls, assignments, RF.clause_satisfied(cls, assignments))

emit(sorted(x for x in dir(RF) if not x.startswith('__')
            and getattr(getattr(RF, x), '__module__', None) == RF.__name__
            and x in ('clause_satisfied', 'sample_clauses', 'all_clauses',
                      'RandomKCNF')))
emit(RF.sample_clauses.__doc__, RF.RandomKCNF.__doc__, RF.all_clauses.__doc__)

sys.stderr.write('%d records\n' % NOUT[0])
print(H.hexdigest())
