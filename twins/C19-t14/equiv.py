"""Equivalence harness for cnfgen.transformations.shuffle.Shuffle (argument checking paths)"""
import sys, os, io, hashlib, random, contextlib, warnings, itertools, copy
warnings.simplefilter('ignore')
sys.path.insert(0, os.getcwd())

from cnfgen.formula.cnf import CNF
from cnfgen.transformations.shuffle import Shuffle
from cnfgen.transformations.substitutions import FlipPolarity, XorSubstitution
from cnfgen.clitools.cnfgen import cli as cnfgen_cli
from cnfgen.clitools.cnfshuffle import cli as shuffle_cli

H = hashlib.sha256()
LOG = []


def rec(*items):
    s = ' | '.join(repr(x) for x in items)
    LOG.append(s)
    H.update(s.encode('utf-8'))
    H.update(b'\n')


def snapshot(F):
    buf = io.StringIO()
    F.to_file(buf, fileformat='dimacs', export_header=True)
    return (F.number_of_variables(), F.number_of_clauses(),
            list(F.header.items()), list(F.all_variable_labels()),
            [tuple(c) for c in F], buf.getvalue())


def formulas():
    F = CNF()
    yield 'empty', F
    F = CNF()
    F.update_variable_number(3)
    F.header['description'] = 'no clauses'
    yield 'noclauses', F
    F = CNF([[]])
    del F.header['description']
    yield 'emptyclause-nodescr', F
    F = CNF([[1, -2, 3], [-1], [2, 3], [-3, -2, 1], []])
    F.header['description'] = 'five clauses'
    F.header['transformation 1'] = 'first'
    F.header['transformation 3'] = 'third (gap)'
    yield 'five', F
    F = CNF([[1], [-1]])
    F.header['transformation 1'] = 'a'
    F.header['transformation 2'] = 'b'
    yield 'one', F


class Odd:
    """A sequence-like that is neither list nor tuple"""
    def __init__(self, data):
        self.data = list(data)

    def __len__(self):
        return len(self.data)

    def __getitem__(self, i):
        return self.data[i]

    def __eq__(self, other):
        return False

    def __iter__(self):
        return iter(self.data)


def pol_args(N):
    yield 'fixed'
    yield 'shuffle'
    yield [1] * N
    yield [-1] * N
    yield tuple((-1) ** i for i in range(N))
    yield [1.0 if i % 2 else -1.0 for i in range(N)]
    yield [1] * (N + 1)
    yield [1] * max(N - 1, 0)
    yield [1] * max(N - 1, 0) + [0]
    yield [2] + [1] * max(N - 1, 0)
    yield [1] * max(N - 1, 0) + ['x']
    yield []
    yield 'other'
    yield None
    yield 5
    yield Odd([-1] * N)
    yield {i: -1 for i in range(N)}
    yield {i + 1: 1 for i in range(N)}


def var_args(N):
    yield 'fixed'
    yield 'shuffle'
    yield list(range(1, N + 1))
    yield list(range(N, 0, -1))
    yield tuple(range(N, 0, -1))
    yield range(1, N + 1)
    yield [float(i) for i in range(N, 0, -1)]
    yield list(range(N))
    yield list(range(1, N + 2))
    yield list(range(2, N + 2))
    yield [1] * N
    yield list(range(1, N)) + [N + 1]
    yield list(range(1, N)) + ['x']
    yield list(range(1, N)) + [None]
    yield []
    yield 'other'
    yield None
    yield Odd(range(N, 0, -1))


def cls_args(M):
    yield 'fixed'
    yield 'shuffle'
    yield list(range(M))
    yield list(range(M - 1, -1, -1))
    yield tuple(range(M - 1, -1, -1))
    yield range(M)
    yield [(i * 2) % M if M % 2 else i for i in range(M)]
    yield list(range(1, M + 1))
    yield list(range(M + 1))
    yield list(range(M - 1)) if M else [0]
    yield [0] * M
    yield list(range(M - 1)) + [M] if M else [1]
    yield list(range(M - 1)) + ['x'] if M else ['x']
    yield [float(i) for i in range(M - 1, -1, -1)]
    yield 'other'
    yield None
    yield Odd(range(M - 1, -1, -1))


def describe(a):
    if isinstance(a, Odd):
        return ('Odd', a.data)
    if isinstance(a, range):
        return ('range', list(a))
    return (type(a).__name__, repr(a))


def try_shuffle(tag, F, p, v, c):
    before = snapshot(F)
    saved = [copy.deepcopy(x.data if isinstance(x, Odd) else x) if not isinstance(x, range) else x
             for x in (p, v, c)]
    try:
        G = Shuffle(F, p, v, c)
        rec('ok', tag, describe(p), describe(v), describe(c), snapshot(G), G is F)
    except BaseException as e:
        rec('exc', tag, describe(p), describe(v), describe(c), type(e).__name__, str(e))
    now = [x.data if isinstance(x, Odd) else x for x in (p, v, c)]
    rec('inputs-untouched', snapshot(F) == before, now == saved, random.random())


def direct():
    for name, F in formulas():
        N, M = F.number_of_variables(), F.number_of_clauses()
        random.seed(7)
        # vary one argument at a time, the others valid
        for p in pol_args(N):
            try_shuffle(name, F, p, 'fixed', 'fixed')
            try_shuffle(name, F, p, 'shuffle', 'shuffle')
        for v in var_args(N):
            try_shuffle(name, F, 'fixed', v, 'fixed')
            try_shuffle(name, F, 'shuffle', v, 'shuffle')
        for c in cls_args(M):
            try_shuffle(name, F, 'fixed', 'fixed', c)
            try_shuffle(name, F, 'shuffle', 'shuffle', c)
        # several bad arguments at once: which error comes first
        bad_p = [1] * (N + 1)
        bad_v = [0] * N if N else [1]
        bad_c = [5] * M if M else [3]
        for p, v, c in itertools.product(('fixed', bad_p), ('shuffle', bad_v), ('fixed', bad_c)):
            try_shuffle(name, F, p, v, c)
        # keyword forms and defaults
        random.seed(8)
        try_shuffle(name, F, 'shuffle', 'shuffle', 'shuffle')
        G = Shuffle(F)
        rec('default', name, snapshot(G))
        G2 = Shuffle(Shuffle(FlipPolarity(G), clauses_permutation='fixed'), polarity_flips='fixed')
        rec('chain', name, snapshot(G2), snapshot(G))
    # all permutations of a small formula
    F = CNF([[1, 2], [-2, 3], [-1, -3]])
    for v in itertools.permutations([1, 2, 3]):
        for c in itertools.permutations([0, 1, 2]):
            for p in ([1, 1, 1], [-1, 1, -1]):
                try_shuffle('perm', F, p, list(v), list(c))


def run(tag, fn, argv, stdin_text=None):
    out, err = io.StringIO(), io.StringIO()
    old_stdin = sys.stdin
    try:
        if stdin_text is not None:
            sys.stdin = io.StringIO(stdin_text)
        with contextlib.redirect_stdout(out), contextlib.redirect_stderr(err):
            res = fn()
        if isinstance(res, CNF):
            res = snapshot(res)
        rec(tag, argv, res, out.getvalue(), err.getvalue())
    except SystemExit as e:
        rec(tag + '-exit', argv, e.code, out.getvalue(), err.getvalue())
    except BaseException as e:
        rec(tag + '-exc', argv, type(e).__name__, str(e), out.getvalue(), err.getvalue())
    finally:
        sys.stdin = old_stdin


def viacli():
    for argv in [
        ['cnfgen', '-S', '1', 'php', '3', '2', '-T', 'shuffle'],
        ['cnfgen', '-S', '2', 'php', '3', '2', '-T', 'shuffle', '-p'],
        ['cnfgen', '-S', '3', 'php', '3', '2', '-T', 'shuffle', '-v', '-T', 'shuffle', '-c'],
        ['cnfgen', '-S', '4', 'op', '3', '-T', 'shuffle', '-p', '-v', '-c', '-T', 'xor', '2', '-T', 'shuffle'],
        ['cnfgen', '-S', '5', 'and', '0', '0', '-T', 'shuffle'],
        ['cnfgen', '-S', '5', 'php', '2', '1', '-T', 'shuffle', 'extra'],
    ]:
        run('cnfgen', lambda: cnfgen_cli(argv, mode='formula'), argv)
    dimacs = "c description: handmade\nc transformation 1: something\np cnf 4 4\n1 -2 0\n2 3 -4 0\n-1 0\n4 1 0\n"
    for argv in [
        ['cnfshuffle', '-S', '1'],
        ['cnfshuffle', '-S', '2', '-p'],
        ['cnfshuffle', '-S', '3', '-v', '-c'],
        ['cnfshuffle', '-S', '4', '-p', '-v', '-c'],
        ['cnfshuffle', '-S', '5', '-q'],
    ]:
        run('cnfshuffle-f', lambda: shuffle_cli(argv, mode='formula'), argv, dimacs)
        run('cnfshuffle-s', lambda: shuffle_cli(argv, mode='string'), argv, dimacs)
    run('cnfshuffle-bad', lambda: shuffle_cli(['cnfshuffle', '-S', '1'], mode='string'),
        'bad', "p cnf 2 1\n1 3 0\n")
    run('cnfshuffle-empty', lambda: shuffle_cli(['cnfshuffle', '-S', '1'], mode='string'),
        'empty', "p cnf 0 0\n")


direct()
viacli()
if '--dump' in sys.argv:
    print('\n'.join(LOG))
print(H.hexdigest())
