#!/usr/bin/env python
"""Equivalence script for t18: graph arguments actions (cnfgen/clitools/graph_args.py).

Exercises ObtainSimpleGraph / ObtainBipartiteGraph / ObtainDirectedAcyclicGraph /
ObtainGraphAction through the cnfgen and pbgen command lines and through
small hand made argparse parsers, on valid, random, and erroneous graph
specifications. Prints a single SHA256 digest.
"""
import sys
import os
import io
import hashlib
import random
import argparse
import warnings
import tempfile
from contextlib import redirect_stdout, redirect_stderr

warnings.simplefilter('ignore')
sys.path.insert(0, os.getcwd())

from cnfgen.clitools.cnfgen import cli as cnfgen_cli
from cnfgen.clitools.pbgen import cli as pbgen_cli
from cnfgen.clitools.cmdline import CLIParser, CLIError, CLIHelpFormatter
from cnfgen.clitools import graph_args
from cnfgen.clitools.graph_args import (ObtainGraphAction, ObtainSimpleGraph,
                                        ObtainBipartiteGraph,
                                        ObtainDirectedAcyclicGraph)

H = hashlib.sha256()


def record(*items):
    for x in items:
        H.update(repr(x).encode('utf-8'))
        H.update(b'\x00')


def run_cli(cli, argv):
    out = io.StringIO()
    err = io.StringIO()
    try:
        with redirect_stdout(out), redirect_stderr(err):
            res = cli(argv, mode='output')
        record('OK', argv, res, out.getvalue(), err.getvalue())
    except SystemExit as e:
        record('EXIT', argv, e.code, out.getvalue(), err.getvalue())
    except BaseException as e:
        record('EXC', argv, type(e).__name__, str(e), out.getvalue(),
               err.getvalue())


tmpdir = tempfile.mkdtemp()
gfile = os.path.join(tmpdir, 'g.kthlist')
with open(gfile, 'w') as f:
    f.write("5\n1 : 2 3 0\n2 : 1 0\n3 : 1 4 0\n4 : 3 0\n5 : 0\n")
bfile = os.path.join(tmpdir, 'b.matrix')
with open(bfile, 'w') as f:
    f.write("3 4\n1 1 0 0\n0 1 1 0\n0 0 1 1\n")
dfile = os.path.join(tmpdir, 'd.kthlist')
with open(dfile, 'w') as f:
    f.write("4\n1 : 0\n2 : 0\n3 : 1 2 0\n4 : 3 0\n")
os.chdir(tmpdir)

simple_specs = [
    ['gnp', '8', '.5'], ['gnp', '4', '.5', '3'], ['gnp', '1', '0'],
    ['gnp', '6', '1'], ['gnm', '7', '9'], ['gnm', '5', '0'],
    ['gnd', '8', '3'], ['grid', '3', '2'], ['torus', '3', '3'],
    ['complete', '5'], ['complete', '2', '3'], ['empty', '4'],
    ['gnp', '9', '.4', 'plantclique', '4'],
    ['gnm', '8', '6', 'addedges', '5'],
    ['gnm', '8', '9', 'splitedges', '3'],
    ['gnp', '8', '.3', 'plantclique', '3', 'addedges', '2', 'splitedges',
     '2'],
    ['g.kthlist'], ['kthlist', 'g.kthlist'], ['g.kthlist', 'addedges', '2'],
    ['gnp', '6', '.5', 'save', 'saved.gml'],
    ['gnp', '6', '.5', 'save', 'dot', 'saved2.xyz'],
    # errors
    ['gnp', '4'], ['gnp', '0', '.5'], ['gnp', '4', '1.5'], ['gnm', '4', '7'],
    ['gnd', '5', '3'], ['gnd', '3', '3'], ['grid', '0'], ['complete'],
    ['empty', '1', '2'], ['glrd', '4', '4', '2'], ['matrix', 'b.matrix'],
    ['nosuchfile.gml'], ['gml'], ['nofile'], ['gnp', '5', '.5', 'foo'],
    ['gnp', '5', '.5', 'gnp'], ['gnp', '5', '.5', '--bar'],
    ['gnp', '5', '.5', 'addedges', '1', 'addedges', '1'],
    ['gnp', '5', '.5', 'save'], ['gnp', '5', '.5', 'save', 'gml'],
    ['gnp', '5', '.5', 'plantclique', '9'],
    ['gnp', '5', '.5', 'plantclique'], ['gnp', '5', '.5', 'addedges', '-1'],
    ['gnp', '4', '1', 'addedges', '1'], ['empty', '3', 'splitedges', '1'],
    ['gnp', '5', '.5', 'save', '/nonexistent-dir/x.gml'],
    ['b.matrix'], ['pyramid', '2'],
]
bipartite_specs = [
    ['glrp', '4', '5', '.5'], ['glrp', '1', '1', '0'], ['glrm', '4', '4', '7'],
    ['glrm', '4', '4', '0'], ['glrm', '3', '3', '9'], ['glrd', '5', '4', '2'],
    ['glrd', '3', '3', '0'], ['regular', '6', '4', '2'],
    ['regular', '3', '3', '3'], ['shift', '5', '6', '0', '2', '3'],
    ['complete', '3', '2'], ['empty', '2', '2'],
    ['glrp', '5', '5', '.3', 'plantbiclique', '2', '3'],
    ['glrd', '5', '5', '2', 'addedges', '4'],
    ['glrp', '4', '4', '.5', 'plantbiclique', '1', '1', 'addedges', '2'],
    ['b.matrix'], ['matrix', 'b.matrix'],
    ['glrd', '4', '4', '2', 'save', 'bsaved.matrix'],
    # errors
    ['glrp', '4', '5'], ['glrp', '4', '5', '2'], ['glrm', '2', '2', '5'],
    ['glrd', '2', '2', '3'], ['regular', '3', '4', '1'], ['shift', '3'],
    ['shift', '3', '3', '1', '1'], ['complete', '3'], ['empty', '0', '2'],
    ['gnp', '5', '.5'], ['glrp', '3', '3', '.5', 'plantbiclique', '4', '1'],
    ['glrp', '3', '3', '.5', 'plantbiclique', '1'],
    ['glrp', '3', '3', '.5', 'plantclique', '1'],
    ['complete', '2', '2', 'addedges', '1'], ['missing.matrix'],
    ['g.kthlist'], ['gml', 'g.kthlist'],
]
dag_specs = [
    ['pyramid', '3'], ['pyramid', '0'], ['tree', '2'], ['tree', '0'],
    ['path', '4'], ['path', '0'], ['d.kthlist'], ['kthlist', 'd.kthlist'],
    ['pyramid', '2', 'save', 'dsaved.kthlist'],
    # errors
    ['pyramid'], ['pyramid', '-1'], ['tree', '1', '2'], ['path', 'x'],
    ['gnp', '4', '.5'], ['pyramid', '2', 'addedges', '1'], ['nofile.dot'],
    ['matrix', 'b.matrix'], ['g.kthlist'],
]

# 1. through the cnfgen command line
for seed in ['0', '7', '-3']:
    for spec in simple_specs:
        run_cli(cnfgen_cli, ['cnfgen', '-S', seed, 'kclique', '3'] + spec)
    for spec in simple_specs[:16]:
        run_cli(cnfgen_cli, ['cnfgen', '--seed', seed, 'kcolor', '3'] + spec)
        run_cli(cnfgen_cli, ['cnfgen', '--seed', seed, 'tseitin', 'first'] + spec)
    for spec in bipartite_specs:
        run_cli(cnfgen_cli, ['cnfgen', '-S', seed, 'php'] + spec)
    for spec in dag_specs:
        run_cli(cnfgen_cli, ['cnfgen', '-S', seed, 'peb'] + spec)
    for spec in simple_specs[:12]:
        run_cli(cnfgen_cli,
                ['cnfgen', '-S', seed, 'subgraph', '-G'] + spec + ['-H', 'complete', '3'])

# 2. through pbgen
for seed in ['0', '5']:
    for spec in bipartite_specs[:14]:
        run_cli(pbgen_cli, ['pbgen', '-S', seed, 'php'] + spec)
    for spec in simple_specs[:10]:
        run_cli(pbgen_cli, ['pbgen', '-S', seed, 'kclique', '3'] + spec)
    for spec in dag_specs[:6]:
        run_cli(pbgen_cli, ['pbgen', '-S', seed, 'peb'] + spec)

# 3. saved files
for name in sorted(os.listdir(tmpdir)):
    with open(os.path.join(tmpdir, name)) as f:
        record('FILE', name, f.read())


# 4. direct use of the action classes
def graph_summary(G):
    if G is None:
        return None
    return (type(G).__name__, G.name, G.number_of_vertices(),
            sorted(G.edges()))


def direct(action, specs, parserclass):
    for spec in specs:
        random.seed(42)
        p = parserclass(prog='prog')
        try:
            p.add_argument('G', action=action)
            p.add_argument('--opt', action=action, default=None)
        except BaseException as e:
            record('ADDERR', action.__name__, type(e).__name__, str(e))
            return
        for argv in [spec, ['--opt'] + spec + ['--'] + spec]:
            err = io.StringIO()
            try:
                with redirect_stderr(err):
                    ns = p.parse_args(argv)
                record('DIRECT', action.__name__, argv,
                       graph_summary(ns.G), graph_summary(ns.opt),
                       err.getvalue())
            except SystemExit as e:
                record('DIRECT-EXIT', action.__name__, argv, e.code,
                       err.getvalue())
            except BaseException as e:
                record('DIRECT-EXC', action.__name__, argv,
                       type(e).__name__, str(e), err.getvalue())


for parserclass in [CLIParser, argparse.ArgumentParser]:
    direct(ObtainSimpleGraph, simple_specs, parserclass)
    direct(ObtainBipartiteGraph, bipartite_specs, parserclass)
    direct(ObtainDirectedAcyclicGraph, dag_specs, parserclass)
    direct(ObtainGraphAction, simple_specs[:3], parserclass)

# nargs is refused
for cls in [ObtainGraphAction, ObtainSimpleGraph, ObtainBipartiteGraph,
            ObtainDirectedAcyclicGraph]:
    for nargs in [1, '+', '*', 0]:
        try:
            a = cls(['-g'], 'G', nargs=nargs)
            record('NARGS', cls.__name__, nargs, a.nargs)
        except BaseException as e:
            record('NARGS-EXC', cls.__name__, nargs, type(e).__name__, str(e))
    a = cls([], 'G', metavar='<G>', help='a graph')
    record('ACTION', cls.__name__, a.nargs, a.dest, a.metavar, a.help,
           a.option_strings, cls.__mro__[1].__name__,
           isinstance(a, ObtainGraphAction))
    fmt = CLIHelpFormatter(prog='prog')
    record('FMT', fmt._format_args(a, 'G'))

os.chdir('/')
import shutil
shutil.rmtree(tmpdir, ignore_errors=True)

print(H.hexdigest())
