#!/usr/bin/env python
"""Equivalence script for refactoring t2
(cnfgen.transformations.substitutions.apply_substitution and all its users).

Run as:  cd <checkout> && /venv/bin/python equiv.py
Prints one SHA256 digest of everything observable.
"""
import sys
import os
import hashlib
import random
import types
import warnings

warnings.simplefilter('ignore')
sys.path.insert(0, os.getcwd())

import networkx as nx
import cnfgen
from cnfgen import CNF
from cnfgen.graphs import BipartiteGraph
from cnfgen.transformations import substitutions as S

H = hashlib.sha256()


def emit(*items):
    for it in items:
        H.update(repr(it).encode('utf-8'))
        H.update(b'\x00')


def snapshot(F):
    hdr = [(k, v) for k, v in F.header.items() if k != 'generator']
    return (hdr,
            F.number_of_variables(),
            F.number_of_clauses(),
            [list(c) for c in F],
            list(F.all_variable_labels()),
            F.to_dimacs().replace(str(F.header.get('generator')), 'GEN'),
            )


def formulas():
    yield 'empty', CNF()
    yield 'emptyclause', CNF([[]])
    F = CNF()
    F.update_variable_number(3)
    yield 'vars-noclauses', F
    yield 'one', CNF([[1]])
    yield 'neg', CNF([[-1]])
    yield 'taut', CNF([[1, -1], [2, 2]])
    yield 'small', CNF([[1, -2], [2, 3], [-1, -3, 4], [4], []],
                       description='small {formula}')
    yield 'php', cnfgen.PigeonholePrinciple(3, 2)
    yield 'ordering', cnfgen.OrderingPrinciple(3)
    yield 'tseitin', cnfgen.TseitinFormula(nx.cycle_graph(4))
    G = CNF([[1, 2], [-1, 2]])
    del G.header['description']
    G.header['transformation 2'] = 'gap'
    yield 'nodesc', G


def attempt(tag, fn, F, *args, **kwargs):
    before = snapshot(F)
    try:
        out = fn(F, *args, **kwargs)
        emit(tag, 'ok', snapshot(out), out is F)
    except Exception as e:  # noqa
        emit(tag, 'exc', type(e).__name__, str(e))
        out = None
    emit(tag, 'input-same', snapshot(F) == before)
    return out


# ---------------------------------------------------------------------
# 1. direct use of apply_substitution: results, laziness, call order
# ---------------------------------------------------------------------
for name, F in formulas():
    calls = []

    def subst(lit):
        calls.append(lit)
        if lit > 0:
            return [[lit, lit + 100], [-(lit + 200)]]
        return [[lit - 300]]

    before = snapshot(F)
    gen = S.apply_substitution(F, subst)
    emit(name, 'isgen', isinstance(gen, types.GeneratorType), list(calls))
    produced = []
    for cls in gen:
        produced.append((type(cls).__name__, tuple(cls), len(calls)))
    emit(name, 'direct', produced, calls)
    emit(name, 'input-same', snapshot(F) == before)

    # substitutions giving zero clauses, the empty clause, tuples, generators
    for label, fn in [
            ('noclauses', lambda lit: []),
            ('emptycl', lambda lit: [[]]),
            ('tuples', lambda lit: ((lit,), (-lit, lit))),
            ('mixed', lambda lit: [] if lit == 2 else [[lit], [lit, -lit]]),
            ('sets', lambda lit: [frozenset([lit])]),
            ('iters', lambda lit: [iter([lit, -lit])]),
            ('none', lambda lit: None),
            ('int', lambda lit: [lit]),
            ('raise', lambda lit: 1 // (lit + 2)),
    ]:
        try:
            res = [(type(c).__name__, tuple(c))
                   for c in S.apply_substitution(F, fn)]
            emit(name, label, 'ok', res)
        except Exception as e:  # noqa
            emit(name, label, 'exc', type(e).__name__, str(e))

    # partial consumption: the generator is lazy, clause by clause
    calls = []
    gen = S.apply_substitution(F, subst)
    first = []
    for _ in range(2):
        try:
            first.append(tuple(next(gen)))
        except StopIteration:
            first.append('stop')
    emit(name, 'partial', first, calls)
    gen.close()

# ---------------------------------------------------------------------
# 2. all the transformations that are built on apply_substitution
# ---------------------------------------------------------------------
random.seed(19)
for name, F in formulas():
    N = F.number_of_variables()
    attempt((name, 'flip'), cnfgen.FlipPolarity, F)
    attempt((name, 'ite'), cnfgen.IfThenElseSubstitution, F)
    for k in (1, 2, 3):
        attempt((name, 'xor', k), cnfgen.XorSubstitution, F, k)
        attempt((name, 'or', k), cnfgen.OrSubstitution, F, k)
        attempt((name, 'and', k), S.AndSubstitution, F, k)
        attempt((name, 'maj', k), cnfgen.MajoritySubstitution, F, k)
        attempt((name, 'eq', k), cnfgen.AllEqualSubstitution, F, k)
        attempt((name, 'neq', k), cnfgen.NotAllEqualSubstitution, F, k)
        attempt((name, 'one', k), cnfgen.ExactlyOneSubstitution, F, k)
        attempt((name, 'lift', k), cnfgen.FormulaLifting, F, k)
        for c in (-1, 0, 1, 2, 4):
            attempt((name, 'atleast', k, c), cnfgen.AtLeastKSubstitution, F, k, c)
            attempt((name, 'atmost', k, c), cnfgen.AtMostKSubstitution, F, k, c)
            attempt((name, 'exact', k, c), cnfgen.ExactlyKSubstitution, F, k, c)
            attempt((name, 'anybut', k, c), cnfgen.AnythingButKSubstitution, F, k, c)
        for op in ('<', '>', '=', 'x'):
            attempt((name, 'linear', k, op), S.LinearSubstitution, F, k, op, 1)
    for k in (0, -1, 'a', None, 1.5):
        attempt((name, 'xor-bad', k), cnfgen.XorSubstitution, F, k)
        attempt((name, 'lift-bad', k), cnfgen.FormulaLifting, F, k)
    # variable compression
    for R in (1, 3):
        B = BipartiteGraph(N, R)
        rnd = random.Random((name, R).__repr__())
        for u in range(1, N + 1):
            for v in range(1, R + 1):
                if rnd.random() < 0.6:
                    B.add_edge(u, v)
        edges_before = sorted(B.edges())
        for f in ('xor', 'maj', 'and'):
            attempt((name, 'compress', R, f), cnfgen.VariableCompression, F, B, f)
        emit(name, 'graph-same', sorted(B.edges()) == edges_before)
    attempt((name, 'compress-wrong'), cnfgen.VariableCompression, F,
            BipartiteGraph(N + 1, 2), 'xor')
    # chains
    X = F
    for step, (fn, args) in enumerate([(cnfgen.OrSubstitution, (2,)),
                                       (cnfgen.FlipPolarity, ()),
                                       (cnfgen.XorSubstitution, (2,)),
                                       (cnfgen.Shuffle, ())]):
        X = attempt((name, 'chain', step), fn, X, *args)
        if X is None:
            break

print(H.hexdigest())
