#!/usr/bin/env python3
"""Equivalence check for cnfgen.utils.opb.to_opb_file (OPB rendering of both
CNF and OPB formula objects).  Prints one SHA256 digest."""
import os, sys, io, hashlib, random, contextlib, tempfile
sys.path.insert(0, os.getcwd())

from cnfgen.utils.opb import to_opb_file
from cnfgen.formula.cnf import CNF
from cnfgen.formula.opb import OPB
from cnfgen.formula.basecnf import BaseCNF
from cnfgen.formula.baseopb import BaseOPB
from cnfgen.clitools import pbgen
from cnfgen.clitools.cnfgen import cli as cnfcli

H = hashlib.sha256()
def rec(*items):
    for it in items:
        H.update(repr(it).encode('utf-8'))
        H.update(b'\x00')

class Recorder:
    """file-like object that records each write call separately"""
    def __init__(self):
        self.calls = []
    def write(self, s):
        self.calls.append(s)
        return len(s)

def attempt(label, fn):
    out, err = io.StringIO(), io.StringIO()
    rec(label)
    try:
        with contextlib.redirect_stdout(out), contextlib.redirect_stderr(err):
            res = fn()
        rec('OK', res)
    except SystemExit as e:
        rec('EXIT', e.code)
    except BaseException as e:
        rec('EXC', type(e).__name__, str(e))
    rec(out.getvalue(), err.getvalue())

def render_all(label, F):
    for eh in (True, False):
        for ev in (True, False):
            def f():
                r = Recorder()
                to_opb_file(F, r, export_header=eh, export_varnames=ev)
                return r.calls
            attempt((label, 'rec', eh, ev), f)
    # stdout
    attempt((label, 'stdout'), lambda: to_opb_file(F))
    attempt((label, 'stdout-q'), lambda: to_opb_file(F, None, export_header=False, export_varnames=True))
    # file name
    def g():
        d = tempfile.mkdtemp()
        p = os.path.join(d, 'out.opb')
        try:
            to_opb_file(F, p, export_header=True, export_varnames=True)
            with open(p, 'rb') as fh:
                return fh.read()
        finally:
            if os.path.exists(p):
                os.unlink(p)
            os.rmdir(d)
    attempt((label, 'fname'), g)
    # methods that route through to_opb_file
    if hasattr(F, 'to_opb'):
        attempt((label, 'to_opb'), F.to_opb)
    if hasattr(F, 'to_file'):
        def h():
            s = io.StringIO()
            F.to_file(s, fileformat='opb', export_header=False, export_varnames=True)
            return s.getvalue()
        attempt((label, 'to_file'), h)

# ---- hand made formulas ------------------------------------------------
for cls in (CNF, BaseCNF, OPB, BaseOPB):
    F = cls()
    render_all((cls.__name__, 'empty'), F)

    F = cls()
    F.add_clause([])
    render_all((cls.__name__, 'emptyclause'), F)

    F = cls()
    F.add_clause([1, -2, 3])
    F.add_clause([-1])
    F.add_clause([2, 2, -2])
    F.add_clause([-7, 5])
    render_all((cls.__name__, 'clauses'), F)

    # unchecked clauses, including the literal 0 and ids above the count
    F = cls()
    F.add_clause([0, 1, -1], check=False)
    F.add_clause([12, -30], check=False)
    render_all((cls.__name__, 'unchecked'), F)

for cls in (CNF, OPB):
    F = cls(description='multi\nline\n\ndescr with è non ascii')
    F.header['empty'] = ''
    F.header[3] = None
    x = F.new_variable('first')
    b = F.new_block(2, 2, label='b_{{{},{}}}')
    F.update_variable_number(8)
    y = F.new_variable('na\nme with newline')
    F.add_clause([x, -b(1, 2), y])
    F.cardinality_leq([x, b(2, 1), -b(2, 2), y], 2)
    F.cardinality_geq(list(b()), 3)
    F.cardinality_eq([x, -y, 7], 1)
    F.cardinality_neq([x, y, 6], 2)
    F.add_parity([x, y, -3], 1)
    F.add_parity([], 0)
    F.add_loose_majority([1, 2, 3, 4, 5])
    F.add_strict_minority([-1, -2, -3, -4])
    render_all((cls.__name__, 'rich'), F)

for cls in (OPB, BaseOPB):
    F = cls()
    F.add_constraint([(1, 3), (2, 1), (3, -2), '>=', 3])
    F.add_constraint([(1, 3), (-2, 2), (1, 4), '>', 3])
    F.add_constraint([(1, 3), (2, 1), (-3, -2), '==', 3])
    F.add_constraint([(2, -3), '<', 1])
    F.add_constraint([(10**12, 5), (-10**12, -6), '<=', -10**13])
    F.add_constraint(['>=', 0])
    F.add_constraint(['==', -4])
    F.add_constraint([(0, 2), (0, -2), '>=', 0])
    F.add_constraint([(5, 0), (-5, 0), '>=', 2], check=False)
    F.add_constraint([(1, 40), (1, -41), '<', 2], check=False)
    render_all((cls.__name__, 'constraints'), F)

# ---- error paths / odd inputs --------------------------------------------
attempt('list-as-formula', lambda: to_opb_file([[1, 2]], Recorder()))
attempt('none-as-formula', lambda: to_opb_file(None, Recorder()))
class Neither:
    header = {'k': 'v'}
    def number_of_variables(self): return 2
    def __len__(self): return 1
    def __iter__(self): return iter([[1, -2]])
    def all_variable_labels(self): return iter(['a', 'b'])
def neither():
    r = Recorder()
    to_opb_file(Neither(), r, export_header=True, export_varnames=True)
    return r.calls
attempt('neither', neither)
class Broken:
    def __init__(self, n): self.n = n; self.calls = []
    def write(self, s):
        self.calls.append(s)
        if len(self.calls) > self.n:
            raise IOError('disk full after %d' % self.n)
for n in (0, 1, 2, 3, 5, 8):
    for cls in (CNF, OPB):
        def broken():
            F = cls()
            F.add_clause([1, -2, 3])
            F.cardinality_leq([1, 2, 3], 1)
            b = Broken(n)
            try:
                to_opb_file(F, b, export_header=False)
            finally:
                rec(b.calls)
        attempt(('broken', n, cls.__name__), broken)
attempt('bad-dir', lambda: to_opb_file(CNF(), '/nonexistent-dir-xyz/out.opb'))
bad = OPB()
bad._constraints.append([(1, 'a'), '>=', 1])
attempt('str-literal', lambda: to_opb_file(bad, Recorder(), export_header=False))
bad = CNF()
bad.add_clause([1, 2])
bad._clauses.append(['a']) if hasattr(bad, '_clauses') else None
attempt('str-literal-cnf', lambda: to_opb_file(bad, Recorder(), export_header=False))

# ---- families through both command line tools --------------------------
families = [
    ['php', 4, 3], ['php', 0, 0], ['php', '--functional', '--onto', 3, 3],
    ['bphp', 4, 3], ['rphp', 4, 3, 2], ['op', 4], ['op', '--total', 3],
    ['and', 2, 3], ['or', 0, 0], ['true'], ['false'], ['parity', 5],
    ['count', 6, 3], ['matching', 'complete', 4],
    ['tseitin', 'first', 'grid', 2, 3], ['kcolor', 3, 'complete', 4],
    ['domset', 2, 'grid', 2, 2], ['tiling', 'grid', 2, 3], ['ec', 'complete', 5],
    ['subsetcard', 'complete', 3, 3], ['subsetcard', 5], ['ram', 3, 3, 5],
    ['vdw', 5, 3, 3], ['ptn', 6], ['kclique', 3, 'complete', 4],
    ['kcliquebin', 3, 'complete', 4], ['peb', 'pyramid', 2],
    ['stone', 3, 'pyramid', 2], ['cliquecoloring', 4, 3, 2],
    ['randkcnf', 3, 6, 5], ['pitfall', 6, 3, 2, 2, 2], ['cpls', 2, 2, 2],
    ['iso', 'complete', 3], ['ramlb', 3, 3, 'complete', 4],
    ['subgraph', '-G', 'complete', 4, '-H', 'complete', 3],
]
for fam in families:
    for tool, cli, pre in (('pbgen', pbgen.cli, []),
                           ('cnfgen', cnfcli, ['-of', 'opb'])):
        for opts in ([], ['-q'], ['--varnames'], ['-q', '--varnames']):
            argv = [tool] + pre + opts + ['-S', '11'] + fam
            random.seed(5)
            attempt(('string', argv), lambda: cli(argv, mode='string'))
        argv = [tool] + pre + ['-q', '-S', '11'] + fam
        def build():
            random.seed(5)
            F = cli(argv, mode='formula')
            r = Recorder()
            to_opb_file(F, r, export_header=False, export_varnames=True)
            return r.calls
        attempt(('formula', argv), build)
        # full 'output' mode, on standard output
        random.seed(5)
        attempt(('output', argv), lambda: cli(argv, mode='output'))

print(H.hexdigest())
