"""Equivalence harness for C15 refactorings (graph constructions on the command line)."""
import sys, os, io, random, hashlib, argparse, tempfile, contextlib
sys.path.insert(0, os.getcwd())

from cnfgen.clitools.graph_args import (make_graph_from_spec, parse_graph_argument,
                                         obtain_graph, ObtainGraphAction,
                                         ObtainSimpleGraph, ObtainBipartiteGraph,
                                         ObtainDirectedAcyclicGraph)
from cnfgen.clitools.cnfgen import cli
from cnfgen.clitools.cmdline import CLIError

H = hashlib.sha256()
TMP = [None]
LOG = []
def out(*xs):
    line = " ".join(str(x) for x in xs) + "\n"
    if TMP[0]:
        line = line.replace(TMP[0], "TMPDIR")
    if os.environ.get("EQUIV_LOG"):
        LOG.append(line)
    H.update(line.encode())

def fp(G):
    r = [type(G).__name__, G.name, G.number_of_vertices(), G.number_of_edges()]
    if G.is_bipartite():
        L, R = G.parts()
        r.append((list(L), list(R)))
    r.append(list(G.edges()))
    return repr(r)

def attempt(tag, f):
    try:
        out(tag, "OK", f())
    except SystemExit as e:
        out(tag, "EXIT", e.code)
    except BaseException as e:
        out(tag, "EXC", type(e).__name__, str(e))

SPECS = {
 'simple': ["gnp 8 0.5", "gnp 6 0.5 3", "gnp 0 .5", "gnp 5 1.5", "gnp 5", "gnp 4 1 2", "gnp 4 0 2",
            "gnm 8 10", "gnm 5 10", "gnm 5 11", "gnm 5 0", "gnm 0 0", "gnm 5 -1", "gnm 5 x",
            "gnd 8 3", "gnd 9 3", "gnd 4 4", "gnd 4 3", "gnd 4 0", "gnd 4",
            "grid 3 4", "grid 2 2 2", "grid 0 3", "grid 3", "grid", "torus 3 3", "torus 4", "torus -1 2",
            "complete 5", "complete 3 3", "complete 0", "complete 3 0", "complete 1 2 3", "complete",
            "empty 4", "empty 0", "empty 2 2", "empty",
            "gnm 8 10 plantclique 4", "gnm 8 10 plantclique 9", "gnm 8 10 plantclique 0",
            "gnm 8 10 plantclique 8", "gnm 8 10 plantclique -1", "gnm 8 10 plantclique 1 2",
            "gnm 8 10 addedges 5", "gnm 8 10 addedges 18", "gnm 8 10 addedges 19", "gnm 8 10 addedges -1",
            "gnm 10 44 addedges 1", "gnm 10 43 addedges 2", "gnm 10 45 addedges 0", "gnm 10 45 addedges 1",
            "complete 6 addedges 0", "empty 5 addedges 10", "empty 5 addedges 11",
            "gnm 8 10 splitedges 3", "gnm 8 10 splitedges 10", "gnm 8 10 splitedges 11",
            "gnm 8 10 splitedges 0", "gnm 8 10 splitedges", "gnm 8 10 splitedges 1 2",
            "gnm 8 10 plantclique 3 addedges 2 splitedges 2",
            "gnm 8 10 addedges 2 addedges 3", "gnm 8 10 gnp 3", "gnm 8 10 --foo", "gnm 8 10 bar",
            "glrd 3 3 1", "kthlist", "kthlist nofile.kthlist", "nofile.gml", "nofile", "matrix x.matrix",
            "gnm 8 10 plantbiclique 1 1", "path 4", "gnm 8 10 save", "gnm 8 10 save dot", ""],
 'bipartite': ["glrp 4 5 0.5", "glrp 4 5 0", "glrp 4 5 1", "glrp 0 5 .5", "glrp 4 5 2", "glrp 4 5",
               "glrm 4 5 7", "glrm 4 5 20", "glrm 4 5 21", "glrm 4 5 0", "glrm 4 5 6", "glrm 4 0 0", "glrm 4 5 -1",
               "glrd 4 5 3", "glrd 4 5 5", "glrd 4 5 6", "glrd 4 5 0", "glrd 0 5 1", "glrd 4 5",
               "regular 4 6 3", "regular 6 4 2", "regular 4 6 2", "regular 4 4 4", "regular 5 5 4",
               "regular 4 4 0", "regular 4 4 5", "regular 0 4 1", "regular 4 0 1", "regular 3 3",
               "shift 4 5 0 1 3", "shift 4 5", "shift 4", "shift 4 5 1 1", "shift 4 5 6", "shift 4 5 5",
               "shift 4 5 -1", "shift 0 5 1", "shift 4 5 3 1 0",
               "complete 3 4", "complete 3", "complete 0 4", "empty 3 4", "empty 3", "empty 3 0",
               "glrm 4 5 7 plantbiclique 2 3", "glrm 4 5 7 plantbiclique 5 3", "glrm 4 5 7 plantbiclique 4 5",
               "glrm 4 5 7 plantbiclique 0 0", "glrm 4 5 7 plantbiclique 2", "glrm 4 5 7 plantbiclique -1 2",
               "glrm 4 5 7 addedges 13", "glrm 4 5 7 addedges 14", "glrm 4 5 19 addedges 1", "glrm 4 5 7 addedges 3",
               "glrm 4 5 7 plantbiclique 2 2 addedges 3", "glrm 4 5 7 splitedges 1", "glrm 4 5 7 plantclique 2",
               "gnp 4 .5", "dot x.dot", "gml", "nofile.matrix", "x.kthlist"],
 'dag': ["path 0", "path 5", "path -1", "path", "path 1 2", "tree 0", "tree 3", "tree -1", "tree x",
         "pyramid 0", "pyramid 4", "pyramid -2", "pyramid 1 1", "pyramid 3 addedges 1", "gnp 3 .5", "nofile.kthlist"],
 'digraph': ["path 3", "tree 2", "pyramid 2", "tree", "complete 3"],
}

def run_specs():
    for gt, specs in SPECS.items():
        for spec in specs:
            for seed in (1, 2, 3):
                random.seed(seed)
                attempt("spec %s|%s|%d" % (gt, spec, seed),
                        lambda: fp(make_graph_from_spec(gt, spec)))
                out("rnd", random.random())
            attempt("parse %s|%s" % (gt, spec), lambda: sorted(parse_graph_argument(gt, spec).items()))

def run_save(tmp):
    n = 0
    for gt, spec, fmts in [('simple', "gnm 7 9 plantclique 3 addedges 2 splitedges 2", ['kthlist', 'gml', 'dimacs', 'matrix']),
                           ('simple', "gnp 6 .5 2", ['kthlist', 'dimacs']),
                           ('bipartite', "glrd 4 5 2 plantbiclique 2 2 addedges 2", ['kthlist', 'matrix', 'gml']),
                           ('bipartite', "regular 4 6 3", ['matrix']),
                           ('dag', "pyramid 3", ['kthlist', 'gml', 'dimacs', 'matrix']),
                           ('dag', "tree 2", ['kthlist'])]:
        for f in fmts:
            for explicit in (True, False):
                n += 1
                fname = os.path.join(tmp, "g%d.%s" % (n, f))
                s = spec + (" save %s %s" % (f, fname) if explicit else " save %s" % fname)
                random.seed(n)
                attempt("save %s|%s|%s|%s" % (gt, spec, f, explicit), lambda: fp(make_graph_from_spec(gt, s)))
                if os.path.exists(fname):
                    out("file", open(fname).read())
                    attempt("reload", lambda: fp(make_graph_from_spec(gt, f + " " + fname)))
                    attempt("reload-auto", lambda: fp(make_graph_from_spec(gt, fname)))
                else:
                    out("nofile")

class P(argparse.ArgumentParser):
    def error(self, message):
        raise CLIError("PERR:" + message)

def run_actions():
    for cls, gt in [(ObtainSimpleGraph, 'simple'), (ObtainBipartiteGraph, 'bipartite'),
                    (ObtainDirectedAcyclicGraph, 'dag')]:
        out("mro", [c.__name__ for c in cls.__mro__[:3]], issubclass(cls, ObtainGraphAction))
        attempt("nargs " + gt, lambda: cls([], 'G', nargs=2))
        attempt("base-nargs", lambda: ObtainGraphAction([], 'G', nargs='*'))
        a = cls([], 'G')
        out("action", a.nargs, a.dest, a.option_strings)
        for spec in SPECS[gt]:
            if not spec:
                continue
            p = P(prog='x')
            p.add_argument('G', action=cls)
            random.seed(5)
            attempt("act %s|%s" % (gt, spec), lambda: fp(p.parse_args(spec.split()).G))
        p = P(prog='x')
        p.add_argument('--gg', action=cls)
        p.add_argument('H', action=cls)
        first = [s for s in SPECS[gt] if s][0]
        random.seed(6)
        def both():
            ns = p.parse_args(['--gg'] + first.split() + ['save', os.devnull] if False else first.split())
            return fp(ns.H), ns.gg
        attempt("act2 " + gt, both)

CLI = [["cnfgen", "-q", "--seed", "7", "kclique", "3", "gnm", "7", "12"],
       ["cnfgen", "-q", "--seed", "7", "kclique", "3", "gnm", "7", "22"],
       ["cnfgen", "-q", "--seed", "7", "kclique", "3", "gnp", "5", ".5", "3", "plantclique", "3"],
       ["cnfgen", "-q", "--seed", "7", "kcolor", "3", "gnd", "6", "3", "addedges", "2", "splitedges", "1"],
       ["cnfgen", "-q", "--seed", "7", "kcolor", "3", "gnd", "7", "3"],
       ["cnfgen", "-q", "--seed", "7", "tseitin", "random", "torus", "3", "3"],
       ["cnfgen", "-q", "--seed", "7", "tseitin", "random", "grid", "0", "3"],
       ["cnfgen", "-q", "--seed", "7", "domset", "2", "complete", "2", "2"],
       ["cnfgen", "-q", "--seed", "7", "php", "glrd", "4", "3", "2"],
       ["cnfgen", "-q", "--seed", "7", "php", "glrd", "4", "3", "4"],
       ["cnfgen", "-q", "--seed", "7", "php", "regular", "6", "4", "2", "plantbiclique", "2", "2"],
       ["cnfgen", "-q", "--seed", "7", "php", "regular", "6", "4", "3"],
       ["cnfgen", "-q", "--seed", "7", "php", "glrm", "3", "3", "10"],
       ["cnfgen", "-q", "--seed", "7", "php", "shift", "4", "3", "0", "1"],
       ["cnfgen", "-q", "--seed", "7", "php", "gnm", "4", "3"],
       ["cnfgen", "-q", "--seed", "7", "peb", "pyramid", "3"],
       ["cnfgen", "-q", "--seed", "7", "peb", "tree", "-1"],
       ["cnfgen", "-q", "--seed", "7", "peb", "path", "3", "addedges", "1"],
       ["cnfgen", "-q", "--seed", "7", "stone", "2", "tree", "2"],
       ["cnfgen", "-q", "--seed", "7", "subsetcard", "glrd", "3", "4", "2", "addedges", "1"],
       ["cnfgen", "-q", "--seed", "7", "kclique", "3", "nosuchfile.gml"],
       ["cnfgen", "-q", "--seed", "7", "kclique", "3", "gnm", "7", "12", "-T", "shuffle"],
       ["cnfgen", "kclique", "-h"], ["cnfgen", "php", "-h"], ["cnfgen", "peb", "-h"]]

def run_cli(tmp):
    for argv in CLI:
        so, se = io.StringIO(), io.StringIO()
        with contextlib.redirect_stdout(so), contextlib.redirect_stderr(se):
            attempt("cli " + " ".join(argv), lambda: cli(argv, mode='string'))
        out("stdout", so.getvalue()); out("stderr", se.getvalue())
    fname = os.path.join(tmp, "saved.kthlist")
    argv = ["cnfgen", "-q", "--seed", "9", "kclique", "3", "gnm", "7", "12", "plantclique", "3", "save", fname]
    attempt("cli-save", lambda: cli(argv, mode='string').replace(tmp, "TMP"))
    out("saved", open(fname).read())
    attempt("cli-reload", lambda: cli(["cnfgen", "-q", "kclique", "3", fname], mode='string').replace(tmp, "TMP"))

def run_addedges():
    from cnfgen.graphs import Graph, BipartiteGraph, DirectedGraph, add_random_missing_edges
    import networkx
    for n in range(0, 9):
        tot = n * (n - 1) // 2
        for pre in sorted(set([0, tot // 2, max(tot - 2, 0), max(tot - 1, 0), tot])):
            for m in sorted(set([0, 1, 2, tot - pre - 1, tot - pre, tot - pre + 1, -1])):
                for seed in range(4):
                    def f():
                        random.seed(1000 + seed)
                        G = Graph.from_networkx(networkx.gnm_random_graph(n, pre)) if n > 0 else Graph(0)
                        G.name = "g"
                        if seed % 2:
                            add_random_missing_edges(G, m, seed=seed)
                        else:
                            add_random_missing_edges(G, m)
                        return fp(G), random.random()
                    attempt("add %d %d %d %d" % (n, pre, m, seed), f)
    for L in range(1, 5):
        for R in range(1, 5):
            tot = L * R
            for pre in sorted(set([0, tot // 2, tot - 1, tot])):
                for m in sorted(set([0, 1, tot - pre - 1, tot - pre, tot - pre + 1, -2])):
                    for seed in range(3):
                        def f():
                            random.seed(2000 + seed)
                            B = BipartiteGraph(L, R)
                            B.name = "b"
                            for (u, v) in random.sample([(u, v) for u in range(1, L + 1) for v in range(1, R + 1)], pre):
                                B.add_edge(u, v)
                            add_random_missing_edges(B, m)
                            return fp(B), random.random()
                        attempt("badd %d %d %d %d %d" % (L, R, pre, m, seed), f)

if __name__ == "__main__":
    run_addedges()
    run_specs()
    with tempfile.TemporaryDirectory() as tmp:
        TMP[0] = tmp
        run_save(tmp)
        run_cli(tmp)
    run_actions()
    if os.environ.get("EQUIV_LOG"):
        open(os.environ["EQUIV_LOG"], "w").write("".join(LOG))
    print(H.hexdigest())
