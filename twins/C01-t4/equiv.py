"""Equivalence digest for RelativizedPigeonholePrinciple (cnfgen/families/pigeonhole.py)."""
import hashlib
import sys
sys.path.insert(0, '.')

from cnfgen.families.pigeonhole import (RelativizedPigeonholePrinciple,
                                        PigeonholePrinciple,
                                        BinaryPigeonholePrinciple)
from cnfgen.formula.opb import OPB

H = hashlib.sha256()


def emit(*items):
    for it in items:
        H.update(repr(it).encode('utf-8'))
        H.update(b'\n')


def observe(tag, thunk, latex=True):
    emit('CASE', tag)
    try:
        F = thunk()
    except Exception as exc:  # record type and message
        emit('EXC', type(exc).__name__, str(exc))
        return
    emit('TYPE', type(F).__name__)
    emit('HEADER', sorted(F.header.items()))
    emit('NVARS', F.number_of_variables(), 'LEN', len(F))
    emit('LABELS', list(F.all_variable_labels()))
    emit('BODY', [list(c) for c in F])
    if isinstance(F, OPB):
        emit('OPB', F.to_opb())
    else:
        emit('DIMACS', F.to_dimacs())
        if latex:
            emit('LATEX', F.to_latex())


# all small parameters, including every zero boundary (no resting places,
# no pigeons, no holes)
for m in range(0, 5):
    for t in range(0, 5):
        for n in range(0, 5):
            observe(('rphp', m, t, n), lambda: RelativizedPigeonholePrinciple(m, t, n))
for m, t, n in [(3, 4, 2), (2, 2, 2), (0, 0, 0), (0, 3, 0), (3, 0, 3), (1, 1, 1), (4, 5, 3)]:
    observe(('rphp-opb', m, t, n),
            lambda: RelativizedPigeonholePrinciple(m, t, n, formula_class=OPB))
for m, t, n in [(5, 7, 4), (6, 6, 6), (2, 9, 3), (7, 3, 2)]:
    observe(('rphp-big', m, t, n), lambda: RelativizedPigeonholePrinciple(m, t, n),
            latex=False)

# invalid arguments
bad = [(-1, 2, 2), (3, -1, 2), (3, 2, -1), ('a', 2, 2), (3, 'b', 2), (3, 2, 'c'),
       (3.0, 2, 2), (3, 2.5, 2), (3, 2, None), (None, None, None), (True, 1, 1),
       ([3], 2, 2)]
for m, t, n in bad:
    observe(('rphp-bad', repr(m), repr(t), repr(n)),
            lambda: RelativizedPigeonholePrinciple(m, t, n))

# siblings in the same module, as a guard
for m in range(0, 4):
    for n in range(0, 4):
        for fun in (False, True):
            for onto in (False, True):
                observe(('php', m, n, fun, onto),
                        lambda: PigeonholePrinciple(m, n, functional=fun, onto=onto))
        observe(('bphp', m, n), lambda: BinaryPigeonholePrinciple(m, n))

print(H.hexdigest())
