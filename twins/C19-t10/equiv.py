#!/usr/bin/env python
"""Equivalence script for the refactoring of the command line helpers
XorCompressionCmd.transform_cnf / MajCompressionCmd.transform_cnf in
cnfgen/clihelpers/transformation_helpers.py"""
import argparse
import contextlib
import hashlib
import io
import random
import sys
import warnings

warnings.simplefilter('ignore')
sys.path.insert(0, '.')

from cnfgen import CNF, BipartiteGraph, PigeonholePrinciple, OrderingPrinciple
from cnfgen import RandomKCNF, Shuffle, XorSubstitution
from cnfgen.clitools.cnfgen import cli
from cnfgen.clihelpers.transformation_helpers import XorCompressionCmd
from cnfgen.clihelpers.transformation_helpers import MajCompressionCmd

OUT = []


def rec(*items):
    OUT.append(repr(items))


def snapshot(F):
    buf = io.StringIO()
    F.to_file(buf, fileformat='dimacs', export_header=True)
    return (list(F.header.items()), F.number_of_variables(),
            F.number_of_clauses(), list(F.all_variable_labels()),
            [tuple(c) for c in F.clauses()], buf.getvalue())


def graph_snapshot(B):
    return (type(B).__name__, B.left_order(), B.right_order(),
            B.number_of_edges(), list(B.edges()), B.name,
            [list(B.right_neighbors(u)) for u in range(1, B.left_order()+1)])


def run_cli(argv):
    rec('ARGV', argv)
    random.seed(2024)
    err = io.StringIO()
    out = io.StringIO()
    try:
        with contextlib.redirect_stderr(err), contextlib.redirect_stdout(out):
            res = cli(list(argv), mode='formula')
        rec('formula', snapshot(res))
    except SystemExit as e:
        rec('SystemExit', e.code)
    except BaseException as e:
        rec('EXC', type(e).__name__, str(e))
    rec('stdout', out.getvalue())
    rec('stderr', err.getvalue())
    rec('random state after', random.random())


BASES = [
    ['php', '3', '2'],
    ['op', '3'],
    ['-S', '5', 'randkcnf', '3', '6', '7'],
    ['and', '0', '0'],
    ['or', '1', '0'],
]

TAILS = [
    ['5'], ['5', '2'], ['1'], ['1', '1'], ['6', '6'], ['10', '1'],
    ['9', '4'], ['4', '0'], ['0'], ['2', '3'], ['-3'], ['3', '2', '1'],
    [], ['x'], ['2.5'], ['1e1'],
    ['glrd', '6', '4', '2'], ['glrd', '3', '5', '3'], ['glrd', '6', '6', '1'],
    ['regular', '6', '4', '2'], ['complete', '6', '2'], ['complete', '3', '3'],
    ['glrm', '6', '5', '9'], ['glrp', '6', '4', '.5'],
    ['complete', '4', '2'], ['glrd', '0', '2', '1'], ['nographkind', '3'],
    ['glrd', '6', '4', '2', 'plantbiclique', '2', '2'],
    ['glrd', '6', '4', '2', 'addedges', '3'],
]

for base in BASES:
    for comp in ['xorcomp', 'majcomp']:
        for tail in TAILS:
            run_cli(['cnfgen'] + base + ['-T', comp] + tail)

# chains: provenance entries in order
for chain in [
        ['-T', 'xorcomp', '5', '2', '-T', 'majcomp', '4', '3'],
        ['-T', 'majcomp', '5', '-T', 'xorcomp', '3', '-T', 'flip'],
        ['-T', 'shuffle', '-T', 'xorcomp', 'glrd', '6', '4', '2', '-T', 'shuffle'],
        ['-T', 'or', '2', '-T', 'majcomp', '7', '-T', 'xorcomp', '4', '1'],
        ['-T', 'xorcomp', '6', '1', '-T', 'xorcomp', '6', '1', '-T', 'xorcomp', '6', '1'],
]:
    run_cli(['cnfgen', '-S', '11', 'php', '3', '2'] + chain)


# direct calls to the helpers
def formulas():
    yield 'empty', CNF()
    yield 'emptyclause', CNF([[]])
    F = CNF([[1, -2], [2, 3], [-1, -3, 4]], description='hand made')
    yield 'small', F
    yield 'php', PigeonholePrinciple(4, 3)
    yield 'op', OrderingPrinciple(3)
    random.seed(9)
    yield 'rand', RandomKCNF(3, 7, 10)
    random.seed(10)
    yield 'chained', Shuffle(XorSubstitution(PigeonholePrinciple(2, 2), 2))
    G = CNF()
    G.update_variable_number(5)
    yield 'noclauses', G


def graph_for(L, R, kind):
    B = BipartiteGraph(L, R, name='test graph {}'.format(kind))
    if kind == 'empty':
        return B
    for u in range(1, L+1):
        for j in range(kind):
            if R > 0:
                B.add_edge(u, (u + j * 2) % R + 1)
    return B


for label, F in formulas():
    V = F.number_of_variables()
    for cmd in [XorCompressionCmd, MajCompressionCmd]:
        namespaces = []
        for N, d in [(1, 1), (3, 1), (3, 3), (4, 2), (5, 3), (2, 5), (7, 0)]:
            namespaces.append(('Nd', argparse.Namespace(N=N, d=d)))
        for R in [1, 3, 6]:
            for kind in ['empty', 1, 2, 3]:
                namespaces.append(('B', argparse.Namespace(B=graph_for(V, R, kind))))
        namespaces.append(('Bwrong', argparse.Namespace(B=graph_for(V+1, 3, 2))))
        namespaces.append(('both', argparse.Namespace(N=4, d=2, B=graph_for(V, 3, 1))))
        namespaces.append(('neither', argparse.Namespace(other=1)))
        namespaces.append(('Nonly', argparse.Namespace(N=4)))
        namespaces.append(('Bnone', argparse.Namespace(B=None)))
        namespaces.append(('Bnx', argparse.Namespace(B='not a graph')))
        for tag, ns in namespaces:
            rec('DIRECT', label, cmd.name, tag)
            before = snapshot(F)
            gbefore = graph_snapshot(ns.B) if isinstance(getattr(ns, 'B', None), BipartiteGraph) else None
            nsbefore = sorted(k for k in vars(ns))
            random.seed(77)
            try:
                res = cmd.transform_cnf(F, ns)
                rec('result', snapshot(res))
                rec('is new object', res is not F)
            except BaseException as e:
                rec('EXC', type(e).__name__, str(e))
            rec('random state after', random.random())
            rec('input untouched', snapshot(F) == before)
            if gbefore is not None:
                rec('graph untouched', graph_snapshot(ns.B) == gbefore)
            rec('namespace keys untouched', sorted(k for k in vars(ns)) == nsbefore)

digest = hashlib.sha256('\n'.join(OUT).encode('utf-8')).hexdigest()
print(digest)
