#!/usr/bin/env python3
"""Equivalence script for t17: BipartiteGraph.from_networkx (bipartite graphs).

Drives bipartite graphs through random sequences of add_edge /
add_edges_from with valid and invalid arguments, converts them to
networkx and back (also through relabelled, shuffled, damaged and
oddly annotated networkx graphs), records every observable view and
every exception, and prints one SHA256.
"""
import os
import sys
sys.path.insert(0, os.getcwd())

import hashlib
import io
import random

import networkx

from cnfgen.graphs import BipartiteGraph, CompleteBipartiteGraph, Graph
from cnfgen.graphs import writeGraph, readGraph
from cnfgen.graphs import bipartite_random_left_regular, bipartite_shift

OUT = []


def rec(*items):
    OUT.append(repr(items))


def attempt(label, fn, *args):
    try:
        res = fn(*args)
        if isinstance(res, (type(None), bool, int, list, tuple, str, range)):
            rec(label, 'ok', repr(res))
        else:
            rec(label, 'ok', type(res).__name__)
        return res
    except Exception as e:  # noqa
        rec(label, 'exc', type(e).__name__, str(e))
        return None


def dump(B):
    L, R = B.left_order(), B.right_order()
    rec('orders', L, R, B.number_of_vertices(), B.order(), len(B),
        [list(p) for p in B.parts()], list(B.vertices()))
    E = B.edges()
    rec('m', B.number_of_edges(), len(E))
    rec('edges', list(E), list(E))
    rec('ladj', sorted((k, list(v)) for k, v in B.ladj.items()),
        'radj', sorted((k, list(v)) for k, v in B.radj.items()))
    rec('edgeset', sorted(B.edgeset))
    for u in range(0, L + 2):
        attempt(('rn', u), lambda u=u: list(B.right_neighbors(u)))
        attempt(('rd', u), B.right_degree, u)
    for v in range(0, R + 2):
        attempt(('ln', v), lambda v=v: list(B.left_neighbors(v)))
        attempt(('ld', v), B.left_degree, v)
    rec('has', [(u, v) for u in range(0, L + 2) for v in range(0, R + 2)
                if B.has_edge(u, v)])
    rec('in', [(u, v) in E for u in range(1, L + 1) for v in range(1, R + 1)])
    rec('flags', B.name, B.is_bipartite(), B.is_multigraph())
    attempt('is_dag', B.is_dag)
    attempt('is_directed', B.is_directed)


def nx_dump(X):
    rec('nx-nodes', [(repr(u), sorted(d.items())) for u, d in X.nodes(data=True)])
    rec('nx-edges', [(repr(u), repr(v)) for u, v in X.edges()], X.name)


def roundtrip(B, rng):
    X = B.to_networkx()
    nx_dump(X)
    H = attempt('back', BipartiteGraph.from_networkx, X)
    if H is not None:
        dump(H)
        rec('same', list(H.edges()) == list(B.edges()),
            H.left_order() == B.left_order(), H.right_order() == B.right_order())
    rec('normalize', BipartiteGraph.normalize(B) is B)
    H = attempt('normalize-nx', BipartiteGraph.normalize, X, 'XX')
    if H is not None:
        dump(H)

    # same graph, nodes and edges inserted in a shuffled order, edges
    # sometimes given as (right, left), colours given in various spellings
    nodes = list(X.nodes(data=True))
    edges = list(X.edges())
    rng.shuffle(nodes)
    rng.shuffle(edges)
    for spelling in [lambda c: c, str, bool, float]:
        Y = networkx.Graph()
        for u, d in nodes:
            Y.add_node(u, bipartite=spelling(d['bipartite']))
        for u, v in edges:
            if rng.random() < 0.5:
                u, v = v, u
            Y.add_edge(u, v)
        Y.name = 'shuffled'
        nx_dump(Y)
        H = attempt(('back-shuffled', spelling.__name__), BipartiteGraph.from_networkx, Y)
        if H is not None:
            dump(H)

    # relabelled with text labels
    Z = networkx.relabel_nodes(X, {u: 'v{}'.format(u) for u in X.nodes()})
    H = attempt('back-text', BipartiteGraph.from_networkx, Z)
    if H is not None:
        dump(H)

    # damaged copies: error paths
    nodes = list(X.nodes())
    if nodes:
        u = rng.choice(nodes)
        for bad in ['missing', 2, -1, '2', None, 'left', [0], 0.5]:
            W = X.copy()
            if bad == 'missing':
                del W.nodes[u]['bipartite']
            else:
                W.nodes[u]['bipartite'] = bad
            attempt(('damaged', u, repr(bad)), BipartiteGraph.from_networkx, W)
        # flipping one endpoint puts an edge inside one part
        W = X.copy()
        W.nodes[u]['bipartite'] = 1 - W.nodes[u]['bipartite']
        H = attempt(('flipped', u), BipartiteGraph.from_networkx, W)
        if H is not None:
            dump(H)
        # self loop
        W = X.copy()
        W.add_edge(u, u)
        attempt(('selfloop', u), BipartiteGraph.from_networkx, W)
        # an extra node without annotation, added last / first
        W = X.copy()
        W.add_node('extra')
        attempt('extra-node', BipartiteGraph.from_networkx, W)
        attempt('extra-node-normalize', BipartiteGraph.normalize, W, 'W')
    if len(nodes) >= 2:
        a, b = nodes[0], nodes[1]
        W = X.copy()
        W.add_edge(a, b)
        H = attempt(('extra-edge', a, b), BipartiteGraph.from_networkx, W)
        if H is not None:
            dump(H)

    # multigraph and digraph inputs are networkx.Graph instances too
    M = networkx.MultiGraph(X)
    for u, v in list(X.edges())[:2]:
        M.add_edge(v, u)
    H = attempt('multi', BipartiteGraph.from_networkx, M)
    if H is not None:
        dump(H)
    Dg = networkx.DiGraph()
    Dg.add_nodes_from(X.nodes(data=True))
    Dg.add_edges_from((v, u) for u, v in X.edges())
    H = attempt('di', BipartiteGraph.from_networkx, Dg)
    if H is not None:
        dump(H)


def random_ops(rng, L, R, steps):
    B = BipartiteGraph(L, R)
    dump(B)
    roundtrip(B, rng)
    for step in range(steps):
        op = rng.choice(['add', 'add', 'add', 'many', 'dup'])
        if op == 'add':
            u = rng.randint(-1, L + 2)
            v = rng.randint(-1, R + 2)
            attempt(('add', u, v), B.add_edge, u, v)
        elif op == 'many':
            es = [(rng.randint(0, L + 1), rng.randint(0, R + 1))
                  for _ in range(rng.randint(0, 5))]
            attempt(('many', es), B.add_edges_from, es)
        else:
            es = list(B.edges())
            if es:
                u, v = rng.choice(es)
                attempt(('dup', u, v), B.add_edge, u, v)
        dump(B)
        if step % 4 == 3:
            roundtrip(B, rng)
    roundtrip(B, rng)
    return B


def main():
    rng = random.Random(160017)
    for (L, R) in [(0, 0), (0, 3), (3, 0), (1, 1), (2, 3), (4, 2), (5, 5)]:
        for rep in range(2):
            rec('SEQ', L, R, rep)
            B = random_ops(rng, L, R, 16)
            for fmt in ['kthlist', 'matrix', 'gml', 'dot']:
                buf = io.StringIO()
                attempt(('write', fmt), writeGraph, B, buf, 'bipartite', fmt)
                rec(fmt, buf.getvalue())
                H = attempt(('read', fmt),
                            lambda: readGraph(io.StringIO(buf.getvalue()), 'bipartite', fmt))
                if H is not None:
                    dump(H)

    # non graph / wrong type inputs
    for bad in [None, 3, 'graph', [(1, 2)], Graph(3), BipartiteGraph(1, 1)]:
        attempt(('from-bad', type(bad).__name__), BipartiteGraph.from_networkx, bad)
        attempt(('norm-bad', type(bad).__name__), BipartiteGraph.normalize, bad, 'arg')

    # networkx's own bipartite generators
    for (a, b) in [(0, 0), (1, 0), (0, 2), (1, 1), (3, 2), (5, 7)]:
        X = networkx.bipartite.complete_bipartite_graph(a, b)
        H = attempt(('kab', a, b), BipartiteGraph.from_networkx, X)
        if H is not None:
            dump(H)
    X = networkx.bipartite.random_graph(4, 5, 0.4, seed=7)
    H = attempt('nx-random', BipartiteGraph.from_networkx, X)
    if H is not None:
        dump(H)
    X = networkx.path_graph(4)
    attempt('unannotated', BipartiteGraph.from_networkx, X)

    # package constructions, round trip through networkx
    for seed in range(3):
        B = bipartite_random_left_regular(4, 6, 2, seed=seed)
        dump(B)
        roundtrip(B, rng)
        rec('rnd', random.random())
    B = bipartite_shift(5, 4, [1, 2])
    dump(B)
    roundtrip(B, rng)
    C = CompleteBipartiteGraph(2, 3)
    attempt('complete-add', C.add_edge, 9, 9)
    rec('complete', list(C.edges()), C.number_of_edges(), C.has_edge(2, 3), C.has_edge(3, 3))
    X = C.to_networkx()
    nx_dump(X)
    H = attempt('complete-back', BipartiteGraph.from_networkx, X)
    if H is not None:
        dump(H)

    h = hashlib.sha256()
    for line in OUT:
        h.update(line.encode('utf-8'))
        h.update(b'\n')
    print(h.hexdigest())


if __name__ == '__main__':
    main()
