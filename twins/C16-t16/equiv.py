#!/usr/bin/env python3
"""Equivalence script for t16: DirectedEdgeList.__iter__ (directed graphs).

Drives directed graphs through random sequences of add_edge /
add_edges_from with valid and invalid arguments, records every
observable view (both edge orderings, membership, pred/succ, degrees,
dag flag, networkx round trip, file writers, a formula built on the
graph) after each step, and prints one SHA256.
"""
import os
import sys
sys.path.insert(0, os.getcwd())

import hashlib
import io
import random

import networkx

from cnfgen.graphs import DirectedGraph, DirectedEdgeList, writeGraph, readGraph
from cnfgen.graphs import dag_pyramid, dag_complete_binary_tree, dag_path
from cnfgen.families.pebbling import PebblingFormula

OUT = []


def rec(*items):
    OUT.append(repr(items))


def attempt(label, fn, *args):
    try:
        res = fn(*args)
        if isinstance(res, (type(None), bool, int, list, tuple, str)):
            rec(label, 'ok', repr(res))
        else:
            rec(label, 'ok', type(res).__name__)
        return res
    except Exception as e:  # noqa
        rec(label, 'exc', type(e).__name__, str(e))
        return None


def write(G, gtype, fmt):
    buf = io.StringIO()
    try:
        writeGraph(G, buf, gtype, fmt)
        rec('write', gtype, fmt, buf.getvalue())
    except Exception as e:  # noqa
        rec('write', gtype, fmt, 'exc', type(e).__name__, str(e))
    return buf.getvalue()


def dump(D, heavy=False):
    n = D.number_of_vertices()
    rec('n', n, D.order(), len(D), list(D.vertices()))
    E = D.edges()
    F = D.edges_ordered_by_successors()
    rec('m', D.number_of_edges(), len(E), len(F))
    rec('edges', list(E), list(E))
    rec('edges2', list(F), list(F))
    rec('explicit', list(DirectedEdgeList(D)), list(DirectedEdgeList(D, True)),
        list(DirectedEdgeList(D, False)), list(DirectedEdgeList(D, 0)),
        list(DirectedEdgeList(D, 'x')), list(DirectedEdgeList(D, None)),
        list(DirectedEdgeList(D, sort_by_predecessors=[])))
    # interleaved consumption of the two iterators
    it1, it2 = iter(E), iter(F)
    mixed = []
    for _ in range(D.number_of_edges() + 1):
        mixed.append((next(it1, None), next(it2, None)))
    rec('mixed', mixed)
    rec('pred', [list(p) for p in D.pred], 'succ', [list(s) for s in D.succ])
    rec('edgeset', sorted(D.edgeset))
    for u in range(0, n + 2):
        attempt(('pr', u), lambda u=u: list(D.predecessors(u)))
        attempt(('su', u), lambda u=u: list(D.successors(u)))
        attempt(('ind', u), D.in_degree, u)
        attempt(('outd', u), D.out_degree, u)
    rec('has', [(u, v) for u in range(0, n + 2) for v in range(0, n + 2)
                if D.has_edge(u, v)])
    rec('in', [((u, v) in E, (u, v) in F) for u in range(1, n + 1) for v in range(1, n + 1)])
    rec('in-odd', attempt('c1', lambda: (1,) in E), attempt('c3', lambda: (1, 2, 3) in F))
    rec('flags', D.name, D.is_dag(), D.is_directed(), D.is_bipartite(), D.is_multigraph())
    X = D.to_networkx()
    rec('nx', sorted(X.nodes()), sorted(X.edges()), list(X.edges()))
    H = DirectedGraph.from_networkx(X)
    rec('back', H.number_of_vertices(), list(H.edges()),
        list(H.edges_ordered_by_successors()), H.is_dag())
    if heavy:
        for fmt in ['kthlist', 'dimacs', 'gml', 'dot']:
            write(D, 'digraph', fmt)
            if D.is_dag():
                write(D, 'dag', fmt)
        txt = write(D, 'digraph', 'kthlist')
        R = attempt('reread', lambda: readGraph(io.StringIO(txt), 'digraph', 'kthlist'))
        if R is not None:
            rec('reread', R.number_of_vertices(), list(R.edges()),
                list(R.edges_ordered_by_successors()))
        if D.is_dag():
            try:
                Fm = PebblingFormula(D)
                rec('peb', Fm.number_of_variables(), list(Fm.clauses()))
            except Exception as e:  # noqa
                rec('peb', 'exc', type(e).__name__, str(e))


def random_ops(rng, n0, steps, forward_only):
    D = DirectedGraph(n0)
    dump(D, heavy=True)
    for step in range(steps):
        n = D.number_of_vertices()
        op = rng.choice(['add', 'add', 'add', 'many', 'dup'])
        if op == 'add':
            u = rng.randint(-1, n + 2)
            v = rng.randint(-1, n + 2)
            if forward_only and u > v:
                u, v = v, u
            attempt(('add', u, v), D.add_edge, u, v)
        elif op == 'many':
            es = []
            for _ in range(rng.randint(0, 5)):
                u, v = rng.randint(0, n + 1), rng.randint(0, n + 1)
                if forward_only and u >= v:
                    u, v = v, u + 1
                es.append((u, v))
            attempt(('many', es), D.add_edges_from, es)
        else:
            es = list(D.edges())
            if es:
                u, v = rng.choice(es)
                attempt(('dup', u, v), D.add_edge, u, v)
        dump(D, heavy=(step % 5 == 4))
    dump(D, heavy=True)
    return D


def main():
    rng = random.Random(160016)
    for n0 in [0, 1, 2, 3, 5, 7]:
        for forward_only in [False, True]:
            for rep in range(2):
                rec('SEQ', n0, forward_only, rep)
                random_ops(rng, n0, 20, forward_only)

    # exhaustive tiny graphs: all subsets of ordered pairs on 3 vertices,
    # inserted in two different orders
    pairs = [(u, v) for u in range(1, 4) for v in range(1, 4)]
    for mask in range(0, 2 ** len(pairs), 7):
        chosen = [p for i, p in enumerate(pairs) if mask >> i & 1]
        for order in [chosen, chosen[::-1]]:
            D = DirectedGraph(3)
            D.add_edges_from(order)
            dump(D)

    # named constructions
    for h in range(0, 4):
        dump(dag_pyramid(h), heavy=True)
        dump(dag_complete_binary_tree(h), heavy=True)
    for ln in range(0, 5):
        dump(dag_path(ln), heavy=True)

    # networkx inputs with odd labels
    for labels in [['b', 'a', 'c'], ['10', '2', '1'], [3, 1, 2], [(1, 2), (0, 5), (0, 1)]]:
        X = networkx.DiGraph()
        X.add_nodes_from(labels)
        X.add_edge(labels[0], labels[1])
        X.add_edge(labels[2], labels[1])
        X.add_edge(labels[1], labels[1])
        H = attempt(('fromnx', repr(labels)), DirectedGraph.from_networkx, X)
        if H is not None:
            dump(H, heavy=True)
    attempt('fromnx-undirected', DirectedGraph.from_networkx, networkx.Graph())
    attempt('normalize-bad', DirectedGraph.normalize, 3)

    h = hashlib.sha256()
    for line in OUT:
        h.update(line.encode('utf-8'))
        h.update(b'\n')
    print(h.hexdigest())


if __name__ == '__main__':
    main()
